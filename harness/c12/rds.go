package main

// Stream `rds`: end to end.  A small mesh (services in two namespaces, VirtualServices bound to the mesh
// gateway with exact and wildcard hosts) is loaded into the REAL config generator test environment
// (core.NewConfigGenTest: real PushContext, SidecarScope, VirtualService selection and most-specific
// index) and the REAL core.BuildSidecarOutboundVirtualHosts builds the virtual hosts of one outbound
// listener port for a sidecar.  Requests addressed to service names are evaluated by the reference
// interpreter (virtual-host selection by authority, then first matching route).
//
//	msvc <hostname> <ns> <ports> <addr>      mesh service (HTTP ports)
//	vs / rule / match ...                    define the current VirtualService (as in the other streams)
//	mvs                                      add the current VirtualService to the mesh (creation order = op order)
//	rds <proxyNs> <labels> <listenerPort>    build the real virtual hosts
//	rreq <path> <query> <method> <authority> <scheme> <headers> [table]    -> decision
//
// The Lean side answers `rreq` with the end-to-end SPEC (lean/IstioModel/C12/MeshSpec.lean): name
// resolution by the Kubernetes DNS search path, most specific VirtualService host, vsSpec with the
// FULL service registry, default route otherwise.  `oracle` evaluates the same statement in Go.

import (
	"fmt"
	"os"
	"strconv"
	"strings"
	"sync"
	"time"

	route "github.com/envoyproxy/go-control-plane/envoy/config/route/v3"

	networking "istio.io/api/networking/v1alpha3"
	"istio.io/istio/pilot/pkg/model"
	"istio.io/istio/pilot/pkg/networking/core"
	"istio.io/istio/pkg/config"
	"istio.io/istio/pkg/config/host"
	"istio.io/istio/pkg/config/protocol"
	"istio.io/istio/pkg/config/validation"
	"istio.io/istio/pkg/util/sets"
	"verifharness/internal/wire"
)

type failer struct {
	mu       sync.Mutex
	cleanups []func()
}

func (f *failer) Fail()                          { panic("harness: Fail") }
func (f *failer) FailNow()                       { panic("harness: FailNow") }
func (f *failer) Fatal(args ...any)              { panic(fmt.Sprint(args...)) }
func (f *failer) Fatalf(format string, a ...any) { panic(fmt.Sprintf(format, a...)) }
func (f *failer) Log(args ...any)                {}
func (f *failer) Logf(format string, a ...any)   {}
func (f *failer) TempDir() string                { d, _ := os.MkdirTemp("", "c12"); return d }
func (f *failer) Helper()                        {}
func (f *failer) Skip(args ...any)               {}
func (f *failer) Cleanup(fn func()) {
	f.mu.Lock()
	defer f.mu.Unlock()
	f.cleanups = append(f.cleanups, fn)
}

func (f *failer) done() {
	f.mu.Lock()
	cs := f.cleanups
	f.cleanups = nil
	f.mu.Unlock()
	for i := len(cs) - 1; i >= 0; i-- {
		cs[i]()
	}
}

type meshSvc struct {
	host, ns, addr string
	ports          []int
}

type meshState struct {
	svcs        []meshSvc
	vss         []config.Config
	vhosts      []*route.VirtualHost
	proxyDomain string
}

func (m *meshSvc) real() *model.Service {
	s := &model.Service{Hostname: host.Name(m.host), DefaultAddress: m.addr,
		Attributes: model.ServiceAttributes{Name: strings.Split(m.host, ".")[0], Namespace: m.ns}}
	for _, p := range m.ports {
		s.Ports = append(s.Ports, &model.Port{Name: "http-" + strconv.Itoa(p), Port: p, Protocol: protocol.HTTP})
	}
	return s
}

func (s *state) rdsStep(f []string) (string, bool) {
	m := &s.mesh
	switch f[0] {
	case "msvc":
		ms := meshSvc{host: wire.Dec(f[1]), ns: wire.Dec(f[2]), addr: wire.Dec(f[4])}
		for _, p := range wire.DecList(f[3]) {
			ms.ports = append(ms.ports, atoi(p))
		}
		m.svcs = append(m.svcs, ms)
		// the SPEC resolves destinations against the full registry (all ports of every service)
		s.services[host.Name(ms.host)] = ms.real()
		return "ok", true
	case "mvs":
		// robust under shrinking: an undefined VirtualService or a repeated name is ignored (both sides)
		if len(s.vs.Http) == 0 {
			return "ok", true
		}
		for _, c := range m.vss {
			if c.Name == s.cfg.Name {
				return "ok", true
			}
		}
		c := s.cfg.DeepCopy()
		c.CreationTimestamp = time.Unix(int64(1000+len(m.vss)), 0)
		m.vss = append(m.vss, c)
		return "ok", true
	case "rds":
		ns, labels, port := wire.Dec(f[1]), pairsMap(decPairs(f[2])), atoi(f[3])
		fl := &failer{}
		defer fl.done()
		var svcs []*model.Service
		for i := range m.svcs {
			svcs = append(svcs, m.svcs[i].real())
		}
		cg := core.NewConfigGenTest(fl, core.TestOptions{Services: svcs, Configs: m.vss})
		proxy := cg.SetupProxy(&model.Proxy{ConfigNamespace: ns, Labels: labels,
			Metadata: &model.NodeMetadata{Namespace: ns, Labels: labels}})
		vhosts, _, _ := core.BuildSidecarOutboundVirtualHosts(proxy, cg.PushContext(), strconv.Itoa(port), port, nil, &model.DisabledCache{})
		m.vhosts = vhosts
		m.proxyDomain = proxy.DNSDomain
		// context of the spec
		s.node = &model.Proxy{Type: model.SidecarProxy, Labels: labels, Metadata: &model.NodeMetadata{Namespace: ns}}
		s.gwNames = sets.New("mesh")
		s.port = port
		return "ok", true
	case "rreq": // same layout as `req`; the authority selects the virtual host
		q := parseReq(f)
		vh := selectVHostRef(m.vhosts, q.authority)
		if vh == nil {
			return "404", true
		}
		return showDecision(evalRoutes(vh.Routes, q)), true
	}
	return "", false
}

// ---------------------------------------------------------------- end-to-end spec (Go rendering, oracle only)

// svcNames: the names by which a service can be addressed from the proxy's namespace - FQDN, absolute
// FQDN, cluster VIP and, for <name>.<ns>.svc.<suffix> seen from <pns>.svc.<suffix>, the Kubernetes DNS
// search path abbreviations <name>.<ns>, <name>.<ns>.svc and (same namespace only) <name>.
func svcNames(ms meshSvc, proxyDomain string) []string {
	out := []string{ms.host, ms.host + "."}
	if ms.addr != "" && ms.addr != "0.0.0.0" {
		out = append(out, ms.addr)
	}
	h, p := strings.Split(ms.host, "."), strings.Split(proxyDomain, ".")
	if len(h) >= 4 && len(p) >= 3 && h[2] == "svc" && p[1] == "svc" && strings.Join(h[3:], ".") == strings.Join(p[2:], ".") {
		out = append(out, h[0]+"."+h[1], h[0]+"."+h[1]+".svc")
		if h[1] == p[0] {
			out = append(out, h[0])
		}
	}
	return out
}

func hasPort(ms meshSvc, p int) bool {
	for _, x := range ms.ports {
		if x == p {
			return true
		}
	}
	return false
}

// vsFor: the VirtualService for a service hostname - an exact host first (oldest VirtualService), else
// the longest matching wildcard host.
func (s *state) vsFor(hostname string) *config.Config {
	for i := range s.mesh.vss {
		for _, h := range s.mesh.vss[i].Spec.(*networking.VirtualService).Hosts {
			if !strings.HasPrefix(h, "*") && strings.ToLower(h) == hostname {
				return &s.mesh.vss[i]
			}
		}
	}
	var best *config.Config
	bl := 0
	for i := range s.mesh.vss {
		for _, h := range s.mesh.vss[i].Spec.(*networking.VirtualService).Hosts {
			if strings.HasPrefix(h, "*") && strings.HasSuffix(hostname, strings.ToLower(h[1:])) && len(h) > bl {
				best, bl = &s.mesh.vss[i], len(h)
			}
		}
	}
	return best
}

func (s *state) vsApplies(vs *networking.VirtualService) bool {
	for _, h := range vs.Http {
		if len(h.Match) == 0 {
			return true
		}
		for _, m := range h.Match {
			if s.applicable(m) {
				return true
			}
		}
	}
	return false
}

// meshSpec: what should happen to a request addressed to `authority` on this listener port.
func (s *state) meshSpec(authority string, q request) string {
	a := asciiLower(authority)
	for _, ms := range s.mesh.svcs {
		if !hasPort(ms, s.port) {
			continue
		}
		for _, n := range svcNames(ms, s.mesh.proxyDomain) {
			if asciiLower(n) != a {
				continue
			}
			if c := s.vsFor(ms.host); c != nil {
				vs := c.Spec.(*networking.VirtualService)
				if s.vsApplies(vs) {
					saveVS, saveCfg := s.vs, s.cfg
					s.vs, s.cfg = vs, *c
					d, _ := s.vsSpec(q)
					s.vs, s.cfg = saveVS, saveCfg
					return d
				}
			}
			return showDist([]kvw{{"outbound|" + strconv.Itoa(s.port) + "||" + ms.host, 1}})
		}
	}
	return "404"
}

// classifyMesh names the input class of an end-to-end disagreement.
func (s *state) classifyMesh(want, got string) string {
	// F-C12-4: a destination without explicit port whose service does not expose the listener port
	for i := range s.mesh.vss {
		for _, h := range s.mesh.vss[i].Spec.(*networking.VirtualService).Http {
			for _, d := range h.Route {
				if d.Destination.GetPort() != nil {
					continue
				}
				for _, ms := range s.mesh.svcs {
					if ms.host == d.Destination.Host && len(ms.ports) == 1 && ms.ports[0] != s.port {
						return "destination-port-of-service-not-on-listener-port"
					}
				}
			}
		}
	}
	return "mesh-decision"
}

// ---------------------------------------------------------------- generator

var (
	meshHosts = []meshSvc{
		{host: "reviews.default.svc.cluster.local", ns: "default"},
		{host: "ratings.default.svc.cluster.local", ns: "default"},
		{host: "details.default.svc.cluster.local", ns: "default"},
		{host: "reviews.other.svc.cluster.local", ns: "other"},
		{host: "billing.other.svc.cluster.local", ns: "other"},
		{host: "api.example.com", ns: "default"},
		{host: "www.example.com", ns: "other"},
	}
	meshVSHosts = []string{"*.default.svc.cluster.local", "*.svc.cluster.local", "*.other.svc.cluster.local", "*.example.com", "*.com", "*.cluster.local"}
)

func genRds(seed uint64, n int, out string) {
	root := wire.NewRng(seed*1000003 + 99)
	o := wire.Create(out)
	defer o.Close()
	st := genStats{}
	for i := 0; i < n; i++ {
		r := root.Fork()
		s := newState()
		o.Line("case", strconv.Itoa(i), "rds")
		// listener port 80 is left out: there (and only there) VirtualService hosts outside the registry get
		// virtual hosts of their own ("gross HACK" in buildSidecarVirtualHostsForVirtualService), which the
		// end-to-end spec does not describe
		port := wire.Pick(r, []int{8080, 9080, 9080, 8000})
		picked := wire.Subset(r, meshHosts, 3, 5)
		if len(picked) == 0 {
			picked = append([]meshSvc(nil), meshHosts[:2]...)
		}
		onPort := map[string]bool{}
		for k, ms := range picked {
			switch r.Intn(6) {
			case 0, 1, 2:
				ms.ports = []int{port}
			case 3:
				ms.ports = []int{port, 7070}
			case 4:
				ms.ports = []int{wire.Pick(r, []int{7070, 7071})}
			default:
				ms.ports = []int{7070, 7071}
			}
			if k == 0 {
				ms.ports = []int{port}
			}
			if r.Chance(2, 3) {
				ms.addr = "10.0." + strconv.Itoa(k) + ".1"
			}
			onPort[ms.host] = hasPort(ms, port)
			picked[k] = ms
			f := []string{"msvc", wire.Enc(ms.host), wire.Enc(ms.ns), wire.EncList(intsToStrs(ms.ports)), wire.Enc(ms.addr)}
			s.rdsStep(f)
			o.Line(f...)
		}
		// VirtualServices: distinct exact hosts among the services, plus wildcard hosts
		nvs := r.Intn(4)
		usedHosts := map[string]bool{}
		var all []*networking.VirtualService
		for k := 0; k < nvs; k++ {
			var hosts []string
			for tries := 0; tries < 4 && len(hosts) == 0; tries++ {
				h := wire.Pick(r, meshVSHosts)
				if r.Chance(3, 5) {
					h = wire.Pick(r, picked).host
				}
				if !usedHosts[h] {
					usedHosts[h] = true
					hosts = append(hosts, h)
				}
			}
			if len(hosts) == 0 {
				continue
			}
			for {
				vsf := []string{"vs", "mvs" + strconv.Itoa(k), wire.Pick(r, nsPool), "plain", wire.EncList(hosts)}
				s.apply(vsf)
				nr := 1 + r.Intn(3)
				for j := 0; j < nr; j++ {
					h := genRule(r, "requests", j, false, false)
					for _, m := range h.Match {
						m.Gateways = nil // mesh gateway only
					}
					for _, d := range h.Route {
						// keep F-C12-4 out of the generated stream (it has its own corpus file): a destination
						// without port only towards services exposing the listener port or unknown hosts
						d.Destination.Host = wire.Pick(r, append([]meshSvc{{host: "unknown.example.org"}}, picked...)).host
						if d.Destination.Port == nil && !onPort[d.Destination.Host] && d.Destination.Host != "unknown.example.org" {
							d.Destination.Port = &networking.PortSelector{Number: 7070}
						}
					}
					s.vs.Http = append(s.vs.Http, h)
				}
				st.generated++
				if _, err := validation.ValidateVirtualService(s.cfg); err != nil {
					st.rejected++
					continue
				}
				o.Line(vsf...)
				for _, h := range s.vs.Http {
					emitRule(o, h)
				}
				o.Line("mvs")
				all = append(all, s.vs)
				break
			}
		}
		p := genProxy(r)
		o.Line("rds", wire.Enc(p.ns), encPairs(p.labels), strconv.Itoa(port))
		pd := p.ns + ".svc.cluster.local"
		merged := &networking.VirtualService{}
		for _, v := range all {
			merged.Http = append(merged.Http, v.Http...)
		}
		nreq := 6 + r.Intn(6)
		for k := 0; k < nreq; k++ {
			ms := wire.Pick(r, picked)
			names := svcNames(ms, pd)
			a := wire.Pick(r, names)
			switch r.Intn(12) {
			case 0:
				a = flipCase(r, a)
			case 1:
				a = strings.Split(ms.host, ".")[0] // bare name, valid only in the same namespace
			case 2:
				a = oneOff(r, a)
			case 3:
				a = wire.Pick(r, []string{"unknown.example.org", "x.default.svc.cluster.local", "reviews.default.svc", "example.com"})
			}
			var q request
			if len(merged.Http) > 0 {
				q = synthRequests(r, merged, 1)[0]
			} else {
				q = synthRequest(r, nil)
			}
			q.authority = a
			f := []string{"rreq", wire.Enc(q.path), encPairs(q.query), wire.Enc(q.method), wire.Enc(q.authority), wire.Enc(q.scheme), encPairs(q.headers),
				encPairs(regexTable(merged, q))}
			o.Line(f...)
		}
	}
	if f, err := os.Create(out + ".stats"); err == nil {
		fmt.Fprintf(f, "generated %d\nrejected %d\nmalformed %d\n", st.generated, st.rejected, st.malformed)
		f.Close()
	}
}

func intsToStrs(l []int) []string {
	out := make([]string, len(l))
	for i, x := range l {
		out[i] = strconv.Itoa(x)
	}
	return out
}

// ---------------------------------------------------------------- oracle

func oracleRds(in, out string) {
	lines := wire.ReadLines(in)
	o := wire.Create(out)
	defer o.Close()
	s := newState()
	verdict := ""
	started := false
	flush := func() {
		if started {
			if verdict == "" {
				verdict = "OK"
			}
			o.Line(verdict)
		}
		verdict = ""
	}
	for _, f := range lines {
		func() {
			defer func() {
				if r := recover(); r != nil && verdict == "" {
					verdict = "FAIL crash op=" + f[0]
				}
			}()
			switch {
			case f[0] == "case":
				flush()
				started = true
				s.reset()
			case s.apply(f):
			case f[0] == "rreq":
				got, _ := s.rdsStep(f)
				q := parseReq(f)
				want := s.meshSpec(q.authority, q)
				if got != want && verdict == "" {
					verdict = fmt.Sprintf("FAIL %s want=%s got=%s authority=%s path=%s", s.classifyMesh(want, got), want, got, f[4], f[1])
				}
			default:
				s.rdsStep(f)
			}
		}()
	}
	flush()
}
