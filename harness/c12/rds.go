package main

// Stream `rds`: end to end.  A small mesh (services in two namespaces, VirtualServices bound to the mesh
// gateway with exact and wildcard hosts) is loaded into the REAL config generator test environment
// (core.NewConfigGenTest: real PushContext, SidecarScope, VirtualService selection and most-specific
// index) and the REAL core.BuildSidecarOutboundVirtualHosts builds the virtual hosts of one outbound
// listener port for a sidecar.  Requests addressed to service names are evaluated by the reference
// interpreter (virtual-host selection by authority, then first matching route).
//
//	msvc <hostname> <ns> <ports> <addr>      mesh service (HTTP ports)
//	vs / rule / match ...                    define the current VirtualService (as in the other streams)
//	mvs                                      add the current VirtualService to the mesh (creation order = op order)
//	rds <proxyNs> <labels> <listenerPort>    build the real virtual hosts
//	rreq <path> <query> <method> <authority> <scheme> <headers> [table]    -> decision
//
// The Lean side answers `rreq` with the end-to-end SPEC (lean/IstioModel/C12/MeshSpec.lean): name
// resolution by the Kubernetes DNS search path, most specific VirtualService host, vsSpec with the
// FULL service registry, default route otherwise.  `oracle` evaluates the same statement in Go.

import (
	"fmt"
	"os"
	"strconv"
	"strings"
	"sync"
	"time"

	route "github.com/envoyproxy/go-control-plane/envoy/config/route/v3"

	meshconfig "istio.io/api/mesh/v1alpha1"
	networking "istio.io/api/networking/v1alpha3"
	"istio.io/istio/pilot/pkg/model"
	"istio.io/istio/pilot/pkg/networking/core"
	"istio.io/istio/pilot/pkg/serviceregistry/provider"
	"istio.io/istio/pkg/cluster"
	"istio.io/istio/pkg/config"
	"istio.io/istio/pkg/config/host"
	"istio.io/istio/pkg/config/mesh"
	"istio.io/istio/pkg/config/protocol"
	"istio.io/istio/pkg/config/schema/gvk"
	"istio.io/istio/pkg/config/validation"
	"istio.io/istio/pkg/util/sets"
	"verifharness/internal/wire"
)

type failer struct {
	mu       sync.Mutex
	cleanups []func()
}

func (f *failer) Fail()                          { panic("harness: Fail") }
func (f *failer) FailNow()                       { panic("harness: FailNow") }
func (f *failer) Fatal(args ...any)              { panic(fmt.Sprint(args...)) }
func (f *failer) Fatalf(format string, a ...any) { panic(fmt.Sprintf(format, a...)) }
func (f *failer) Log(args ...any)                {}
func (f *failer) Logf(format string, a ...any)   {}
func (f *failer) TempDir() string                { d, _ := os.MkdirTemp("", "c12"); return d }
func (f *failer) Helper()                        {}
func (f *failer) Skip(args ...any)               {}
func (f *failer) Cleanup(fn func()) {
	f.mu.Lock()
	defer f.mu.Unlock()
	f.cleanups = append(f.cleanups, fn)
}

func (f *failer) done() {
	f.mu.Lock()
	cs := f.cleanups
	f.cleanups = nil
	f.mu.Unlock()
	for i := len(cs) - 1; i >= 0; i-- {
		cs[i]()
	}
}

type meshSvc struct {
	host, ns, addr string
	ext            string   // Kubernetes ExternalName: the service is an alias (Resolution: Alias) of this host
	aliases        []string // Attributes.Aliases: alias services pointing to this one
	ports          []int    // every port ...
	tcp            []int    // ... those of them that are TCP ports (the others are HTTP)
	vips           []clusterVIP
	headless       bool     // a Kubernetes headless service: its pods are addressed as <pod>.<name of the service>
	addrsFor       []string // spec: the addresses of the service for the proxy at hand (set by addressesFor)
}

// addressesFor: the VIPs by which an IPv4-only proxy of cluster `cl` reaches the service - the IPv4 VIPs of its own
// cluster if the service has any there; else the service's default address (for a service with per-cluster VIPs that
// is another cluster's VIP: used only if it is IPv4).
func (ms meshSvc) addressesFor(cl string) []string {
	var own []string
	for _, v := range ms.vips {
		if v.cluster == cl && cl != "" {
			for _, a := range v.addrs {
				if !strings.Contains(a, ":") {
					own = append(own, a)
				}
			}
		}
	}
	if len(own) > 0 {
		return own
	}
	if ms.addr == "" || (len(ms.vips) > 0 && strings.Contains(ms.addr, ":")) {
		return nil
	}
	return []string{ms.addr}
}

// clusterVIP: ClusterVIPs entry - the VIPs of the service in one cluster (multi-cluster / dual-stack)
type clusterVIP struct {
	cluster string
	addrs   []string
}

type vsExtra struct {
	exportTo, gateways []string
}

type meshState struct {
	svcs        []meshSvc
	sidecarNs   string             // namespace of the (single) Sidecar resource, "" = none
	egress      []string           // hosts of its catch-all egress listener, `ns/dnsName`
	policy      string             // its outboundTrafficPolicy: "allow" (unset), "allowany", "registry", "egress=<cluster>"
	selector    map[string]string  // its workloadSelector
	meshPolicy  string             // MeshConfig.outboundTrafficPolicy: "" / "allow", "registry", "dynamic"
	cluster     string             // cluster id of the proxy of the last `rds`
	extras      map[string]vsExtra // VirtualService ns/name -> exportTo, gateways
	drs         [][2]string        // DestinationRule objects (host, namespace)
	egressPort  int                // a port-specific egress listener (0 = none) ...
	egressPortH []string           // ... and its hosts
	vss         []config.Config    // as the spec reads them (short names resolved)
	rawVss      []config.Config    // as written: the input of the real code
	rc          *route.RouteConfiguration
	proxyDomain string
	// real generator environment of the case (built at the first `rds`, dropped when the mesh changes)
	cg     *core.ConfigGenTest
	gen    *core.ConfigGeneratorImpl
	req    *model.PushRequest
	fl     *failer
	nproxy int
}

func (m *meshState) drop() {
	if m.fl != nil {
		m.fl.done()
	}
	m.cg, m.gen, m.req, m.fl = nil, nil, nil, nil
}

func (m *meshSvc) real() *model.Service {
	s := &model.Service{Hostname: host.Name(m.host), DefaultAddress: m.addr,
		Attributes: model.ServiceAttributes{Name: strings.Split(m.host, ".")[0], Namespace: m.ns}}
	for _, p := range m.ports {
		if intIn(m.tcp, p) {
			s.Ports = append(s.Ports, &model.Port{Name: "tcp-" + strconv.Itoa(p), Port: p, Protocol: protocol.TCP})
		} else {
			s.Ports = append(s.Ports, &model.Port{Name: "http-" + strconv.Itoa(p), Port: p, Protocol: protocol.HTTP})
		}
	}
	for _, v := range m.vips {
		s.ClusterVIPs.SetAddressesFor(cluster.ID(v.cluster), v.addrs)
	}
	s.Attributes.K8sAttributes.ExternalName = m.ext
	if m.ext != "" {
		s.Resolution = model.Alias // as the Kubernetes registry marks ExternalName services
	}
	if m.headless { // a Kubernetes headless service
		s.Resolution = model.Passthrough
		s.Attributes.ServiceRegistry = provider.Kubernetes
	}
	for _, a := range m.aliases {
		s.Attributes.Aliases = append(s.Attributes.Aliases, model.NamespacedHostname{Hostname: host.Name(a), Namespace: m.ns})
	}
	return s
}

func intIn(l []int, x int) bool {
	for _, y := range l {
		if x == y {
			return true
		}
	}
	return false
}

func (s *state) rdsStep(f []string) (string, bool) {
	m := &s.mesh
	switch f[0] {
	case "msvc":
		ms := meshSvc{host: wire.Dec(f[1]), ns: wire.Dec(f[2]), addr: wire.Dec(f[4])}
		if len(f) > 5 {
			ms.ext = wire.Dec(f[5])
			if ms.ext == "headless" { // the ExternalName slot carries the marker of a headless service
				ms.ext, ms.headless = "", true
			}
		}
		if len(f) > 6 {
			ms.aliases = wire.DecList(f[6])
		}
		for _, p := range wire.DecList(f[3]) {
			if strings.HasPrefix(p, "t") {
				ms.tcp = append(ms.tcp, atoi(p[1:]))
				p = p[1:]
			}
			ms.ports = append(ms.ports, atoi(p))
		}
		if len(f) > 7 { // cluster VIPs: c1=a+b;c2=c
			for _, e := range strings.Split(wire.Dec(f[7]), ";") {
				if c, as, ok := strings.Cut(e, "="); ok {
					ms.vips = append(ms.vips, clusterVIP{c, strings.Split(as, "+")})
				}
			}
		}
		m.svcs = append(m.svcs, ms)
		m.drop()
		// the SPEC resolves destinations against the full registry (all ports of every service)
		s.services[host.Name(ms.host)] = ms.real()
		return "ok", true
	case "sidecar": // sidecar <ns> <catch-all egress hosts> [<policy> [<port> <hosts of the port-specific listener>]]
		m.sidecarNs, m.egress = wire.Dec(f[1]), wire.DecList(f[2])
		m.policy, m.egressPort, m.egressPortH, m.selector = "allow", 0, nil, nil
		if len(f) > 3 {
			m.policy = f[3]
		}
		if len(f) > 5 {
			m.egressPort, m.egressPortH = atoi(f[4]), wire.DecList(f[5])
		}
		if len(f) > 6 {
			m.selector = pairsMap(decPairs(f[6]))
		}
		m.drop()
		return "ok", true
	case "meshpolicy": // MeshConfig.outboundTrafficPolicy: allow | registry | dynamic
		m.meshPolicy = f[1]
		m.drop()
		return "ok", true
	case "mdr": // mdr <host> <ns>: a DestinationRule object (subsets v1, v2; consistent hash) - must not change any decision
		m.drs = append(m.drs, [2]string{wire.Dec(f[1]), wire.Dec(f[2])})
		m.drop()
		return "ok", true
	case "mvs":
		// robust under shrinking: an undefined VirtualService or a repeated name is ignored (both sides)
		if len(s.vs.Http) == 0 {
			return "ok", true
		}
		for _, c := range m.vss {
			if c.Name == s.cfg.Name && c.Namespace == s.cfg.Namespace {
				return "ok", true // VirtualServices are identified by name AND namespace
			}
		}
		c := s.cfg.DeepCopy()
		c.CreationTimestamp = time.Unix(int64(1000+len(m.vss)), 0)
		c.Domain = "cluster.local"
		var ex vsExtra
		if len(f) > 1 {
			ex.exportTo = wire.DecList(f[1])
		}
		if len(f) > 2 {
			ex.gateways = wire.DecList(f[2])
		}
		c.Spec.(*networking.VirtualService).ExportTo = ex.exportTo
		c.Spec.(*networking.VirtualService).Gateways = ex.gateways
		if m.extras == nil {
			m.extras = map[string]vsExtra{}
		}
		m.extras[c.Namespace+"/"+c.Name] = ex
		m.rawVss = append(m.rawVss, c) // what the real code is given
		// what the spec reads: short names mean <name>.<namespace of the VirtualService>.svc.<cluster domain>
		sc := c.DeepCopy()
		vs := sc.Spec.(*networking.VirtualService)
		for i, h := range vs.Hosts {
			vs.Hosts[i] = specShortname(h, sc.Namespace)
		}
		for _, r := range vs.Http {
			for _, d := range r.Route {
				if d.Destination != nil {
					d.Destination.Host = specShortname(d.Destination.Host, sc.Namespace)
				}
			}
		}
		m.vss = append(m.vss, sc)
		m.drop()
		return "ok", true
	case "rds":
		// The route configuration is produced the way the discovery server produces it: ONE generator wired to a
		// REAL model.XdsCache (core.NewConfigGenerator(cache)) serves every proxy of the case, in op order, from
		// one push context - so whatever the RDS cache shares between proxies is part of what is observed.
		ns, labels, port := wire.Dec(f[1]), pairsMap(decPairs(f[2])), atoi(f[3])
		m.cluster = ""
		if len(f) > 4 {
			m.cluster = wire.Dec(f[4])
		}
		if m.cg == nil {
			m.fl = &failer{}
			var svcs []*model.Service
			for i := range m.svcs {
				svcs = append(svcs, m.svcs[i].real())
			}
			cfgs := append([]config.Config(nil), m.rawVss...)
			if m.sidecarNs != "" {
				sc := &networking.Sidecar{}
				if m.egressPort != 0 {
					sc.Egress = append(sc.Egress, &networking.IstioEgressListener{
						Port:  &networking.SidecarPort{Number: uint32(m.egressPort), Protocol: "HTTP", Name: "http-p"},
						Hosts: m.egressPortH,
					})
				}
				sc.Egress = append(sc.Egress, &networking.IstioEgressListener{Hosts: m.egress})
				switch {
				case m.policy == "registry":
					sc.OutboundTrafficPolicy = &networking.OutboundTrafficPolicy{Mode: networking.OutboundTrafficPolicy_REGISTRY_ONLY}
				case m.policy == "allowany":
					sc.OutboundTrafficPolicy = &networking.OutboundTrafficPolicy{Mode: networking.OutboundTrafficPolicy_ALLOW_ANY}
				case strings.HasPrefix(m.policy, "egress="):
					h, p, _ := strings.Cut(wire.Dec(m.policy[7:]), "|")
					sc.OutboundTrafficPolicy = &networking.OutboundTrafficPolicy{Mode: networking.OutboundTrafficPolicy_ALLOW_ANY,
						EgressProxy: &networking.Destination{Host: h, Port: &networking.PortSelector{Number: uint32(atoi(p))}}}
				}
				if len(m.selector) > 0 {
					sc.WorkloadSelector = &networking.WorkloadSelector{Labels: m.selector}
				}
				cfgs = append(cfgs, config.Config{
					Meta: config.Meta{GroupVersionKind: gvk.Sidecar, Name: "sc", Namespace: m.sidecarNs, CreationTimestamp: time.Unix(800, 0)},
					Spec: sc,
				})
			}
			for i, dr := range m.drs {
				cfgs = append(cfgs, config.Config{
					Meta: config.Meta{GroupVersionKind: gvk.DestinationRule, Name: "dr" + strconv.Itoa(i), Namespace: dr[1], CreationTimestamp: time.Unix(int64(700+i), 0)},
					Spec: &networking.DestinationRule{Host: dr[0],
						Subsets: []*networking.Subset{{Name: "v1", Labels: map[string]string{"version": "v1"}}, {Name: "v2", Labels: map[string]string{"version": "v2"}}},
						TrafficPolicy: &networking.TrafficPolicy{LoadBalancer: &networking.LoadBalancerSettings{LbPolicy: &networking.LoadBalancerSettings_ConsistentHash{
							ConsistentHash: &networking.LoadBalancerSettings_ConsistentHashLB{HashKey: &networking.LoadBalancerSettings_ConsistentHashLB_HttpHeaderName{HttpHeaderName: "x-user"}}}}}},
				})
			}
			opts := core.TestOptions{Services: svcs, Configs: cfgs}
			if m.meshPolicy != "" && m.meshPolicy != "allow" {
				mc := mesh.DefaultMeshConfig()
				mode := meshconfig.MeshConfig_OutboundTrafficPolicy_REGISTRY_ONLY
				if m.meshPolicy == "dynamic" {
					mode = meshconfig.MeshConfig_OutboundTrafficPolicy_ALLOW_ANY_DYNAMIC_DNS
				}
				mc.OutboundTrafficPolicy = &meshconfig.MeshConfig_OutboundTrafficPolicy{Mode: mode}
				opts.MeshConfig = mc
			}
			m.cg = core.NewConfigGenTest(m.fl, opts)
			m.gen = core.NewConfigGenerator(model.NewXdsCache())
			m.req = &model.PushRequest{Push: m.cg.PushContext(), Start: time.Now()}
		}
		m.nproxy++
		proxy := m.cg.SetupProxy(&model.Proxy{ConfigNamespace: ns, Labels: labels, ID: "p" + strconv.Itoa(m.nproxy) + "." + ns,
			Metadata: &model.NodeMetadata{Namespace: ns, Labels: labels, ClusterID: cluster.ID(m.cluster)}})
		resources, _ := m.gen.BuildHTTPRoutes(proxy, m.req, []string{strconv.Itoa(port)})
		m.rc = nil
		if len(resources) == 1 {
			rc := &route.RouteConfiguration{}
			if err := resources[0].Resource.UnmarshalTo(rc); err == nil {
				m.rc = rc
			}
		}
		m.proxyDomain = proxy.DNSDomain
		// context of the spec
		s.node = &model.Proxy{Type: model.SidecarProxy, Labels: labels, Metadata: &model.NodeMetadata{Namespace: ns}}
		s.gwNames = sets.New("mesh")
		s.port = port
		return showVHostTable(m.rc), true
	case "rreq": // same layout as `req`; the authority selects the virtual host
		if m.cg == nil {
			return "no-rds", true // (shrunk cases) no route configuration was built for the current mesh
		}
		q := parseReq(f)
		vh := selectVHostConf(m.rc, q.authority)
		if vh == nil {
			return "404", true
		}
		return showDecision(evalRoutes(vh.Routes, q)), true
	}
	return "", false
}

// ---------------------------------------------------------------- end-to-end spec (Go rendering, oracle only)

// --- Sidecar scope (spec): what the Sidecar resource lets a proxy of its namespace see

func specShortname(h, ns string) string {
	if h == "*" || h == "" || strings.ContainsAny(h, ".:") {
		return h
	}
	return h + "." + ns + ".svc.cluster.local"
}

func egressSelectsNs(e, own, ns string) (string, bool) {
	ens, h, found := strings.Cut(e, "/")
	if !found {
		return e, true
	}
	if ens == "." {
		ens = own
	}
	return h, ens == "*" || ens == ns
}

// scoped: does the (single) Sidecar resource apply to the proxy?  In its own namespace iff its workloadSelector is a
// subset of the workload labels; in any other namespace iff it is the root-namespace default (no selector).
func (s *state) scoped() bool {
	if s.mesh.sidecarNs == "" || s.node == nil {
		return false
	}
	if s.node.Metadata.Namespace == s.mesh.sidecarNs {
		for k, v := range s.mesh.selector {
			if s.node.Labels[k] != v {
				return false
			}
		}
		return true
	}
	return s.mesh.sidecarNs == "istio-system" && len(s.mesh.selector) == 0
}

// egressHosts: the egress listener declared for the listener port if there is one, else the catch-all listener.
func (s *state) egressHosts() []string {
	if s.mesh.egressPort != 0 && s.mesh.egressPort == s.port {
		return s.mesh.egressPortH
	}
	return s.mesh.egress
}

// excluded: a `~namespace/dnsName` entry naming the namespace (or any: `~*/`, `~/`) covers the hostname
func (s *state) excluded(ns, name string) bool {
	for _, e := range s.egressHosts() {
		if !strings.HasPrefix(e, "~") {
			continue
		}
		e = e[1:]
		if strings.HasPrefix(e, "/") {
			e = "*" + e
		}
		if h, ok := egressSelectsNs(e, s.node.Metadata.Namespace, ns); ok && (h == name || subsetOf(name, h)) {
			return true
		}
	}
	return false
}

func (s *state) svcVisible(ms meshSvc) bool {
	if !s.scoped() {
		return true
	}
	if s.excluded(ms.ns, ms.host) {
		return false
	}
	for _, e := range s.egressHosts() {
		if strings.HasPrefix(e, "~") {
			continue
		}
		if h, ok := egressSelectsNs(e, s.node.Metadata.Namespace, ms.ns); ok {
			if h == ms.host || (strings.HasPrefix(h, "*") && subsetOf(ms.host, h)) {
				return true
			}
		}
	}
	return false
}

// exportClass: CODE-DERIVED precedence among the VirtualServices a sidecar sees - 0 exported to its own namespace only
// (which is the proxy's), 1 exported to the proxy's namespace by name, 2 public.
func (s *state) exportClass(c *config.Config) int {
	ex := s.mesh.extras[c.Namespace+"/"+c.Name]
	if len(ex.exportTo) == 0 {
		return 2
	}
	pns := s.node.Metadata.Namespace
	own := false
	for _, e := range ex.exportTo {
		if e == "*" {
			return 2
		}
		if (e == "." || e == c.Namespace) && c.Namespace == pns {
			own = true
		}
	}
	if own {
		return 0
	}
	return 1
}

// visibleVss: the VirtualServices the proxy sees, by export class, creation order inside each class
func (s *state) visibleVss() []*config.Config {
	var out []*config.Config
	for cl := 0; cl < 3; cl++ {
		for i := range s.mesh.vss {
			if c := &s.mesh.vss[i]; s.vsVisible(c) && s.exportClass(c) == cl {
				out = append(out, c)
			}
		}
	}
	return out
}

func (s *state) vsVisible(c *config.Config) bool {
	// exported to the proxy's namespace and bound to the mesh gateway at all?
	if ex, ok := s.mesh.extras[c.Namespace+"/"+c.Name]; ok {
		pns := s.node.Metadata.Namespace
		exported := len(ex.exportTo) == 0
		for _, e := range ex.exportTo {
			if e == "*" || e == pns || (e == "." && c.Namespace == pns) {
				exported = true
			}
		}
		meshBound := len(ex.gateways) == 0
		for _, g := range ex.gateways {
			if g == "mesh" {
				meshBound = true
			}
		}
		if !exported || !meshBound {
			return false
		}
	}
	if !s.scoped() {
		return true
	}
	for _, e := range s.egressHosts() {
		if strings.HasPrefix(e, "~") {
			continue
		}
		if h, ok := egressSelectsNs(e, s.node.Metadata.Namespace, c.Namespace); ok {
			for _, vh := range c.Spec.(*networking.VirtualService).Hosts {
				if s.excluded(c.Namespace, vh) {
					continue // an excluded host does not import the VirtualService; another host still may
				}
				if h == vh || ((strings.HasPrefix(h, "*") || strings.HasPrefix(vh, "*")) && (subsetOf(vh, h) || subsetOf(h, vh))) {
					return true
				}
			}
		}
	}
	return false
}

// svcNames: the names by which a service can be addressed from the proxy's namespace - FQDN, absolute
// FQDN, cluster VIP and, for <name>.<ns>.svc.<suffix> seen from <pns>.svc.<suffix>, the Kubernetes DNS
// search path abbreviations <name>.<ns>, <name>.<ns>.svc and (same namespace only) <name>.
// visibleAliases: an alias hostname stands for the service on this proxy only if the ExternalName service itself is
// in the proxy's scope.
func (s *state) visibleAliases(ms meshSvc) []string {
	if s.aliasVariant {
		return s.aliasesByConcreteEntry(ms)
	}
	var out []string
	for _, a := range ms.aliases {
		for _, x := range s.mesh.svcs {
			if x.host == a && s.svcVisible(x) {
				out = append(out, a)
				break
			}
		}
	}
	return out
}

// aliasesByConcreteEntry (classification only, F-C12-9): an alias counts as imported iff the egress entries that
// imported the CONCRETE service - those naming its namespace if one of them matches it, else the `*/` ones - also
// match the alias hostname; whether the Sidecar imports the ExternalName service itself plays no role.
func (s *state) aliasesByConcreteEntry(ms meshSvc) []string {
	if !s.scoped() {
		return ms.aliases
	}
	var nsE, wE []string
	for _, e := range s.egressHosts() {
		if strings.HasPrefix(e, "~") {
			continue
		}
		ens, h, found := strings.Cut(e, "/")
		if !found {
			ens, h = "*", e
		}
		if ens == "." {
			ens = s.node.Metadata.Namespace
		}
		switch {
		case ens == "*":
			wE = append(wE, h)
		case ens == ms.ns:
			nsE = append(nsE, h)
		}
	}
	hit := func(l []string, name string) bool {
		for _, h := range l {
			if h == name || (strings.HasPrefix(h, "*") && subsetOf(name, h)) {
				return true
			}
		}
		return false
	}
	use := wE
	if hit(nsE, ms.host) {
		use = nsE
	}
	var out []string
	for _, a := range ms.aliases {
		if hit(use, a) {
			out = append(out, a)
		}
	}
	return out
}

func svcNames(ms meshSvc, proxyDomain string) []string {
	var out []string
	for _, hn := range append([]string{ms.host}, ms.aliases...) {
		out = append(out, hn, hn+".")
		h, p := strings.Split(hn, "."), strings.Split(proxyDomain, ".")
		if len(h) >= 4 && len(p) >= 3 && h[2] == "svc" && p[1] == "svc" && strings.Join(h[3:], ".") == strings.Join(p[2:], ".") {
			out = append(out, h[0]+"."+h[1], h[0]+"."+h[1]+".svc")
			if h[1] == p[0] {
				out = append(out, h[0])
			}
		}
	}
	for _, a := range ms.addrsFor {
		if a != "" && a != "0.0.0.0" {
			if strings.Contains(a, ":") {
				out = append(out, "["+a+"]") // an IPv6 literal in a Host header is bracketed
			} else {
				out = append(out, a)
			}
		}
	}
	return out
}

func hasPort(ms meshSvc, p int) bool {
	for _, x := range ms.ports {
		if x == p {
			return true
		}
	}
	return false
}

// vsChoice: the VirtualService that answers for a service hostname on this proxy - among the VirtualServices
// listing the MOST SPECIFIC host for it (the hostname itself if any lists it, else the longest matching wildcard),
// the oldest one that has a rule for this proxy.  indexVariant (classification only, F-C12-6): for a wildcard
// host only the oldest listing VirtualService is considered, whether or not it has a rule for this proxy.
func (s *state) vsChoice(hostname string) *config.Config {
	vss := s.visibleVss() // the VirtualServices this proxy sees
	hostsOf := func(c *config.Config) []string { return c.Spec.(*networking.VirtualService).Hosts }
	var listing []*config.Config
	for _, c := range vss {
		for _, h := range hostsOf(c) {
			if !strings.HasPrefix(h, "*") && strings.ToLower(h) == hostname {
				listing = append(listing, c)
				break
			}
		}
	}
	wildcard := false
	if len(listing) == 0 {
		wildcard = true
		best := ""
		for _, c := range vss {
			for _, h := range hostsOf(c) {
				if strings.HasPrefix(h, "*") && strings.HasSuffix(hostname, strings.ToLower(h[1:])) && len(h) > len(best) {
					best = h
				}
			}
		}
		if best == "" {
			return nil
		}
		for _, c := range vss {
			for _, h := range hostsOf(c) {
				if h == best {
					listing = append(listing, c)
					break
				}
			}
		}
	}
	for k, c := range listing {
		if s.vsApplies(c.Spec.(*networking.VirtualService)) {
			return c
		}
		if wildcard && s.indexVariant && k == 0 {
			return nil
		}
	}
	return nil
}

func (s *state) vsApplies(vs *networking.VirtualService) bool {
	for _, h := range vs.Http {
		if len(h.Match) == 0 {
			return true
		}
		for _, m := range h.Match {
			if s.applicable(m) {
				return true
			}
		}
	}
	return false
}

func (s *state) decideFor(ms meshSvc, q request) string {
	hn := strings.ToLower(ms.host) // hostnames are case-insensitive
	if c := s.vsChoice(hn); c != nil {
		return s.vsDecision(c, q)
	}
	return showDist([]kvw{{"outbound|" + strconv.Itoa(s.port) + "||" + hn, 1}})
}

func (s *state) vsDecision(c *config.Config, q request) string {
	saveVS, saveCfg := s.vs, s.cfg
	s.vs, s.cfg = c.Spec.(*networking.VirtualService), *c
	d, _ := s.vsSpec(q)
	s.vs, s.cfg = saveVS, saveCfg
	return d
}

func (s *state) policyDecision() string {
	// the Sidecar's policy if it applies to the proxy and sets one, else the mesh-wide one
	p := s.mesh.meshPolicy
	if s.scoped() && s.mesh.policy != "" && s.mesh.policy != "allow" {
		p = s.mesh.policy
	}
	switch {
	case p == "registry":
		return "dr:502!-"
	case p == "dynamic":
		return showDist([]kvw{{"AllowAnyDynamicDNSCluster", 1}})
	case strings.HasPrefix(p, "egress="):
		h, port, _ := strings.Cut(wire.Dec(p[7:]), "|")
		return showDist([]kvw{{"outbound|" + port + "||" + h, 1}})
	}
	return showDist([]kvw{{"PassthroughCluster", 1}})
}

func (s *state) onPortVisible() []meshSvc {
	var out []meshSvc
	for _, ms := range s.mesh.svcs {
		if hasPort(ms, s.port) && s.svcVisible(ms) {
			out = append(out, ms)
		}
	}
	return out
}

// indexedVS: the VirtualService the most-specific index names for a (lower-case) service hostname: exact
// VirtualService host first, else the longest matching wildcard host, oldest VirtualService listing it.  Hostnames
// compare case-insensitively.
func (s *state) indexedVS(key string) *config.Config {
	vss := s.visibleVss()
	for _, c := range vss {
		for _, h := range c.Spec.(*networking.VirtualService).Hosts {
			if !strings.HasPrefix(h, "*") && strings.ToLower(h) == key {
				return c
			}
		}
	}
	best := ""
	for _, c := range vss {
		for _, h := range c.Spec.(*networking.VirtualService).Hosts {
			if strings.HasPrefix(h, "*") && strings.HasSuffix(key, strings.ToLower(h[1:])) && len(h) > len(best) {
				best = strings.ToLower(h)
			}
		}
	}
	if best == "" {
		return nil
	}
	for _, c := range vss {
		for _, h := range c.Spec.(*networking.VirtualService).Hosts {
			if strings.ToLower(h) == best {
				return c
			}
		}
	}
	return nil
}

type strayHost struct {
	name string
	c    *config.Config
}

// strayHosts: VirtualService hosts outside the registry of the port that are honoured.  CODE-DERIVED condition: the
// VirtualService has a rule for this proxy, and the listener port is 80 or it also serves a service of this port.
func (s *state) strayHosts() []strayHost {
	on := s.onPortVisible()
	// isSvc: 0 = not a service of the port, 1 = a service whose port of this number is not HTTP, 2 = an HTTP service
	isSvc := func(h string) int {
		for _, ms := range on {
			if strings.ToLower(ms.host) == h {
				if intIn(ms.tcp, s.port) {
					return 1
				}
				return 2
			}
		}
		return 0
	}
	var out []strayHost
	for _, c := range s.visibleVss() {
		vs := c.Spec.(*networking.VirtualService)
		if !s.vsApplies(vs) {
			continue
		}
		serves := false
		var stray []string
		for _, h := range vs.Hosts {
			lh := strings.ToLower(h)
			if !strings.HasPrefix(lh, "*") {
				switch isSvc(lh) {
				case 2:
					serves = true
				case 0:
					stray = append(stray, lh)
				}
				continue
			}
			matched := false
			for _, ms := range on {
				if strings.HasSuffix(strings.ToLower(ms.host), lh[1:]) {
					matched = true
					if x := s.indexedVS(strings.ToLower(ms.host)); x != nil && x.Name == c.Name && x.Namespace == c.Namespace && !intIn(ms.tcp, s.port) {
						serves = true
					}
				}
			}
			if !matched {
				stray = append(stray, lh)
			}
		}
		if s.port != 80 {
			// only VirtualServices matching a service of the port are considered at all, and then need a service
			considered := false
			for _, h := range vs.Hosts {
				lh := strings.ToLower(h)
				for _, ms := range on {
					mh := strings.ToLower(ms.host)
					if lh == mh || (strings.HasPrefix(lh, "*") && strings.HasSuffix(mh, lh[1:])) {
						considered = true
					}
				}
			}
			if !considered || !serves {
				continue
			}
		}
		for _, h := range stray {
			out = append(out, strayHost{h, c})
		}
	}
	return out
}

func (s *state) claimedAsAlias(h string) bool {
	for _, ms := range s.onPortVisible() {
		if intIn(ms.tcp, s.port) {
			continue
		}
		for _, a := range s.visibleAliases(ms) {
			if a == h {
				return true
			}
		}
	}
	return false
}

// meshSpec: what should happen to a request addressed to `authority` on this listener port; ok=false when the
// spec is silent (CONTESTED name).  Resolution: the FQDN of a service; else the unique claimant among service names
// and exact VirtualService hosts outside the registry; else the longest matching wildcard VirtualService host outside
// the registry; else the outbound traffic policy.
func (s *state) meshSpec(authority string, q request) (string, bool) {
	a := asciiLower(stripPort(authority)) // the outbound listener already fixes the port
	var claim []meshSvc
	for _, ms := range s.onPortVisible() {
		if intIn(ms.tcp, s.port) {
			continue // the service's port of this number is not HTTP: it is not addressed through this route configuration
		}
		if ms.ext != "" && s.vsChoice(strings.ToLower(ms.host)) == nil {
			continue // an Alias service has no virtual host of its own unless a VirtualService serves it
		}
		if asciiLower(ms.host) == a || asciiLower(ms.host)+"." == a {
			if ms.ext != "" && s.claimedAsAlias(ms.host) {
				return "", false // CONTESTED: an Alias service served by a VirtualService, and the service it stands for
			}
			return s.decideFor(ms, q), true // the FQDN of a service addresses that service
		}
		lms := ms
		lms.host = strings.ToLower(ms.host)
		lms.aliases = s.visibleAliases(ms)
		lms.addrsFor = ms.addressesFor(s.mesh.cluster)
		for _, n := range svcNames(lms, s.mesh.proxyDomain) {
			if asciiLower(n) == a {
				claim = append(claim, ms)
				break
			}
		}
	}
	strays := s.strayHosts()
	var exact []strayHost
	for _, e := range strays {
		if !strings.HasPrefix(e.name, "*") && e.name == a {
			exact = append(exact, e)
		}
	}
	// a headless service is also addressed by the names of its pods: <pod>.<any name of the service>
	var pods []meshSvc
	if len(claim) == 0 && len(exact) == 0 {
		for _, ms := range s.onPortVisible() {
			if !ms.headless || intIn(ms.tcp, s.port) {
				continue
			}
			lms := ms
			lms.host, lms.aliases, lms.addrsFor = strings.ToLower(ms.host), s.visibleAliases(ms), nil
			for _, n := range svcNames(lms, s.mesh.proxyDomain) {
				if strings.HasSuffix(a, "."+asciiLower(n)) {
					pods = append(pods, ms)
					break
				}
			}
		}
		wild := 0
		for _, e := range strays {
			if len(e.name) > 1 && strings.HasPrefix(e.name, "*") && len(a) > len(e.name)-1 && strings.HasSuffix(a, e.name[1:]) {
				wild++
			}
		}
		switch {
		case len(pods) == 1 && wild == 0:
			return s.decideFor(pods[0], q), true
		case len(pods) > 0:
			return "", false // CONTESTED between pod names / wildcard VirtualService hosts
		}
	}
	switch {
	case len(claim) == 0 && len(exact) == 0:
		best := ""
		var bc *config.Config
		for _, e := range strays {
			if len(e.name) > 1 && strings.HasPrefix(e.name, "*") && len(a) > len(e.name)-1 && strings.HasSuffix(a, e.name[1:]) && len(e.name) > len(best) {
				best, bc = e.name, e.c
			}
		}
		if bc != nil {
			return s.vsDecision(bc, q), true
		}
		return s.policyDecision(), true
	case len(claim) == 1 && len(exact) == 0:
		return s.decideFor(claim[0], q), true
	case len(claim) == 0:
		return s.vsDecision(exact[0].c, q), true
	}
	return "", false
}

// classifyMesh names the input class of an end-to-end disagreement.  The known class F-C12-4 is returned
// only when it EXPLAINS the disagreement: the spec recomputed against the registry the sidecar path hands the
// route compiler (the egress listener's services: in the proxy's Sidecar scope and exposing the listener port)
// equals what the real configuration did.
func (s *state) classifyMesh(q request, want, got string) string {
	full := s.services
	restricted := map[host.Name]*model.Service{}
	visible := map[string]bool{}
	for _, ms := range s.mesh.svcs {
		visible[ms.host] = s.svcVisible(ms)
	}
	for h, svc := range full {
		if v, known := visible[string(h)]; known && !v {
			continue // outside the proxy's Sidecar scope: not in the egress listener's registry either
		}
		if p, ok := svc.Ports.GetByPort(s.port); ok {
			c := *svc
			c.Ports = model.PortList{p}
			restricted[h] = &c
		}
	}
	s.services = restricted
	alt, _ := s.meshSpec(q.authority, q)
	s.services = full
	if alt == got && alt != want {
		return "destination-port-of-service-not-on-listener-port"
	}
	// F-C12-9: an alias is honoured by the entry that imports the concrete service, not by importing the alias service
	s.aliasVariant = true
	alt, _ = s.meshSpec(q.authority, q)
	s.aliasVariant = false
	if alt == got && alt != want {
		return "alias-import-decided-by-concrete-service-entry"
	}
	// F-C12-6: wildcard host listed by several VirtualServices - only the oldest is ever considered
	s.indexVariant = true
	alt, _ = s.meshSpec(q.authority, q)
	s.indexVariant = false
	if alt == got && alt != want {
		return "wildcard-host-younger-virtualservice-ignored"
	}
	return "mesh-decision"
}

// ---------------------------------------------------------------- generator

// Namespace universes: some namespaces are string prefixes of others (shop / shop-canary, ns1 / ns10), since
// several name computations work on raw strings.
var nsUniverses = [][]string{
	{"default", "other"}, {"shop", "shop-canary"}, {"ns1", "ns10", "ns2"}, {"team", "team-b", "default"}, {"a", "ab", "abc"},
}

var meshSvcNames = []string{"reviews", "ratings", "details", "billing"}

func meshPool(nss []string) []meshSvc {
	var out []meshSvc
	for _, ns := range nss {
		for _, n := range meshSvcNames {
			out = append(out, meshSvc{host: n + "." + ns + ".svc.cluster.local", ns: ns})
		}
	}
	out = append(out, meshSvc{host: "api.example.com", ns: nss[0]}, meshSvc{host: "www.example.com", ns: nss[len(nss)-1]})
	// names that collide: the short form `foo.com` of the cluster-local service foo.com.svc.cluster.local (namespace
	// "com") is the FQDN of the ServiceEntry foo.com; `reviews.<ns>` may itself be a registered hostname
	out = append(out, meshSvc{host: "foo.com.svc.cluster.local", ns: "com"}, meshSvc{host: "foo.com", ns: nss[0]},
		meshSvc{host: "reviews." + nss[0], ns: nss[0]},
		// an ExternalName alias: destinations to it name the concrete host
		meshSvc{host: "alias." + nss[0] + ".svc.cluster.local", ns: nss[0], ext: "real.example.com"})
	return out
}

func meshVSHostPool(nss []string) []string {
	out := []string{"*.svc.cluster.local", "*.example.com", "*.com", "*.cluster.local"}
	for _, ns := range nss {
		out = append(out, "*."+ns+".svc.cluster.local")
	}
	return out
}

func genRds(seed uint64, n int, out string) {
	root := wire.NewRng(seed*1000003 + 99)
	o := wire.Create(out)
	defer o.Close()
	st := genStats{}
	for i := 0; i < n; i++ {
		r := root.Fork()
		s := newState()
		o.Line("case", strconv.Itoa(i), "rds")
		// listener port 80 included: there VirtualService hosts outside the registry get virtual hosts of their own even
		// when the VirtualService serves no service of the port
		port := wire.Pick(r, []int{8080, 9080, 80, 80, 8000})
		// a third of the cases stay inside the hypotheses of sidecar_rds_correct (certVSHosts): listener port other than
		// 80, lower-case names, VirtualService hosts that name or match a service of the listener port
		plain := r.Chance(1, 3)
		if plain && port == 80 {
			port = 9080
		}
		nss := wire.Pick(r, nsUniverses)
		pool := meshPool(nss)
		meshVSHosts := meshVSHostPool(nss)
		picked := wire.Subset(r, pool, 2, 5)
		if r.Chance(1, 4) { // force the colliding pair
			picked = append(picked, pool[len(pool)-4], pool[len(pool)-3])
		}
		if len(picked) < 2 {
			picked = append([]meshSvc(nil), pool[0], pool[len(meshSvcNames)])
		}
		{ // distinct hostnames
			seen := map[string]bool{}
			var u []meshSvc
			for _, ms := range picked {
				if !seen[ms.host] {
					seen[ms.host] = true
					u = append(u, ms)
				}
			}
			picked = u
		}
		if len(picked) > 7 {
			picked = picked[:7]
		}
		if plain { // ... no Resolution: Alias service either
			var u []meshSvc
			for _, ms := range picked {
				if ms.ext == "" {
					u = append(u, ms)
				}
			}
			if len(u) == 0 {
				u = append(u, pool[0])
			}
			picked = u
		}
		// hostnames are case-insensitive: a ServiceEntry may spell its host with capitals
		for k := range picked {
			if !plain && !strings.HasSuffix(picked[k].host, ".svc.cluster.local") && r.Chance(1, 5) {
				picked[k].host = flipCase(r, picked[k].host)
			}
		}
		// the Kubernetes registry's picture of an ExternalName service pointing into the mesh: the alias service is
		// Resolution: Alias with ExternalName = the concrete host, the concrete service lists it in Attributes.Aliases
		for k := range picked {
			if picked[k].ext != "" && r.Chance(1, 2) {
				for j := range picked {
					if j != k && strings.HasSuffix(picked[j].host, ".svc.cluster.local") && picked[j].ext == "" {
						picked[k].ext = picked[j].host
						picked[j].aliases = []string{picked[k].host}
						break
					}
				}
			}
		}
		onPort := map[string]bool{}
		for k, ms := range picked {
			switch r.Intn(6) {
			case 0, 1, 2:
				ms.ports = []int{port}
			case 3:
				ms.ports = []int{port, 7070}
			case 4:
				ms.ports = []int{wire.Pick(r, []int{7070, 7071})}
			default:
				ms.ports = []int{7070, 7071}
			}
			if k == 0 {
				ms.ports = []int{port}
			}
			if len(ms.ports) == 2 && r.Chance(1, 2) {
				ms.ports[0], ms.ports[1] = ms.ports[1], ms.ports[0] // the listener port need not come first
			}
			if !plain && k > 0 && r.Chance(1, 8) {
				ms.tcp = []int{ms.ports[r.Intn(len(ms.ports))]} // a TCP port: never served by an HTTP route configuration
			}
			if !plain && ms.ext == "" && strings.HasSuffix(ms.host, ".svc.cluster.local") && r.Chance(1, 10) {
				ms.headless = true
			}
			if !plain && r.Chance(1, 6) {
				// per-cluster VIPs (multi-cluster, several VIPs per cluster, dual stack)
				ks := strconv.Itoa(k)
				ms.vips = []clusterVIP{{"c1", []string{"10.1." + ks + ".1", "10.1." + ks + ".2"}}, {"c2", []string{"10.2." + ks + ".1", "2001:db8:2::" + ks}}}
				if r.Chance(1, 3) {
					ms.vips = ms.vips[:1]
				}
				if r.Chance(1, 4) {
					ms.vips[0].addrs = []string{"2001:db8:1::" + ks} // an IPv6-only cluster: no address for an IPv4 proxy there
				}
			}
			if r.Chance(2, 3) {
				ms.addr = "10.0." + strconv.Itoa(k) + ".1"
				if k > 0 && r.Chance(1, 8) {
					ms.addr = "10.0.0.1" // a VIP shared with another service: first come first served
				} else if r.Chance(1, 8) {
					ms.addr = "2001:db8::" + strconv.Itoa(k+1)
				}
			}
			onPort[ms.host] = hasPort(ms, port)
			picked[k] = ms
			var pts []string
			for _, p := range ms.ports {
				if intIn(ms.tcp, p) {
					pts = append(pts, "t"+strconv.Itoa(p))
				} else {
					pts = append(pts, strconv.Itoa(p))
				}
			}
			extTok := ms.ext
			if ms.headless {
				extTok = "headless"
			}
			f := []string{"msvc", wire.Enc(ms.host), wire.Enc(ms.ns), wire.EncList(pts), wire.Enc(ms.addr), wire.Enc(extTok)}
			if len(ms.aliases) > 0 || len(ms.vips) > 0 {
				f = append(f, wire.EncList(ms.aliases))
			}
			if len(ms.vips) > 0 {
				var vs []string
				for _, v := range ms.vips {
					vs = append(vs, v.cluster+"="+strings.Join(v.addrs, "+"))
				}
				f = append(f, wire.Enc(strings.Join(vs, ";")))
			}
			s.rdsStep(f)
			o.Line(f...)
		}
		// VirtualServices: distinct exact hosts among the services, plus wildcard hosts
		nvs := r.Intn(5)
		usedHosts := map[string]bool{}
		var all []*networking.VirtualService
		var allNs, usedVS []string
		for k := 0; k < nvs; k++ {
			var hosts []string
			want := 1
			if r.Chance(1, 3) {
				want = 2 + r.Intn(2) // a VirtualService for several hosts
			}
			for tries := 0; tries < 6 && len(hosts) < want; tries++ {
				h := wire.Pick(r, meshVSHosts)
				switch x := r.Intn(10); {
				case plain:
					if x < 7 {
						h = wire.Pick(r, picked).host
						if !onPort[h] {
							h = picked[0].host // always on the listener port
						}
					}
				case x < 6:
					h = wire.Pick(r, picked).host
					if r.Chance(1, 6) {
						h = flipCase(r, h) // VirtualService hosts are case-insensitive too
					} else if r.Chance(1, 6) && strings.HasSuffix(h, ".svc.cluster.local") {
						h = strings.Split(h, ".")[0] // a short name: relative to the VirtualService's namespace
					}
				case x < 8: // a host outside the registry
					h = wire.Pick(r, []string{"external.example.org", "ext." + nss[0] + ".svc.cluster.local", "*.example.org", "other.example.com"})
				}
				dup := false
				for _, x := range hosts {
					dup = dup || strings.EqualFold(x, h)
				}
				if dup {
					continue
				}
				// mostly distinct hosts, but two VirtualServices may list the same exact or wildcard host ("oldest wins")
				if !usedHosts[h] || r.Chance(1, 2) {
					usedHosts[h] = true
					hosts = append(hosts, h)
				}
			}
			if len(hosts) == 0 {
				continue
			}
			for tries := 0; tries < 8; tries++ {
				if tries == 2 || tries == 5 { // the host list itself may be what the validator rejects (hosts matching each other)
					hosts = hosts[:1]
					if tries == 5 {
						hosts[0] = strings.ToLower(hosts[0])
					}
				}
				// VirtualServices are identified by name AND namespace: the same name may be used in two namespaces
				vsName, vsNs := "mvs"+strconv.Itoa(k), wire.Pick(r, nss)
				if k > 0 && r.Chance(1, 3) {
					vsName = "mvs" + strconv.Itoa(r.Intn(k))
					for _, prev := range usedVS {
						if prev == vsNs+"/"+vsName { // taken in this namespace: another namespace, else a fresh name
							vsNs = nss[(indexOf(nss, vsNs)+1)%len(nss)]
						}
					}
					for _, prev := range usedVS {
						if prev == vsNs+"/"+vsName {
							vsName = "mvs" + strconv.Itoa(k)
						}
					}
				}
				vsf := []string{"vs", vsName, vsNs, "plain", wire.EncList(hosts)}
				s.apply(vsf)
				// top-level gateways: unset, mesh (+ a gateway), or a gateway only - then no sidecar ever sees the VirtualService
				var topGws []string
				if !plain {
					switch r.Intn(10) {
					case 0:
						topGws = []string{"mesh"}
					case 1:
						topGws = []string{"mesh", nss[0] + "/gw"}
					case 2:
						topGws = []string{nss[0] + "/gw"}
					}
				}
				s.vs.Gateways = topGws
				nr := 1 + r.Intn(3)
				for j := 0; j < nr; j++ {
					h := genRule(r, "requests", j, false, false)
					for _, m := range h.Match {
						m.Gateways = nil
						if len(topGws) == 2 && r.Chance(1, 2) {
							m.Gateways = wire.Pick(r, [][]string{{"mesh"}, {nss[0] + "/gw"}, {"mesh", nss[0] + "/gw"}}) // rule for one of the bound gateways
						}
						if m.SourceNamespace != "" {
							m.SourceNamespace = wire.Pick(r, nss)
						}
					}
					for _, d := range h.Route {
						// keep F-C12-4 out of the generated stream (it has its own corpus file): a destination
						// without port only towards services exposing the listener port or unknown hosts
						d.Destination.Host = wire.Pick(r, append([]meshSvc{{host: "unknown.example.org"}}, picked...)).host
						if d.Destination.Port == nil && !onPort[d.Destination.Host] && d.Destination.Host != "unknown.example.org" {
							d.Destination.Port = &networking.PortSelector{Number: 7070}
						}
						if strings.HasPrefix(d.Destination.Host, "alias.") && !onPort[d.Destination.Host] {
							d.Destination.Host = "unknown.example.org" // alias half of F-C12-4: own corpus file
						}
						if r.Chance(1, 8) && strings.HasSuffix(d.Destination.Host, "."+s.cfg.Namespace+".svc.cluster.local") {
							d.Destination.Host = strings.Split(d.Destination.Host, ".")[0] // short name of a service of the rule's namespace
						}
					}
					s.vs.Http = append(s.vs.Http, h)
				}
				st.generated++
				if _, err := validation.ValidateVirtualService(s.cfg); err != nil {
					st.rejected++
					continue
				}
				o.Line(vsf...)
				for _, h := range s.vs.Http {
					emitRule(o, h)
				}
				// exportTo: unset, everywhere, its own namespace, one namespace
				var exportTo []string
				if !plain && r.Chance(1, 5) {
					exportTo = wire.Pick(r, [][]string{{"*"}, {"."}, {nss[0]}, {".", nss[len(nss)-1]}})
				}
				mf := []string{"mvs"}
				if len(exportTo) > 0 || len(topGws) > 0 {
					mf = append(mf, wire.EncList(exportTo))
				}
				if len(topGws) > 0 {
					mf = append(mf, wire.EncList(topGws))
				}
				s.rdsStep(mf)
				o.Line(mf...)
				usedVS = append(usedVS, vsNs+"/"+vsName)
				all = append(all, s.vs)
				allNs = append(allNs, vsNs)
				break
			}
		}
		merged := &networking.VirtualService{}
		for _, v := range all {
			merged.Http = append(merged.Http, v.Http...)
		}
		// a Sidecar resource in one namespace: its egress hosts decide which services and VirtualServices the
		// proxies of that namespace see (model.SelectVirtualServices / selectServices run non-trivially)
		scNs := ""
		if r.Chance(1, 3) {
			scNs = wire.Pick(r, nss)
			if !plain && r.Chance(1, 5) {
				scNs = "istio-system" // the root namespace: the default Sidecar of every namespace without one of its own
			}
			var eh []string
			for _, ns := range append([]string{"*", "."}, nss...) {
				if r.Chance(1, 3) {
					eh = append(eh, ns+"/*")
				}
			}
			for _, ms := range wire.Subset(r, picked, 1, 2) {
				eh = append(eh, wire.Pick(r, []string{ms.ns, "*"})+"/"+ms.host)
			}
			if r.Chance(1, 3) {
				eh = append(eh, wire.Pick(r, append([]string{"*"}, nss...))+"/"+wire.Pick(r, meshVSHosts))
			}
			if len(eh) == 0 {
				eh = []string{"./*"}
			}
			if r.Chance(1, 4) { // an exclusion: ~namespace/dnsName
				x := wire.Pick(r, picked)
				eh = append(eh, "~"+wire.Pick(r, []string{x.ns, "*", "", "."})+"/"+wire.Pick(r, []string{x.host, x.host, "*.svc.cluster.local", "*.com"}))
			}
			f := []string{"sidecar", wire.Enc(scNs), wire.EncList(eh)}
			pol := "allow"
			if !plain {
				switch r.Intn(6) {
				case 0:
					pol = "registry"
				case 1:
					pol = "egress=" + wire.Enc(wire.Pick(r, picked).host+"|"+wire.Pick(r, []string{"443", "15443"}))
				case 2:
					pol = "allowany" // ALLOW_ANY spelled out: wins over a mesh-wide REGISTRY_ONLY
				}
			}
			withPort := r.Chance(1, 3)
			// a workloadSelector: the Sidecar applies only to the workloads of its namespace carrying these labels
			var sel []kv
			if !plain && scNs != "istio-system" && r.Chance(1, 4) {
				sel = []kv{wire.Pick(r, labelPool)}
				if x := wire.Pick(r, labelPool); x.k != sel[0].k && r.Chance(1, 3) {
					sel = append(sel, x)
				}
			}
			if pol != "allow" || withPort || len(sel) > 0 {
				f = append(f, pol)
			}
			if withPort {
				// an egress listener for one port: proxies of the namespace see ITS hosts on that port
				var ph []string
				for _, ms := range wire.Subset(r, picked, 1, 3) {
					ph = append(ph, wire.Pick(r, []string{ms.ns, "*", "."})+"/"+ms.host)
				}
				if r.Chance(1, 3) {
					ph = append(ph, wire.Pick(r, append([]string{"*"}, nss...))+"/"+wire.Pick(r, append([]string{"*"}, meshVSHosts...)))
				}
				f = append(f, strconv.Itoa(wire.Pick(r, []int{port, port, 7070})), wire.EncList(ph))
			} else if len(sel) > 0 {
				f = append(f, "0", "-")
			}
			if len(sel) > 0 {
				f = append(f, encPairs(sel))
			}
			s.rdsStep(f)
			o.Line(f...)
		}
		// mesh-wide outboundTrafficPolicy (MeshConfig): REGISTRY_ONLY or ALLOW_ANY_DYNAMIC_DNS
		if !plain && r.Chance(1, 8) {
			f := []string{"meshpolicy", wire.Pick(r, []string{"registry", "dynamic"})}
			s.rdsStep(f)
			o.Line(f...)
		}
		// DestinationRule objects (subsets, consistent hash): they must not change where a request goes
		if r.Chance(1, 4) {
			x := wire.Pick(r, picked)
			f := []string{"mdr", wire.Enc(strings.ToLower(x.host)), wire.Enc(wire.Pick(r, []string{x.ns, nss[0]}))}
			s.rdsStep(f)
			o.Line(f...)
		}
		// several sidecars are served one after the other from the same generator and cache; neighbours often
		// share the namespace and differ only in their workload labels
		np := 1 + r.Intn(3)
		var prev proxyCfg
		for pi := 0; pi < np; pi++ {
			p := genProxy(r)
			p.gws = []string{"mesh"}
			p.ns = wire.Pick(r, nss)
			if pi > 0 && r.Chance(2, 3) {
				p.ns = prev.ns
			}
			if scNs != "" && scNs != "istio-system" && r.Chance(1, 2) {
				p.ns = scNs // under the Sidecar resource more often than by chance
			}
			prev = p
			cl := wire.Pick(r, []string{"", "", "c1", "c2", "c3"})
			rf := []string{"rds", wire.Enc(p.ns), encPairs(p.labels), strconv.Itoa(port)}
			if cl != "" {
				rf = append(rf, wire.Enc(cl))
			}
			o.Line(rf...)
			pd := p.ns + ".svc.cluster.local"
			nreq := 4 + r.Intn(5)
			for k := 0; k < nreq; k++ {
				ms := wire.Pick(r, picked)
				for t := 0; t < 3 && (!hasPort(ms, port) || intIn(ms.tcp, port) || ms.ext != ""); t++ {
					ms = wire.Pick(r, picked) // mostly a service this route configuration serves
				}
				ms.addrsFor = ms.addressesFor(cl)
				names := svcNames(ms, pd)
				a := wire.Pick(r, names)
				src := merged
				if len(all) > 0 && r.Chance(3, 5) {
					// aimed at ONE VirtualService: addressed to one of its hosts, built from its own rules
					vi := r.Intn(len(all))
					src = all[vi]
					h := wire.Pick(r, src.Hosts)
					for t := 0; t < 3 && !onPort[h]; t++ { // mostly a host that is a service of the listener port
						vi = r.Intn(len(all))
						src = all[vi]
						h = wire.Pick(r, src.Hosts)
					}
					switch {
					case strings.HasPrefix(h, "*"):
						a = wire.Pick(r, []string{"x", "a.b", "external"}) + h[1:]
						for _, x := range picked {
							if strings.HasSuffix(strings.ToLower(x.host), strings.ToLower(h[1:])) && r.Chance(2, 3) {
								a = x.host
							}
						}
					case !strings.Contains(h, "."):
						a = h + "." + allNs[vi] + ".svc.cluster.local"
					default:
						a = h
					}
					if r.Chance(1, 8) {
						a = flipCase(r, a)
					}
				} else {
					switch r.Intn(12) {
					case 0:
						a = flipCase(r, a)
					case 1:
						a = strings.Split(ms.host, ".")[0] // bare name, valid only in the same namespace
					case 3:
						a = oneOff(r, a)
					case 4:
						a = wire.Pick(r, []string{"unknown.example.org", "x.default.svc.cluster.local", "reviews." + p.ns + ".svc", "example.com", "reviews." + p.ns})
					case 5:
						// a host some VirtualService lists (possibly outside the registry) or a name under a wildcard host
						var vh []string
						for _, v := range all {
							vh = append(vh, v.Hosts...)
						}
						if len(vh) > 0 {
							a = wire.Pick(r, vh)
							if strings.HasPrefix(a, "*") {
								a = wire.Pick(r, []string{"x", "a.b", "external"}) + a[1:]
							}
						}
					case 6, 7:
						if len(ms.aliases) > 0 {
							a = wire.Pick(r, svcNames(meshSvc{host: ms.aliases[0], ns: ms.ns}, pd))
						}
					case 8, 9:
						if ms.headless {
							a = wire.Pick(r, []string{"pod-0.", "a.b."}) + wire.Pick(r, svcNames(meshSvc{host: ms.host, ns: ms.ns}, pd))
						}
					}
				}
				// real clients send host:port on these listener ports; the port is not part of the virtual-host match
				switch r.Intn(6) {
				case 0, 1:
					a = a + ":" + strconv.Itoa(port)
				case 2:
					a = a + ":" + wire.Pick(r, []string{"80", "1234", "9080"})
				}
				var q request
				if len(src.Http) > 0 {
					q = synthRequests(r, src, 1)[0]
				} else {
					q = synthRequest(r, nil)
				}
				q.authority = a
				f := []string{"rreq", wire.Enc(q.path), encPairs(q.query), wire.Enc(q.method), wire.Enc(q.authority), wire.Enc(q.scheme), encPairs(q.headers),
					encPairs(regexTable(merged, q))}
				o.Line(f...)
			}
		}
	}
	if f, err := os.Create(out + ".stats"); err == nil {
		fmt.Fprintf(f, "generated %d\nrejected %d\nmalformed %d\n", st.generated, st.rejected, st.malformed)
		f.Close()
	}
}

func indexOf(l []string, x string) int {
	for i, y := range l {
		if x == y {
			return i
		}
	}
	return 0
}

func intsToStrs(l []int) []string {
	out := make([]string, len(l))
	for i, x := range l {
		out[i] = strconv.Itoa(x)
	}
	return out
}

// ---------------------------------------------------------------- oracle

func oracleRds(in, out string) {
	lines := wire.ReadLines(in)
	o := wire.Create(out)
	defer o.Close()
	s := newState()
	var v verdicts
	started := false
	flush := func() {
		if started {
			o.Line(v.line())
		}
		v = verdicts{}
	}
	for _, f := range lines {
		func() {
			defer func() {
				if r := recover(); r != nil {
					v.fail("crash", "op="+f[0])
				}
			}()
			switch {
			case f[0] == "case":
				flush()
				started = true
				s.reset()
			case s.apply(f):
			case f[0] == "rreq":
				got, _ := s.rdsStep(f)
				if got == "no-rds" {
					return
				}
				q := parseReq(f)
				want, ok := s.meshSpec(q.authority, q)
				if !ok {
					return // contested name: the spec is silent
				}
				if got != want {
					v.fail(s.classifyMesh(q, want, got), fmt.Sprintf("want=%s got=%s authority=%s path=%s proxy=%s/%s", want, got, f[4], f[1],
						s.node.Metadata.Namespace, encPairs(sortedKV(s.node.Labels))))
				}
			case f[0] == "rds":
				s.rdsStep(f)
				// clauses on the virtual-host TABLE itself (not only on sampled decisions)
				if msg := s.tableClauses(); msg != "" {
					v.fail(strings.SplitN(msg, " ", 2)[0], strings.SplitN(msg, " ", 2)[1]+fmt.Sprintf(" proxy=%s/%s port=%d", s.node.Metadata.Namespace,
						encPairs(sortedKV(s.node.Labels)), s.port))
				}
			default:
				s.rdsStep(f)
			}
		}()
	}
	flush()
}

// tableClauses: what must hold of the sidecar's virtual-host table whatever requests are sent -
//
//	domains-unique        no (lower-cased) domain occurs twice, within or across virtual hosts (Envoy rejects the
//	                      whole route configuration otherwise);
//	table-service-vhost   every service the proxy sees whose port of the listener's number speaks HTTP - an Alias
//	                      service excepted - is reachable by its FQDN: exactly one virtual host carries it as a domain;
//	table-catch-all       exactly one virtual host has the domain "*".
func (s *state) tableClauses() string {
	rc := s.mesh.rc
	if rc == nil {
		return ""
	}
	owner := map[string]string{}
	stars := 0
	for _, vh := range rc.VirtualHosts {
		for _, d := range vh.Domains {
			ld := strings.ToLower(d)
			if prev, dup := owner[ld]; dup {
				return "domains-unique domain=" + wire.Enc(d) + " vhosts=" + wire.Enc(prev) + "," + wire.Enc(vh.Name)
			}
			owner[ld] = vh.Name
			if d == "*" {
				stars++
			}
		}
	}
	if stars != 1 {
		return "table-catch-all count=" + strconv.Itoa(stars)
	}
	for _, ms := range s.onPortVisible() {
		if intIn(ms.tcp, s.port) || ms.ext != "" {
			continue
		}
		if _, ok := owner[strings.ToLower(ms.host)]; !ok {
			return "table-service-vhost service=" + wire.Enc(ms.host) + " has-no-virtual-host"
		}
	}
	return ""
}
