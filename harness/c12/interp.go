package main

// Reference Envoy route interpreter and canonical printing of the generated routes.
//
// The interpreter is written from the Envoy v3 API documentation (RouteMatch, HeaderMatcher,
// QueryParameterMatcher, RouteAction, RedirectAction, DirectResponseAction), independently of the
// Lean definitions in lean/IstioModel/C12/Envoy.lean, and works directly on the protobufs the real
// code produced.  Regexes are evaluated with Go's regexp (RE2 syntax), anchored to a full match.

import (
	"regexp"
	"strconv"
	"strings"

	envoycore "github.com/envoyproxy/go-control-plane/envoy/config/core/v3"
	route "github.com/envoyproxy/go-control-plane/envoy/config/route/v3"
	matcher "github.com/envoyproxy/go-control-plane/envoy/type/matcher/v3"

	"verifharness/internal/wire"
)

var reCache = map[string]*regexp.Regexp{}

// fullMatch: Envoy safe_regex semantics (RE2 full match).  An uncompilable program matches nothing.
func fullMatch(re, s string) bool {
	r, ok := reCache[re]
	if !ok {
		r, _ = regexp.Compile(`^(?:` + re + `)$`)
		reCache[re] = r
	}
	return r != nil && r.MatchString(s)
}

func asciiLower(s string) string {
	b := []byte(s)
	for i, c := range b {
		if c >= 'A' && c <= 'Z' {
			b[i] = c + 32
		}
	}
	return string(b)
}

func (r request) header(name string) (string, bool) {
	switch name {
	case ":method":
		return r.method, true
	case ":authority":
		return r.authority, true
	case ":scheme":
		return r.scheme, true
	}
	for _, h := range r.headers {
		if h.k == name {
			return h.v, true
		}
	}
	return "", false
}

// claim returns the values of the verified JWT claim at path (joined by "."), as the jwt_authn filter exposes
// them in dynamic metadata.
func (r request) claim(path string) ([]string, bool) {
	var out []string
	for _, c := range r.claims {
		if c.k == path {
			out = append(out, c.v)
		}
	}
	return out, len(out) > 0
}

// metaStringMatcher digs the StringMatcher out of the value Istio emits for a JWT claim:
// or_match[list_match{one_of: string_match}, string_match].
func metaStringMatcher(v *matcher.ValueMatcher) *matcher.StringMatcher {
	switch p := v.GetMatchPattern().(type) {
	case *matcher.ValueMatcher_StringMatch:
		return p.StringMatch
	case *matcher.ValueMatcher_ListMatch:
		return metaStringMatcher(p.ListMatch.GetOneOf())
	case *matcher.ValueMatcher_OrMatch:
		for _, x := range p.OrMatch.ValueMatchers {
			if sm := metaStringMatcher(x); sm != nil {
				return sm
			}
		}
	}
	return nil
}

func metaPath(m *matcher.MetadataMatcher) string {
	var ks []string
	for i, seg := range m.Path {
		if i == 0 {
			continue // "payload"
		}
		ks = append(ks, seg.GetKey())
	}
	return strings.Join(ks, ".")
}

// metadataMatches: the claim is a string matching the pattern or a list containing a matching string; absent
// metadata does not match; `invert` inverts.
func metadataMatches(m *matcher.MetadataMatcher, r request) bool {
	res := false
	if vals, ok := r.claim(metaPath(m)); ok && m.Filter == "envoy.filters.http.jwt_authn" {
		if sm := metaStringMatcher(m.Value); sm != nil {
			for _, v := range vals {
				if stringMatches(sm, v) {
					res = true
				}
			}
		}
	}
	return res != m.Invert
}

func (r request) queryParam(name string) (string, bool) {
	for _, q := range r.query {
		if q.k == name {
			return q.v, true
		}
	}
	return "", false
}

func stringMatches(sm *matcher.StringMatcher, v string) bool {
	if sm.GetIgnoreCase() {
		v = asciiLower(v)
	}
	switch p := sm.MatchPattern.(type) {
	case *matcher.StringMatcher_Exact:
		if sm.GetIgnoreCase() {
			return v == asciiLower(p.Exact)
		}
		return v == p.Exact
	case *matcher.StringMatcher_Prefix:
		if sm.GetIgnoreCase() {
			return strings.HasPrefix(v, asciiLower(p.Prefix))
		}
		return strings.HasPrefix(v, p.Prefix)
	case *matcher.StringMatcher_Suffix:
		return strings.HasSuffix(v, p.Suffix)
	case *matcher.StringMatcher_Contains:
		return strings.Contains(v, p.Contains)
	case *matcher.StringMatcher_SafeRegex:
		return fullMatch(p.SafeRegex.GetRegex(), v)
	}
	return false
}

func headerMatches(h *route.HeaderMatcher, r request) bool {
	v, present := r.header(h.Name)
	if pm, ok := h.HeaderMatchSpecifier.(*route.HeaderMatcher_PresentMatch); ok {
		return ((present || h.TreatMissingHeaderAsEmpty) == pm.PresentMatch) != h.InvertMatch
	}
	if !present {
		if !h.TreatMissingHeaderAsEmpty {
			return false
		}
		v = ""
	}
	var m bool
	switch sp := h.HeaderMatchSpecifier.(type) {
	case *route.HeaderMatcher_StringMatch:
		m = stringMatches(sp.StringMatch, v)
	case *route.HeaderMatcher_ExactMatch:
		m = v == sp.ExactMatch
	case *route.HeaderMatcher_PrefixMatch:
		m = strings.HasPrefix(v, sp.PrefixMatch)
	case *route.HeaderMatcher_SafeRegexMatch:
		m = fullMatch(sp.SafeRegexMatch.GetRegex(), v)
	case nil:
		m = true // no specifier: presence
	default:
		m = false
	}
	return m != h.InvertMatch
}

func queryMatches(q *route.QueryParameterMatcher, r request) bool {
	v, present := r.queryParam(q.Name)
	switch sp := q.QueryParameterMatchSpecifier.(type) {
	case *route.QueryParameterMatcher_PresentMatch:
		return present == sp.PresentMatch
	case *route.QueryParameterMatcher_StringMatch:
		return present && stringMatches(sp.StringMatch, v)
	}
	return present
}

func routeMatches(m *route.RouteMatch, r request) bool {
	cs := true
	if m.CaseSensitive != nil {
		cs = m.CaseSensitive.Value
	}
	p := r.path
	fold := func(s string) string {
		if cs {
			return s
		}
		return asciiLower(s)
	}
	switch ps := m.PathSpecifier.(type) {
	case *route.RouteMatch_Prefix:
		if !strings.HasPrefix(fold(p), fold(ps.Prefix)) {
			return false
		}
	case *route.RouteMatch_Path:
		if fold(p) != fold(ps.Path) {
			return false
		}
	case *route.RouteMatch_SafeRegex:
		if !fullMatch(ps.SafeRegex.GetRegex(), p) { // case_sensitive is ignored for safe_regex
			return false
		}
	case *route.RouteMatch_PathSeparatedPrefix:
		x, y := fold(p), fold(ps.PathSeparatedPrefix)
		if !(x == y || strings.HasPrefix(x, y+"/")) {
			return false
		}
	default:
		return false
	}
	for _, h := range m.Headers {
		if !headerMatches(h, r) {
			return false
		}
	}
	for _, q := range m.QueryParameters {
		if !queryMatches(q, r) {
			return false
		}
	}
	for _, dm := range m.DynamicMetadata {
		if !metadataMatches(dm, r) {
			return false
		}
	}
	return true
}

// decision is what happens to a request.
type decision struct {
	kind    string // fwd, rd, dr, invalid, 404
	dist    []kvw
	rd      *route.RedirectAction
	status  uint32
	body    string
	hasBody bool
}

type kvw struct {
	c string
	w uint32
}

func actionDecision(r *route.Route) decision {
	switch a := r.Action.(type) {
	case *route.Route_Route:
		switch cs := a.Route.ClusterSpecifier.(type) {
		case *route.RouteAction_Cluster:
			return decision{kind: "fwd", dist: []kvw{{cs.Cluster, 1}}}
		case *route.RouteAction_WeightedClusters:
			d := decision{kind: "fwd"}
			for _, c := range cs.WeightedClusters.Clusters {
				d.dist = append(d.dist, kvw{c.Name, c.Weight.GetValue()})
			}
			return d
		}
		return decision{kind: "invalid"}
	case *route.Route_Redirect:
		return decision{kind: "rd", rd: a.Redirect}
	case *route.Route_DirectResponse:
		d := decision{kind: "dr", status: a.DirectResponse.Status}
		if a.DirectResponse.Body != nil {
			d.hasBody = true
			d.body = dataText(a.DirectResponse.Body)
		}
		return d
	}
	return decision{kind: "invalid"}
}

// evalRoutes: first matching route wins; no match is a 404.
func evalRoutes(routes []*route.Route, r request) decision {
	for _, rt := range routes {
		if routeMatches(rt.Match, r) {
			return actionDecision(rt)
		}
	}
	return decision{kind: "404"}
}

// ---------------------------------------------------------------- canonical printing

var redirectCodes = map[route.RedirectAction_RedirectResponseCode]int{
	route.RedirectAction_MOVED_PERMANENTLY:  301,
	route.RedirectAction_FOUND:              302,
	route.RedirectAction_SEE_OTHER:          303,
	route.RedirectAction_TEMPORARY_REDIRECT: 307,
	route.RedirectAction_PERMANENT_REDIRECT: 308,
}

// dataText: the bytes Envoy answers with for an inline DataSource (inline_string and inline_bytes are the same body)
func dataText(d *envoycore.DataSource) string {
	if b, ok := d.GetSpecifier().(*envoycore.DataSource_InlineBytes); ok {
		return string(b.InlineBytes)
	}
	return d.GetInlineString()
}

func showRedirect(r *route.RedirectAction) string {
	path := "pa:" + wire.Enc(r.GetPathRedirect())
	if _, ok := r.PathRewriteSpecifier.(*route.RedirectAction_PrefixRewrite); ok {
		path = "pr:" + wire.Enc(r.GetPrefixRewrite())
	}
	return "rd:" + wire.Enc(r.HostRedirect) + "!" + path + "!" + wire.Enc(r.GetSchemeRedirect()) + "!" +
		strconv.Itoa(int(r.PortRedirect)) + "!" + strconv.Itoa(redirectCodes[r.ResponseCode])
}

func showDist(d []kvw) string {
	if len(d) == 0 {
		return "fwd:-"
	}
	out := make([]string, len(d))
	for i, e := range d {
		out[i] = wire.Enc(e.c) + "!" + strconv.Itoa(int(e.w))
	}
	return "fwd:" + strings.Join(out, ",")
}

func showDecision(d decision) string {
	switch d.kind {
	case "fwd":
		return showDist(d.dist)
	case "rd":
		return showRedirect(d.rd)
	case "dr":
		b := "-"
		if d.hasBody {
			b = wire.Enc(d.body)
		}
		return "dr:" + strconv.Itoa(int(d.status)) + "!" + b
	}
	return d.kind
}

func showStringMatcher(sm *matcher.StringMatcher) string {
	ic := ""
	if sm.GetIgnoreCase() {
		ic = "ic"
	}
	switch p := sm.MatchPattern.(type) {
	case *matcher.StringMatcher_Exact:
		return ic + "e:" + wire.Enc(p.Exact)
	case *matcher.StringMatcher_Prefix:
		return ic + "p:" + wire.Enc(p.Prefix)
	case *matcher.StringMatcher_SafeRegex:
		return ic + "r:" + wire.Enc(p.SafeRegex.GetRegex())
	}
	return "?sm"
}

func showHeader(h *route.HeaderMatcher) string {
	spec := "?"
	switch sp := h.HeaderMatchSpecifier.(type) {
	case *route.HeaderMatcher_PresentMatch:
		spec = "P" + wire.B(sp.PresentMatch)
	case *route.HeaderMatcher_StringMatch:
		spec = showStringMatcher(sp.StringMatch)
	case nil:
		spec = "nil"
	}
	return wire.Enc(h.Name) + "!" + spec + "!" + wire.B(h.InvertMatch) + "!" + wire.B(h.TreatMissingHeaderAsEmpty)
}

func showQuery(q *route.QueryParameterMatcher) string {
	spec := "?"
	switch sp := q.QueryParameterMatchSpecifier.(type) {
	case *route.QueryParameterMatcher_PresentMatch:
		spec = "P" + wire.B(sp.PresentMatch)
	case *route.QueryParameterMatcher_StringMatch:
		spec = showStringMatcher(sp.StringMatch)
	case nil:
		spec = "nil"
	}
	return wire.Enc(q.Name) + "!" + spec
}

func showAction(r *route.Route) string {
	switch a := r.Action.(type) {
	case *route.Route_Route:
		switch cs := a.Route.ClusterSpecifier.(type) {
		case *route.RouteAction_Cluster:
			return "c:" + wire.Enc(cs.Cluster)
		case *route.RouteAction_WeightedClusters:
			var d []kvw
			for _, c := range cs.WeightedClusters.Clusters {
				d = append(d, kvw{c.Name, c.Weight.GetValue()})
			}
			return "w:" + strings.TrimPrefix(showDist(d), "fwd:")
		}
		return "?cluster"
	case *route.Route_Redirect:
		return showRedirect(a.Redirect)
	case *route.Route_DirectResponse:
		b := "-"
		if a.DirectResponse.Body != nil {
			b = wire.Enc(dataText(a.DirectResponse.Body))
		}
		return "dr:" + strconv.Itoa(int(a.DirectResponse.Status)) + "!" + b
	}
	return "none"
}

// showRoute: header and query-parameter matchers in EMITTED order (both are produced in sorted key
// order since /repo 2dac7a8, so the order is observable and part of the structural tie).
func showRoute(r *route.Route) string {
	m := r.Match
	path := "?"
	switch ps := m.PathSpecifier.(type) {
	case *route.RouteMatch_Prefix:
		path = "pre:" + wire.Enc(ps.Prefix)
	case *route.RouteMatch_Path:
		path = "path:" + wire.Enc(ps.Path)
	case *route.RouteMatch_SafeRegex:
		path = "re:" + wire.Enc(ps.SafeRegex.GetRegex())
	case *route.RouteMatch_PathSeparatedPrefix:
		path = "psp:" + wire.Enc(ps.PathSeparatedPrefix)
	}
	cs := "1" // nil = Envoy default true
	if m.CaseSensitive != nil {
		cs = wire.B(m.CaseSensitive.Value)
	}
	hs := make([]string, len(m.Headers))
	for i, h := range m.Headers {
		hs[i] = showHeader(h)
	}
	qs := make([]string, len(m.QueryParameters))
	for i, q := range m.QueryParameters {
		qs[i] = showQuery(q)
	}
	dm := ""
	if len(m.DynamicMetadata) > 0 {
		ms := make([]string, len(m.DynamicMetadata))
		for i, x := range m.DynamicMetadata {
			spec := "nil"
			if sm := metaStringMatcher(x.Value); sm != nil {
				spec = showStringMatcher(sm)
			}
			ms[i] = wire.Enc(metaPath(x)) + "!" + spec + "!" + wire.B(x.Invert)
		}
		dm = "|M:" + strings.Join(ms, ",")
	}
	return "R[" + wire.Enc(r.Name) + "|" + path + "|cs=" + cs + "|H:" + joinOrDash(hs) + "|Q:" + joinOrDash(qs) + dm + "|A:" + showAction(r) + "]"
}

func joinOrDash(l []string) string {
	if len(l) == 0 {
		return "-"
	}
	return strings.Join(l, ",")
}

func showRoutes(rs []*route.Route) string {
	if len(rs) == 0 {
		return "err"
	}
	out := make([]string, len(rs))
	for i, r := range rs {
		out[i] = showRoute(r)
	}
	return strings.Join(out, " ")
}
