package main

// Stream `gw`: the gateway route configuration, end to end.  A Gateway resource (HTTP / HTTPS servers with
// namespaced and wildcard hosts, httpsRedirect) and VirtualServices bound to it are loaded into the REAL
// generator environment; the REAL ConfigGenerator.BuildHTTPRoutes (-> buildGatewayHTTPRouteConfig: host
// intersection, vHostDedupMap merge of several VirtualServices per host, collapseDuplicateRoutes,
// SortVHostRoutes, IsTLS: server.Tls != nil, RequireTls) produces the route configuration of one route
// name for a router proxy; requests are evaluated by the reference interpreter.
//
//	gsvc <hostname> <ns> <ports>                                   registry service (destination resolution)
//	gateway <name> <ns> <selector labels>
//	server <port> <HTTP|HTTPS> <portName> <hosts> <tls 0/1> <httpsRedirect 0/1>
//	vs / rule / match ... ; gvs <gateways>                         bind the current VirtualService
//	grds <proxyNs> <labels> <routeName>                            build the real route configuration
//	greq <path> <query> <method> <authority> <scheme> <headers> [table]   -> decision
//
// The Lean side answers `greq` with the model (Gateway.lean gwVHosts + evalRouteConfig) and flags any
// difference from the source-level SPEC gwSpec; `oracle` evaluates the spec in Go.

import (
	"fmt"
	"os"
	"strconv"
	"strings"
	"time"

	route "github.com/envoyproxy/go-control-plane/envoy/config/route/v3"

	networking "istio.io/api/networking/v1alpha3"
	"istio.io/istio/pilot/pkg/model"
	"istio.io/istio/pilot/pkg/networking/core"
	"istio.io/istio/pkg/config"
	"istio.io/istio/pkg/config/host"
	"istio.io/istio/pkg/config/schema/gvk"
	"istio.io/istio/pkg/config/validation"
	"istio.io/istio/pkg/util/sets"
	"verifharness/internal/wire"
)

type gwServer struct {
	port     int
	https    bool
	portName string
	hosts    []string
	tls      bool
	redirect bool
}

type gwVS struct {
	cfg      config.Config
	gateways []string
	exportTo []string
}

// gwExportClass: 0 exported to its own namespace only (the router's), 1 exported to the router's namespace by name,
// 2 public, 3 not visible to a router of namespace pns.
func (v *gwVS) exportClass(pns string) int {
	if len(v.exportTo) == 0 {
		return 2
	}
	cl := 3
	for _, e := range v.exportTo {
		switch {
		case e == "*":
			return 2
		case (e == "." || e == v.cfg.Namespace) && v.cfg.Namespace == pns:
			cl = 0
		case e == pns && cl > 1:
			cl = 1
		}
	}
	return cl
}

// gwVisibleVss: the gateway-bound VirtualServices the router sees, by export class (CODE-DERIVED), creation order inside
func (s *state) gwVisibleVss() []gwVS {
	var out []gwVS
	for cl := 0; cl < 3; cl++ {
		for _, v := range s.gw.vss {
			if v.exportClass(s.node.Metadata.Namespace) == cl {
				out = append(out, v)
			}
		}
	}
	return out
}

type gwDef struct {
	name, ns string
	selector map[string]string
	servers  []gwServer
}

func (g *gwDef) fullName() string { return g.ns + "/" + g.name }

func (g *gwDef) routeNameOf(sv gwServer) string {
	if sv.https {
		return "https." + strconv.Itoa(sv.port) + "." + sv.portName + "." + g.name + "." + g.ns
	}
	return "http." + strconv.Itoa(sv.port)
}

func (g *gwDef) config(idx int) config.Config {
	gw := &networking.Gateway{Selector: g.selector}
	for _, sv := range g.servers {
		s := &networking.Server{Port: &networking.Port{Number: uint32(sv.port), Protocol: "HTTP", Name: sv.portName}, Hosts: sv.hosts}
		if sv.https {
			s.Port.Protocol = "HTTPS"
			s.Tls = &networking.ServerTLSSettings{Mode: networking.ServerTLSSettings_SIMPLE, CredentialName: "cred"}
		} else if sv.tls {
			s.Tls = &networking.ServerTLSSettings{HttpsRedirect: sv.redirect}
		}
		gw.Servers = append(gw.Servers, s)
	}
	return config.Config{Meta: config.Meta{GroupVersionKind: gvk.Gateway, Name: g.name, Namespace: g.ns,
		CreationTimestamp: time.Unix(int64(900+idx), 0)}, Spec: gw}
}

type gwState struct {
	gws   []*gwDef // creation order; servers are added to the last one
	vss   []gwVS
	svcs  []meshSvc
	rc    *route.RouteConfiguration
	route string
	built bool
	cg    *core.ConfigGenTest
	fl    *failer
}

func (g *gwState) drop() {
	if g.fl != nil {
		g.fl.done()
	}
	g.cg, g.fl, g.built = nil, nil, false
}

func (g *gwState) last() *gwDef {
	if len(g.gws) == 0 {
		return nil
	}
	return g.gws[len(g.gws)-1]
}

func (s *state) gwStep(f []string) (string, bool) {
	g := &s.gw
	switch f[0] {
	case "gsvc":
		ms := meshSvc{host: wire.Dec(f[1]), ns: wire.Dec(f[2])}
		for _, p := range wire.DecList(f[3]) {
			ms.ports = append(ms.ports, atoi(p))
		}
		g.svcs = append(g.svcs, ms)
		// a hostname may be registered in several namespaces: destinations of a VirtualService resolve to the service of
		// the VirtualService's own namespace if there is one (specCluster)
		if s.servicesNs[ms.host] == nil {
			s.servicesNs[ms.host] = map[string]*model.Service{}
			s.services[host.Name(ms.host)] = ms.real()
		}
		s.servicesNs[ms.host][ms.ns] = ms.real()
		g.drop()
		return "ok", true
	case "gateway": // a further Gateway resource selecting the same router
		g.gws = append(g.gws, &gwDef{name: wire.Dec(f[1]), ns: wire.Dec(f[2]), selector: pairsMap(decPairs(f[3]))})
		g.drop()
		return "ok", true
	case "server":
		if g.last() == nil {
			return "ok", true
		}
		g.last().servers = append(g.last().servers, gwServer{port: atoi(f[1]), https: f[2] == "HTTPS", portName: wire.Dec(f[3]), hosts: wire.DecList(f[4]),
			tls: f[5] == "1" || f[2] == "HTTPS", redirect: f[6] == "1" && f[2] != "HTTPS"})
		g.drop()
		return "ok", true
	case "gvs":
		if len(s.vs.Http) == 0 {
			return "ok", true
		}
		for _, v := range g.vss {
			if v.cfg.Name == s.cfg.Name && v.cfg.Namespace == s.cfg.Namespace {
				return "ok", true // VirtualServices are identified by name AND namespace
			}
		}
		c := s.cfg.DeepCopy()
		c.Spec.(*networking.VirtualService).Gateways = wire.DecList(f[1])
		c.CreationTimestamp = time.Unix(int64(1000+len(g.vss)), 0)
		var ex []string
		if len(f) > 2 {
			ex = wire.DecList(f[2])
		}
		c.Spec.(*networking.VirtualService).ExportTo = ex
		g.vss = append(g.vss, gwVS{cfg: c, gateways: wire.DecList(f[1]), exportTo: ex})
		g.drop()
		return "ok", true
	case "grds":
		ns, labels, rn := wire.Dec(f[1]), pairsMap(decPairs(f[2])), wire.Dec(f[3])
		if g.cg == nil {
			g.fl = &failer{}
			var svcs []*model.Service
			var cfgs []config.Config
			for i := range g.svcs {
				ms := g.svcs[i]
				if strings.HasSuffix(ms.host, ".svc.cluster.local") {
					svcs = append(svcs, ms.real())
					continue
				}
				// mesh-external hosts are real ServiceEntry resources, so that one hostname can exist in several namespaces
				se := &networking.ServiceEntry{Hosts: []string{ms.host}, Resolution: networking.ServiceEntry_DNS, Location: networking.ServiceEntry_MESH_EXTERNAL}
				for _, p := range ms.ports {
					se.Ports = append(se.Ports, &networking.ServicePort{Number: uint32(p), Name: "http-" + strconv.Itoa(p), Protocol: "HTTP"})
				}
				cfgs = append(cfgs, config.Config{
					Meta: config.Meta{GroupVersionKind: gvk.ServiceEntry, Name: "se" + strconv.Itoa(i), Namespace: ms.ns, CreationTimestamp: time.Unix(int64(900+i), 0)},
					Spec: se,
				})
			}
			for i, gd := range g.gws {
				cfgs = append(cfgs, gd.config(i))
			}
			for _, v := range g.vss {
				cfgs = append(cfgs, v.cfg)
			}
			g.cg = core.NewConfigGenTest(g.fl, core.TestOptions{Services: svcs, Configs: cfgs})
		}
		proxy := g.cg.SetupProxy(&model.Proxy{Type: model.Router, ConfigNamespace: ns, Labels: labels,
			Metadata: &model.NodeMetadata{Namespace: ns, Labels: labels}})
		req := &model.PushRequest{Push: g.cg.PushContext(), Start: time.Now()}
		resources, _ := g.cg.ConfigGen.BuildHTTPRoutes(proxy, req, []string{rn})
		g.rc = nil
		if len(resources) == 1 {
			rc := &route.RouteConfiguration{}
			if err := resources[0].Resource.UnmarshalTo(rc); err == nil {
				g.rc = rc
			}
		}
		g.route, g.built = rn, true
		s.node = &model.Proxy{Type: model.Router, Labels: labels, Metadata: &model.NodeMetadata{Namespace: ns}}
		return showVHostTable(g.rc), true
	case "gdump": // debugging aid (not part of any stream): the real virtual hosts
		var out []string
		for _, vh := range g.rc.GetVirtualHosts() {
			out = append(out, fmt.Sprintf("%s%v#%d", vh.Name, vh.Domains, len(vh.Routes)))
		}
		return strings.Join(out, " "), true
	case "greq":
		if !g.built {
			return "no-grds", true
		}
		q := parseReq(f)
		vh := selectVHostConf(g.rc, q.authority)
		if vh == nil {
			return "404", true
		}
		if vh.RequireTls == route.VirtualHost_ALL && q.scheme == "http" {
			return "tls-redirect", true
		}
		return showDecision(evalRoutes(vh.Routes, q)), true
	}
	return "", false
}

// ---------------------------------------------------------------- gateway spec (Go rendering, oracle only)

func stripNs(h, ns string) (string, bool) {
	if n, name, found := strings.Cut(h, "/"); found {
		if n != ns && n != "*" {
			return "", false
		}
		return name, true
	}
	return h, true
}

func subsetOf(n, o string) bool {
	nw, ow := strings.HasPrefix(n, "*"), strings.HasPrefix(o, "*")
	switch {
	case nw && ow:
		return len(n) >= len(o) && strings.HasSuffix(n[1:], o[1:])
	case nw:
		return false
	case ow:
		return strings.HasSuffix(n, o[1:])
	}
	return n == o
}

// intersect: the more specific host of every (server host, VirtualService host) pair that match.
func intersect(serverHosts []string, vsNs string, vsHosts []string) []string {
	var out []string
	add := func(h string) {
		for _, x := range out {
			if x == h {
				return
			}
		}
		out = append(out, h)
	}
	for _, sh := range serverHosts {
		h, ok := stripNs(sh, vsNs)
		if !ok {
			continue
		}
		for _, o := range vsHosts {
			if subsetOf(h, o) {
				add(h)
			} else if subsetOf(o, h) {
				add(o)
			}
		}
	}
	return out
}

func bareCatchAll(m *networking.HTTPMatchRequest) bool {
	if len(m.Headers)+len(m.WithoutHeaders)+len(m.QueryParams) > 0 || m.Method != nil || m.Authority != nil || m.Scheme != nil {
		return false
	}
	if m.Uri == nil || m.Uri.MatchType == nil {
		return true
	}
	switch u := m.Uri.MatchType.(type) {
	case *networking.StringMatch_Prefix:
		return u.Prefix == "/"
	case *networking.StringMatch_Regex:
		return u.Regex == ".*"
	}
	return false
}

type contributor struct {
	vs    *networking.VirtualService
	cfg   config.Config
	port  int
	isTLS bool
	gw    string
}

// mergedSpec: several VirtualServices on one gateway host - the first specific rule that fires (each
// VirtualService's rules before its own first catch-all), VirtualServices in order; else the first catch-all.
// Every contributor is read in the context of the server it was bound at.
func (s *state) mergedSpec(cs []contributor, q request) string {
	type fb struct {
		c contributor
		h *networking.HTTPRoute
	}
	var fallback *fb
	saveVS, saveCfg, savePort, saveGw, saveTLS := s.vs, s.cfg, s.port, s.gwNames, s.isTLS
	defer func() { s.vs, s.cfg, s.port, s.gwNames, s.isTLS = saveVS, saveCfg, savePort, saveGw, saveTLS }()
	for _, c := range cs {
		s.vs, s.cfg, s.port, s.isTLS, s.gwNames = c.vs, c.cfg, c.port, c.isTLS, sets.New(c.gw)
	rules:
		for _, h := range c.vs.Http {
			if len(h.Match) == 0 {
				if fallback == nil {
					fallback = &fb{c, h}
				}
				break rules
			}
			for _, m := range h.Match {
				if !s.applicable(m) {
					continue
				}
				if bareCatchAll(m) {
					if fallback == nil {
						fallback = &fb{c, h}
					}
					break rules
				}
				if s.matchHolds(m, q) {
					return s.specAction(h)
				}
			}
		}
	}
	if fallback != nil {
		c := fallback.c
		s.vs, s.cfg, s.port, s.isTLS, s.gwNames = c.vs, c.cfg, c.port, c.isTLS, sets.New(c.gw)
		return s.specAction(fallback.h)
	}
	return "404"
}

type specServer struct {
	gw *gwDef
	sv gwServer
}

// specServers: the servers of the current route, gateways in creation order, hosts as documented:
// `./h` = the gateway's namespace, `*/h` = any namespace, `*/*` = everything.
func (s *state) specServers() []specServer {
	g := &s.gw
	var servers []specServer
	for _, gd := range g.gws {
		selected := true // a Gateway resource configures the routers carrying its selector labels
		for k, v := range gd.selector {
			if s.node == nil || s.node.Labels[k] != v {
				selected = false
			}
		}
		if !selected {
			continue
		}
		for _, sv := range gd.servers {
			if gd.routeNameOf(sv) != g.route {
				continue
			}
			var hs []string
			all := false
			for _, h := range sv.hosts {
				switch {
				case h == "*/*":
					all = true
				case strings.HasPrefix(h, "./"):
					hs = append(hs, gd.ns+"/"+h[2:])
				case strings.HasPrefix(h, "*/"):
					hs = append(hs, h[2:])
				default:
					hs = append(hs, h)
				}
			}
			if all {
				hs = []string{"*"}
			}
			sv.hosts = hs
			servers = append(servers, specServer{gd, sv})
		}
	}
	return servers
}

type specDomain struct {
	name string
	cs   []contributor
	tls  bool
}

// gwDomainsSpec: the domains of the route, their contributors (each VirtualService in the context of the server
// it is bound at) and whether plain-text requests are redirected.
func (s *state) gwDomainsSpec() []*specDomain {
	var doms []*specDomain
	get := func(n string) *specDomain {
		for _, d := range doms {
			if d.name == n {
				return d
			}
		}
		d := &specDomain{name: n}
		doms = append(doms, d)
		return d
	}
	saveVS, saveCfg, savePort, saveGw, saveTLS := s.vs, s.cfg, s.port, s.gwNames, s.isTLS
	defer func() { s.vs, s.cfg, s.port, s.gwNames, s.isTLS = saveVS, saveCfg, savePort, saveGw, saveTLS }()
	for _, ss := range s.specServers() {
		for _, v := range s.gwVisibleVss() {
			bound := false
			for _, n := range v.gateways {
				bound = bound || n == ss.gw.fullName()
			}
			if !bound {
				continue
			}
			vs := v.cfg.Spec.(*networking.VirtualService)
			s.port, s.gwNames = ss.sv.port, sets.New(ss.gw.fullName())
			if !s.vsApplies(vs) {
				continue
			}
			c := contributor{vs: vs, cfg: v.cfg, port: ss.sv.port, isTLS: ss.sv.tls, gw: ss.gw.fullName()}
			for _, h := range intersect(ss.sv.hosts, v.cfg.Namespace, vs.Hosts) {
				d := get(strings.ToLower(h))
				d.cs = append(d.cs, c)
				if ss.sv.tls && ss.sv.redirect {
					d.tls = true
				}
			}
		}
		if ss.sv.tls && ss.sv.redirect {
			for _, h := range ss.sv.hosts {
				// the host a client addresses: the server host without its namespace qualifier
				if _, name, found := strings.Cut(h, "/"); found {
					h = name
				}
				get(strings.ToLower(h)).tls = true
			}
		}
	}
	return doms
}

// gwSpec: what should happen to a request arriving at the gateway on this route.
func (s *state) gwSpec(q request) string {
	doms := s.gwDomainsSpec()
	var vhs []*route.VirtualHost
	for _, d := range doms {
		vhs = append(vhs, &route.VirtualHost{Name: d.name, Domains: []string{d.name}})
	}
	vh := selectVHostRef(vhs, stripPort(q.authority))
	if vh == nil {
		return "404"
	}
	for _, d := range doms {
		if d.name == vh.Name {
			if d.tls && q.scheme == "http" {
				return "tls-redirect"
			}
			return s.mergedSpec(d.cs, q)
		}
	}
	return "404"
}

// ---------------------------------------------------------------- generator

var gwHostPool = []string{"api.example.com", "*.example.com", "www.example.com", "*", "*.com", "shop.example.org", "*.example.org", "API.Example.com"}

// concreteHost: an authority a client could send for a (possibly wildcard) domain.
func concreteHost(r *wire.Rng, d string) string {
	if _, name, found := strings.Cut(d, "/"); found {
		d = name
	}
	switch {
	case d == "*":
		return wire.Pick(r, []string{"anything.example.net", "api.example.com", "foo.com"})
	case strings.HasPrefix(d, "*."):
		return wire.Pick(r, []string{"x", "a.b", "www", "api"}) + d[1:]
	}
	return d
}

func genGw(seed uint64, n int, out string) {
	root := wire.NewRng(seed*1000003 + 55)
	o := wire.Create(out)
	defer o.Close()
	st := genStats{}
	for i := 0; i < n; i++ {
		r := root.Fork()
		s := newState()
		o.Line("case", strconv.Itoa(i), "gw")
		nss := []string{"istio-system", "default", "other"}
		proxyNs := wire.Pick(r, nss[:2])
		apiNs := map[string]bool{}
		for _, ms := range []meshSvc{{host: "reviews.default.svc.cluster.local", ns: "default", ports: []int{9080}},
			{host: "ratings.default.svc.cluster.local", ns: "default", ports: []int{8080, 9080}},
			{host: "api.example.com", ns: "other", ports: []int{443}},
			// the same ServiceEntry hostname in a second (and third) namespace, on another port: a VirtualService's
			// destination means the service of ITS namespace
			{host: "api.example.com", ns: "default", ports: []int{8443}},
			{host: "api.example.com", ns: "istio-system", ports: []int{9443}}} {
			if r.Chance(2, 3) {
				f := []string{"gsvc", wire.Enc(ms.host), wire.Enc(ms.ns), wire.EncList(intsToStrs(ms.ports))}
				s.gwStep(f)
				o.Line(f...)
				if ms.host == "api.example.com" {
					apiNs[ms.ns] = true
				}
			}
		}
		sel := []kv{{"istio", "ingressgateway"}}
		// one or two Gateway resources select the same router; plain-text servers of one port share a route name
		type srv struct {
			port  int
			proto string
			name  string
		}
		used := map[int]map[string]bool{}
		var routeNames []string
		var allHosts []string
		ngw := 1 + r.Intn(2)
		for gi := 0; gi < ngw; gi++ {
			gname := []string{"gw", "gw-b"}[gi]
			gns := proxyNs
			if gi == 1 && r.Chance(1, 2) {
				gns = "other"
			}
			f := []string{"gateway", gname, wire.Enc(gns), encPairs(sel)}
			s.gwStep(f)
			o.Line(f...)
			cands := []srv{{80, "HTTP", "http"}, {80, "HTTP", "http-b"}, {8080, "HTTP", "http-alt"}, {443, "HTTPS", "https"}}
			for k, c := range cands {
				if k > 0 && !r.Chance(1, 2) {
					continue
				}
				if used[c.port] == nil {
					used[c.port] = map[string]bool{}
				}
				var hosts []string
				for _, h := range wire.Subset(r, gwHostPool, 1, 3) {
					if used[c.port][strings.ToLower(h)] {
						continue // a host never repeats on one port (MergeGateways drops servers with duplicate TLS hosts)
					}
					used[c.port][strings.ToLower(h)] = true
					allHosts = append(allHosts, h)
					switch r.Intn(6) {
					case 0:
						h = wire.Pick(r, nss) + "/" + h
					case 1:
						h = "*/" + h
					case 2:
						h = "./" + h
					}
					hosts = append(hosts, h)
				}
				if len(hosts) == 0 {
					continue
				}
				tls, redirect := "0", "0"
				if c.proto == "HTTP" && r.Chance(1, 6) {
					tls = "1"
					redirect = wire.B(r.Chance(2, 3))
				}
				f := []string{"server", strconv.Itoa(c.port), c.proto, c.name + strconv.Itoa(gi), wire.EncList(hosts), tls, redirect}
				s.gwStep(f)
				o.Line(f...)
				gd := s.gw.last()
				rn := gd.routeNameOf(gd.servers[len(gd.servers)-1])
				dup := false
				for _, x := range routeNames {
					dup = dup || x == rn
				}
				if !dup {
					routeNames = append(routeNames, rn)
				}
			}
		}
		var gwNames []string
		for _, gd := range s.gw.gws {
			gwNames = append(gwNames, gd.fullName())
		}
		// VirtualServices: bound to one gateway, to both, to a gateway that does not exist, or also to the mesh
		nvs := 1 + r.Intn(4)
		merged := &networking.VirtualService{}
		type vsHosts struct {
			vs    *networking.VirtualService
			hosts []string
		}
		var perVS []vsHosts
		usedVS := map[string]bool{}
		for k := 0; k < nvs; k++ {
			gws := []string{wire.Pick(r, gwNames)}
			switch r.Intn(10) {
			case 0:
				gws = []string{"other/gw2"}
			case 1:
				gws = []string{"mesh", gwNames[0]}
			case 2, 3, 4, 5:
				gws = append([]string(nil), gwNames...)
			}
			for tries := 0; tries < 20; tries++ {
				hosts := wire.Subset(r, gwHostPool, 1, 4)
				// mostly hosts some server of the case exposes (or a concrete host below a wildcard one)
				for len(hosts) < 2 && len(allHosts) > 0 && r.Chance(4, 5) {
					h := wire.Pick(r, allHosts)
					if r.Chance(1, 3) {
						h = concreteHost(r, h)
					}
					hosts = append(hosts, h)
				}
				if len(hosts) == 0 {
					hosts = []string{wire.Pick(r, gwHostPool)}
				}
				// the validator rejects hosts that overlap each other inside one VirtualService
				var hs []string
				for _, h := range hosts {
					ok := true
					for _, x := range hs {
						if host.Name(strings.ToLower(h)).Matches(host.Name(strings.ToLower(x))) {
							ok = false
						}
					}
					if ok {
						hs = append(hs, h)
					}
				}
				// VirtualServices are identified by name AND namespace: the same name may be used in two namespaces
				vsName, vsNs := "gvs"+strconv.Itoa(k), wire.Pick(r, nss)
				if k > 0 && r.Chance(1, 3) {
					vsName = "gvs" + strconv.Itoa(r.Intn(k))
					for range nss {
						if usedVS[vsNs+"/"+vsName] {
							vsNs = nss[(indexOf(nss, vsNs)+1)%len(nss)]
						}
					}
					if usedVS[vsNs+"/"+vsName] {
						vsName = "gvs" + strconv.Itoa(k)
					}
				}
				vsf := []string{"vs", vsName, vsNs, "plain", wire.EncList(hs)}
				s.apply(vsf)
				s.vs.Gateways = gws
				nr := 1 + r.Intn(3)
				for j := 0; j < nr; j++ {
					h := genRule(r, "requests", j, false, false)
					for _, m := range h.Match {
						// rules restricted to one of the bound gateways (match.gateways), to another gateway, or to the mesh
						m.Gateways = nil
						if r.Chance(1, 3) {
							m.Gateways = wire.Subset(r, append([]string{"other/gw2", "mesh"}, gwNames...), 1, 2)
							if len(m.Gateways) == 0 {
								m.Gateways = []string{wire.Pick(r, gwNames)}
							}
						}
						m.SourceLabels = nil
						if r.Chance(1, 8) {
							m.SourceLabels = map[string]string{"istio": wire.Pick(r, []string{"ingressgateway", "egressgateway"})}
						}
						if m.Port != 0 {
							m.Port = uint32(wire.Pick(r, []int{80, 8080, 443}))
						}
						m.SourceNamespace = ""
						// JWT-claim keys (gateway-bound VirtualServices only): dynamic-metadata matchers
						if r.Chance(1, 4) {
							key := wire.Pick(r, []string{"@request.auth.claims.groups", "@request.auth.claims[sub]", "@request.auth.claims.nested.role",
								"@Request.Auth.Claims[groups]"})
							sm := wire.Pick(r, []*networking.StringMatch{mkSM(0, "admin"), mkSM(0, "jason"), mkSM(1, "ad"), mkSM(2, "(admin|dev)"), mkSM(2, "j.*")})
							if r.Chance(1, 3) {
								if m.WithoutHeaders == nil {
									m.WithoutHeaders = map[string]*networking.StringMatch{}
								}
								m.WithoutHeaders[key] = sm
							} else {
								if m.Headers == nil {
									m.Headers = map[string]*networking.StringMatch{}
								}
								m.Headers[key] = sm
							}
							if r.Chance(1, 3) { // the claim as the only condition: must not be taken for a catch-all
								m.Uri, m.Method, m.Authority, m.Scheme, m.QueryParams = nil, nil, nil, nil, nil
								for k := range m.Headers {
									if _, ok := claimKey(k); !ok {
										delete(m.Headers, k)
									}
								}
								for k := range m.WithoutHeaders {
									if _, ok := claimKey(k); !ok {
										delete(m.WithoutHeaders, k)
									}
								}
							}
						}
					}
					// which of several same-named services a VirtualService of a THIRD namespace means is not specified:
					// there the destination names its port
					if len(apiNs) > 1 && !apiNs[s.cfg.Namespace] {
						for _, d := range h.Route {
							if d.Destination.Host == "api.example.com" && d.Destination.Port == nil {
								d.Destination.Port = &networking.PortSelector{Number: 443}
							}
						}
					}
					s.vs.Http = append(s.vs.Http, h)
				}
				st.generated++
				if _, err := validation.ValidateVirtualService(s.cfg); err != nil {
					st.rejected++
					continue
				}
				o.Line(vsf...)
				for _, h := range s.vs.Http {
					emitRule(o, h)
				}
				gf := []string{"gvs", wire.EncList(gws)}
				if r.Chance(1, 5) { // exportTo: everywhere, its own namespace only, the router's namespace, another one
					gf = append(gf, wire.EncList(wire.Pick(r, [][]string{{"*"}, {"."}, {proxyNs}, {"other"}, {".", proxyNs}})))
				}
				s.gwStep(gf)
				o.Line(gf...)
				usedVS[s.cfg.Namespace+"/"+s.cfg.Name] = true
				merged.Http = append(merged.Http, s.vs.Http...)
				allHosts = append(allHosts, hs...)
				perVS = append(perVS, vsHosts{vs: s.vs, hosts: hs})
				break
			}
		}
		if r.Chance(1, 10) {
			routeNames = append(routeNames, wire.Pick(r, []string{"http.9999", "https.443.https0.nosuch.default"})) // no server listens there
		}
		for _, rn := range routeNames {
			labels := sel
			if r.Chance(1, 12) {
				labels = []kv{{"istio", "egressgateway"}} // a router no Gateway resource selects: no route configuration at all
			}
			o.Line("grds", wire.Enc(proxyNs), encPairs(labels), wire.Enc(rn))
			// the domains of this route that VirtualServices answer for (spec side; the real code is not consulted)
			s.gw.route = rn
			s.node = &model.Proxy{Type: model.Router, Labels: pairsMap(labels), Metadata: &model.NodeMetadata{Namespace: proxyNs}}
			var answered []*specDomain
			for _, d := range s.gwDomainsSpec() {
				if len(d.cs) > 0 {
					answered = append(answered, d)
				}
			}
			nreq := 5 + r.Intn(5)
			if len(answered) == 0 {
				nreq = 2 // nothing but 404 / the https redirect to be seen here
			}
			for k := 0; k < nreq; k++ {
				q := synthRequests(r, merged, 1)[0]
				// mostly: a request aimed at one VirtualService that answers on THIS route, addressed to a domain it answers
				// for; else aimed at any VirtualService and one of its hosts; else any covered host
				if r.Chance(3, 4) && len(answered) > 0 {
					d := wire.Pick(r, answered)
					q = synthRequests(r, wire.Pick(r, d.cs).vs, 1)[0]
					q.authority = concreteHost(r, d.name)
				} else if r.Chance(3, 5) && len(perVS) > 0 {
					v := wire.Pick(r, perVS)
					q = synthRequests(r, v.vs, 1)[0]
					q.authority = concreteHost(r, wire.Pick(r, v.hosts))
				} else if r.Chance(1, 2) && len(allHosts) > 0 {
					q.authority = concreteHost(r, wire.Pick(r, allHosts))
				} else {
					q.authority = wire.Pick(r, []string{"api.example.com", "x.example.com", "example.com", "a.b.example.org", "foo.com", "unknown.net",
						"default/api.example.com"})
				}
				switch r.Intn(8) {
				case 0:
					q.authority = flipCase(r, q.authority)
				case 1:
					q.authority += ":" + wire.Pick(r, []string{"80", "8080", "443", "1234"})
				}
				if strings.HasPrefix(rn, "https") || r.Chance(1, 6) {
					q.scheme = wire.Pick(r, []string{"https", "https", "http"})
				}
				switch r.Intn(5) {
				case 0:
					q.claims = []kv{{"groups", "admin"}, {"groups", "dev"}, {"sub", "jason"}}
				case 1:
					q.claims = []kv{{"sub", "jason"}, {"nested.role", "admin"}}
				case 2:
					q.claims = []kv{{"groups", "ops"}, {"sub", "mallory"}}
				}
				o.Line("greq", wire.Enc(q.path), encPairs(q.query), wire.Enc(q.method), wire.Enc(q.authority), wire.Enc(q.scheme), encPairs(q.headers),
					encPairs(regexTable(merged, q)), encPairs(q.claims))
			}
		}
	}
	if f, err := os.Create(out + ".stats"); err == nil {
		fmt.Fprintf(f, "generated %d\nrejected %d\nmalformed %d\n", st.generated, st.rejected, st.malformed)
		f.Close()
	}
}

// ---------------------------------------------------------------- oracle

func oracleGw(in, out string) {
	lines := wire.ReadLines(in)
	o := wire.Create(out)
	defer o.Close()
	s := newState()
	var v verdicts
	started := false
	flush := func() {
		if started {
			o.Line(v.line())
		}
		v = verdicts{}
	}
	for _, f := range lines {
		func() {
			defer func() {
				if r := recover(); r != nil {
					v.fail("crash", "op="+f[0])
				}
			}()
			switch {
			case f[0] == "case":
				flush()
				started = true
				s.reset()
			case s.apply(f):
			case f[0] == "greq":
				got, _ := s.gwStep(f)
				if got == "no-grds" {
					return
				}
				q := parseReq(f)
				want := s.gwSpec(q)
				if got != want {
					v.fail("gateway-decision", fmt.Sprintf("route=%s want=%s got=%s authority=%s path=%s scheme=%s", s.gw.route, want, got, f[4], f[1], f[5]))
				}
			default:
				s.gwStep(f)
			}
		}()
	}
	flush()
}
