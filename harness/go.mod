module verifharness

go 1.26.0

require istio.io/istio v0.0.0

replace istio.io/istio => /repo

// All requirements of /repo/go.mod are copied here so that `go build -mod=mod` never needs to
// rewrite this file (several checks build concurrently). Extra harness-only modules go below.
require (
	cloud.google.com/go/compute/metadata v0.9.0
	github.com/AdaLogics/go-fuzz-headers v0.0.0-20240806141605-e8a1dd7889d6
	github.com/KimMachineGun/automemlimit v0.7.5
	github.com/Masterminds/semver/v3 v3.5.0
	github.com/Masterminds/sprig/v3 v3.3.0
	github.com/agentgateway/agentgateway/api v0.0.0-20260501213430-773586679f1c
	github.com/alecholmes/xfccparser v0.4.0
	github.com/cbeuw/connutil v1.0.1
	github.com/cenkalti/backoff/v4 v4.3.0
	github.com/cespare/xxhash/v2 v2.3.0
	github.com/cheggaaa/pb/v3 v3.1.7
	github.com/cncf/xds/go v0.0.0-20260202195803-dba9d589def2
	github.com/containernetworking/cni v1.3.0
	github.com/containernetworking/plugins v1.9.1
	github.com/coreos/go-oidc/v3 v3.18.0
	github.com/davecgh/go-spew v1.1.2-0.20180830191138-d8f796af33cc
	github.com/docker/cli v29.5.2+incompatible
	github.com/envoyproxy/go-control-plane/contrib v1.36.1-0.20260731231718-6c0b035a1609
	github.com/envoyproxy/go-control-plane/envoy v1.37.1-0.20260731231718-6c0b035a1609
	github.com/evanphx/json-patch/v5 v5.9.11
	github.com/fatih/color v1.19.0
	github.com/felixge/fgprof v0.9.5
	github.com/fsnotify/fsnotify v1.10.1
	github.com/go-jose/go-jose/v4 v4.1.4
	github.com/go-logr/logr v1.4.3
	github.com/gogo/protobuf v1.3.2
	github.com/golang/protobuf v1.5.4
	github.com/google/cel-go v0.28.1
	github.com/google/go-cmp v0.7.0
	github.com/google/go-containerregistry v0.21.6
	github.com/google/gofuzz v1.2.0
	github.com/google/shlex v0.0.0-20191202100458-e7afc7fbc510
	github.com/google/uuid v1.6.0
	github.com/gorilla/mux v1.8.1
	github.com/gorilla/websocket v1.5.4-0.20250319132907-e064f32e3674
	github.com/grpc-ecosystem/go-grpc-middleware/v2 v2.3.3
	github.com/grpc-ecosystem/go-grpc-prometheus v1.2.0
	github.com/hashicorp/go-multierror v1.1.1
	github.com/hashicorp/go-version v1.9.0
	github.com/hashicorp/golang-lru/v2 v2.0.7
	github.com/howardjohn/unshare-go v0.5.0
	github.com/klauspost/compress v1.18.6
	github.com/lestrrat-go/jwx v1.2.31
	github.com/mattn/go-isatty v0.0.22
	github.com/miekg/dns v1.1.72
	github.com/mitchellh/copystructure v1.2.0
	github.com/moby/buildkit v0.30.0
	github.com/onsi/gomega v1.41.0
	github.com/openshift/api v0.0.0-20260501191448-a49973eaef53
	github.com/pires/go-proxyproto v0.12.0
	github.com/planetscale/vtprotobuf v0.6.1-0.20240409071808-615f978279ca
	github.com/pmezard/go-difflib v1.0.1-0.20181226105442-5d4384ee4fb2
	github.com/prometheus/client_golang v1.23.2
	github.com/prometheus/client_model v0.6.2
	github.com/prometheus/common v0.67.5
	github.com/prometheus/procfs v0.20.1
	github.com/prometheus/prometheus v0.311.3
	github.com/quic-go/quic-go v0.59.1
	github.com/ryanuber/go-glob v1.0.0
	github.com/spf13/cobra v1.10.2
	github.com/spf13/pflag v1.0.10
	github.com/spf13/viper v1.21.0
	github.com/stoewer/go-strcase v1.3.1
	github.com/stretchr/testify v1.11.1
	github.com/vishvananda/netlink v1.3.1
	github.com/vishvananda/netns v0.0.5
	github.com/yl2chen/cidranger v1.0.2
	go.opentelemetry.io/otel v1.43.0
	go.opentelemetry.io/otel/exporters/otlp/otlptrace v1.43.0
	go.opentelemetry.io/otel/exporters/otlp/otlptrace/otlptracegrpc v1.43.0
	go.opentelemetry.io/otel/exporters/otlp/otlptrace/otlptracehttp v1.43.0
	go.opentelemetry.io/otel/exporters/prometheus v0.65.0
	go.opentelemetry.io/otel/metric v1.43.0
	go.opentelemetry.io/otel/sdk v1.43.0
	go.opentelemetry.io/otel/sdk/metric v1.43.0
	go.opentelemetry.io/otel/trace v1.43.0
	go.opentelemetry.io/proto/otlp v1.11.0
	go.uber.org/atomic v1.11.0
	go.uber.org/zap v1.28.0
	golang.org/x/net v0.57.0
	golang.org/x/oauth2 v0.36.0
	golang.org/x/sync v0.22.0
	golang.org/x/sys v0.47.0
	golang.org/x/time v0.15.0
	gomodules.xyz/jsonpatch/v2 v2.5.0
	google.golang.org/genproto/googleapis/api v0.0.0-20260720211330-0afa2a65878a
	google.golang.org/genproto/googleapis/rpc v0.0.0-20260720211330-0afa2a65878a
	google.golang.org/grpc v1.82.1
	google.golang.org/protobuf v1.36.12-0.20260120151049-f2248ac996af
	gopkg.in/natefinch/lumberjack.v2 v2.2.1
	gopkg.in/yaml.v2 v2.4.0
	gopkg.in/yaml.v3 v3.0.1
	helm.sh/helm/v4 v4.2.0
	istio.io/api v1.31.0-alpha.1.0.20260819121012-5803fb6accf7
	istio.io/client-go v1.31.0-alpha.0.0.20260807010324-676a810f2c1f
	k8s.io/api v0.36.1
	k8s.io/apiextensions-apiserver v0.36.1
	k8s.io/apimachinery v0.36.1
	k8s.io/apiserver v0.36.1
	k8s.io/cli-runtime v0.36.0
	k8s.io/client-go v0.36.1
	k8s.io/component-helpers v0.36.0
	k8s.io/klog/v2 v2.140.0
	k8s.io/kubectl v0.36.0
	k8s.io/streaming v0.36.1
	k8s.io/utils v0.0.0-20260319190234-28399d86e0b5
	sigs.k8s.io/controller-runtime v0.24.1
	sigs.k8s.io/gateway-api v1.6.0
	sigs.k8s.io/gateway-api-inference-extension v1.5.0
	sigs.k8s.io/gateway-api/conformance v1.6.0
	sigs.k8s.io/knftables v0.0.21
	sigs.k8s.io/mcs-api v0.4.1
	sigs.k8s.io/yaml v1.6.0
)

require (
	cel.dev/expr v0.25.1 // indirect
	dario.cat/mergo v1.0.2 // indirect
	github.com/Azure/go-ansiterm v0.0.0-20250102033503-faa5f7b0171c // indirect
	github.com/BurntSushi/toml v1.6.0 // indirect
	github.com/MakeNowJust/heredoc v1.0.0 // indirect
	github.com/Masterminds/goutils v1.1.1 // indirect
	github.com/VividCortex/ewma v1.2.0 // indirect
	github.com/alecthomas/participle/v2 v2.1.4 // indirect
	github.com/antlr4-go/antlr/v4 v4.13.1 // indirect
	github.com/beorn7/perks v1.0.1 // indirect
	github.com/blang/semver/v4 v4.0.0 // indirect
	github.com/cenkalti/backoff/v5 v5.0.3 // indirect
	github.com/chai2010/gettext-go v1.0.3 // indirect
	github.com/containerd/typeurl/v2 v2.2.3 // indirect
	github.com/cpuguy83/go-md2man/v2 v2.0.7 // indirect
	github.com/creack/pty v1.1.24 // indirect
	github.com/decred/dcrd/dcrec/secp256k1/v4 v4.4.0 // indirect
	github.com/dlclark/regexp2 v1.11.5 // indirect
	github.com/docker/docker-credential-helpers v0.9.5 // indirect
	github.com/emicklei/go-restful/v3 v3.13.0 // indirect
	github.com/envoyproxy/protoc-gen-validate v1.3.3 // indirect
	github.com/exponent-io/jsonpath v0.0.0-20210407135951-1de76d718b3f // indirect
	github.com/fatih/camelcase v1.0.0 // indirect
	github.com/felixge/httpsnoop v1.0.4 // indirect
	github.com/fxamacker/cbor/v2 v2.9.1 // indirect
	github.com/go-errors/errors v1.5.1 // indirect
	github.com/go-logr/stdr v1.2.2 // indirect
	github.com/go-logr/zapr v1.3.0 // indirect
	github.com/go-openapi/jsonpointer v0.23.1 // indirect
	github.com/go-openapi/jsonreference v0.21.5 // indirect
	github.com/go-openapi/swag v0.26.0 // indirect
	github.com/go-openapi/swag/cmdutils v0.26.0 // indirect
	github.com/go-openapi/swag/conv v0.26.0 // indirect
	github.com/go-openapi/swag/fileutils v0.26.0 // indirect
	github.com/go-openapi/swag/jsonname v0.26.0 // indirect
	github.com/go-openapi/swag/jsonutils v0.26.0 // indirect
	github.com/go-openapi/swag/loading v0.26.0 // indirect
	github.com/go-openapi/swag/mangling v0.26.0 // indirect
	github.com/go-openapi/swag/netutils v0.26.0 // indirect
	github.com/go-openapi/swag/stringutils v0.26.0 // indirect
	github.com/go-openapi/swag/typeutils v0.26.0 // indirect
	github.com/go-openapi/swag/yamlutils v0.26.0 // indirect
	github.com/go-viper/mapstructure/v2 v2.5.0 // indirect
	github.com/gobwas/glob v0.2.3 // indirect
	github.com/goccy/go-json v0.10.5 // indirect
	github.com/google/btree v1.1.3 // indirect
	github.com/google/gnostic-models v0.7.1 // indirect
	github.com/google/pprof v0.0.0-20260302011040-a15ffb7f9dcc // indirect
	github.com/grafana/regexp v0.0.0-20250905093917-f7b3be9d1853 // indirect
	github.com/grpc-ecosystem/grpc-gateway/v2 v2.29.0 // indirect
	github.com/hashicorp/errwrap v1.1.0 // indirect
	github.com/huandu/xstrings v1.5.0 // indirect
	github.com/inconshreveable/mousetrap v1.1.0 // indirect
	github.com/json-iterator/go v1.1.12 // indirect
	github.com/lestrrat-go/backoff/v2 v2.0.8 // indirect
	github.com/lestrrat-go/blackmagic v1.0.4 // indirect
	github.com/lestrrat-go/httpcc v1.0.1 // indirect
	github.com/lestrrat-go/iter v1.0.2 // indirect
	github.com/lestrrat-go/option v1.0.1 // indirect
	github.com/liggitt/tabwriter v0.0.0-20181228230101-89fcab3d43de // indirect
	github.com/mattn/go-colorable v0.1.14 // indirect
	github.com/mattn/go-runewidth v0.0.17 // indirect
	github.com/mitchellh/go-wordwrap v1.0.1 // indirect
	github.com/mitchellh/reflectwalk v1.0.2 // indirect
	github.com/moby/spdystream v0.5.1 // indirect
	github.com/moby/term v0.5.2 // indirect
	github.com/modern-go/concurrent v0.0.0-20180306012644-bacd9c7ef1dd // indirect
	github.com/modern-go/reflect2 v1.0.3-0.20250322232337-35a7c28c31ee // indirect
	github.com/monochromegane/go-gitignore v0.0.0-20200626010858-205db1a8cc00 // indirect
	github.com/munnerz/goautoneg v0.0.0-20191010083416-a7dc8b61c822 // indirect
	github.com/opencontainers/go-digest v1.0.0 // indirect
	github.com/opencontainers/image-spec v1.1.1 // indirect
	github.com/pbnjay/memory v0.0.0-20210728143218-7b4eea64cf58 // indirect
	github.com/pelletier/go-toml/v2 v2.2.4 // indirect
	github.com/peterbourgon/diskv v2.0.1+incompatible // indirect
	github.com/pkg/errors v0.9.1 // indirect
	github.com/prometheus/otlptranslator v1.0.0 // indirect
	github.com/quic-go/qpack v0.6.0 // indirect
	github.com/rivo/uniseg v0.4.7 // indirect
	github.com/russross/blackfriday/v2 v2.1.0 // indirect
	github.com/sagikazarmark/locafero v0.11.0 // indirect
	github.com/santhosh-tekuri/jsonschema/v6 v6.0.2 // indirect
	github.com/shopspring/decimal v1.4.0 // indirect
	github.com/sirupsen/logrus v1.9.4 // indirect
	github.com/sourcegraph/conc v0.3.1-0.20240121214520-5f936abd7ae8 // indirect
	github.com/spf13/afero v1.15.0 // indirect
	github.com/spf13/cast v1.10.0 // indirect
	github.com/spiffe/go-spiffe/v2 v2.6.0 // indirect
	github.com/stretchr/objx v0.5.2 // indirect
	github.com/subosito/gotenv v1.6.0 // indirect
	github.com/x448/float16 v0.8.4 // indirect
	github.com/xlab/treeprint v1.2.0 // indirect
	go.opentelemetry.io/auto/sdk v1.2.1 // indirect
	go.opentelemetry.io/contrib/instrumentation/net/http/otelhttp v0.68.0 // indirect
	go.uber.org/multierr v1.11.0 // indirect
	go.yaml.in/yaml/v2 v2.4.4 // indirect
	go.yaml.in/yaml/v3 v3.0.4 // indirect
	golang.org/x/crypto v0.54.0 // indirect
	golang.org/x/exp v0.0.0-20260218203240-3dfff04db8fa // indirect
	golang.org/x/mod v0.37.0 // indirect
	golang.org/x/term v0.45.0 // indirect
	golang.org/x/text v0.40.0 // indirect
	golang.org/x/tools v0.47.0 // indirect
	gopkg.in/evanphx/json-patch.v4 v4.13.0 // indirect
	gopkg.in/inf.v0 v0.9.1 // indirect
	k8s.io/component-base v0.36.1 // indirect
	k8s.io/kube-openapi v0.0.0-20260501160325-927ab1f70cd6 // indirect
	sigs.k8s.io/apiserver-network-proxy/konnectivity-client v0.34.0 // indirect
	sigs.k8s.io/json v0.0.0-20250730193827-2d320260d730 // indirect
	sigs.k8s.io/kustomize/api v0.21.1 // indirect
	sigs.k8s.io/kustomize/kyaml v0.21.1 // indirect
	sigs.k8s.io/randfill v1.0.0 // indirect
	sigs.k8s.io/structured-merge-diff/v6 v6.4.0 // indirect
)
