package main

// Stream `cmp`: the real comparators and ordered folds on random inputs.
//
//	svc  <id;time;name;ns;obj;host;addr,...> model.SortServicesByCreationTime          -> ids in order
//	cfg  <id;time;name;ns;sel,...>         sortConfigByCreationTime (hook)             -> ids, ties grouped
//	dr   <id;time;name;ns;sel,...>         sortConfigBySelectorAndCreationTime (hook)  -> ids, ties grouped
//	keys <provider;cluster,...>            EndpointShards.Keys                          -> keys in order
//	set  <s,...>                           sets.SortedList                              -> strings in order
//	eds  <provider;cluster;id@loc,...> ... EndpointIndex + EndpointBuilder (Keys, generate) -> loc:id+id,...
//	push <type,...>                        Connection.watchedResourcesByOrder (hook)    -> known|tail
//	hdr  <name@m,...> <name@m,...> <name@m,...> <mas>   route.TranslateRouteMatch      -> h=.. m=.. q=..
//	pick <ns;kube;time;vis,...> <configNs>  pickBestVisibleNamespace (hook)             -> namespace
//	wl   <id;time;uid,...>                  model.SortWorkloadsByCreationTime           -> ids in order
//	slices <name;key@id,...> ...            endpointSliceCache Update*/Get (hook)       -> key@id,...
//
// "ties grouped": slices.SortFunc is not stable, so ids of elements that compare equal are printed as
// one group `a=b` (ascending ids); everything else is printed in the order the real code produced.

import (
	"fmt"
	"regexp"
	"sort"
	"strconv"
	"strings"
	"time"

	route "github.com/envoyproxy/go-control-plane/envoy/config/route/v3"
	"google.golang.org/protobuf/proto"

	networking "istio.io/api/networking/v1alpha3"
	typev1beta1 "istio.io/api/type/v1beta1"
	kubegateway "istio.io/istio/pilot/pkg/config/kube/gateway"
	"istio.io/istio/pilot/pkg/model"
	istioroute "istio.io/istio/pilot/pkg/networking/core/route"
	kubecontroller "istio.io/istio/pilot/pkg/serviceregistry/kube/controller"
	"istio.io/istio/pilot/pkg/serviceregistry/provider"
	pxds "istio.io/istio/pilot/pkg/xds"
	"istio.io/istio/pilot/pkg/xds/endpoints"
	v3 "istio.io/istio/pilot/pkg/xds/v3"
	txds "istio.io/istio/pilot/test/xds"
	"istio.io/istio/pkg/cluster"
	"istio.io/istio/pkg/config"
	"istio.io/istio/pkg/config/host"
	"istio.io/istio/pkg/config/protocol"
	"istio.io/istio/pkg/config/schema/gvk"
	"istio.io/istio/pkg/config/visibility"
	"istio.io/istio/pkg/jwt"
	"istio.io/istio/pkg/util/sets"
	"istio.io/istio/pkg/workloadapi"
	"verifharness/internal/wire"
)

// ---------------------------------------------------------------- wire helpers

func fields(elem string) []string {
	p := strings.Split(elem, ";")
	for i := range p {
		p[i] = wire.Dec(p[i])
	}
	return p
}

func elems(tok string) []string {
	if tok == "-" {
		return nil
	}
	return strings.Split(tok, ",")
}

func joinElems(l []string) string {
	if len(l) == 0 {
		return "-"
	}
	return strings.Join(l, ",")
}

func atoi(s string) int { n, _ := strconv.Atoi(s); return n }

var typeShort = []string{"CDS", "EDS", "LDS", "RDS", "SDS", "WDS", "WL", "WAUTH", "ECDS", "NDS", "PCDS", "BDS", "HDS"}

var typeURL = map[string]string{
	"CDS": v3.ClusterType, "EDS": v3.EndpointType, "LDS": v3.ListenerType, "RDS": v3.RouteType,
	"SDS": v3.SecretType, "WDS": v3.AddressType, "WL": v3.WorkloadType, "WAUTH": v3.WorkloadAuthorizationType,
	"ECDS": v3.ExtensionConfigurationType, "NDS": v3.NameTableType, "PCDS": v3.ProxyConfigType,
	"BDS": v3.BootstrapType, "HDS": v3.HealthInfoType,
}

func shortOf(url string) string {
	for s, u := range typeURL {
		if u == url {
			return s
		}
	}
	return "?" + url
}

// ---------------------------------------------------------------- the real functions

type cmpSUT struct {
	f     *failer
	s     *txds.FakeDiscoveryServer
	proxy *model.Proxy
	prev  []model.ShardKey
}

const edsHost = "svc.default.svc.cluster.local"

func (c *cmpSUT) server() *txds.FakeDiscoveryServer {
	if c.s == nil {
		c.f = &failer{}
		svc := &model.Service{
			Hostname:       host.Name(edsHost),
			DefaultAddress: "10.9.0.1",
			Ports:          model.PortList{{Name: "http", Port: 80, Protocol: protocol.HTTP}},
			Resolution:     model.ClientSideLB,
			Attributes:     model.ServiceAttributes{Name: "svc", Namespace: "default"},
		}
		c.s = txds.NewFakeDiscoveryServer(c.f, txds.FakeOptions{Services: []*model.Service{svc}})
		c.proxy = c.s.SetupProxy(&model.Proxy{ConfigNamespace: "default"})
	}
	return c.s
}

func (c *cmpSUT) close() {
	if c.f != nil {
		c.f.done()
	}
}

func idIP(id int) string { return fmt.Sprintf("10.%d.%d.%d", 1+id/62500, (id/250)%250, id%250+1) }

func ipID(ip string) int {
	var a, b, c int
	fmt.Sscanf(ip, "10.%d.%d.%d", &a, &b, &c)
	return (a-1)*62500 + b*250 + c - 1
}

func timeOf(t int) time.Time { return time.Unix(int64(1700000000+t), 0) }

func groupTies(ids []int, tie func(i, j int) bool) string {
	// ids in result order; tie(i, j) on positions
	var groups []string
	i := 0
	for i < len(ids) {
		j := i + 1
		for j < len(ids) && tie(i, j) {
			j++
		}
		g := append([]int(nil), ids[i:j]...)
		sort.Ints(g)
		ss := make([]string, len(g))
		for k, x := range g {
			ss[k] = strconv.Itoa(x)
		}
		groups = append(groups, strings.Join(ss, "="))
		i = j
	}
	return joinElems(groups)
}

func buildServices(tok string) ([]*model.Service, map[*model.Service]int) {
	ids := map[*model.Service]int{}
	var l []*model.Service
	for _, e := range elems(tok) {
		f := fields(e)
		s := &model.Service{
			Hostname:       host.Name(f[5]),
			DefaultAddress: f[6],
			CreationTime:   timeOf(atoi(f[1])),
			Attributes:     model.ServiceAttributes{Name: f[2], Namespace: f[3], K8sAttributes: model.K8sAttributes{ObjectName: f[4]}},
		}
		ids[s] = atoi(f[0])
		l = append(l, s)
	}
	return l, ids
}

func buildConfigs(tok string, dr bool) []config.Config {
	var l []config.Config
	for _, e := range elems(tok) {
		f := fields(e)
		c := config.Config{Meta: config.Meta{
			GroupVersionKind:  gvk.VirtualService,
			Name:              f[2],
			Namespace:         f[3],
			CreationTimestamp: timeOf(atoi(f[1])),
			Annotations:       map[string]string{"id": f[0]},
		}}
		if dr {
			c.GroupVersionKind = gvk.DestinationRule
			spec := &networking.DestinationRule{Host: "h" + f[0]}
			if f[4] == "1" {
				spec.WorkloadSelector = &typev1beta1.WorkloadSelector{MatchLabels: map[string]string{"app": "x"}}
			}
			c.Spec = spec
		} else {
			c.Spec = &networking.VirtualService{}
		}
		l = append(l, c)
	}
	return l
}

func cfgIDs(l []config.Config) []int {
	out := make([]int, len(l))
	for i, c := range l {
		out[i] = atoi(c.Annotations["id"])
	}
	return out
}

func sameMeta(a, b config.Config) bool {
	return a.CreationTimestamp.Equal(b.CreationTimestamp) && a.Name == b.Name && a.Namespace == b.Namespace
}

func hasSel(c config.Config) bool {
	return c.Spec.(*networking.DestinationRule).GetWorkloadSelector() != nil
}

type nm struct {
	name string
	m    int
}

func parseNM(tok string) []nm {
	var out []nm
	for _, e := range elems(tok) {
		i := strings.LastIndex(e, "@")
		out = append(out, nm{wire.Dec(e[:i]), atoi(e[i+1:])})
	}
	return out
}

func buildMatch(f []string) *networking.HTTPMatchRequest {
	in := &networking.HTTPMatchRequest{}
	mk := func(l []nm) map[string]*networking.StringMatch {
		if len(l) == 0 {
			return nil
		}
		m := map[string]*networking.StringMatch{}
		for _, x := range l {
			m[x.name] = &networking.StringMatch{MatchType: &networking.StringMatch_Exact{Exact: "v" + strconv.Itoa(x.m)}}
		}
		return m
	}
	in.Headers = mk(parseNM(f[1]))
	in.WithoutHeaders = mk(parseNM(f[2]))
	in.QueryParams = mk(parseNM(f[3]))
	ex := func(s string) *networking.StringMatch {
		return &networking.StringMatch{MatchType: &networking.StringMatch_Exact{Exact: s}}
	}
	if f[4][0] == '1' {
		in.Method = ex("GET")
	}
	if f[4][1] == '1' {
		in.Authority = ex("a.example.com")
	}
	if f[4][2] == '1' {
		in.Scheme = ex("https")
	}
	return in
}

var exactRe = regexp.MustCompile(`exact:"v(\d+)"`)

func valueID(m proto.Message) int {
	if m == nil {
		return 0
	}
	x := exactRe.FindStringSubmatch(fmt.Sprint(m))
	if x == nil {
		return 0
	}
	return atoi(x[1])
}

// showMatch prints the three lists of a generated RouteMatch in the order generated.
func showMatch(f []string, out *route.RouteMatch) string {
	// claim path -> header name, through the real classifier
	claimName := map[string]string{}
	for _, tok := range []string{f[1], f[2]} {
		for _, x := range parseNM(tok) {
			if rc := jwt.ToRoutingClaim(x.name); rc.Match {
				claimName[strings.Join(rc.Claims, "\x00")] = x.name
			}
		}
	}
	el := func(name string, inv bool, m int) string {
		s := wire.Enc(name) + "@" + strconv.Itoa(m)
		if inv {
			s = "!" + s
		}
		return s
	}
	var hs []string
	for _, h := range out.Headers {
		m := 0
		if !strings.HasPrefix(h.Name, ":") {
			m = valueID(h.GetStringMatch())
		}
		hs = append(hs, el(h.Name, h.InvertMatch, m))
	}
	var ms []string
	for _, d := range out.DynamicMetadata {
		var claims []string
		for _, p := range d.Path[1:] {
			claims = append(claims, p.GetKey())
		}
		name, ok := claimName[strings.Join(claims, "\x00")]
		if !ok {
			name = "?" + strings.Join(claims, ".")
		}
		ms = append(ms, el(name, d.Invert, valueID(d.Value)))
	}
	var qs []string
	for _, q := range out.QueryParameters {
		qs = append(qs, el(q.Name, false, valueID(q.GetStringMatch())))
	}
	return "h=" + joinElems(hs) + " m=" + joinElems(ms) + " q=" + joinElems(qs)
}

func (c *cmpSUT) apply(f []string) (out string) {
	defer func() {
		if r := recover(); r != nil {
			out = "crash"
		}
	}()
	if out2, ok := c.apply2(f); ok {
		return out2
	}
	switch f[0] {
	case "case":
		return "ok"
	case "svc":
		l, ids := buildServices(f[1])
		res := model.SortServicesByCreationTime(l)
		ss := make([]string, len(res))
		for i, s := range res {
			ss[i] = strconv.Itoa(ids[s])
		}
		return joinElems(ss)
	case "cfg":
		l := buildConfigs(f[1], false)
		res := model.VerifC17SortConfigByCreationTime(l)
		return groupTies(cfgIDs(res), func(i, j int) bool { return sameMeta(res[i], res[j]) })
	case "gwcfg":
		l := buildConfigs(f[1], false)
		res := kubegateway.VerifC17SortConfigByCreationTime(l)
		return groupTies(cfgIDs(res), func(i, j int) bool { return sameMeta(res[i], res[j]) })
	case "dr":
		l := buildConfigs(f[1], true)
		res := model.VerifC17SortConfigBySelectorAndCreationTime(l)
		return groupTies(cfgIDs(res), func(i, j int) bool {
			return sameMeta(res[i], res[j]) && hasSel(res[i]) == hasSel(res[j])
		})
	case "keys":
		es := &model.EndpointShards{Shards: map[model.ShardKey][]*model.IstioEndpoint{}}
		for _, e := range elems(f[1]) {
			p := fields(e)
			es.Shards[model.ShardKey{Provider: provider.ID(p[0]), Cluster: cluster.ID(p[1])}] = nil
		}
		var ss []string
		for _, k := range es.Keys() {
			ss = append(ss, wire.Enc(string(k.Provider))+";"+wire.Enc(string(k.Cluster)))
		}
		return joinElems(ss)
	case "set":
		return wire.EncList(sets.SortedList(sets.New(wire.DecList(f[1])...)))
	case "push":
		p := &model.Proxy{WatchedResources: map[string]*model.WatchedResource{}}
		for _, t := range wire.DecList(f[1]) {
			p.WatchedResources[typeURL[t]] = &model.WatchedResource{TypeUrl: typeURL[t]}
		}
		var known, tail []string
		for _, u := range pxds.VerifC17WatchedResourcesByOrder(p) {
			if pxds.KnownOrderedTypeUrls.Contains(u) {
				if len(tail) > 0 {
					return "known-after-unknown"
				}
				known = append(known, shortOf(u))
			} else {
				tail = append(tail, shortOf(u))
			}
		}
		sort.Strings(tail)
		return wire.EncList(known) + "|" + wire.EncList(tail)
	case "eds":
		return c.eds(f[1:])
	case "wl":
		var l []model.WorkloadInfo
		for _, e := range elems(f[1]) {
			p := fields(e)
			l = append(l, model.WorkloadInfo{Workload: &workloadapi.Workload{Uid: p[2], Name: p[0]}, CreationTime: timeOf(atoi(p[1]))})
		}
		var ids []string
		for _, w := range model.SortWorkloadsByCreationTime(l) {
			ids = append(ids, w.Workload.Name)
		}
		return joinElems(ids)
	case "pick":
		by := map[string]*model.Service{}
		for _, e := range elems(f[1]) {
			p := fields(e)
			svc := &model.Service{
				Hostname:     "h.example.com",
				CreationTime: timeOf(atoi(p[2])),
				Attributes:   model.ServiceAttributes{Name: "h.example.com", Namespace: p[0], ServiceRegistry: provider.External, ExportTo: sets.New(visibility.None)},
			}
			if p[1] == "1" {
				svc.Attributes.ServiceRegistry = provider.Kubernetes
			}
			if p[3] == "1" {
				svc.Attributes.ExportTo = sets.New(visibility.Public)
			}
			by[p[0]] = svc
		}
		return wire.Enc(model.VerifC17PickBestVisibleNamespace(model.NewPushContext(), by, wire.Dec(f[2])))
	case "slices":
		var names []string
		var eps [][]*model.IstioEndpoint
		for _, t := range f[1:] {
			p := strings.SplitN(t, ";", 2)
			names = append(names, wire.Dec(p[0]))
			var l []*model.IstioEndpoint
			for _, e := range elems(p[1]) {
				i := strings.Index(e, "@")
				l = append(l, &model.IstioEndpoint{Addresses: []string{wire.Dec(e[:i])}, ServicePortName: "http", EndpointPort: uint32(atoi(e[i+1:]))})
			}
			eps = append(eps, l)
		}
		var out []string
		for _, e := range kubecontroller.VerifC17SliceCacheGet("svc.default.svc.cluster.local", names, eps) {
			out = append(out, wire.Enc(e.Addresses[0])+"@"+strconv.Itoa(int(e.EndpointPort)))
		}
		return joinElems(out)
	case "hdr":
		in := buildMatch(f)
		return showMatch(f, istioroute.TranslateRouteMatch(config.Config{}, in))
	}
	return "bad-op"
}

type shardIn struct {
	key model.ShardKey
	eps []*model.IstioEndpoint
}

func parseShards(toks []string) []shardIn {
	var out []shardIn
	for _, t := range toks {
		p := strings.SplitN(t, ";", 3)
		sh := shardIn{key: model.ShardKey{Provider: provider.ID(wire.Dec(p[0])), Cluster: cluster.ID(wire.Dec(p[1]))}}
		for _, e := range elems(p[2]) {
			i := strings.Index(e, "@")
			id := atoi(e[:i])
			sh.eps = append(sh.eps, &model.IstioEndpoint{
				Addresses:       []string{idIP(id)},
				EndpointPort:    8080,
				ServicePortName: "http",
				Locality:        model.Locality{Label: wire.Dec(e[i+1:]), ClusterID: sh.key.Cluster},
				HealthStatus:    model.Healthy,
			})
		}
		out = append(out, sh)
	}
	return out
}

func (c *cmpSUT) eds(toks []string) string {
	s := c.server()
	idx := s.Discovery.Env.EndpointIndex
	for _, k := range c.prev {
		idx.DeleteServiceShard(k, edsHost, "default", false)
	}
	c.prev = nil
	for _, sh := range parseShards(toks) {
		idx.UpdateServiceEndpoints(sh.key, edsHost, "default", sh.eps, false)
		c.prev = append(c.prev, sh.key)
	}
	b := endpoints.NewEndpointBuilder("outbound|80||"+edsHost, c.proxy, s.PushContext())
	cla := b.BuildClusterLoadAssignment(idx)
	var groups []string
	for _, l := range cla.GetEndpoints() {
		loc := l.GetLocality().GetRegion()
		if z := l.GetLocality().GetZone(); z != "" || l.GetLocality().GetSubZone() != "" {
			loc += "/" + z
		}
		if sz := l.GetLocality().GetSubZone(); sz != "" {
			loc += "/" + sz
		}
		var ids []string
		for _, e := range l.GetLbEndpoints() {
			ids = append(ids, strconv.Itoa(ipID(e.GetEndpoint().GetAddress().GetSocketAddress().GetAddress())))
		}
		groups = append(groups, wire.Enc(loc)+":"+strings.Join(ids, "+"))
	}
	return joinElems(groups)
}

func execCmp(in, outp string) {
	out := wire.Create(outp)
	defer out.Close()
	c := &cmpSUT{}
	defer c.close()
	for _, f := range wire.ReadLines(in) {
		out.Line(c.apply(f))
		out.Flush()
	}
}

// ---------------------------------------------------------------- generator

var (
	poolNames = []string{"a", "b", "ab", "a-b", "b.a", "A", "a0", "é", "zz", "~x"}
	poolNs    = []string{"default", "ns1", "ns2", "istio-system", "a"}
	poolLocs  = []string{"", "r1", "r1/z1", "r1/z1/s1", "r1/z2", "r2/z1", "r2", "r10/z1", "R1/z1"}
	poolProv  = []string{"Kubernetes", "External", "Mock", "k"}
	poolClus  = []string{"Kubernetes", "c1", "c2", "c10", "", "C1"}
	poolHdr   = []string{"x-a", "x-b", "x-c", "a", "b", "X-A", "x-a-b", "x-d", "x-e", "x-f", "x-g", "x-h", "x-i", "x-j",
		"@request.auth.claims.sub", "@request.auth.claims.groups", "@request.auth.claims.a.b", "@Request.Auth.Claims.iss",
		"@request.auth.claims", "@request.auth.claims.", "@request.auth.claims[x]", "@request.auth.claims[]", "@request.auth.claims[k][v]"}
	poolQuery = []string{"q", "p", "user", "id", "a", "b", "Q", "x-y"}
	poolSet   = []string{"a", "b", "ab", "a.b", "a-b", "B", "", "10", "9", "z", "outbound|80||a.default.svc.cluster.local",
		"outbound|80||b.default.svc.cluster.local", "outbound|8080||a.default.svc.cluster.local", "é", "日本"}
)

func encFields(fs ...string) string {
	out := make([]string, len(fs))
	for i, f := range fs {
		out[i] = wire.Enc(f)
	}
	return strings.Join(out, ";")
}

func shuffle[T any](r *wire.Rng, l []T) {
	for i := len(l) - 1; i > 0; i-- {
		j := r.Intn(i + 1)
		l[i], l[j] = l[j], l[i]
	}
}

var (
	poolObj  = []string{"", "se0", "se1", "se-b"}
	poolHost = []string{"ext1.example.com", "ext2.example.com", "a.default.svc.cluster.local", "*.wild.example.com"}
	poolAddr = []string{"0.0.0.0", "240.240.0.1", "240.241.0.1", "10.0.0.1", ""}
)

func genObjs(r *wire.Rng, svc bool) string {
	n := r.Intn(9)
	if r.Chance(1, 8) {
		n = 12 + r.Intn(14) // beyond the insertion-sort threshold of pdqsort
	}
	nt := 1 + r.Intn(3) // few distinct timestamps -> many ties on time
	nn := 1 + r.Intn(4)
	ns := 1 + r.Intn(3)
	var l []string
	var prev []string
	for i := 0; i < n; i++ {
		t := strconv.Itoa(r.Intn(nt) * (1 + r.Intn(2)))
		name := poolNames[r.Intn(nn+1)%len(poolNames)]
		if r.Chance(1, 4) {
			name = wire.Pick(r, poolNames)
		}
		nsp := poolNs[r.Intn(ns)]
		if !svc {
			l = append(l, encFields(strconv.Itoa(i), t, name, nsp, wire.B(r.Chance(1, 3))))
			continue
		}
		f := []string{strconv.Itoa(i), t, name, nsp, wire.Pick(r, poolObj), wire.Pick(r, poolHost), wire.Pick(r, poolAddr)}
		if prev != nil && r.Chance(1, 2) {
			// the services of one ServiceEntry: same time, name, namespace (and more) as the previous one
			keep := 4 + r.Intn(4)
			copy(f[1:keep], prev[1:keep])
		}
		prev = f
		l = append(l, encFields(f...))
	}
	return joinElems(l)
}

func genNM(r *wire.Rng, pool []string, max int) []string {
	n := r.Intn(max + 1)
	cand := append([]string(nil), pool...)
	shuffle(r, cand)
	if n > len(cand) {
		n = len(cand)
	}
	var l []string
	for i := 0; i < n; i++ {
		l = append(l, wire.Enc(cand[i])+"@"+strconv.Itoa(1+r.Intn(9)))
	}
	return l
}

func genCmpOp(r *wire.Rng) []string {
	if r.Chance(2, 5) {
		return genCmpOp2(r)
	}
	switch r.Intn(12) {
	case 11:
		nt := 1 + r.Intn(3)
		var l []string
		for i, n := 0, r.Intn(9); i < n; i++ {
			uid := "Kubernetes//Pod/default/" + wire.Pick(r, []string{"a-0", "a-1", "a-10", "b-0", "A-0", ""})
			l = append(l, encFields(strconv.Itoa(i), strconv.Itoa(r.Intn(nt)), uid))
		}
		return []string{"wl", joinElems(l)}
	case 9:
		seen := map[string]bool{}
		var l []string
		nt := 1 + r.Intn(3)
		for i, n := 0, r.Intn(6); i < n; i++ {
			ns := wire.Pick(r, poolNs)
			if seen[ns] {
				continue
			}
			seen[ns] = true
			l = append(l, encFields(ns, wire.B(r.Chance(1, 4)), strconv.Itoa(r.Intn(nt)), wire.B(r.Chance(4, 5))))
		}
		return []string{"pick", joinElems(l), wire.Enc(wire.Pick(r, poolNs))}
	case 10:
		op := []string{"slices"}
		seen := map[string]bool{}
		id := 0
		for i, n := 0, r.Intn(6); i < n; i++ {
			name := wire.Pick(r, []string{"svc-abcde", "svc-x2k4p", "svc-0", "svc-10", "svc-9", "a", "B", "svc-abcdf"})
			if seen[name] {
				continue
			}
			seen[name] = true
			var eps []string
			for j, m := 0, r.Intn(5); j < m; j++ {
				id++
				eps = append(eps, wire.Enc(fmt.Sprintf("10.1.0.%d", 1+r.Intn(8)))+"@"+strconv.Itoa(id))
			}
			op = append(op, wire.Enc(name)+";"+joinElems(eps))
		}
		return op
	case 0, 1:
		return []string{"svc", genObjs(r, true)}
	case 2:
		return []string{"cfg", genObjs(r, false)}
	case 3:
		if r.Chance(1, 3) {
			return []string{"gwcfg", genObjs(r, false)}
		}
		return []string{"dr", genObjs(r, false)}
	case 4:
		seen := map[string]bool{}
		var l []string
		for i, n := 0, r.Intn(8); i < n; i++ {
			e := encFields(wire.Pick(r, poolProv), wire.Pick(r, poolClus))
			if !seen[e] {
				seen[e] = true
				l = append(l, e)
			}
		}
		return []string{"keys", joinElems(l)}
	case 5:
		var l []string
		for i, n := 0, r.Intn(10); i < n; i++ {
			l = append(l, wire.Pick(r, poolSet))
		}
		return []string{"set", wire.EncList(l)}
	case 6:
		l := wire.Subset(r, typeShort, 1+r.Intn(3), 4)
		shuffle(r, l)
		return []string{"push", wire.EncList(l)}
	case 7:
		op := []string{"eds"}
		seen := map[string]bool{}
		id := 0
		locs := append([]string(nil), poolLocs...)
		shuffle(r, locs)
		locs = locs[:1+r.Intn(5)]
		for i, n := 0, r.Intn(5); i < n; i++ {
			k := encFields(wire.Pick(r, poolProv), wire.Pick(r, poolClus))
			if seen[k] {
				continue
			}
			seen[k] = true
			var eps []string
			for j, m := 0, r.Intn(6); j < m; j++ {
				eps = append(eps, strconv.Itoa(id)+"@"+wire.Enc(wire.Pick(r, locs)))
				id++
			}
			op = append(op, k+";"+joinElems(eps))
		}
		return op
	default:
		max := 4
		if r.Chance(1, 6) {
			max = 16
		}
		h := genNM(r, poolHdr, max)
		w := genNM(r, poolHdr, max/2)
		q := genNM(r, poolQuery, 4)
		return []string{"hdr", joinElems(h), joinElems(w), joinElems(q), wire.B(r.Chance(1, 3)) + wire.B(r.Chance(1, 3)) + wire.B(r.Chance(1, 4))}
	}
}

func genCmp(seed uint64, n int, outp string) {
	out := wire.Create(outp)
	defer out.Close()
	root := wire.NewRng(seed*0x9e37 + 17)
	for i := 0; i < n; i++ {
		r := root.Fork()
		out.Line("case", strconv.Itoa(i), "cmp")
		for k, m := 0, 1+r.Intn(3); k < m; k++ {
			out.Line(genCmpOp(r)...)
		}
	}
}

// ---------------------------------------------------------------- oracle
//
// The property on the comparators themselves, evaluated on the real functions without the model:
// the result must not depend on the order in which the same objects are presented (whenever the
// documented key of the comparator is unique among them), must be ordered, and repeated evaluation
// on the same input must give the same bytes.  Inputs where the key is not unique are reported as
// `tie` (counted, not a failure here: whether a tie reaches generated xDS is decided by stream perm).

func permuteTok(r *wire.Rng, tok string) string {
	l := elems(tok)
	l = append([]string(nil), l...)
	shuffle(r, l)
	return joinElems(l)
}

func distinctKeys(tok string, key func(f []string) string) bool {
	seen := map[string]bool{}
	for _, e := range elems(tok) {
		k := key(fields(e))
		if seen[k] {
			return false
		}
		seen[k] = true
	}
	return true
}

func hdrTie(f []string) bool {
	seen := map[string]bool{}
	for _, x := range parseNM(f[1]) {
		seen[x.name] = true
	}
	for _, x := range parseNM(f[2]) {
		if seen[x.name] && !jwt.ToRoutingClaim(x.name).Match {
			return true
		}
	}
	return false
}

func oracleOp(c *cmpSUT, r *wire.Rng, f []string) string {
	base := c.apply(f)
	if base == "crash" {
		return f[0] + ":crash"
	}
	switch f[0] {
	case "sidx", "ef", "te", "drm":
		for k := 0; k < 6; k++ {
			g := append([]string{f[0], permuteTok(r, f[1])}, f[2:]...)
			if got := c.apply(g); got != base {
				return f[0] + ":perm"
			}
		}
	case "alias":
		for k := 0; k < 6; k++ {
			if got := c.apply([]string{"alias", f[1], permuteTok(r, f[2])}); got != base {
				return "alias:perm"
			}
		}
	case "pickf":
		for k := 0; k < 8; k++ {
			if got := c.apply([]string{"pickf", permuteTok(r, f[1]), f[2]}); got != base {
				return "pickf:perm"
			}
		}
	case "vh", "inb", "lst":
		for k := 0; k < 3; k++ {
			if got := c.apply([]string{f[0], permuteTok(r, f[1])}); got != base {
				return f[0] + ":perm"
			}
		}
	case "wl":
		unique := distinctKeys(f[1], func(p []string) string { return p[1] + ";" + p[2] })
		for k := 0; k < 6 && unique; k++ {
			if got := c.apply([]string{"wl", permuteTok(r, f[1])}); got != base {
				return "wl:perm"
			}
		}
	case "svc", "cfg", "dr", "gwcfg":
		key := func(p []string) string { return p[1] + ";" + p[2] + ";" + p[3] }
		if f[0] == "svc" {
			key = func(p []string) string { return strings.Join(p[1:7], ";") }
		}
		if f[0] == "dr" {
			key = func(p []string) string { return p[1] + ";" + p[2] + ";" + p[3] + ";" + p[4] }
		}
		unique := distinctKeys(f[1], key)
		for k := 0; k < 6; k++ {
			g := []string{f[0], permuteTok(r, f[1])}
			if got := c.apply(g); got != base && (unique || f[0] != "svc") {
				return f[0] + ":perm"
			}
		}
	case "pick":
		for k := 0; k < 12; k++ {
			if got := c.apply([]string{"pick", permuteTok(r, f[1]), f[2]}); got != base {
				return "pick:perm"
			}
		}
	case "slices":
		for k := 0; k < 8; k++ {
			sl := append([]string(nil), f[1:]...)
			shuffle(r, sl)
			if got := c.apply(append([]string{"slices"}, sl...)); got != base {
				return "slices:perm"
			}
		}
	case "keys", "set", "push":
		for k := 0; k < 6; k++ {
			if got := c.apply([]string{f[0], permuteTok(r, f[1])}); got != base {
				return f[0] + ":perm"
			}
		}
	case "eds":
		// shards arrive in any order; the order of endpoints inside one shard is part of the input
		for k := 0; k < 4; k++ {
			sh := append([]string(nil), f[1:]...)
			shuffle(r, sh)
			if got := c.apply(append([]string{"eds"}, sh...)); got != base {
				return "eds:perm"
			}
		}
	case "hdr":
		in := buildMatch(f)
		ref, _ := proto.MarshalOptions{Deterministic: true}.Marshal(istioroute.TranslateRouteMatch(config.Config{}, in))
		for k := 0; k < 24; k++ {
			g := []string{"hdr", permuteTok(r, f[1]), permuteTok(r, f[2]), permuteTok(r, f[3]), f[4]}
			out := istioroute.TranslateRouteMatch(config.Config{}, buildMatch(g))
			b, _ := proto.MarshalOptions{Deterministic: true}.Marshal(out)
			if string(b) != string(ref) {
				refm := &route.RouteMatch{}
				_ = proto.Unmarshal(ref, refm)
				switch {
				case !sameOrder(len(out.QueryParameters), func(i int) string { return out.QueryParameters[i].Name }, func(i int) string { return refm.QueryParameters[i].Name }):
					return "hdr:query-order"
				case !sameOrder(len(out.DynamicMetadata), func(i int) string { return fmt.Sprint(out.DynamicMetadata[i]) }, func(i int) string { return fmt.Sprint(refm.DynamicMetadata[i]) }):
					return "hdr:metadata-order"
				case hdrTie(f):
					return "hdr:header-tie"
				default:
					return "hdr:bytes"
				}
			}
		}
	}
	return ""
}

func sameOrder(n int, a, b func(int) string) bool {
	for i := 0; i < n; i++ {
		if a(i) != b(i) {
			return false
		}
	}
	return true
}

func oracleCmp(in, outp string) {
	out := wire.Create(outp)
	defer out.Close()
	c := &cmpSUT{}
	defer c.close()
	r := wire.NewRng(wire.SeedFromEnv() + 99)
	verdict := ""
	started := false
	flush := func() {
		if !started {
			return
		}
		if verdict == "" {
			out.Line("OK")
		} else {
			out.Line("FAIL", verdict)
		}
		out.Flush()
	}
	for _, f := range wire.ReadLines(in) {
		if f[0] == "case" {
			flush()
			started, verdict = true, ""
			continue
		}
		if verdict == "" {
			verdict = oracleOp(c, r, f)
		}
	}
	flush()
}
