package main

// `c17 vtcheck`: which marshaller does protoconv.MessageToAny use in this binary?
//
// istiod is built with the tags `vtprotobuf,disable_pgv` (Makefile.core.mk, STANDARD_TAGS). With `vtprotobuf` the
// go-control-plane messages carry generated MarshalVTStrict methods and pilot/pkg/util/protoconv.marshal calls them
// (features.EnableVtprotobuf, default on); without the tag it falls back to proto.MarshalOptions{Deterministic: true}.
// checks/C17.py builds this harness twice and runs stream `perm` with both binaries; this subcommand lets it record
// (and insist) that the second binary really is on the production path.

import (
	"fmt"

	cluster "github.com/envoyproxy/go-control-plane/envoy/config/cluster/v3"
	core "github.com/envoyproxy/go-control-plane/envoy/config/core/v3"
	endpoint "github.com/envoyproxy/go-control-plane/envoy/config/endpoint/v3"
	listener "github.com/envoyproxy/go-control-plane/envoy/config/listener/v3"
	route "github.com/envoyproxy/go-control-plane/envoy/config/route/v3"
	"google.golang.org/protobuf/proto"
	"google.golang.org/protobuf/types/known/structpb"

	"istio.io/istio/pilot/pkg/features"
	"istio.io/istio/pilot/pkg/util/protoconv"
)

type vtStrict interface {
	MarshalVTStrict() ([]byte, error)
}

func vtCheck() {
	all := true
	for _, m := range []proto.Message{&cluster.Cluster{}, &listener.Listener{}, &route.RouteConfiguration{}, &endpoint.ClusterLoadAssignment{}} {
		if _, ok := m.(vtStrict); !ok {
			all = false
		}
	}
	// One message with map fields of several entries (what every generated cluster carries as metadata), encoded 64
	// times: how many different byte strings do MarshalVTStrict (where it exists) and protoconv.MessageToAny give?
	md := &core.Metadata{FilterMetadata: map[string]*structpb.Struct{}}
	for _, k := range []string{"istio", "envoy.lb", "a", "b"} {
		md.FilterMetadata[k] = &structpb.Struct{Fields: map[string]*structpb.Value{
			"host": structpb.NewStringValue("h"), "name": structpb.NewStringValue("n"), "namespace": structpb.NewStringValue("ns"), "x": structpb.NewStringValue("y")}}
	}
	strict, conv := map[string]bool{}, map[string]bool{}
	for i := 0; i < 64; i++ {
		if vt, ok := any(md).(vtStrict); ok {
			b, _ := vt.MarshalVTStrict()
			strict[string(b)] = true
		}
		conv[string(protoconv.MessageToAny(md).Value)] = true
	}
	fmt.Printf("vt implemented=%v enabled=%v strict_encodings_of_one_message=%d messagetoany_encodings_of_one_message=%d\n",
		all, features.EnableVtprotobuf, len(strict), len(conv))
}
