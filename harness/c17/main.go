// Harness for C17 (generation is deterministic).
//
//	c17 gen    <stream> <seed> <ncases> <ops-out>
//	c17 exec   <stream> <ops-in> <impl-out>
//	c17 oracle <stream> <ops-in> <verdict-out>
//	c17 observe <ops-in> <obs-out>          stream perm only: run the real generators, print digests
//	c17 explain <ops-in>                    stream perm only: decode and show the first difference of each case
//	c17 minimise <ops-in> [keys] [attempts] stream perm only: drop objects of the first case while it still differs
//	c17 vtcheck                             which marshaller protoconv.MessageToAny uses in this binary (build tag vtprotobuf)
//
// Streams:
//
//	cmp   the real comparators / ordered folds (model.SortServicesByCreationTime, sortConfigByCreationTime,
//	      sortConfigBySelectorAndCreationTime, EndpointShards.Keys + EndpointBuilder.generate,
//	      sets.SortedList, Connection.watchedResourcesByOrder, route.TranslateRouteMatch) on random
//	      inputs, against the Lean models (lean/IstioModel/C17/Model.lean).
//	perm  permutation harness on real generation: the same mesh is built K times with permuted
//	      insertion order and generated R times each from rebuilt PushContexts; every resource of every
//	      xDS type is hashed.  `observe` writes the digests, `exec mon` / the Lean driver judge them.
//	mon   the monitor over observation lines (Go's own verdict vs the Lean-verified `allEqualB`).
package main

import (
	"fmt"
	"os"
	"strconv"
	"sync"

	_ "verifharness/internal/quiet"
)

func main() {
	if len(os.Args) < 2 {
		usage()
	}
	switch os.Args[1] {
	case "gen":
		need(6)
		seed, _ := strconv.ParseUint(os.Args[3], 10, 64)
		n, _ := strconv.Atoi(os.Args[4])
		switch os.Args[2] {
		case "cmp":
			genCmp(seed, n, os.Args[5])
		case "perm":
			genPerm(seed, n, os.Args[5])
		default:
			usage()
		}
	case "exec":
		need(5)
		switch os.Args[2] {
		case "cmp":
			execCmp(os.Args[3], os.Args[4])
		case "mon":
			execMon(os.Args[3], os.Args[4])
		default:
			usage()
		}
	case "oracle":
		need(5)
		switch os.Args[2] {
		case "cmp":
			oracleCmp(os.Args[3], os.Args[4])
		case "mon":
			oracleMon(os.Args[3], os.Args[4])
		default:
			usage()
		}
	case "vtcheck":
		vtCheck()
	case "observe":
		need(4)
		observePerm(os.Args[2], os.Args[3])
	case "explain":
		need(3)
		explainPerm(os.Args[2])
	case "minimise":
		need(3)
		want, attempts := "", 2
		if len(os.Args) > 3 {
			want = os.Args[3]
		}
		if len(os.Args) > 4 {
			attempts, _ = strconv.Atoi(os.Args[4])
		}
		minimisePerm(os.Args[2], want, attempts)
	default:
		usage()
	}
}

func need(n int) {
	if len(os.Args) < n {
		usage()
	}
}

func usage() {
	fmt.Fprintln(os.Stderr, "usage: c17 gen|exec|oracle <stream> ... | observe <ops> <out> | explain <ops>")
	os.Exit(2)
}

// ---------------------------------------------------------------- test.Failer outside go test

type failer struct {
	mu       sync.Mutex
	cleanups []func()
}

func (f *failer) Fail()                          { panic("harness: Fail") }
func (f *failer) FailNow()                       { panic("harness: FailNow") }
func (f *failer) Fatal(args ...any)              { panic(fmt.Sprint(args...)) }
func (f *failer) Fatalf(format string, a ...any) { panic(fmt.Sprintf(format, a...)) }
func (f *failer) Log(args ...any)                {}
func (f *failer) Logf(format string, a ...any)   {}
func (f *failer) TempDir() string                { d, _ := os.MkdirTemp("", "c17"); return d }
func (f *failer) Helper()                        {}
func (f *failer) Skip(args ...any)               {}
func (f *failer) Cleanup(fn func()) {
	f.mu.Lock()
	defer f.mu.Unlock()
	f.cleanups = append(f.cleanups, fn)
}

func (f *failer) done() {
	f.mu.Lock()
	cs := f.cleanups
	f.cleanups = nil
	f.mu.Unlock()
	for i := len(cs) - 1; i >= 0; i-- {
		cs[i]()
	}
}
