package main

// Profile `waypoint` of the permutation harness: ambient mode on, a waypoint Gateway in `default`, and
// services / ServiceEntries that use it.  The ambient index reads ServiceEntries and WorkloadEntries
// from the Kubernetes client, the config store of the fake server is in memory: such objects are
// inserted into both (`twin`).

import (
	"fmt"
	"strconv"

	corev1 "k8s.io/api/core/v1"
	metav1 "k8s.io/apimachinery/pkg/apis/meta/v1"
	"k8s.io/apimachinery/pkg/util/intstr"
	gatewayv1 "sigs.k8s.io/gateway-api/apis/v1"

	networking "istio.io/api/networking/v1alpha3"
	security "istio.io/api/security/v1beta1"
	typev1beta1 "istio.io/api/type/v1beta1"
	networkingclient "istio.io/client-go/pkg/apis/networking/v1"
	"istio.io/istio/pkg/config"
	"istio.io/istio/pkg/config/schema/gvk"
	"istio.io/istio/pkg/ptr"
	"verifharness/internal/wire"
)

const (
	waypointName = "waypoint"
	waypointIP   = "3.0.0.1"
)

func (g *mgen) addTwinned(feat string, m config.Meta, spec config.Spec) {
	g.addCfg(feat, m, spec)
	o := &g.objs[len(g.objs)-1]
	om := metav1.ObjectMeta{Name: m.Name, Namespace: m.Namespace, Labels: m.Labels, Annotations: m.Annotations,
		CreationTimestamp: metav1.NewTime(m.CreationTimestamp), ResourceVersion: "1"}
	switch x := spec.(type) {
	case *networking.ServiceEntry:
		o.twin = &networkingclient.ServiceEntry{ObjectMeta: om, Spec: *x.DeepCopy()} // nolint: govet
	case *networking.WorkloadEntry:
		o.twin = &networkingclient.WorkloadEntry{ObjectMeta: om, Spec: *x.DeepCopy()} // nolint: govet
	}
}

// waypointItself adds the waypoint: Gateway, Service, one instance.
func (g *mgen) waypointItself() {
	g.addK8s("waypoint-gateway", "Gateway/default/"+waypointName, &gatewayv1.Gateway{
		ObjectMeta: metav1.ObjectMeta{Name: waypointName, Namespace: "default", CreationTimestamp: metav1.NewTime(t0), ResourceVersion: "1"},
		Spec: gatewayv1.GatewaySpec{GatewayClassName: "istio-waypoint",
			Listeners: []gatewayv1.Listener{{Name: "mesh", Port: 15008, Protocol: "HBONE"}}},
		Status: gatewayv1.GatewayStatus{Addresses: []gatewayv1.GatewayStatusAddress{{Type: ptr.Of(gatewayv1.HostnameAddressType), Value: waypointName + ".default.svc.cluster.local"}}},
	})
	wpLabels := map[string]string{"gateway.networking.k8s.io/gateway-name": waypointName, "istio.io/gateway-name": waypointName, "gateway.istio.io/managed": "istio.io-mesh-controller"}
	g.addK8s("waypoint-service", "Service/default/"+waypointName, &corev1.Service{
		ObjectMeta: metav1.ObjectMeta{Name: waypointName, Namespace: "default", Labels: wpLabels, CreationTimestamp: metav1.NewTime(t0), ResourceVersion: "1"},
		Spec: corev1.ServiceSpec{ClusterIP: "3.0.0.0", Selector: map[string]string{"gateway.networking.k8s.io/gateway-name": waypointName},
			Ports: []corev1.ServicePort{{Name: "mesh", Port: 15008, AppProtocol: ptr.Of("hbone")}}},
	})
	m := g.meta(gvk.WorkloadEntry, "waypoint-a", "default")
	g.addTwinned("waypoint-instance", m, &networking.WorkloadEntry{Address: waypointIP, Labels: map[string]string{"gateway.networking.k8s.io/gateway-name": waypointName}})
}

func init() {
	// C17-10: the inbound-vip clusters of a waypoint were built in map iteration order over its services.
	witnessMeshes["waypoint-several-services"] = func(g *mgen) {
		g.node0()
		g.waypointItself()
		for i, h := range []string{"ext1.example.com", "ext2.example.com", "api.example.com", "db.example.com"} {
			m := g.meta(gvk.ServiceEntry, "se"+strconv.Itoa(i), "default")
			m.Labels = map[string]string{"istio.io/use-waypoint": waypointName}
			g.addTwinned("serviceentry", m, &networking.ServiceEntry{Hosts: []string{h}, Ports: []*networking.ServicePort{httpPort()},
				Resolution: networking.ServiceEntry_STATIC, Endpoints: []*networking.WorkloadEntry{{Address: fmt.Sprintf("10.20.%d.1", i)}}})
		}
	}
}

func waypointMesh(seed uint64) []obj {
	g := &mgen{r: wire.NewRng(seed ^ 0x3a7e01), nTimes: 1}
	if g.r.Chance(1, 3) {
		g.nTimes = 2
	}
	g.node0()
	useWP := map[string]string{"istio.io/use-waypoint": waypointName}
	g.waypointItself()

	// Kubernetes services behind the waypoint
	nsvc := 1 + g.r.Intn(3)
	for si := 0; si < nsvc; si++ {
		name := k8sSvcNames[si]
		ports := []corev1.ServicePort{{Name: "http", Port: 80, TargetPort: intstr.FromInt32(8080), Protocol: corev1.ProtocolTCP}}
		if g.r.Chance(1, 2) {
			ports = append(ports, corev1.ServicePort{Name: "tcp", Port: 9000, TargetPort: intstr.FromInt32(9000), Protocol: corev1.ProtocolTCP})
		}
		if g.r.Chance(1, 3) {
			ports = append(ports, corev1.ServicePort{Name: "http-alt", Port: 8080, TargetPort: intstr.FromInt32(8081), Protocol: corev1.ProtocolTCP})
		}
		before := len(g.objs)
		g.k8sService(name, "default", fmt.Sprintf("10.0.0.%d", si+1), ports, 1+g.r.Intn(5), 1+g.r.Intn(2), "")
		for i := before; i < len(g.objs); i++ {
			switch x := g.objs[i].k8s.(type) {
			case *corev1.Service:
				if g.r.Chance(4, 5) {
					x.Labels = useWP
				}
				x.CreationTimestamp = metav1.NewTime(g.when())
			case *corev1.Pod:
				x.Annotations = map[string]string{"ambient.istio.io/redirection": "enabled"}
			}
		}
		g.hosts = append(g.hosts, k8sHost(name, "default"))
	}
	// ServiceEntries behind the waypoint (multi-host, multi-address, shared hosts)
	// Hosts are drawn with replacement: two ServiceEntries of one namespace can claim one host. The ambient index
	// then has two inputs for one ServiceInfo key (namespace/hostname); see finding C17-S1 in notes/C17.md.
	for i, n := 0, 1+g.r.Intn(4); i < n; i++ {
		nh := 1 + g.r.Intn(3)
		hosts := append([]string(nil), extHosts...)
		shuffle(g.r, hosts)
		hosts = hosts[:nh]
		se := &networking.ServiceEntry{Hosts: hosts, Ports: sePorts(g.r), Resolution: networking.ServiceEntry_STATIC}
		for e, ne := 0, 1+g.r.Intn(4); e < ne; e++ {
			se.Endpoints = append(se.Endpoints, &networking.WorkloadEntry{Address: fmt.Sprintf("10.20.%d.%d", i, e+1), Labels: map[string]string{"version": g.pick([]string{"v1", "v2"})}})
		}
		if g.r.Chance(1, 2) {
			se.Addresses = []string{fmt.Sprintf("240.240.%d.1", i)}
			if g.r.Chance(1, 2) {
				se.Addresses = append(se.Addresses, fmt.Sprintf("240.241.%d.1", i))
			}
		}
		if g.r.Chance(1, 4) {
			se.Resolution = networking.ServiceEntry_DNS
			se.Endpoints = nil
		}
		m := g.meta(gvk.ServiceEntry, "se"+strconv.Itoa(i), g.pick([]string{"default", "default", "ns1"}))
		if g.r.Chance(4, 5) {
			m.Labels = useWP
			if m.Namespace != "default" {
				m.Labels = map[string]string{"istio.io/use-waypoint": waypointName, "istio.io/use-waypoint-namespace": "default"}
			}
		}
		g.addTwinned("serviceentry", m, se)
		g.hosts = append(g.hosts, hosts...)
	}
	g.virtualServices(nil)
	g.destinationRules()
	// policies attached to the waypoint
	ref := []*typev1beta1.PolicyTargetReference{{Group: "gateway.networking.k8s.io", Kind: "Gateway", Name: waypointName}}
	for i, n := 0, g.r.Intn(4); i < n; i++ {
		ap := &security.AuthorizationPolicy{Action: security.AuthorizationPolicy_Action(g.r.Intn(2)), TargetRefs: ref,
			Rules: []*security.Rule{{To: []*security.Rule_To{{Operation: &security.Operation{Methods: []string{"GET", "POST"}, Paths: []string{"/a*", "/b"}}}}}}}
		if g.r.Chance(1, 3) && len(g.hosts) > 0 {
			ap.TargetRefs = []*typev1beta1.PolicyTargetReference{{Group: "", Kind: "Service", Name: k8sSvcNames[0]}}
		}
		g.addCfg("authorizationpolicy", g.meta(gvk.AuthorizationPolicy, "ap"+strconv.Itoa(i), "default"), ap)
	}
	for i, n := 0, g.r.Intn(3); i < n; i++ {
		ra := &security.RequestAuthentication{TargetRefs: ref}
		for k, mm := 0, 1+g.r.Intn(2); k < mm; k++ {
			ra.JwtRules = append(ra.JwtRules, &security.JWTRule{Issuer: fmt.Sprintf("issuer-%d@example.com", g.r.Intn(3)), Jwks: testJwks})
		}
		g.addCfg("requestauthentication", g.meta(gvk.RequestAuthentication, "ra"+strconv.Itoa(i), "default"), ra)
	}
	g.extensions()
	return g.objs
}
