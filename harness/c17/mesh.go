package main

// Mesh generator of the permutation harness: a seeded description of configuration objects,
// Kubernetes services / pods / endpoint slices and ServiceEntries, biased to what makes ordering
// matter: equal creation timestamps, several objects claiming one host, several objects of one kind
// selecting the same workload, many endpoints in several localities, maps with several keys.
// Every object carries an explicit creation timestamp and resource version (so nothing in the
// harness itself differs between two builds of the same mesh).

import (
	"fmt"
	"strconv"
	"strings"
	"time"

	"google.golang.org/protobuf/types/known/durationpb"
	"google.golang.org/protobuf/types/known/structpb"
	"google.golang.org/protobuf/types/known/wrapperspb"
	corev1 "k8s.io/api/core/v1"
	discoveryv1 "k8s.io/api/discovery/v1"
	metav1 "k8s.io/apimachinery/pkg/apis/meta/v1"
	"k8s.io/apimachinery/pkg/runtime"
	"k8s.io/apimachinery/pkg/util/intstr"
	gatewayv1 "sigs.k8s.io/gateway-api/apis/v1"

	extensions "istio.io/api/extensions/v1alpha1"
	meshconfig "istio.io/api/mesh/v1alpha1"
	networking "istio.io/api/networking/v1alpha3"
	networkingv1beta1 "istio.io/api/networking/v1beta1"
	security "istio.io/api/security/v1beta1"
	telemetry "istio.io/api/telemetry/v1alpha1"
	typev1beta1 "istio.io/api/type/v1beta1"
	"istio.io/istio/pilot/pkg/model"
	"istio.io/istio/pkg/config"
	"istio.io/istio/pkg/config/mesh"
	"istio.io/istio/pkg/config/schema/gvk"
	"istio.io/istio/pkg/ptr"
	"verifharness/internal/wire"
)

// obj is one insertable object of a mesh.
type obj struct {
	cfg   *config.Config // an Istio config object, or
	k8s   runtime.Object // a Kubernetes object
	twin  runtime.Object // Kubernetes copy of an Istio config object that the ambient index reads from the cluster
	desc  string         // kind/namespace/name, for reports
	shard *shardSpec     // endpoints of a service in a second cluster, pushed as their own shard (XDSUpdater.EDSUpdate)
	feat  string         // feature class, for distribution counters
}

// shardSpec: the endpoints a second cluster contributes to a service.
type shardSpec struct {
	cluster  string // cluster id of the shard ("" = c2)
	host, ns string
	eps      []*model.IstioEndpoint
}

type meshDesc struct {
	seed uint64
	objs []obj
	mc   *meshconfig.MeshConfig
	nets *meshconfig.MeshNetworks // nil, or two networks with gateways (split-horizon EDS)
}

const rootNS = "istio-system"

var (
	meshNamespaces = []string{"default", "ns1", rootNS}
	k8sSvcNames    = []string{"a", "b", "c"}
	extHosts       = []string{"ext1.example.com", "ext2.example.com", "api.example.com", "db.example.com", "*.wild.example.com", "www.wild.example.com"}
	nodeLocs       = [][2]string{{"r1", "z1"}, {"r1", "z2"}, {"r2", "z1"}, {"r2", "z2"}}
	seLocalities   = []string{"r1/z1/s1", "r1/z1", "r1/z2", "r2/z1", "r2", ""}
	t0             = time.Unix(1700000000, 0).UTC()
)

type mgen struct {
	r       *wire.Rng
	objs    []obj
	hosts   []string // host pool of this mesh (k8s + external)
	nsHosts []string // the same hosts as "namespace/host" (exact, namespaced egress host entries)
	// bias: number of distinct creation timestamps
	nTimes      int
	podIP       int
	scale       int  // 1, or 3 for the occasional large mesh
	multiNet    bool // some pods live on network n2
	fpOK        bool // the DestinationRule being generated may use failoverPriority
	twoClusters bool // some Kubernetes services also exist, with other pods, in a second cluster: two endpoint shards
	extProv     bool // MeshConfig has extra extension providers (second metrics / access log provider, tracing, ext_authz)
}

func (g *mgen) upTo(n int) int { return g.r.Intn(n*g.sc() + 1 - g.sc()/2) }

func (g *mgen) sc() int {
	if g.scale < 1 {
		return 1
	}
	return g.scale
}

func (g *mgen) when() time.Time {
	return t0.Add(time.Duration(g.r.Intn(g.nTimes)) * time.Second)
}

func (g *mgen) meta(k config.GroupVersionKind, name, ns string) config.Meta {
	return config.Meta{
		GroupVersionKind:  k,
		Name:              name,
		Namespace:         ns,
		Domain:            "cluster.local",
		CreationTimestamp: g.when(),
		ResourceVersion:   "1",
	}
}

func (g *mgen) addCfg(feat string, m config.Meta, spec config.Spec) {
	c := &config.Config{Meta: m, Spec: spec}
	g.objs = append(g.objs, obj{cfg: c, desc: m.GroupVersionKind.Kind + "/" + m.Namespace + "/" + m.Name, feat: feat})
}

func (g *mgen) addK8s(feat, desc string, o runtime.Object) {
	g.objs = append(g.objs, obj{k8s: o, desc: desc, feat: feat})
}

func (g *mgen) pick(l []string) string { return wire.Pick(g.r, l) }

func (g *mgen) someHosts(min, max int) []string {
	n := min + g.r.Intn(max-min+1)
	c := append([]string(nil), g.hosts...)
	shuffle(g.r, c)
	if n > len(c) {
		n = len(c)
	}
	return c[:n]
}

func k8sHost(name, ns string) string { return name + "." + ns + ".svc.cluster.local" }

// ---------------------------------------------------------------- Kubernetes objects

func (g *mgen) k8sObjects() {
	for i, l := range nodeLocs {
		g.addK8s("node", "Node/n"+strconv.Itoa(i), &corev1.Node{
			ObjectMeta: metav1.ObjectMeta{Name: "n" + strconv.Itoa(i), CreationTimestamp: metav1.NewTime(t0), ResourceVersion: "1",
				Labels: map[string]string{"topology.kubernetes.io/region": l[0], "topology.kubernetes.io/zone": l[1]}},
		})
	}
	nsvc := 1 + g.r.Intn(3)
	cip := 0
	for si := 0; si < nsvc; si++ {
		name := k8sSvcNames[si]
		for _, ns := range []string{"default", "ns1"} {
			if ns == "ns1" && !g.r.Chance(1, 3) {
				continue
			}
			cip++
			ports := []corev1.ServicePort{{Name: "http", Port: 80, TargetPort: intstr.FromInt32(8080), Protocol: corev1.ProtocolTCP}}
			if g.r.Chance(1, 2) {
				ports = append(ports, corev1.ServicePort{Name: "tcp", Port: 9000, TargetPort: intstr.FromInt32(9000), Protocol: corev1.ProtocolTCP})
			}
			if g.r.Chance(1, 3) {
				ports = append(ports, corev1.ServicePort{Name: "https", Port: 443, TargetPort: intstr.FromInt32(8443), Protocol: corev1.ProtocolTCP})
			}
			svc := &corev1.Service{
				ObjectMeta: metav1.ObjectMeta{Name: name, Namespace: ns, CreationTimestamp: metav1.NewTime(g.when()), ResourceVersion: "1",
					Labels: map[string]string{"app": name}},
				Spec: corev1.ServiceSpec{ClusterIP: fmt.Sprintf("10.0.0.%d", cip), Selector: map[string]string{"app": name}, Ports: ports},
			}
			if g.r.Chance(1, 6) {
				svc.Spec.ClusterIP = corev1.ClusterIPNone // headless
			}
			if g.r.Chance(1, 5) {
				svc.Annotations = map[string]string{"networking.istio.io/exportTo": g.pick([]string{".", "*", "ns1", "default,ns1"})}
			}
			g.addK8s("k8s-service", "Service/"+ns+"/"+name, svc)
			if g.twoClusters && g.r.Chance(2, 3) {
				// the same service has endpoints in a second cluster: a second shard (Kubernetes/c2) in the EndpointIndex
				// (EndpointShards.Keys, CopyEndpoints). The shard is pushed the way a remote cluster's registry does it,
				// through XDSUpdater.EDSUpdate; a second kube registry is not used because the test server adds its
				// clusters in map order and the aggregate controller lets the first registry define a shared service.
				sh := &shardSpec{host: name + "." + ns + ".svc.cluster.local", ns: ns}
				for p, np := 0, 1+g.r.Intn(3); p < np; p++ {
					ip := fmt.Sprintf("10.30.%d.%d", cip, p+1)
					for _, sp := range ports {
						sh.eps = append(sh.eps, &model.IstioEndpoint{
							Addresses: []string{ip}, EndpointPort: uint32(sp.TargetPort.IntVal), ServicePortName: sp.Name, HealthStatus: model.Healthy,
							Labels:         map[string]string{"app": name, "version": g.pick([]string{"v1", "v2"}), "topology.istio.io/cluster": "c2"},
							ServiceAccount: "spiffe://cluster.local/ns/" + ns + "/sa/default", Namespace: ns, WorkloadName: fmt.Sprintf("%s-c2-%d", name, p),
							Locality: model.Locality{Label: g.pick([]string{"r2/z2", "r1/z1", "r2/z1"}), ClusterID: "c2"}, TLSMode: "istio",
							HostName: fmt.Sprintf("%s-c2-%d", name, p), SubDomain: name,
						})
					}
				}
				g.objs = append(g.objs, obj{shard: sh, desc: "Shard/c2/" + ns + "/" + name, feat: "remote-cluster-shard"})
			}
			// pods + endpoint slices
			npods := 1 + g.r.Intn(6)
			if g.r.Chance(1, 6) {
				npods = 10 + g.r.Intn(10)
			}
			var eps []discoveryv1.Endpoint
			for p := 0; p < npods; p++ {
				g.podIP++
				ip := fmt.Sprintf("10.10.%d.%d", g.podIP/250, g.podIP%250+1)
				if name == "a" && ns == "default" && p == 0 {
					ip = sidecarIP
				}
				node := g.r.Intn(len(nodeLocs))
				pname := fmt.Sprintf("%s-%d", name, p)
				plabels := map[string]string{"app": name, "version": g.pick([]string{"v1", "v2"})}
				if g.multiNet && ip != sidecarIP && g.r.Chance(1, 2) {
					plabels["topology.istio.io/network"] = "n2"
					plabels["security.istio.io/tlsMode"] = "istio"
				}
				g.addK8s("pod", "Pod/"+ns+"/"+pname, &corev1.Pod{
					ObjectMeta: metav1.ObjectMeta{Name: pname, Namespace: ns, CreationTimestamp: metav1.NewTime(g.when()), ResourceVersion: "1",
						Labels: plabels},
					Spec: corev1.PodSpec{NodeName: "n" + strconv.Itoa(node), ServiceAccountName: g.pick([]string{"sa-" + name, "default"})},
					Status: corev1.PodStatus{PodIP: ip, PodIPs: []corev1.PodIP{{IP: ip}}, Phase: corev1.PodRunning,
						Conditions: []corev1.PodCondition{{Type: corev1.PodReady, Status: corev1.ConditionTrue}}},
				})
				eps = append(eps, discoveryv1.Endpoint{
					Addresses:  []string{ip},
					Conditions: discoveryv1.EndpointConditions{Ready: ptr.Of(true)},
					TargetRef:  &corev1.ObjectReference{Kind: "Pod", Name: pname, Namespace: ns},
					NodeName:   ptr.Of("n" + strconv.Itoa(node)),
					Zone:       ptr.Of(nodeLocs[node][1]),
				})
			}
			nsl := 1 + g.r.Intn(3)
			if nsl > len(eps) {
				nsl = len(eps)
			}
			var sports []discoveryv1.EndpointPort
			for _, p := range ports {
				sports = append(sports, discoveryv1.EndpointPort{Name: ptr.Of(p.Name), Port: ptr.Of(p.TargetPort.IntVal), Protocol: ptr.Of(corev1.ProtocolTCP)})
			}
			for s := 0; s < nsl; s++ {
				var part []discoveryv1.Endpoint
				for i, e := range eps {
					if i%nsl == s {
						part = append(part, e)
					}
				}
				sname := fmt.Sprintf("%s-%d", name, s)
				g.addK8s("endpointslice", "EndpointSlice/"+ns+"/"+sname, &discoveryv1.EndpointSlice{
					ObjectMeta: metav1.ObjectMeta{Name: sname, Namespace: ns, CreationTimestamp: metav1.NewTime(g.when()), ResourceVersion: "1",
						Labels: map[string]string{discoveryv1.LabelServiceName: name}},
					AddressType: discoveryv1.AddressTypeIPv4,
					Endpoints:   part,
					Ports:       sports,
				})
			}
			g.hosts = append(g.hosts, k8sHost(name, ns))
			g.nsHosts = append(g.nsHosts, ns+"/"+k8sHost(name, ns))
		}
	}
	// a second service selecting the pods of `a` (same workload ports behind two services)
	if g.r.Chance(1, 4) {
		cip++
		g.addK8s("k8s-service", "Service/default/a-alt", &corev1.Service{
			ObjectMeta: metav1.ObjectMeta{Name: "a-alt", Namespace: "default", CreationTimestamp: metav1.NewTime(g.when()), ResourceVersion: "1"},
			Spec: corev1.ServiceSpec{ClusterIP: fmt.Sprintf("10.0.1.%d", cip), Selector: map[string]string{"app": "a"},
				Ports: []corev1.ServicePort{{Name: "http-alt", Port: 8000, TargetPort: intstr.FromInt32(8080), Protocol: corev1.ProtocolTCP},
					{Name: "tcp-alt", Port: 9100, TargetPort: intstr.FromInt32(9000), Protocol: corev1.ProtocolTCP}}},
		})
		g.addK8s("endpointslice", "EndpointSlice/default/a-alt-0", &discoveryv1.EndpointSlice{
			ObjectMeta:  metav1.ObjectMeta{Name: "a-alt-0", Namespace: "default", CreationTimestamp: metav1.NewTime(g.when()), ResourceVersion: "1", Labels: map[string]string{discoveryv1.LabelServiceName: "a-alt"}},
			AddressType: discoveryv1.AddressTypeIPv4,
			Endpoints: []discoveryv1.Endpoint{{Addresses: []string{sidecarIP}, Conditions: discoveryv1.EndpointConditions{Ready: ptr.Of(true)},
				TargetRef: &corev1.ObjectReference{Kind: "Pod", Name: "a-0", Namespace: "default"}}},
			Ports: []discoveryv1.EndpointPort{{Name: ptr.Of("http-alt"), Port: ptr.Of(int32(8080)), Protocol: ptr.Of(corev1.ProtocolTCP)},
				{Name: ptr.Of("tcp-alt"), Port: ptr.Of(int32(9000)), Protocol: ptr.Of(corev1.ProtocolTCP)}},
		})
		g.hosts = append(g.hosts, k8sHost("a-alt", "default"))
	}
	// an ExternalName service (an alias)
	if g.r.Chance(1, 5) {
		g.addK8s("k8s-externalname", "Service/default/alias", &corev1.Service{
			ObjectMeta: metav1.ObjectMeta{Name: "alias", Namespace: "default", CreationTimestamp: metav1.NewTime(g.when()), ResourceVersion: "1"},
			Spec: corev1.ServiceSpec{Type: corev1.ServiceTypeExternalName, ExternalName: g.pick([]string{"a.default.svc.cluster.local", "ext1.example.com"}),
				Ports: []corev1.ServicePort{{Name: "http", Port: 80, Protocol: corev1.ProtocolTCP}}},
		})
		g.hosts = append(g.hosts, k8sHost("alias", "default"))
	}
}

// gammaRoutes: Gateway API HTTPRoutes attached to a Kubernetes Service (mesh routes), several per parent and of
// equal age; the gateway controller converts and merges them into VirtualServices.
func (g *mgen) gammaRoutes() {
	if !g.r.Chance(1, 3) {
		return
	}
	n := 2 + g.r.Intn(2)
	for i := 0; i < n; i++ {
		ns := g.pick([]string{"default", "default", "ns1"})
		pt := gatewayv1.PathMatchPathPrefix
		ht := gatewayv1.HeaderMatchExact
		qt := gatewayv1.QueryParamMatchExact
		rule := gatewayv1.HTTPRouteRule{
			Matches: []gatewayv1.HTTPRouteMatch{{
				Path:        &gatewayv1.HTTPPathMatch{Type: &pt, Value: ptr.Of("/g" + strconv.Itoa(g.r.Intn(2)))},
				Headers:     []gatewayv1.HTTPHeaderMatch{{Type: &ht, Name: "x-b", Value: "1"}, {Type: &ht, Name: "x-a", Value: "2"}},
				QueryParams: []gatewayv1.HTTPQueryParamMatch{{Type: &qt, Name: "q", Value: "1"}, {Type: &qt, Name: "id", Value: "2"}},
			}},
		}
		for _, b := range []string{"b", "a"} {
			rule.BackendRefs = append(rule.BackendRefs, gatewayv1.HTTPBackendRef{BackendRef: gatewayv1.BackendRef{
				BackendObjectReference: gatewayv1.BackendObjectReference{Name: gatewayv1.ObjectName(b), Port: ptr.Of(gatewayv1.PortNumber(80))}, Weight: ptr.Of(int32(50))}})
		}
		name := "hr" + strconv.Itoa(i)
		g.addK8s("gamma-httproute", "HTTPRoute/"+ns+"/"+name, &gatewayv1.HTTPRoute{
			ObjectMeta: metav1.ObjectMeta{Name: name, Namespace: ns, CreationTimestamp: metav1.NewTime(g.when()), ResourceVersion: "1"},
			Spec: gatewayv1.HTTPRouteSpec{
				CommonRouteSpec: gatewayv1.CommonRouteSpec{ParentRefs: []gatewayv1.ParentReference{{
					Group: ptr.Of(gatewayv1.Group("")), Kind: ptr.Of(gatewayv1.Kind("Service")), Name: "a", Namespace: ptr.Of(gatewayv1.Namespace("default"))}}},
				Rules: []gatewayv1.HTTPRouteRule{rule},
			},
		})
	}
}

// delegates: a root VirtualService that delegates two prefixes to delegate VirtualServices of equal age.
func (g *mgen) delegates() {
	if len(g.hosts) == 0 || !g.r.Chance(1, 4) {
		return
	}
	root := &networking.VirtualService{Hosts: []string{g.pick(g.hosts)}}
	for i := 0; i < 2; i++ {
		dn := "vsd" + strconv.Itoa(i)
		dns := g.pick([]string{"default", "ns1"})
		root.Http = append(root.Http, &networking.HTTPRoute{
			Match:    []*networking.HTTPMatchRequest{{Uri: prefix("/d" + strconv.Itoa(i))}},
			Delegate: &networking.Delegate{Name: dn, Namespace: dns},
		})
		d := &networking.VirtualService{}
		for k := 0; k < 2; k++ {
			r := simpleRoute(g.pick(g.hosts))
			r.Match = []*networking.HTTPMatchRequest{{Uri: prefix(fmt.Sprintf("/d%d/p%d", i, k)),
				Headers: map[string]*networking.StringMatch{"x-b": exact("1"), "x-a": exact("2")}, QueryParams: map[string]*networking.StringMatch{"q": exact("1"), "id": exact("2")}}}
			d.Http = append(d.Http, r)
		}
		g.addCfg("virtualservice-delegate", g.meta(gvk.VirtualService, dn, dns), d)
	}
	root.Http = append(root.Http, simpleRoute(g.pick(g.hosts)))
	g.addCfg("virtualservice-root", g.meta(gvk.VirtualService, "vsroot", "default"), root)
}

// trafficExtensions: Lua TrafficExtensions of equal age, several per phase, some with equal priority.
func (g *mgen) trafficExtensions() {
	for i, n := 0, g.r.Intn(4); i < n; i++ {
		ns := g.pick(meshNamespaces)
		te := &extensions.TrafficExtension{Phase: extensions.TrafficExtension_ExecutionPhase(g.r.Intn(3)),
			FilterConfig: &extensions.TrafficExtension_Lua{Lua: &extensions.LuaConfig{InlineCode: fmt.Sprintf("function envoy_on_request(h) h:headers():add('x-te', '%d') end", i)}}}
		if g.r.Chance(2, 3) {
			te.Priority = wrapperspb.Int32(int32(g.r.Intn(2)))
		}
		if g.r.Chance(1, 3) {
			te.Selector = &typev1beta1.WorkloadSelector{MatchLabels: map[string]string{"app": "a"}}
		}
		g.addCfg("trafficextension", g.meta(gvk.TrafficExtension, "te"+strconv.Itoa(i), ns), te)
	}
}

// ---------------------------------------------------------------- ServiceEntry

func sePorts(r *wire.Rng) []*networking.ServicePort {
	ps := []*networking.ServicePort{{Number: 80, Name: "http", Protocol: "HTTP"}}
	if r.Chance(1, 2) {
		ps = append(ps, &networking.ServicePort{Number: 9000, Name: "tcp", Protocol: "TCP"})
	}
	if r.Chance(1, 3) {
		ps = append(ps, &networking.ServicePort{Number: 443, Name: "https", Protocol: "TLS"})
	}
	if r.Chance(1, 4) {
		ps = append(ps, &networking.ServicePort{Number: 8080, Name: "http-alt", Protocol: "HTTP", TargetPort: 18080})
	}
	return ps
}

func (g *mgen) serviceEntries() {
	n := g.upTo(4)
	for i := 0; i < n; i++ {
		ns := g.pick(meshNamespaces)
		nh := 1 + g.r.Intn(4)
		hosts := append([]string(nil), extHosts...)
		shuffle(g.r, hosts)
		hosts = hosts[:nh]
		if g.r.Chance(1, 6) && len(g.hosts) > 0 {
			hosts = append(hosts, g.hosts[0]) // also claims a Kubernetes service's host
		}
		se := &networking.ServiceEntry{Hosts: hosts, Ports: sePorts(g.r)}
		switch g.r.Intn(4) {
		case 0, 1:
			se.Resolution = networking.ServiceEntry_STATIC
			ne := 1 + g.r.Intn(6)
			for e := 0; e < ne; e++ {
				se.Endpoints = append(se.Endpoints, &networking.WorkloadEntry{
					Address:  fmt.Sprintf("10.20.%d.%d", i, e+1),
					Locality: g.pick(seLocalities),
					Labels:   map[string]string{"version": g.pick([]string{"v1", "v2"}), "app": "se" + strconv.Itoa(i)},
					Weight:   uint32(g.r.Intn(3)),
				})
			}
		case 2:
			se.Resolution = networking.ServiceEntry_DNS
			if g.r.Chance(1, 2) {
				for e, ne := 0, 1+g.r.Intn(3); e < ne; e++ {
					se.Endpoints = append(se.Endpoints, &networking.WorkloadEntry{Address: fmt.Sprintf("dns%d.backend.example.com", e), Locality: g.pick(seLocalities)})
				}
			}
		default:
			se.Resolution = networking.ServiceEntry_NONE
		}
		se.Location = networking.ServiceEntry_Location(g.r.Intn(2))
		if g.r.Chance(1, 3) && se.Resolution != networking.ServiceEntry_NONE {
			se.Addresses = []string{fmt.Sprintf("240.240.%d.1", i)}
			if g.r.Chance(1, 2) {
				se.Addresses = append(se.Addresses, fmt.Sprintf("240.241.%d.1", i))
			}
		}
		switch g.r.Intn(5) {
		case 0:
			se.ExportTo = []string{"."}
		case 1:
			se.ExportTo = []string{"*"}
		case 2:
			se.ExportTo = []string{"default", "ns1"}
		}
		if g.r.Chance(1, 5) {
			se.SubjectAltNames = []string{"spiffe://cluster.local/ns/x/sa/b", "spiffe://cluster.local/ns/x/sa/a"}
		}
		g.addCfg("serviceentry", g.meta(gvk.ServiceEntry, "se"+strconv.Itoa(i), ns), se)
		for _, h := range hosts {
			g.hosts = append(g.hosts, h)
			if !strings.HasPrefix(h, "*") {
				g.nsHosts = append(g.nsHosts, ns+"/"+h)
			}
		}
	}
	// workload-selector ServiceEntry with WorkloadEntries
	if g.r.Chance(1, 3) {
		ns := "default"
		g.addCfg("serviceentry-selector", g.meta(gvk.ServiceEntry, "se-wl", ns), &networking.ServiceEntry{
			Hosts: []string{"vm.example.com"}, Ports: sePorts(g.r), Resolution: networking.ServiceEntry_STATIC,
			WorkloadSelector: &networking.WorkloadSelector{Labels: map[string]string{"app": "vm"}},
		})
		for e, ne := 0, 1+g.r.Intn(5); e < ne; e++ {
			g.addCfg("workloadentry", g.meta(gvk.WorkloadEntry, "we"+strconv.Itoa(e), ns), &networking.WorkloadEntry{
				Address: fmt.Sprintf("10.30.0.%d", e+1), Labels: map[string]string{"app": "vm", "version": g.pick([]string{"v1", "v2"})},
				Locality: g.pick(seLocalities), ServiceAccount: "vm",
			})
		}
		g.hosts = append(g.hosts, "vm.example.com")
	}
}

// ---------------------------------------------------------------- VirtualService

func exact(s string) *networking.StringMatch {
	return &networking.StringMatch{MatchType: &networking.StringMatch_Exact{Exact: s}}
}

func prefix(s string) *networking.StringMatch {
	return &networking.StringMatch{MatchType: &networking.StringMatch_Prefix{Prefix: s}}
}

func regex(s string) *networking.StringMatch {
	return &networking.StringMatch{MatchType: &networking.StringMatch_Regex{Regex: s}}
}

func (g *mgen) stringMatchMap(pool []string, max int) map[string]*networking.StringMatch {
	n := g.r.Intn(max + 1)
	if n == 0 {
		return nil
	}
	m := map[string]*networking.StringMatch{}
	for i := 0; i < n; i++ {
		k := g.pick(pool)
		switch g.r.Intn(3) {
		case 0:
			m[k] = exact("v" + strconv.Itoa(g.r.Intn(3)))
		case 1:
			m[k] = prefix("p")
		default:
			m[k] = regex("r.*")
		}
	}
	return m
}

func (g *mgen) destination(hosts []string) *networking.Destination {
	d := &networking.Destination{Host: g.pick(hosts)}
	if g.r.Chance(1, 3) {
		d.Subset = g.pick([]string{"v1", "v2"})
	}
	if g.r.Chance(1, 2) {
		d.Port = &networking.PortSelector{Number: uint32(wire.Pick(g.r, []int{80, 9000, 8080}))}
	}
	return d
}

func (g *mgen) httpRoute(hosts []string, gateway bool) *networking.HTTPRoute {
	hr := &networking.HTTPRoute{}
	if g.r.Chance(1, 2) {
		hr.Name = "r" + strconv.Itoa(g.r.Intn(3))
	}
	hdrPool := []string{"x-a", "x-b", "x-c", "x-d", "end-user"}
	if gateway {
		hdrPool = append(hdrPool, "@request.auth.claims.sub", "@request.auth.claims.groups", "@request.auth.claims.iss")
	}
	for i, n := 0, g.r.Intn(3); i < n; i++ {
		m := &networking.HTTPMatchRequest{}
		switch g.r.Intn(4) {
		case 0:
			m.Uri = prefix("/p" + strconv.Itoa(g.r.Intn(3)))
		case 1:
			m.Uri = exact("/e" + strconv.Itoa(g.r.Intn(3)))
		case 2:
			m.Uri = regex("/r.*")
		}
		m.Headers = g.stringMatchMap(hdrPool, 3)
		m.WithoutHeaders = g.stringMatchMap(hdrPool, 2)
		m.QueryParams = g.stringMatchMap([]string{"q", "user", "id", "v"}, 3)
		if g.r.Chance(1, 5) {
			m.Method = exact("GET")
		}
		if g.r.Chance(1, 6) {
			m.Authority = prefix("a.")
		}
		if g.r.Chance(1, 6) && !gateway {
			m.SourceLabels = map[string]string{"app": "a", "version": "v1"}
		}
		if g.r.Chance(1, 6) {
			m.Port = uint32(wire.Pick(g.r, []int{80, 8080}))
		}
		hr.Match = append(hr.Match, m)
	}
	nd := 1 + g.r.Intn(3)
	w := []int32{100}
	if nd == 2 {
		w = []int32{30, 70}
	} else if nd == 3 {
		w = []int32{20, 30, 50}
	}
	for i := 0; i < nd; i++ {
		rd := &networking.HTTPRouteDestination{Destination: g.destination(hosts), Weight: w[i]}
		if g.r.Chance(1, 4) {
			rd.Headers = &networking.Headers{
				Request:  &networking.Headers_HeaderOperations{Set: map[string]string{"x-s1": "1", "x-s2": "2", "x-s3": "3"}, Add: map[string]string{"x-a1": "1", "x-a2": "2"}, Remove: []string{"x-r1", "x-r2"}},
				Response: &networking.Headers_HeaderOperations{Set: map[string]string{"x-rs1": "1", "x-rs2": "2"}},
			}
		}
		hr.Route = append(hr.Route, rd)
	}
	if g.r.Chance(1, 4) {
		hr.Headers = &networking.Headers{Request: &networking.Headers_HeaderOperations{Set: map[string]string{"x-t1": "1", "x-t2": "2", "x-t3": "3"}, Add: map[string]string{"x-u1": "1", "x-u2": "2"}}}
	}
	if g.r.Chance(1, 5) {
		hr.Timeout = durationpb.New(5 * time.Second)
	}
	if g.r.Chance(1, 5) {
		hr.Retries = &networking.HTTPRetry{Attempts: 3, PerTryTimeout: durationpb.New(time.Second), RetryOn: "5xx,gateway-error"}
	}
	if g.r.Chance(1, 6) {
		hr.Mirror = g.destination(hosts)
		hr.MirrorPercentage = &networking.Percent{Value: 50}
	}
	if g.r.Chance(1, 8) {
		hr.Mirrors = []*networking.HTTPMirrorPolicy{{Destination: g.destination(hosts)}, {Destination: g.destination(hosts)}}
	}
	if g.r.Chance(1, 6) {
		hr.CorsPolicy = &networking.CorsPolicy{AllowOrigins: []*networking.StringMatch{exact("https://a.example.com"), prefix("https://b.")}, AllowMethods: []string{"GET", "POST"}, AllowHeaders: []string{"x-a", "x-b"}}
	}
	if g.r.Chance(1, 8) {
		hr.Fault = &networking.HTTPFaultInjection{Abort: &networking.HTTPFaultInjection_Abort{ErrorType: &networking.HTTPFaultInjection_Abort_HttpStatus{HttpStatus: 503}, Percentage: &networking.Percent{Value: 10}}}
	}
	if g.r.Chance(1, 8) {
		hr.Rewrite = &networking.HTTPRewrite{Uri: "/new", Authority: "new.example.com"}
	}
	return hr
}

func (g *mgen) virtualServices(gateways []string) {
	if len(g.hosts) == 0 {
		return
	}
	n := g.upTo(5)
	for i := 0; i < n; i++ {
		ns := g.pick(meshNamespaces)
		vs := &networking.VirtualService{Hosts: g.someHosts(1, 2)}
		gw := false
		switch g.r.Intn(4) {
		case 0:
			if len(gateways) > 0 {
				vs.Gateways = []string{g.pick(gateways)}
				gw = true
			}
		case 1:
			if len(gateways) > 0 {
				vs.Gateways = []string{"mesh", g.pick(gateways)}
			}
		}
		if gw && g.r.Chance(1, 2) {
			vs.Hosts = []string{g.pick([]string{"a.example.com", "*.wild.example.com", "*"})}
		}
		for k, m := 0, 1+g.r.Intn(3); k < m; k++ {
			vs.Http = append(vs.Http, g.httpRoute(g.hosts, gw))
		}
		if gw && g.r.Chance(1, 3) {
			vs.Tls = append(vs.Tls, &networking.TLSRoute{
				Match: []*networking.TLSMatchAttributes{{Port: 443, SniHosts: []string{"a.example.com", "b.example.com"}}},
				Route: []*networking.RouteDestination{{Destination: g.destination(g.hosts), Weight: 50}, {Destination: g.destination(g.hosts), Weight: 50}},
			})
		}
		if g.r.Chance(1, 4) {
			vs.Tcp = []*networking.TCPRoute{{
				Match: []*networking.L4MatchAttributes{{Port: 9000}},
				Route: []*networking.RouteDestination{{Destination: g.destination(g.hosts), Weight: 40}, {Destination: g.destination(g.hosts), Weight: 60}},
			}}
		}
		if g.r.Chance(1, 5) {
			vs.Tls = []*networking.TLSRoute{{
				Match: []*networking.TLSMatchAttributes{{Port: 443, SniHosts: []string{vs.Hosts[0]}}},
				Route: []*networking.RouteDestination{{Destination: g.destination(g.hosts)}},
			}}
		}
		switch g.r.Intn(5) {
		case 0:
			vs.ExportTo = []string{"."}
		case 1:
			vs.ExportTo = []string{"*"}
		}
		g.addCfg("virtualservice", g.meta(gvk.VirtualService, "vs"+strconv.Itoa(i), ns), vs)
	}
}

// ---------------------------------------------------------------- DestinationRule

func (g *mgen) trafficPolicy(depth int) *networking.TrafficPolicy {
	tp := &networking.TrafficPolicy{}
	lbKind := g.r.Intn(6)
	if lbKind == 4 && !g.fpOK {
		// failoverPriority only on DestinationRules for Kubernetes services (EDS clusters). On a cluster with an inline
		// load assignment (STATIC / DNS ServiceEntry) the real code panics during CDS generation:
		// loadbalancer.go applyFailoverPriorityPerLocality indexes LocalityLbEndpoints.LbEndpoints with the indexes of
		// IstioEndpoints - `index out of range [1] with length 1` (first seen: `perm seed=504146508`; reproducer: witness
		// mesh `failover-priority-inline-cluster`, not in the corpus). A crash, not an order dependence: reported to the
		// coordinator (notes/C17.md) and kept out of the generated meshes.
		lbKind = 3
	}
	switch lbKind {
	case 4:
		// failoverPriority: endpoint priorities from label matches with the proxy (needs outlier detection, below)
		tp.LoadBalancer = &networking.LoadBalancerSettings{
			LbPolicy: &networking.LoadBalancerSettings_Simple{Simple: networking.LoadBalancerSettings_ROUND_ROBIN},
			LocalityLbSetting: &networking.LocalityLoadBalancerSetting{
				FailoverPriority: []string{"topology.kubernetes.io/region", "version", "topology.kubernetes.io/zone"},
			},
		}
	case 0:
		tp.LoadBalancer = &networking.LoadBalancerSettings{LbPolicy: &networking.LoadBalancerSettings_Simple{Simple: networking.LoadBalancerSettings_LEAST_REQUEST}}
	case 1:
		tp.LoadBalancer = &networking.LoadBalancerSettings{LbPolicy: &networking.LoadBalancerSettings_ConsistentHash{ConsistentHash: &networking.LoadBalancerSettings_ConsistentHashLB{
			HashKey: &networking.LoadBalancerSettings_ConsistentHashLB_HttpHeaderName{HttpHeaderName: "x-user"}}}}
	case 2:
		tp.LoadBalancer = &networking.LoadBalancerSettings{
			LbPolicy: &networking.LoadBalancerSettings_Simple{Simple: networking.LoadBalancerSettings_ROUND_ROBIN},
			LocalityLbSetting: &networking.LocalityLoadBalancerSetting{
				Distribute: []*networking.LocalityLoadBalancerSetting_Distribute{
					{From: "r1/z1/*", To: map[string]uint32{"r1/z1/*": 60, "r1/z2/*": 30, "r2/z1/*": 10}},
					{From: "r2/*", To: map[string]uint32{"r2/*": 80, "r1/*": 20}},
				},
			},
		}
	case 3:
		tp.LoadBalancer = &networking.LoadBalancerSettings{
			LbPolicy: &networking.LoadBalancerSettings_Simple{Simple: networking.LoadBalancerSettings_ROUND_ROBIN},
			LocalityLbSetting: &networking.LocalityLoadBalancerSetting{
				Failover: []*networking.LocalityLoadBalancerSetting_Failover{{From: "r1", To: "r2"}, {From: "r2", To: "r1"}},
			},
		}
	}
	if g.r.Chance(1, 3) {
		tp.ConnectionPool = &networking.ConnectionPoolSettings{
			Tcp:  &networking.ConnectionPoolSettings_TCPSettings{MaxConnections: int32(10 + g.r.Intn(3))},
			Http: &networking.ConnectionPoolSettings_HTTPSettings{Http1MaxPendingRequests: 5, MaxRequestsPerConnection: 2},
		}
	}
	if g.r.Chance(1, 3) || ((lbKind == 3 || lbKind == 4) && g.r.Chance(2, 3)) {
		tp.OutlierDetection = &networking.OutlierDetection{Consecutive_5XxErrors: wrapperspb.UInt32(3), Interval: durationpb.New(time.Second), BaseEjectionTime: durationpb.New(time.Minute)}
	}
	switch g.r.Intn(5) {
	case 0:
		tp.Tls = &networking.ClientTLSSettings{Mode: networking.ClientTLSSettings_ISTIO_MUTUAL}
	case 1:
		tp.Tls = &networking.ClientTLSSettings{Mode: networking.ClientTLSSettings_SIMPLE, Sni: "sni.example.com", SubjectAltNames: []string{"b.example.com", "a.example.com"}}
	case 2:
		tp.Tls = &networking.ClientTLSSettings{Mode: networking.ClientTLSSettings_DISABLE}
	}
	if depth == 0 && g.r.Chance(1, 3) {
		for _, p := range []uint32{80, 9000, 443} {
			if g.r.Chance(1, 2) {
				pp := g.trafficPolicy(1)
				tp.PortLevelSettings = append(tp.PortLevelSettings, &networking.TrafficPolicy_PortTrafficPolicy{
					Port: &networking.PortSelector{Number: p}, LoadBalancer: pp.LoadBalancer, ConnectionPool: pp.ConnectionPool, OutlierDetection: pp.OutlierDetection, Tls: pp.Tls,
				})
			}
		}
	}
	return tp
}

func (g *mgen) destinationRules() {
	if len(g.hosts) == 0 {
		return
	}
	n := g.upTo(6)
	for i := 0; i < n; i++ {
		ns := g.pick(meshNamespaces)
		h := g.pick(g.hosts)
		if g.r.Chance(1, 8) {
			h = g.pick([]string{"*.example.com", "*.default.svc.cluster.local", "*.wild.example.com"})
		}
		dr := &networking.DestinationRule{Host: h}
		g.fpOK = strings.HasSuffix(h, ".svc.cluster.local") && !strings.Contains(h, "*") && !strings.HasPrefix(h, "ext")
		if g.r.Chance(2, 3) {
			dr.TrafficPolicy = g.trafficPolicy(0)
		}
		if g.r.Chance(1, 2) {
			for _, s := range []string{"v1", "v2"} {
				if g.r.Chance(3, 4) {
					sub := &networking.Subset{Name: s, Labels: map[string]string{"version": s}}
					if g.r.Chance(1, 3) {
						sub.TrafficPolicy = g.trafficPolicy(1)
					}
					dr.Subsets = append(dr.Subsets, sub)
				}
			}
		}
		switch g.r.Intn(6) {
		case 0:
			dr.ExportTo = []string{"."}
		case 1:
			dr.ExportTo = []string{"*"}
		case 2:
			dr.ExportTo = []string{"default", "ns1"}
		}
		if g.r.Chance(1, 8) {
			dr.WorkloadSelector = &typev1beta1.WorkloadSelector{MatchLabels: map[string]string{"app": "a"}}
		}
		g.addCfg("destinationrule", g.meta(gvk.DestinationRule, "dr"+strconv.Itoa(i), ns), dr)
	}
}

// ---------------------------------------------------------------- Sidecar, Gateway

func (g *mgen) sidecars() {
	n := g.r.Intn(4)
	for i := 0; i < n; i++ {
		ns := g.pick(meshNamespaces)
		sc := &networking.Sidecar{}
		if g.r.Chance(1, 3) {
			sc.WorkloadSelector = &networking.WorkloadSelector{Labels: map[string]string{"app": "a"}}
		}
		for e, ne := 0, 1+g.r.Intn(2); e < ne; e++ {
			var hosts []string
			switch g.r.Intn(7) {
			case 5, 6:
				// only exact, namespaced hosts (no wildcard host, no "*/" namespace): the exact-host fast path
				// (servicesForExactHosts) instead of the scan of everything exported to the namespace
				cand := append([]string(nil), g.nsHosts...)
				shuffle(g.r, cand)
				if len(cand) > 5 {
					cand = cand[:2+g.r.Intn(4)]
				}
				hosts = cand
				if g.r.Chance(1, 3) {
					hosts = append(hosts, "./"+g.pick(g.hostsOr("a.default.svc.cluster.local")))
				}
				if len(hosts) == 0 {
					hosts = []string{"./*"}
				}
				for k, h := range hosts {
					if strings.Contains(h, "*") && h != "./*" {
						hosts[k] = "default/a.default.svc.cluster.local"
					}
				}
			case 0:
				hosts = []string{"./*"}
			case 1:
				hosts = []string{"*/*"}
			case 2:
				hosts = []string{"ns1/*", rootNS + "/*", "./*"}
			case 3:
				hosts = []string{"*/*.example.com", "default/*"}
			default:
				hosts = []string{"*/ext1.example.com", "*/" + g.pick(g.hostsOr("a.default.svc.cluster.local")), "~/*"}
				hosts = hosts[:2]
			}
			l := &networking.IstioEgressListener{Hosts: hosts}
			if e > 0 {
				l.Port = &networking.SidecarPort{Number: uint32(wire.Pick(g.r, []int{80, 9000, 8080})), Protocol: "HTTP", Name: "http"}
				if l.Port.Number == 9000 {
					l.Port.Protocol, l.Port.Name = "TCP", "tcp"
				}
				if g.r.Chance(1, 4) {
					// an HTTP_PROXY egress listener: one route configuration for all ports (mergeAllVirtualHosts)
					l.Port = &networking.SidecarPort{Number: 3128, Protocol: "HTTP_PROXY", Name: "http-proxy"}
					l.Bind = "127.0.0.1"
				}
			}
			sc.Egress = append(sc.Egress, l)
		}
		if g.r.Chance(1, 4) {
			sc.OutboundTrafficPolicy = &networking.OutboundTrafficPolicy{Mode: networking.OutboundTrafficPolicy_REGISTRY_ONLY}
		}
		if g.r.Chance(1, 5) && sc.WorkloadSelector != nil {
			sc.Ingress = []*networking.IstioIngressListener{{Port: &networking.SidecarPort{Number: 8080, Protocol: "HTTP", Name: "http"}, DefaultEndpoint: "127.0.0.1:8080"}}
		}
		g.addCfg("sidecar", g.meta(gvk.Sidecar, "sc"+strconv.Itoa(i), ns), sc)
		// distribution counters: which of the special egress listener shapes this Sidecar has
		for _, l := range sc.Egress {
			exact := len(l.Hosts) > 0
			for _, h := range l.Hosts {
				if strings.Contains(h, "*") || strings.HasPrefix(h, "~/") {
					exact = false
				}
			}
			if exact {
				g.objs[len(g.objs)-1].feat = "sidecar-exact-hosts"
			}
			if l.Port != nil && l.Port.Protocol == "HTTP_PROXY" {
				g.objs[len(g.objs)-1].feat = "sidecar-http-proxy-listener"
				break
			}
		}
	}
}

func (g *mgen) hostsOr(d string) []string {
	if len(g.hosts) == 0 {
		return []string{d}
	}
	return g.hosts
}

func (g *mgen) gateways() []string {
	var names []string
	n := g.r.Intn(4)
	for i := 0; i < n; i++ {
		ns := g.pick([]string{rootNS, rootNS, "default"})
		gw := &networking.Gateway{Selector: map[string]string{"istio": "ingressgateway"}}
		for s, m := 0, 1+g.r.Intn(3); s < m; s++ {
			var hosts []string
			switch g.r.Intn(4) {
			case 0:
				hosts = []string{"*"}
			case 1:
				hosts = []string{"a.example.com", "*.wild.example.com"}
			case 2:
				hosts = []string{"default/a.example.com", "ns1/*"}
			default:
				hosts = []string{g.pick(extHosts), "b.example.com"}
			}
			srv := &networking.Server{Hosts: hosts}
			switch g.r.Intn(4) {
			case 0, 1:
				srv.Port = &networking.Port{Number: uint32(wire.Pick(g.r, []int{80, 8080})), Name: "http-" + strconv.Itoa(s), Protocol: "HTTP"}
			case 2:
				srv.Port = &networking.Port{Number: 443, Name: "https-" + strconv.Itoa(s), Protocol: "HTTPS"}
				srv.Tls = &networking.ServerTLSSettings{Mode: networking.ServerTLSSettings_SIMPLE, CredentialName: "cred-" + strconv.Itoa(g.r.Intn(2))}
				if g.r.Chance(1, 3) {
					srv.Port.Protocol = "TLS"
					srv.Tls = &networking.ServerTLSSettings{Mode: networking.ServerTLSSettings_PASSTHROUGH}
					srv.Hosts = []string{"a.example.com", "b.example.com"}
				}
			default:
				srv.Port = &networking.Port{Number: 9000, Name: "tcp-" + strconv.Itoa(s), Protocol: "TCP"}
			}
			if g.r.Chance(1, 4) {
				srv.Name = "srv" + strconv.Itoa(s)
			}
			gw.Servers = append(gw.Servers, srv)
		}
		name := "gw" + strconv.Itoa(i)
		g.addCfg("gateway", g.meta(gvk.Gateway, name, ns), gw)
		names = append(names, ns+"/"+name)
	}
	return names
}

// ---------------------------------------------------------------- security, telemetry, extensions

func (g *mgen) security() {
	for i, n := 0, g.r.Intn(4); i < n; i++ {
		ns := g.pick(meshNamespaces)
		pa := &security.PeerAuthentication{}
		if g.r.Chance(1, 2) {
			pa.Selector = &typev1beta1.WorkloadSelector{MatchLabels: map[string]string{"app": "a"}}
			if g.r.Chance(1, 2) {
				pa.PortLevelMtls = map[uint32]*security.PeerAuthentication_MutualTLS{
					8080: {Mode: security.PeerAuthentication_MutualTLS_Mode(1 + g.r.Intn(3))},
					9000: {Mode: security.PeerAuthentication_MutualTLS_Mode(1 + g.r.Intn(3))},
				}
			}
		}
		pa.Mtls = &security.PeerAuthentication_MutualTLS{Mode: security.PeerAuthentication_MutualTLS_Mode(g.r.Intn(4))}
		g.addCfg("peerauthentication", g.meta(gvk.PeerAuthentication, "pa"+strconv.Itoa(i), ns), pa)
	}
	for i, n := 0, g.r.Intn(4); i < n; i++ {
		ns := g.pick(meshNamespaces)
		// all four actions: ALLOW, DENY, AUDIT, CUSTOM (CUSTOM names an ext_authz provider of the MeshConfig)
		ap := &security.AuthorizationPolicy{Action: security.AuthorizationPolicy_Action(g.r.Intn(4))}
		if ap.Action == security.AuthorizationPolicy_CUSTOM {
			if g.extProv {
				ap.ActionDetail = &security.AuthorizationPolicy_Provider{Provider: &security.AuthorizationPolicy_ExtensionProvider{
					Name: g.pick([]string{"ext-authz-http", "ext-authz-grpc"})}}
			} else {
				ap.Action = security.AuthorizationPolicy_DENY
			}
		}
		if g.r.Chance(1, 2) {
			ap.Selector = &typev1beta1.WorkloadSelector{MatchLabels: map[string]string{"app": "a"}}
		}
		for k, m := 0, 1+g.r.Intn(2); k < m; k++ {
			rule := &security.Rule{}
			if g.r.Chance(1, 2) {
				rule.From = []*security.Rule_From{{Source: &security.Source{Principals: []string{"cluster.local/ns/default/sa/b", "cluster.local/ns/default/sa/a"}, Namespaces: []string{"ns1"}}}}
			}
			if g.r.Chance(1, 2) {
				rule.To = []*security.Rule_To{{Operation: &security.Operation{Methods: []string{"GET", "POST"}, Paths: []string{"/a*", "/b"}, Ports: []string{"8080", "9000"}}}}
			}
			if g.r.Chance(1, 3) {
				rule.When = []*security.Condition{{Key: "request.headers[x-a]", Values: []string{"1", "2"}}, {Key: "source.ip", NotValues: []string{"10.0.0.0/8"}}}
			}
			ap.Rules = append(ap.Rules, rule)
		}
		g.addCfg("authorizationpolicy", g.meta(gvk.AuthorizationPolicy, "ap"+strconv.Itoa(i), ns), ap)
	}
	for i, n := 0, g.r.Intn(4); i < n; i++ {
		ns := g.pick(meshNamespaces)
		ra := &security.RequestAuthentication{}
		if g.r.Chance(1, 2) {
			ra.Selector = &typev1beta1.WorkloadSelector{MatchLabels: map[string]string{g.pick([]string{"app", "istio"}): g.pick([]string{"a", "ingressgateway"})}}
		}
		for k, m := 0, 1+g.r.Intn(2); k < m; k++ {
			// few issuers: rules of different (and equally old) RequestAuthentications share an issuer and differ in
			// content (audiences, header, forwarding) - the merged JWT filter depends on the order of the policies
			rule := &security.JWTRule{
				Issuer: fmt.Sprintf("issuer-%d@example.com", g.r.Intn(2)), Jwks: testJwks,
				FromHeaders:          []*security.JWTHeader{{Name: g.pick([]string{"x-jwt", "x-jwt-b"}), Prefix: "Bearer "}},
				OutputClaimToHeaders: []*security.ClaimToHeader{{Header: "x-sub", Claim: "sub"}, {Header: "x-grp", Claim: "groups"}},
			}
			if g.r.Chance(2, 3) {
				rule.Audiences = [][]string{{"aud-a"}, {"aud-b", "aud-a"}, {"aud-c"}}[g.r.Intn(3)]
			}
			rule.ForwardOriginalToken = g.r.Chance(1, 2)
			if g.r.Chance(1, 3) {
				rule.FromParams = []string{"token", "access_token"}
			}
			ra.JwtRules = append(ra.JwtRules, rule)
		}
		g.addCfg("requestauthentication", g.meta(gvk.RequestAuthentication, "ra"+strconv.Itoa(i), ns), ra)
	}
}

const testJwks = `{"keys":[{"kty":"RSA","e":"AQAB","kid":"k1","n":"xAE7eB6qugXyCAG3yhh7pkDkT65pHymX-P7KfIupjf59vsdo91bSP9C8H07pSAGQO1MV_xFj9VswgsCg4R6otmg5PV2He95lZdHtOcU5DXIg_pbhLdKXbi66GlVeK6ABZOUW3WYtnNHD-91gVuoeJT_DwtGGcp4ignkgXfkiEm4sw-4sfb4qdt5oLbyVpmW6x9cfa7vs2WTfURiCrBoUqgBo_-4WTiULmmHSGZHOjzwa8WtrtOQGsAFjIbno85jp6MnGGGZPYZbDAa_b3y5u-YpW7ypZrvD8BgtKVjgtQgZhLAGezMt0ua3DRrWnKqTZ0BJ_EyxOGuHJrLsn00fnMQ"}]}`

func (g *mgen) extensions() {
	for i, n := 0, g.r.Intn(3); i < n; i++ {
		ns := g.pick(meshNamespaces)
		ef := &networking.EnvoyFilter{}
		if g.r.Chance(1, 2) {
			ef.WorkloadSelector = &networking.WorkloadSelector{Labels: map[string]string{"app": "a"}}
		}
		if g.r.Chance(1, 3) {
			ef.Priority = int32(g.r.Intn(2))
		}
		lua, _ := structpb.NewStruct(map[string]any{
			"name": "lua-" + strconv.Itoa(i),
			"typed_config": map[string]any{
				"@type":       "type.googleapis.com/envoy.extensions.filters.http.lua.v3.Lua",
				"inline_code": "function envoy_on_request(h) end",
			},
		})
		ctx := networking.EnvoyFilter_PatchContext(g.r.Intn(4))
		ef.ConfigPatches = append(ef.ConfigPatches, &networking.EnvoyFilter_EnvoyConfigObjectPatch{
			ApplyTo: networking.EnvoyFilter_HTTP_FILTER,
			Match: &networking.EnvoyFilter_EnvoyConfigObjectMatch{Context: ctx, ObjectTypes: &networking.EnvoyFilter_EnvoyConfigObjectMatch_Listener{
				Listener: &networking.EnvoyFilter_ListenerMatch{FilterChain: &networking.EnvoyFilter_ListenerMatch_FilterChainMatch{
					Filter: &networking.EnvoyFilter_ListenerMatch_FilterMatch{Name: "envoy.filters.network.http_connection_manager",
						SubFilter: &networking.EnvoyFilter_ListenerMatch_SubFilterMatch{Name: "envoy.filters.http.router"}}}}}},
			Patch: &networking.EnvoyFilter_Patch{Operation: networking.EnvoyFilter_Patch_INSERT_BEFORE, Value: lua},
		})
		if g.r.Chance(1, 2) {
			cl, _ := structpb.NewStruct(map[string]any{"connect_timeout": fmt.Sprintf("%ds", 1+i), "metadata": map[string]any{"filter_metadata": map[string]any{"ef": map[string]any{"k" + strconv.Itoa(i): "v"}}}})
			ef.ConfigPatches = append(ef.ConfigPatches, &networking.EnvoyFilter_EnvoyConfigObjectPatch{
				ApplyTo: networking.EnvoyFilter_CLUSTER,
				Match:   &networking.EnvoyFilter_EnvoyConfigObjectMatch{Context: networking.EnvoyFilter_ANY},
				Patch:   &networking.EnvoyFilter_Patch{Operation: networking.EnvoyFilter_Patch_MERGE, Value: cl},
			})
		}
		if g.r.Chance(1, 3) {
			vh, _ := structpb.NewStruct(map[string]any{"request_headers_to_add": []any{map[string]any{"header": map[string]any{"key": "x-ef" + strconv.Itoa(i), "value": "1"}}}})
			ef.ConfigPatches = append(ef.ConfigPatches, &networking.EnvoyFilter_EnvoyConfigObjectPatch{
				ApplyTo: networking.EnvoyFilter_VIRTUAL_HOST,
				Match:   &networking.EnvoyFilter_EnvoyConfigObjectMatch{Context: networking.EnvoyFilter_ANY},
				Patch:   &networking.EnvoyFilter_Patch{Operation: networking.EnvoyFilter_Patch_MERGE, Value: vh},
			})
		}
		g.addCfg("envoyfilter", g.meta(gvk.EnvoyFilter, "ef"+strconv.Itoa(i), ns), ef)
	}
	for i, n := 0, g.r.Intn(4); i < n; i++ {
		ns := g.pick(meshNamespaces)
		tl := &telemetry.Telemetry{}
		if g.r.Chance(1, 3) {
			tl.Selector = &typev1beta1.WorkloadSelector{MatchLabels: map[string]string{"app": "a"}}
		}
		if g.r.Chance(2, 3) {
			tl.Metrics = []*telemetry.Metrics{{
				Providers: g.providerRefs("prometheus", "prom-b"),
				Overrides: []*telemetry.MetricsOverrides{{
					Match: &telemetry.MetricSelector{MetricMatch: &telemetry.MetricSelector_Metric{Metric: telemetry.MetricSelector_IstioMetric(g.r.Intn(3))}},
					TagOverrides: map[string]*telemetry.MetricsOverrides_TagOverride{
						"t1": {Value: "request.host"}, "t2": {Operation: telemetry.MetricsOverrides_TagOverride_REMOVE}, "t3": {Value: "'x'"},
					},
				}, {
					Match:    &telemetry.MetricSelector{MetricMatch: &telemetry.MetricSelector_Metric{Metric: telemetry.MetricSelector_REQUEST_COUNT}, Mode: telemetry.WorkloadMode_CLIENT},
					Disabled: wrapperspb.Bool(g.r.Chance(1, 2)),
				}},
			}}
		}
		// (which providers are in scope is decided by the LAST Metrics entry on the way root namespace -> namespace ->
		// workload; two providers with DIFFERENT filters arise when one Telemetry names both and one above it names one:
		// the Telemetry objects land in random namespaces incl. the root namespace; witness `two-metrics-providers`)
		if g.r.Chance(1, 2) {
			tl.AccessLogging = []*telemetry.AccessLogging{{Providers: g.providerRefs("envoy", "envoy-b")}}
		}
		if g.r.Chance(1, 3) {
			tl.Tracing = []*telemetry.Tracing{{Providers: g.tracingRefs(), RandomSamplingPercentage: wrapperspb.Double(10), CustomTags: map[string]*telemetry.Tracing_CustomTag{
				"ct1": {Type: &telemetry.Tracing_CustomTag_Literal{Literal: &telemetry.Tracing_Literal{Value: "a"}}},
				"ct2": {Type: &telemetry.Tracing_CustomTag_Header{Header: &telemetry.Tracing_RequestHeader{Name: "x-b"}}},
				"ct3": {Type: &telemetry.Tracing_CustomTag_Environment{Environment: &telemetry.Tracing_Environment{Name: "E"}}},
			}}}
		}
		g.addCfg("telemetry", g.meta(gvk.Telemetry, "tl"+strconv.Itoa(i), ns), tl)
	}
	for i, n := 0, g.r.Intn(3); i < n; i++ {
		ns := g.pick(meshNamespaces)
		wp := &extensions.WasmPlugin{Url: fmt.Sprintf("oci://registry.example.com/plugin%d:v1", i), Phase: extensions.PluginPhase(g.r.Intn(3)), Priority: wrapperspb.Int32(int32(g.r.Intn(2)))}
		if g.r.Chance(1, 2) {
			wp.Selector = &typev1beta1.WorkloadSelector{MatchLabels: map[string]string{"app": "a"}}
		}
		if g.r.Chance(1, 2) {
			wp.PluginConfig, _ = structpb.NewStruct(map[string]any{"k1": "v1", "k2": "v2", "k3": map[string]any{"a": 1.0, "b": 2.0}})
		}
		if g.r.Chance(1, 2) {
			wp.VmConfig = &extensions.VmConfig{Env: []*extensions.EnvVar{{Name: "B", Value: "1"}, {Name: "A", Value: "2"}}}
		}
		g.addCfg("wasmplugin", g.meta(gvk.WasmPlugin, "wp"+strconv.Itoa(i), ns), wp)
	}
	for i, n := 0, g.r.Intn(3); i < n; i++ {
		ns := g.pick(meshNamespaces)
		pc := &networkingv1beta1.ProxyConfig{Concurrency: wrapperspb.Int32(int32(1 + g.r.Intn(3))), EnvironmentVariables: map[string]string{"A": "1", "B": "2", "C": "3"}}
		if g.r.Chance(1, 2) {
			pc.Selector = &typev1beta1.WorkloadSelector{MatchLabels: map[string]string{"app": "a"}}
		}
		g.addCfg("proxyconfig", g.meta(gvk.ProxyConfig, "pc"+strconv.Itoa(i), ns), pc)
	}
}

// providerRefs: the first provider, and in meshes with extra extension providers the second one too, in either order.
func (g *mgen) providerRefs(first, second string) []*telemetry.ProviderRef {
	if !g.extProv {
		return []*telemetry.ProviderRef{{Name: first}}
	}
	switch g.r.Intn(4) {
	case 0:
		return []*telemetry.ProviderRef{{Name: first}}
	case 1:
		return []*telemetry.ProviderRef{{Name: second}}
	case 2:
		return []*telemetry.ProviderRef{{Name: second}, {Name: first}}
	}
	return []*telemetry.ProviderRef{{Name: first}, {Name: second}}
}

func (g *mgen) tracingRefs() []*telemetry.ProviderRef {
	if !g.extProv || g.r.Chance(1, 4) {
		return nil
	}
	return []*telemetry.ProviderRef{{Name: g.pick([]string{"zipkin-t", "otel-t"})}}
}

// providerHost: a service the tracing / ext_authz providers point at (it has to resolve, else the provider is dropped).
func (g *mgen) providerHost() string {
	for _, h := range g.hosts {
		if !strings.Contains(h, "*") {
			return h
		}
	}
	return "a.default.svc.cluster.local"
}

// buildMesh derives the mesh of a seed. `size` scales nothing yet beyond the generator's own
// randomness; it is part of the case line so that a later widening stays replayable.
func buildMesh(seed uint64) *meshDesc {
	g := &mgen{r: wire.NewRng(seed ^ 0xc17c17), nTimes: 1}
	if g.r.Chance(1, 2) {
		g.nTimes = 2
	} else if g.r.Chance(1, 4) {
		g.nTimes = 5
	}
	if g.r.Chance(1, 12) {
		g.scale = 3
	}
	g.multiNet = g.r.Chance(1, 6)
	g.extProv = g.r.Chance(1, 2)
	g.twoClusters = g.r.Chance(1, 4)
	g.k8sObjects()
	g.gammaRoutes()
	g.serviceEntries()
	gws := g.gateways()
	g.virtualServices(gws)
	g.delegates()
	g.destinationRules()
	g.sidecars()
	g.security()
	g.extensions()
	g.trafficExtensions()
	md := &meshDesc{seed: seed, objs: g.objs, mc: g.meshConfig()}
	if g.multiNet {
		gw := func(addr string) *meshconfig.Network_IstioNetworkGateway {
			return &meshconfig.Network_IstioNetworkGateway{Gw: &meshconfig.Network_IstioNetworkGateway_Address{Address: addr}, Port: 15443}
		}
		md.nets = &meshconfig.MeshNetworks{Networks: map[string]*meshconfig.Network{
			"n1": {Endpoints: []*meshconfig.Network_NetworkEndpoints{{Ne: &meshconfig.Network_NetworkEndpoints_FromRegistry{FromRegistry: "Kubernetes"}}},
				Gateways: []*meshconfig.Network_IstioNetworkGateway{gw("1.1.1.9")}},
			"n2": {Gateways: []*meshconfig.Network_IstioNetworkGateway{gw("2.2.2.3"), gw("2.2.2.2"), gw("2.2.2.10")}},
		}}
	}
	return md
}

// meshConfig varies the mesh-wide settings that steer generation.
func (g *mgen) meshConfig() *meshconfig.MeshConfig {
	m := mesh.DefaultMeshConfig()
	if g.r.Chance(1, 4) {
		m.OutboundTrafficPolicy = &meshconfig.MeshConfig_OutboundTrafficPolicy{Mode: meshconfig.MeshConfig_OutboundTrafficPolicy_REGISTRY_ONLY}
	}
	if g.r.Chance(1, 5) {
		m.EnableAutoMtls = wrapperspb.Bool(false)
	}
	if g.r.Chance(1, 4) {
		m.AccessLogFile = "/dev/stdout"
	}
	if g.r.Chance(1, 6) {
		m.DefaultServiceExportTo = []string{"."}
	}
	if g.r.Chance(1, 6) {
		m.DefaultVirtualServiceExportTo = []string{"."}
	}
	if g.r.Chance(1, 6) {
		m.DefaultDestinationRuleExportTo = []string{"."}
	}
	if g.r.Chance(1, 5) {
		m.LocalityLbSetting = &networking.LocalityLoadBalancerSetting{Enabled: wrapperspb.Bool(true),
			Failover: []*networking.LocalityLoadBalancerSetting_Failover{{From: "r1", To: "r2"}, {From: "r2", To: "r1"}}}
	}
	if g.r.Chance(1, 5) {
		m.InboundTrafficPolicy = &meshconfig.MeshConfig_InboundTrafficPolicy{Mode: meshconfig.MeshConfig_InboundTrafficPolicy_LOCALHOST}
	}
	if g.r.Chance(1, 5) {
		m.ProxyHttpPort = 15002 // the http_proxy listener and route (mergeAllVirtualHosts)
	}
	if g.extProv {
		// more than one provider per telemetry kind (the default config has one prometheus, one file access log), tracing
		// providers (custom tags), ext_authz providers (AuthorizationPolicy CUSTOM)
		h := g.providerHost()
		m.ExtensionProviders = append(m.ExtensionProviders,
			&meshconfig.MeshConfig_ExtensionProvider{Name: "prom-b", Provider: &meshconfig.MeshConfig_ExtensionProvider_Prometheus{
				Prometheus: &meshconfig.MeshConfig_ExtensionProvider_PrometheusMetricsProvider{}}},
			&meshconfig.MeshConfig_ExtensionProvider{Name: "envoy-b", Provider: &meshconfig.MeshConfig_ExtensionProvider_EnvoyFileAccessLog{
				EnvoyFileAccessLog: &meshconfig.MeshConfig_ExtensionProvider_EnvoyFileAccessLogProvider{Path: "/dev/stderr",
					LogFormat: &meshconfig.MeshConfig_ExtensionProvider_EnvoyFileAccessLogProvider_LogFormat{
						LogFormat: &meshconfig.MeshConfig_ExtensionProvider_EnvoyFileAccessLogProvider_LogFormat_Labels{Labels: &structpb.Struct{Fields: map[string]*structpb.Value{
							"a": structpb.NewStringValue("%REQ(:METHOD)%"), "b": structpb.NewStringValue("%RESPONSE_CODE%"), "c": structpb.NewStringValue("%DURATION%")}}}}}}},
			&meshconfig.MeshConfig_ExtensionProvider{Name: "zipkin-t", Provider: &meshconfig.MeshConfig_ExtensionProvider_Zipkin{
				Zipkin: &meshconfig.MeshConfig_ExtensionProvider_ZipkinTracingProvider{Service: h, Port: 80, MaxTagLength: 64}}},
			&meshconfig.MeshConfig_ExtensionProvider{Name: "otel-t", Provider: &meshconfig.MeshConfig_ExtensionProvider_Opentelemetry{
				Opentelemetry: &meshconfig.MeshConfig_ExtensionProvider_OpenTelemetryTracingProvider{Service: h, Port: 80,
					ResourceDetectors: &meshconfig.MeshConfig_ExtensionProvider_ResourceDetectors{Environment: &meshconfig.MeshConfig_ExtensionProvider_ResourceDetectors_EnvironmentResourceDetector{}}}}},
			&meshconfig.MeshConfig_ExtensionProvider{Name: "ext-authz-http", Provider: &meshconfig.MeshConfig_ExtensionProvider_EnvoyExtAuthzHttp{
				EnvoyExtAuthzHttp: &meshconfig.MeshConfig_ExtensionProvider_EnvoyExternalAuthorizationHttpProvider{Service: h, Port: 80,
					IncludeRequestHeadersInCheck: []string{"x-b", "x-a"}, HeadersToUpstreamOnAllow: []string{"x-u2", "x-u1"},
					IncludeAdditionalHeadersInCheck: map[string]string{"x-add-b": "2", "x-add-a": "1", "x-add-c": "3"}}}},
			&meshconfig.MeshConfig_ExtensionProvider{Name: "ext-authz-grpc", Provider: &meshconfig.MeshConfig_ExtensionProvider_EnvoyExtAuthzGrpc{
				EnvoyExtAuthzGrpc: &meshconfig.MeshConfig_ExtensionProvider_EnvoyExternalAuthorizationGrpcProvider{Service: h, Port: 80}}},
		)
		if g.r.Chance(1, 2) {
			m.DefaultProviders = &meshconfig.MeshConfig_DefaultProviders{Metrics: []string{"prom-b", "prometheus"}, AccessLogging: []string{"envoy-b", "envoy"}}
			if g.r.Chance(1, 2) {
				m.DefaultProviders.Tracing = []string{"zipkin-t"}
			}
		}
	}
	if g.r.Chance(1, 6) {
		m.ServiceSettings = []*meshconfig.MeshConfig_ServiceSettings{{Settings: &meshconfig.MeshConfig_ServiceSettings_Settings{ClusterLocal: true},
			Hosts: []string{"*.ns1.svc.cluster.local", "b.default.svc.cluster.local"}}}
	}
	return m
}
