package main

// Stream `cmp`, second part: the pipeline ops (lean/IstioModel/C17/Pipeline.lean).
//
//	sidx  <id;time;name;ns;obj;host;addr;kube,...>     PushContext.initServiceRegistry (hook)      -> pub=ids idx=host;ns=id,...
//	alias <concreteHost> <ns;host,...>                 resolveServiceAliases via the same hook      -> ns;host,...
//	vh    <host;vip,...>                               real RDS of a sidecar on the memory registry -> own=host:0/1,... svcs=host,...
//	ef    <id;ns;name;prio;time;zone,...> <proxyNs>    initEnvoyFilters + EnvoyFilters(proxy) (hook) -> ids
//	te    <id;time;name;ns;prio;phase,...> <proxyNs>   initTrafficExtensions + TrafficExtensions(proxy) (hook) -> 0:ids 1:ids 2:ids 3:ids
//	pickf <ns;vis,...> <configNs>                      pickFirstVisibleNamespace (hook)             -> namespace
//	inb   <targetPort,...>                             real CDS of a sidecar with these service targets -> inbound cluster ports
//	lst   <vip;port,...>                               real LDS of a sidecar, TCP services on the memory registry -> listener names
//	drm   <id;time;name;ns;host;subsets;policy,...> <ns> <host>  setDestinationRules (hook): sort + mergeDestinationRule
//	                                                   -> none | from=ids subsets=name@id,... policy=p

import (
	"fmt"
	"sort"
	"strconv"
	"strings"
	"time"

	route "github.com/envoyproxy/go-control-plane/envoy/config/route/v3"
	"google.golang.org/protobuf/types/known/structpb"
	"google.golang.org/protobuf/types/known/wrapperspb"

	extensions "istio.io/api/extensions/v1alpha1"
	networking "istio.io/api/networking/v1alpha3"
	"istio.io/istio/pilot/pkg/config/memory"
	"istio.io/istio/pilot/pkg/model"
	"istio.io/istio/pilot/pkg/networking/core"
	memregistry "istio.io/istio/pilot/pkg/serviceregistry/memory"
	"istio.io/istio/pilot/pkg/serviceregistry/provider"
	"istio.io/istio/pkg/config"
	"istio.io/istio/pkg/config/host"
	"istio.io/istio/pkg/config/mesh"
	"istio.io/istio/pkg/config/mesh/meshwatcher"
	"istio.io/istio/pkg/config/protocol"
	"istio.io/istio/pkg/config/schema/collections"
	"istio.io/istio/pkg/config/schema/gvk"
	"istio.io/istio/pkg/config/visibility"
	"istio.io/istio/pkg/util/sets"
	"verifharness/internal/wire"
)

// listSD is a registry that lists the given services in the given order.
type listSD struct {
	*memregistry.ServiceDiscovery
	list []*model.Service
}

func (l *listSD) Services() []*model.Service { return append([]*model.Service(nil), l.list...) }

// bareEnv: an Environment with a list registry and an in-memory config store; `done` releases it.
func bareEnv() (env *model.Environment, done func()) {
	stop := make(chan struct{})
	env = model.NewEnvironment()
	env.Watcher = meshwatcher.NewTestWatcher(mesh.DefaultMeshConfig())
	env.ServiceDiscovery = &listSD{ServiceDiscovery: memregistry.NewServiceDiscovery()}
	env.ConfigStore = memory.Make(collections.Pilot, true, stop)
	return env, func() { close(stop) }
}

// Go's `!=` on time.Time compares the Location POINTER: the zones are created once.
var verifZones = []*time.Location{nil, time.FixedZone("verif1", 3600), time.FixedZone("verif2", -7200)}

func zoneTime(t, zone int) time.Time {
	tm := time.Unix(int64(1700000000+t), 0)
	if zone <= 0 || zone >= len(verifZones) {
		return tm.UTC()
	}
	return tm.In(verifZones[zone])
}

func (c *cmpSUT) apply2(f []string) (string, bool) {
	switch f[0] {
	case "sidx":
		ids := map[*model.Service]int{}
		var list []*model.Service
		for _, e := range elems(f[1]) {
			p := fields(e)
			s := &model.Service{
				Hostname: host.Name(p[5]), DefaultAddress: p[6], CreationTime: timeOf(atoi(p[1])),
				Ports:      model.PortList{{Name: "http", Port: 80, Protocol: protocol.HTTP}},
				Attributes: model.ServiceAttributes{Name: p[2], Namespace: p[3], ServiceRegistry: provider.External, ExportTo: sets.New(visibility.Public), K8sAttributes: model.K8sAttributes{ObjectName: p[4]}},
			}
			if p[7] == "1" {
				s.Attributes.ServiceRegistry = provider.Kubernetes
			}
			ids[s] = atoi(p[0])
			list = append(list, s)
		}
		env, done := bareEnv()
		defer done()
		env.ServiceDiscovery.(*listSD).list = list
		ps, pub := model.VerifC17ServiceIndex(env)
		var ps1, idx []string
		for _, s := range pub {
			ps1 = append(ps1, strconv.Itoa(ids[s]))
		}
		for h, m := range ps.ServiceIndex.HostnameAndNamespace {
			for ns, s := range m {
				idx = append(idx, wire.Enc(string(h))+";"+wire.Enc(ns)+"="+strconv.Itoa(ids[s]))
			}
		}
		sort.Strings(idx)
		return "pub=" + joinElems(ps1) + " idx=" + joinElems(idx), true
	case "alias":
		concrete := wire.Dec(f[1])
		list := []*model.Service{{
			Hostname: host.Name(concrete), CreationTime: timeOf(0), Ports: model.PortList{{Name: "http", Port: 80, Protocol: protocol.HTTP}},
			Attributes: model.ServiceAttributes{Name: "concrete", Namespace: "default", ServiceRegistry: provider.Kubernetes, ExportTo: sets.New(visibility.Public)},
		}}
		for i, e := range elems(f[2]) {
			p := fields(e)
			list = append(list, &model.Service{
				Hostname: host.Name(p[1]), CreationTime: timeOf(i % 3), Resolution: model.Alias, Ports: model.PortList{{Name: "http", Port: 80, Protocol: protocol.HTTP}},
				Attributes: model.ServiceAttributes{Name: "alias" + strconv.Itoa(i), Namespace: p[0], ServiceRegistry: provider.Kubernetes, ExportTo: sets.New(visibility.Public),
					K8sAttributes: model.K8sAttributes{ExternalName: concrete}},
			})
		}
		env, done := bareEnv()
		defer done()
		env.ServiceDiscovery.(*listSD).list = list
		ps, _ := model.VerifC17ServiceIndex(env)
		var out []string
		if s := ps.ServiceIndex.HostnameAndNamespace[host.Name(concrete)]["default"]; s != nil {
			for _, a := range s.Attributes.Aliases {
				out = append(out, wire.Enc(a.Namespace)+";"+wire.Enc(string(a.Hostname)))
			}
		}
		return joinElems(out), true
	case "ef":
		env, done := bareEnv()
		defer done()
		idOf := map[string]int{}
		for _, e := range elems(f[1]) {
			p := fields(e)
			val, _ := structpb.NewStruct(map[string]any{"name": "f" + p[0], "typed_config": map[string]any{
				"@type": "type.googleapis.com/envoy.extensions.filters.http.lua.v3.Lua", "inline_code": "function envoy_on_request(h) end"}})
			cfg := config.Config{
				Meta: config.Meta{GroupVersionKind: gvk.EnvoyFilter, Name: p[2], Namespace: p[1], CreationTimestamp: zoneTime(atoi(p[4]), atoi(p[5])), ResourceVersion: "1"},
				Spec: &networking.EnvoyFilter{Priority: int32(atoi(p[3])), ConfigPatches: []*networking.EnvoyFilter_EnvoyConfigObjectPatch{{
					ApplyTo: networking.EnvoyFilter_HTTP_FILTER,
					Patch:   &networking.EnvoyFilter_Patch{Operation: networking.EnvoyFilter_Patch_INSERT_FIRST, Value: val},
				}}},
			}
			if _, err := env.ConfigStore.Create(cfg); err != nil {
				return "create-error", true
			}
			idOf[p[1]+"/"+p[2]] = atoi(p[0])
		}
		proxy := &model.Proxy{Type: model.SidecarProxy, ConfigNamespace: wire.Dec(f[2]), Metadata: &model.NodeMetadata{}, Labels: map[string]string{"app": "a"}}
		merged := model.VerifC17EnvoyFilters(env, proxy)
		var ids []string
		if merged != nil {
			for _, cp := range merged.Patches[networking.EnvoyFilter_HTTP_FILTER] {
				ids = append(ids, strconv.Itoa(idOf[cp.Namespace+"/"+cp.Name]))
			}
		}
		return joinElems(ids), true
	case "te":
		env, done := bareEnv()
		defer done()
		idOf := map[string]int{}
		for _, e := range elems(f[1]) {
			p := fields(e)
			spec := &extensions.TrafficExtension{Phase: extensions.TrafficExtension_ExecutionPhase(atoi(p[5])),
				FilterConfig: &extensions.TrafficExtension_Lua{Lua: &extensions.LuaConfig{InlineCode: "function envoy_on_request(h) end"}}}
			if p[4] != "-" {
				spec.Priority = wrapperspb.Int32(int32(atoi(p[4])))
			}
			cfg := config.Config{Meta: config.Meta{GroupVersionKind: gvk.TrafficExtension, Name: p[2], Namespace: p[3], CreationTimestamp: timeOf(atoi(p[1])), ResourceVersion: "1"}, Spec: spec}
			if _, err := env.ConfigStore.Create(cfg); err != nil {
				return "create-error:" + wire.Enc(err.Error()), true
			}
			idOf[p[3]+"/"+p[2]] = atoi(p[0])
		}
		proxy := &model.Proxy{Type: model.SidecarProxy, ConfigNamespace: wire.Dec(f[2]), Metadata: &model.NodeMetadata{}, Labels: map[string]string{"app": "a"}}
		by := model.VerifC17TrafficExtensions(env, proxy)
		var out []string
		for ph := 0; ph < 4; ph++ {
			var ids []string
			for _, w := range by[extensions.TrafficExtension_ExecutionPhase(ph)] {
				ids = append(ids, strconv.Itoa(idOf[w.Namespace+"/"+w.Name]))
			}
			out = append(out, strconv.Itoa(ph)+":"+joinElems(ids))
		}
		return strings.Join(out, " "), true
	case "pickf":
		by := map[string]*model.Service{}
		for _, e := range elems(f[1]) {
			p := fields(e)
			svc := &model.Service{Hostname: "h.example.com", Attributes: model.ServiceAttributes{Name: "h.example.com", Namespace: p[0], ServiceRegistry: provider.External, ExportTo: sets.New(visibility.None)}}
			if p[1] == "1" {
				svc.Attributes.ExportTo = sets.New(visibility.Public)
			}
			by[p[0]] = svc
		}
		return wire.Enc(model.VerifC17PickFirstVisibleNamespace(model.NewPushContext(), by, wire.Dec(f[2]))), true
	case "drm":
		var cfgs []config.Config
		idOf := map[string]string{}
		for _, e := range elems(f[1]) {
			p := fields(e)
			spec := &networking.DestinationRule{Host: p[4]}
			if p[5] != "-" {
				for _, sn := range strings.Split(p[5], "+") {
					spec.Subsets = append(spec.Subsets, &networking.Subset{Name: sn, Labels: map[string]string{"owner": p[0]}})
				}
			}
			if p[6] != "0" {
				spec.TrafficPolicy = &networking.TrafficPolicy{ConnectionPool: &networking.ConnectionPoolSettings{
					Tcp: &networking.ConnectionPoolSettings_TCPSettings{MaxConnections: int32(atoi(p[6]))}}}
			}
			cfgs = append(cfgs, config.Config{Meta: config.Meta{GroupVersionKind: gvk.DestinationRule, Name: p[2], Namespace: p[3],
				CreationTimestamp: timeOf(atoi(p[1])), ResourceVersion: "1"}, Spec: spec})
			idOf[p[3]+"/"+p[2]] = p[0]
		}
		res := model.VerifC17MergeDestinationRules(mesh.DefaultMeshConfig(), cfgs, wire.Dec(f[2]), host.Name(wire.Dec(f[3])))
		if len(res) == 0 {
			return "none", true
		}
		var outs []string
		for _, m := range res {
			var from, subs []string
			for _, nn := range m.GetFrom() {
				from = append(from, idOf[nn.Namespace+"/"+nn.Name])
			}
			rule := m.GetRule().Spec.(*networking.DestinationRule)
			for _, sb := range rule.Subsets {
				subs = append(subs, sb.Name+"@"+sb.Labels["owner"])
			}
			pol := "0"
			if rule.TrafficPolicy != nil {
				pol = strconv.Itoa(int(rule.TrafficPolicy.GetConnectionPool().GetTcp().GetMaxConnections()))
			}
			outs = append(outs, "from="+joinElems(from)+" subsets="+joinElems(subs)+" policy="+pol)
		}
		return strings.Join(outs, " | "), true
	case "vh":
		return c.vh(f[1]), true
	case "inb":
		return c.inb(f[1]), true
	case "lst":
		return c.lst(f[1]), true
	}
	return "", false
}

// freshPush rebuilds a PushContext from the server's environment and a sidecar proxy on it.
func (c *cmpSUT) freshPush() (*model.PushContext, *model.Proxy) {
	s := c.server()
	push := model.NewPushContext()
	push.PushVersion = "verif"
	push.InitContext(s.Env(), nil, nil)
	p := &model.Proxy{Type: model.SidecarProxy, ID: "p.default", ConfigNamespace: "default", DNSDomain: "default.svc.cluster.local",
		IPAddresses: []string{"10.77.0.1"}, Metadata: &model.NodeMetadata{Namespace: "default", IstioVersion: "1.23.0"}, WatchedResources: map[string]*model.WatchedResource{}}
	p.IstioVersion = model.ParseIstioVersion("1.23.0")
	p.SetSidecarScope(push)
	p.SetServiceTargets(s.Env().ServiceDiscovery)
	p.DiscoverIPMode()
	return push, p
}

func (c *cmpSUT) vh(tok string) string {
	s := c.server()
	var hosts []string
	for _, e := range elems(tok) {
		p := fields(e)
		addr := p[1]
		if addr == "" {
			addr = "0.0.0.0"
		}
		s.MemRegistry.AddService(&model.Service{Hostname: host.Name(p[0]), DefaultAddress: addr, Resolution: model.ClientSideLB,
			Ports:      model.PortList{{Name: "http", Port: 80, Protocol: protocol.HTTP}},
			Attributes: model.ServiceAttributes{Name: p[0], Namespace: "default", ExportTo: sets.New(visibility.Public)}})
		hosts = append(hosts, p[0])
	}
	defer func() {
		for _, h := range hosts {
			s.MemRegistry.RemoveService(host.Name(h))
		}
	}()
	push, p := c.freshPush()
	res, _ := s.ConfigGen.BuildHTTPRoutes(p, pushRequest(push), []string{"80"})
	vip := map[string]string{}
	for _, e := range elems(tok) {
		f := fields(e)
		vip[f[0]] = f[1]
	}
	var own []string
	for _, r := range res {
		rc := &route.RouteConfiguration{}
		if r.Resource.UnmarshalTo(rc) != nil {
			continue
		}
		for _, v := range rc.VirtualHosts {
			h := strings.TrimSuffix(v.Name, ":80")
			if _, ok := vip[h]; !ok {
				continue
			}
			has := false
			for _, d := range v.Domains {
				if vip[h] != "" && d == vip[h] {
					has = true
				}
			}
			own = append(own, wire.Enc(h)+":"+wire.B(has))
		}
	}
	sort.Strings(own)
	_, _, cache := core.BuildSidecarOutboundVirtualHosts(p, push, "80", 80, nil, model.DisabledCache{})
	var svcs []string
	if cache != nil {
		for _, sv := range cache.Services {
			if _, ok := vip[string(sv.Hostname)]; ok {
				svcs = append(svcs, wire.Enc(string(sv.Hostname)))
			}
		}
	}
	return "own=" + joinElems(own) + " svcs=" + joinElems(svcs)
}

func (c *cmpSUT) inb(tok string) string {
	s := c.server()
	push, p := c.freshPush()
	svc := &model.Service{Hostname: "inb.default.svc.cluster.local", DefaultAddress: "10.78.0.1",
		Attributes: model.ServiceAttributes{Name: "inb", Namespace: "default", ServiceRegistry: provider.Kubernetes}}
	p.ServiceTargets = nil
	for i, e := range elems(tok) {
		port := &model.Port{Name: "tcp-" + strconv.Itoa(i), Port: 7000 + i, Protocol: protocol.TCP}
		svc.Ports = append(svc.Ports, port)
		p.ServiceTargets = append(p.ServiceTargets, model.ServiceTarget{Service: svc, Port: model.ServiceInstancePort{ServicePort: port, TargetPort: uint32(atoi(e))}})
	}
	res, _ := s.ConfigGen.BuildClusters(p, pushRequest(push))
	var ports []string
	for _, r := range res {
		if strings.HasPrefix(r.Name, "inbound|") {
			ports = append(ports, strings.Split(r.Name, "|")[1])
		}
	}
	return joinElems(ports)
}

func (c *cmpSUT) lst(tok string) string {
	s := c.server()
	var hosts []string
	want := map[string]bool{}
	for i, e := range elems(tok) {
		p := fields(e)
		h := fmt.Sprintf("lst%d.default.svc.cluster.local", i)
		s.MemRegistry.AddService(&model.Service{Hostname: host.Name(h), DefaultAddress: p[0], Resolution: model.ClientSideLB,
			Ports:      model.PortList{{Name: "tcp", Port: atoi(p[1]), Protocol: protocol.TCP}},
			Attributes: model.ServiceAttributes{Name: h, Namespace: "default", ExportTo: sets.New(visibility.Public)}})
		hosts = append(hosts, h)
		want[p[0]+"_"+p[1]] = true
	}
	defer func() {
		for _, h := range hosts {
			s.MemRegistry.RemoveService(host.Name(h))
		}
	}()
	push, p := c.freshPush()
	var names []string
	for _, l := range s.ConfigGen.BuildListeners(p, push) {
		if want[l.Name] {
			names = append(names, l.Name)
		}
	}
	return joinElems(names)
}

// ---------------------------------------------------------------- generator, second part

var (
	poolVH     = []string{"ext1.example.com", "ext2.example.com", "api.example.com", "db.example.com", "a.example.com", "zz.example.com", "b-1.example.com", "b.1.example.com", "*.wild.example.com"}
	poolVip    = []string{"", "240.240.0.1", "240.240.0.2", "240.241.0.1"}
	poolEFNs   = []string{"istio-system", "default", "ns1"}
	poolDRHost = []string{"ext1.example.com", "ext2.example.com", "*.wild.example.com"}
)

func genCmpOp2(r *wire.Rng) []string {
	switch r.Intn(9) {
	case 7:
		// DestinationRules (no workloadSelector, no exportTo): few timestamps, two namespaces, three hosts, overlapping
		// subset names, some without a top-level traffic policy
		seen := map[string]bool{}
		var l []string
		nt := 1 + r.Intn(3)
		drNs := func() string { return poolNs[r.Intn(4)/3] } // mostly one namespace, so that several rules meet on a host
		drHost := func() string {
			if r.Chance(2, 3) {
				return poolDRHost[0]
			}
			return wire.Pick(r, poolDRHost)
		}
		for i, n := 0, 1+r.Intn(9); i < n; i++ {
			ns, name := drNs(), wire.Pick(r, []string{"a", "b", "ab", "a-b", "z", "dr"})
			if seen[ns+"/"+name] {
				continue
			}
			seen[ns+"/"+name] = true
			var subs []string
			for k, m := 0, r.Intn(4); k < m; k++ {
				subs = append(subs, wire.Pick(r, []string{"v1", "v2", "v3", "canary"}))
			}
			ss := "-"
			if len(subs) > 0 {
				ss = strings.Join(subs, "+")
			}
			pol := "0"
			if r.Chance(1, 2) {
				pol = strconv.Itoa(100 + i)
			}
			l = append(l, encFields(strconv.Itoa(i), strconv.Itoa(r.Intn(nt)), name, ns, drHost(), ss, pol))
		}
		return []string{"drm", joinElems(l), wire.Enc(drNs()), wire.Enc(drHost())}
	case 0:
		// services: few timestamps/names/namespaces, several per (host, ns), some Kubernetes
		n := r.Intn(9)
		nt := 1 + r.Intn(3)
		var l []string
		for i := 0; i < n; i++ {
			h := wire.Pick(r, poolHost)
			name := h
			kube := r.Chance(1, 4)
			if kube {
				name = wire.Pick(r, []string{"a", "b"})
			}
			l = append(l, encFields(strconv.Itoa(i), strconv.Itoa(r.Intn(nt)), name, poolNs[r.Intn(2)], wire.Pick(r, poolObj), h, fmt.Sprintf("10.0.0.%d", i+1), wire.B(kube)))
		}
		return []string{"sidx", joinElems(l)}
	case 1:
		seen := map[string]bool{}
		var l []string
		for i, n := 0, r.Intn(7); i < n; i++ {
			e := encFields(wire.Pick(r, poolNs), wire.Pick(r, []string{"alias.default.svc.cluster.local", "x.ns1.svc.cluster.local", "b.example.com", "a.example.com", "A.example.com"}))
			if !seen[e] {
				seen[e] = true
				l = append(l, e)
			}
		}
		return []string{"alias", wire.Enc("concrete.default.svc.cluster.local"), joinElems(l)}
	case 2:
		cand := append([]string(nil), poolVH...)
		shuffle(r, cand)
		var l []string
		for i, n := 0, r.Intn(7); i < n; i++ {
			l = append(l, encFields(cand[i], wire.Pick(r, poolVip)))
		}
		return []string{"vh", joinElems(l)}
	case 3:
		seen := map[string]bool{}
		var l []string
		nt := 1 + r.Intn(2)
		n, names, zones := r.Intn(9), []string{"a", "b", "ab", "a-b", "z"}, true
		if r.Chance(1, 4) {
			// more than 12 filters reach the second sort (sort.Slice: insertion sort up to 12 elements, pdqsort - not
			// stable - above). The model sorts with a stable insertion sort, so the two agree only where the comparator
			// leaves no tie: the same representation of the creation time everywhere (zone 0).
			n, names, zones = 16+r.Intn(14), []string{"a", "b", "ab", "a-b", "z", "c", "d", "e", "f", "g", "h", "a.b"}, false
		}
		for i := 0; i < n; i++ {
			ns, name := wire.Pick(r, poolEFNs), wire.Pick(r, names)
			if seen[ns+"/"+name] {
				continue
			}
			seen[ns+"/"+name] = true
			zone := 0
			if zones {
				zone = r.Intn(3) * r.Intn(2)
			}
			l = append(l, encFields(strconv.Itoa(i), ns, name, strconv.Itoa(r.Intn(3)-1), strconv.Itoa(r.Intn(nt)), strconv.Itoa(zone)))
		}
		return []string{"ef", joinElems(l), wire.Enc(wire.Pick(r, poolEFNs))}
	case 4:
		seen := map[string]bool{}
		var l []string
		nt := 1 + r.Intn(2)
		for i, n := 0, r.Intn(9); i < n; i++ {
			ns, name := wire.Pick(r, poolEFNs), wire.Pick(r, []string{"a", "b", "ab", "a-b", "z"})
			if seen[ns+"/"+name] {
				continue
			}
			seen[ns+"/"+name] = true
			prio := "-"
			if r.Chance(2, 3) {
				prio = strconv.Itoa(r.Intn(3) - 1)
			}
			l = append(l, encFields(strconv.Itoa(i), strconv.Itoa(r.Intn(nt)), name, ns, prio, strconv.Itoa(r.Intn(3))))
		}
		return []string{"te", joinElems(l), wire.Enc(wire.Pick(r, poolEFNs))}
	case 5:
		seen := map[string]bool{}
		var l []string
		for i, n := 0, r.Intn(6); i < n; i++ {
			ns := wire.Pick(r, poolNs)
			if seen[ns] {
				continue
			}
			seen[ns] = true
			l = append(l, encFields(ns, wire.B(r.Chance(3, 4))))
		}
		return []string{"pickf", joinElems(l), wire.Enc(wire.Pick(r, poolNs))}
	case 6:
		var l []string
		for i, n := 0, r.Intn(7); i < n; i++ {
			l = append(l, strconv.Itoa(wire.Pick(r, []int{8080, 9000, 80, 8443, 10000, 9001, 443})))
		}
		return []string{"inb", joinElems(l)}
	default:
		var l []string
		for i, n := 0, r.Intn(7); i < n; i++ {
			l = append(l, encFields(wire.Pick(r, []string{"10.1.0.1", "10.1.0.2", "10.1.0.10", "10.2.0.1"}), strconv.Itoa(wire.Pick(r, []int{9000, 9001, 443, 10000, 3306}))))
		}
		return []string{"lst", joinElems(l)}
	}
}
