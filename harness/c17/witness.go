package main

// Hand-written witness meshes (`case <n> perm mesh=<name> ...`): the minimal configurations on which
// generation was observed to be non-deterministic on the pinned tree (findings C17-1 .. C17-9, see
// notes/C17.md). They are the regression corpus: independent of the seeded generator.

import (
	"fmt"
	"strconv"
	"time"

	"google.golang.org/protobuf/types/known/durationpb"
	"google.golang.org/protobuf/types/known/wrapperspb"
	corev1 "k8s.io/api/core/v1"
	discoveryv1 "k8s.io/api/discovery/v1"
	metav1 "k8s.io/apimachinery/pkg/apis/meta/v1"
	"k8s.io/apimachinery/pkg/util/intstr"

	meshconfig "istio.io/api/mesh/v1alpha1"
	networking "istio.io/api/networking/v1alpha3"
	security "istio.io/api/security/v1beta1"
	telemetry "istio.io/api/telemetry/v1alpha1"
	typev1beta1 "istio.io/api/type/v1beta1"
	"istio.io/istio/pilot/pkg/model"
	cluster2 "istio.io/istio/pkg/cluster"
	"istio.io/istio/pkg/config/schema/gvk"
	"istio.io/istio/pkg/ptr"
	"verifharness/internal/wire"
)

func newWitnessGen() *mgen { return &mgen{r: wire.NewRng(1), nTimes: 1} }

// k8sService adds a Service with `npods` pods spread over `nslices` EndpointSlices.
func (g *mgen) k8sService(name, ns, clusterIP string, ports []corev1.ServicePort, npods, nslices int, firstIP string) {
	g.addK8s("k8s-service", "Service/"+ns+"/"+name, &corev1.Service{
		ObjectMeta: metav1.ObjectMeta{Name: name, Namespace: ns, CreationTimestamp: metav1.NewTime(t0), ResourceVersion: "1"},
		Spec:       corev1.ServiceSpec{ClusterIP: clusterIP, Selector: map[string]string{"app": name}, Ports: ports},
	})
	var eps []discoveryv1.Endpoint
	for p := 0; p < npods; p++ {
		g.podIP++
		ip := fmt.Sprintf("10.10.%d.%d", g.podIP/250, g.podIP%250+1)
		if p == 0 && firstIP != "" {
			ip = firstIP
		}
		pname := fmt.Sprintf("%s-%d", name, p)
		g.addK8s("pod", "Pod/"+ns+"/"+pname, &corev1.Pod{
			ObjectMeta: metav1.ObjectMeta{Name: pname, Namespace: ns, CreationTimestamp: metav1.NewTime(t0), ResourceVersion: "1", Labels: map[string]string{"app": name, "version": "v1"}},
			Spec:       corev1.PodSpec{NodeName: "n0", ServiceAccountName: "default"},
			Status: corev1.PodStatus{PodIP: ip, PodIPs: []corev1.PodIP{{IP: ip}}, Phase: corev1.PodRunning,
				Conditions: []corev1.PodCondition{{Type: corev1.PodReady, Status: corev1.ConditionTrue}}},
		})
		eps = append(eps, discoveryv1.Endpoint{Addresses: []string{ip}, Conditions: discoveryv1.EndpointConditions{Ready: ptr.Of(true)},
			TargetRef: &corev1.ObjectReference{Kind: "Pod", Name: pname, Namespace: ns}, NodeName: ptr.Of("n0")})
	}
	var sports []discoveryv1.EndpointPort
	for _, p := range ports {
		sports = append(sports, discoveryv1.EndpointPort{Name: ptr.Of(p.Name), Port: ptr.Of(p.TargetPort.IntVal), Protocol: ptr.Of(corev1.ProtocolTCP)})
	}
	for s := 0; s < nslices; s++ {
		var part []discoveryv1.Endpoint
		for i, e := range eps {
			if i%nslices == s {
				part = append(part, e)
			}
		}
		sname := fmt.Sprintf("%s-%d", name, s)
		g.addK8s("endpointslice", "EndpointSlice/"+ns+"/"+sname, &discoveryv1.EndpointSlice{
			ObjectMeta:  metav1.ObjectMeta{Name: sname, Namespace: ns, CreationTimestamp: metav1.NewTime(t0), ResourceVersion: "1", Labels: map[string]string{discoveryv1.LabelServiceName: name}},
			AddressType: discoveryv1.AddressTypeIPv4, Endpoints: part, Ports: sports,
		})
	}
}

func (g *mgen) node0() {
	g.addK8s("node", "Node/n0", &corev1.Node{ObjectMeta: metav1.ObjectMeta{Name: "n0", CreationTimestamp: metav1.NewTime(t0), ResourceVersion: "1",
		Labels: map[string]string{"topology.kubernetes.io/region": "r1", "topology.kubernetes.io/zone": "z1"}}})
}

func httpPort() *networking.ServicePort {
	return &networking.ServicePort{Number: 80, Name: "http", Protocol: "HTTP"}
}

func simpleRoute(dest string) *networking.HTTPRoute {
	return &networking.HTTPRoute{Route: []*networking.HTTPRouteDestination{{Destination: &networking.Destination{Host: dest}, Weight: 100}}}
}

var witnessMeshes = map[string]func(g *mgen){
	// C17-1: query parameter and JWT-claim (dynamic metadata) matchers of one HTTP match were emitted in
	// map iteration order.
	"route-match-maps": func(g *mgen) {
		g.addCfg("serviceentry", g.meta(gvk.ServiceEntry, "se", "default"), &networking.ServiceEntry{
			Hosts: []string{"ext1.example.com"}, Ports: []*networking.ServicePort{httpPort()}, Resolution: networking.ServiceEntry_DNS})
		r := simpleRoute("ext1.example.com")
		r.Match = []*networking.HTTPMatchRequest{{QueryParams: map[string]*networking.StringMatch{"q": exact("1"), "user": exact("2"), "id": exact("3"), "v": exact("4")}}}
		g.addCfg("virtualservice", g.meta(gvk.VirtualService, "vs", "default"), &networking.VirtualService{Hosts: []string{"ext1.example.com"}, Http: []*networking.HTTPRoute{r}})
		g.addCfg("gateway", g.meta(gvk.Gateway, "gw", rootNS), &networking.Gateway{Selector: map[string]string{"istio": "ingressgateway"},
			Servers: []*networking.Server{{Port: &networking.Port{Number: 80, Name: "http", Protocol: "HTTP"}, Hosts: []string{"*"}}}})
		rg := simpleRoute("ext1.example.com")
		rg.Match = []*networking.HTTPMatchRequest{{Headers: map[string]*networking.StringMatch{
			"@request.auth.claims.sub": exact("a"), "@request.auth.claims.groups": exact("b"), "@request.auth.claims.iss": exact("c"), "@request.auth.claims.aud": exact("d")}}}
		g.addCfg("virtualservice", g.meta(gvk.VirtualService, "vs-gw", rootNS), &networking.VirtualService{Hosts: []string{"a.example.com"}, Gateways: []string{rootNS + "/gw"}, Http: []*networking.HTTPRoute{rg}})
	},
	// C17-2: a ServiceEntry with several addresses yields one Service per address; they tie in
	// SortServicesByCreationTime (same time, name = hostname, namespace) and the registry lists them in map order.
	"multi-address-serviceentry": func(g *mgen) {
		g.addCfg("serviceentry", g.meta(gvk.ServiceEntry, "se", "default"), &networking.ServiceEntry{
			Hosts: []string{"ext1.example.com"}, Addresses: []string{"240.240.0.1", "240.241.0.1", "240.242.0.1"},
			Ports: []*networking.ServicePort{httpPort(), {Number: 9000, Name: "tcp", Protocol: "TCP"}}, Resolution: networking.ServiceEntry_STATIC,
			Endpoints: []*networking.WorkloadEntry{{Address: "10.20.0.1"}}})
	},
	// C17-2, second shape: two ServiceEntries of one namespace and equal age claim the same host.
	"same-host-two-serviceentries": func(g *mgen) {
		for i, res := range []networking.ServiceEntry_Resolution{networking.ServiceEntry_STATIC, networking.ServiceEntry_DNS} {
			se := &networking.ServiceEntry{Hosts: []string{"ext1.example.com"}, Ports: []*networking.ServicePort{httpPort()}, Resolution: res}
			if res == networking.ServiceEntry_STATIC {
				se.Endpoints = []*networking.WorkloadEntry{{Address: "10.20.0.1"}}
			}
			g.addCfg("serviceentry", g.meta(gvk.ServiceEntry, "se"+strconv.Itoa(i), "default"), se)
		}
	},
	// C17-3: the endpoints of a Kubernetes service with several EndpointSlices were concatenated in map
	// iteration order over the slices.
	"several-endpointslices": func(g *mgen) {
		g.node0()
		g.k8sService("b", "default", "10.0.0.2", []corev1.ServicePort{{Name: "http", Port: 80, TargetPort: intstr.FromInt32(8080), Protocol: corev1.ProtocolTCP}}, 8, 4, "")
	},
	// C17-4: the hosts of one ServiceEntry share its address; the virtual hosts claim that domain first come
	// first served, and the services were visited in map iteration order.
	"shared-address-domain": func(g *mgen) {
		g.addCfg("serviceentry", g.meta(gvk.ServiceEntry, "se", "default"), &networking.ServiceEntry{
			Hosts: []string{"ext1.example.com", "ext2.example.com", "api.example.com", "db.example.com"}, Addresses: []string{"240.240.0.1"},
			Ports: []*networking.ServicePort{httpPort()}, Resolution: networking.ServiceEntry_DNS})
	},
	// C17-4, second shape: a wildcard VirtualService host matching several services that share an address.
	"shared-address-domain-wildcard-vs": func(g *mgen) {
		g.addCfg("serviceentry", g.meta(gvk.ServiceEntry, "se", "default"), &networking.ServiceEntry{
			Hosts: []string{"www.wild.example.com", "*.wild.example.com", "api.wild.example.com"}, Addresses: []string{"240.240.2.1"},
			Ports: []*networking.ServicePort{httpPort()}, Resolution: networking.ServiceEntry_DNS})
		g.addCfg("serviceentry", g.meta(gvk.ServiceEntry, "se-dest", "default"), &networking.ServiceEntry{
			Hosts: []string{"ext1.example.com"}, Ports: []*networking.ServicePort{httpPort()}, Resolution: networking.ServiceEntry_DNS})
		g.addCfg("virtualservice", g.meta(gvk.VirtualService, "vs", "default"), &networking.VirtualService{Hosts: []string{"*.wild.example.com"}, Http: []*networking.HTTPRoute{simpleRoute("ext1.example.com")}})
	},
	// C17-5: a VirtualService destination defined by equally old ServiceEntries of two other namespaces:
	// pickBestVisibleNamespace kept the first one met in map iteration order.
	"vs-destination-two-namespaces": func(g *mgen) {
		g.addCfg("serviceentry", g.meta(gvk.ServiceEntry, "se0", rootNS), &networking.ServiceEntry{
			Hosts: []string{"db.example.com", "www.example.com"}, Ports: []*networking.ServicePort{httpPort()}, Resolution: networking.ServiceEntry_STATIC,
			Endpoints: []*networking.WorkloadEntry{{Address: "10.20.0.1"}}})
		g.addCfg("serviceentry", g.meta(gvk.ServiceEntry, "se1", "ns1"), &networking.ServiceEntry{
			Hosts: []string{"db.example.com", "www.example.com"}, Ports: []*networking.ServicePort{httpPort()}, Resolution: networking.ServiceEntry_DNS})
		g.addCfg("virtualservice", g.meta(gvk.VirtualService, "vs", "ns1"), &networking.VirtualService{Hosts: []string{"www.example.com"}, ExportTo: []string{"*"},
			Http: []*networking.HTTPRoute{simpleRoute("db.example.com")}})
		g.addCfg("sidecar", g.meta(gvk.Sidecar, "sc", rootNS), &networking.Sidecar{Egress: []*networking.IstioEgressListener{{Hosts: []string{"ns1/www.example.com"}}}})
	},
	// C17-6: services reached only as VirtualService destinations were appended to the sidecar scope in map
	// iteration order over the destinations (order of the clusters in CDS).
	"vs-destinations-order": func(g *mgen) {
		g.addCfg("serviceentry", g.meta(gvk.ServiceEntry, "se", "ns1"), &networking.ServiceEntry{
			Hosts: []string{"www.example.com", "d1.example.com", "d2.example.com", "d3.example.com", "d4.example.com"}, Ports: []*networking.ServicePort{httpPort()}, Resolution: networking.ServiceEntry_DNS})
		r := &networking.HTTPRoute{}
		for i := 1; i <= 4; i++ {
			r.Route = append(r.Route, &networking.HTTPRouteDestination{Destination: &networking.Destination{Host: fmt.Sprintf("d%d.example.com", i)}, Weight: 25})
		}
		g.addCfg("virtualservice", g.meta(gvk.VirtualService, "vs", "ns1"), &networking.VirtualService{Hosts: []string{"www.example.com"}, ExportTo: []string{"*"}, Http: []*networking.HTTPRoute{r}})
		g.addCfg("sidecar", g.meta(gvk.Sidecar, "sc", rootNS), &networking.Sidecar{Egress: []*networking.IstioEgressListener{{Hosts: []string{"ns1/www.example.com"}}}})
	},
	// C17-7 (inbound clusters, one per workload port, built in map iteration order) and C17-8 (sidecar outbound
	// listeners emitted in map iteration order): a workload behind a service with several ports.
	"several-ports": func(g *mgen) {
		g.node0()
		g.k8sService("a", "default", "10.0.0.1", []corev1.ServicePort{
			{Name: "http", Port: 80, TargetPort: intstr.FromInt32(8080), Protocol: corev1.ProtocolTCP},
			{Name: "tcp", Port: 9000, TargetPort: intstr.FromInt32(9000), Protocol: corev1.ProtocolTCP},
			{Name: "https", Port: 443, TargetPort: intstr.FromInt32(8443), Protocol: corev1.ProtocolTCP},
			{Name: "tcp-2", Port: 9001, TargetPort: intstr.FromInt32(9001), Protocol: corev1.ProtocolTCP},
		}, 2, 1, sidecarIP)
	},
	// C17-9: gateway listeners emitted in map iteration order.
	"gateway-several-ports": func(g *mgen) {
		var servers []*networking.Server
		for i, p := range []uint32{80, 8080, 8081, 9000} {
			proto := "HTTP"
			if p == 9000 {
				proto = "TCP"
			}
			servers = append(servers, &networking.Server{Port: &networking.Port{Number: p, Name: "p" + strconv.Itoa(i), Protocol: proto}, Hosts: []string{"*"}})
		}
		g.addCfg("gateway", g.meta(gvk.Gateway, "gw", rootNS), &networking.Gateway{Selector: map[string]string{"istio": "ingressgateway"}, Servers: servers})
	},
}

func init() {
	// C17-11: delta CDS built the clusters in map iteration order over ConfigsUpdated (observation DCDS.order).
	witnessMeshes["delta-cds-order"] = func(g *mgen) {
		for i, h := range []string{"ext1.example.com", "ext2.example.com", "api.example.com", "db.example.com"} {
			g.addCfg("serviceentry", g.meta(gvk.ServiceEntry, "se"+strconv.Itoa(i), "default"), &networking.ServiceEntry{
				Hosts: []string{h}, Ports: []*networking.ServicePort{httpPort()}, Resolution: networking.ServiceEntry_DNS})
		}
	}
	// C17-12 (state): equally old ServiceEntries sharing a host - two in one namespace with different ports, one in
	// another namespace: the ambient index kept the first candidate met per namespace and marked the canonical one
	// while ranging over a map, so its ServiceInfo depended on the order in which the objects were created.
	witnessMeshes["ambient-shared-host"] = func(g *mgen) {
		g.node0()
		g.waypointItself()
		mk := func(name, ns string, ports ...*networking.ServicePort) {
			m := g.meta(gvk.ServiceEntry, name, ns)
			m.Labels = map[string]string{"istio.io/use-waypoint": waypointName, "istio.io/use-waypoint-namespace": "default"}
			g.addTwinned("serviceentry", m, &networking.ServiceEntry{Hosts: []string{"db.example.com"}, Ports: ports, Resolution: networking.ServiceEntry_DNS})
		}
		mk("se0", "default", httpPort())
		mk("se1", "default", httpPort(), &networking.ServicePort{Number: 9000, Name: "tcp", Protocol: "TCP"}, &networking.ServicePort{Number: 443, Name: "tls", Protocol: "TLS"})
		mk("se2", "ns1", httpPort(), &networking.ServicePort{Number: 9000, Name: "tcp", Protocol: "TCP"})
		mk("se3", "ns2", httpPort())
	}
}

func init() {
	// C17-13: the per-port inbound passthrough filter chains (ports with port-level mTLS that no Service exposes)
	// were built in map iteration order over the port-level settings.
	witnessMeshes["port-level-mtls-passthrough"] = func(g *mgen) {
		g.addCfg("peerauthentication", g.meta(gvk.PeerAuthentication, "pa", "ns1"), &security.PeerAuthentication{
			Selector: &typev1beta1.WorkloadSelector{MatchLabels: map[string]string{"app": "a"}},
			Mtls:     &security.PeerAuthentication_MutualTLS{Mode: security.PeerAuthentication_MutualTLS_PERMISSIVE},
			PortLevelMtls: map[uint32]*security.PeerAuthentication_MutualTLS{
				8080: {Mode: security.PeerAuthentication_MutualTLS_DISABLE}, 9000: {Mode: security.PeerAuthentication_MutualTLS_STRICT},
				9001: {Mode: security.PeerAuthentication_MutualTLS_DISABLE}, 7070: {Mode: security.PeerAuthentication_MutualTLS_STRICT},
			},
		})
	}
}

func init() {
	// C17-14: a waypoint (or router) used the sidecars' lazily computed default scope of its namespace when one was
	// cached - i.e. once a sidecar of the namespace had been served from the same sidecar index - and the scope computed
	// for gateways otherwise; the two resolve a hostname defined in two namespaces differently. The harness serves the
	// waypoint before the sidecar and derives every third PushContext incrementally (sidecar index carried over).
	witnessMeshes["gateway-scope-history"] = func(g *mgen) {
		g.node0()
		g.waypointItself()
		m0 := g.meta(gvk.ServiceEntry, "se0", "ns1")
		m0.Labels = map[string]string{"istio.io/use-waypoint": waypointName, "istio.io/use-waypoint-namespace": "default"}
		g.addTwinned("serviceentry", m0, &networking.ServiceEntry{Hosts: []string{"ext2.example.com", "db.example.com", "*.wild.example.com"},
			Ports: []*networking.ServicePort{httpPort()}, Resolution: networking.ServiceEntry_STATIC,
			Endpoints: []*networking.WorkloadEntry{{Address: "10.20.0.1", Labels: map[string]string{"version": "v1"}}}})
		m1 := g.meta(gvk.ServiceEntry, "se1", "default")
		m1.CreationTimestamp = t0.Add(time.Second)
		m1.Labels = map[string]string{"istio.io/use-waypoint": waypointName}
		g.addTwinned("serviceentry", m1, &networking.ServiceEntry{Hosts: []string{"*.wild.example.com", "api.example.com", "db.example.com"},
			Ports: []*networking.ServicePort{httpPort(), {Number: 443, Name: "https", Protocol: "TLS"}}, Resolution: networking.ServiceEntry_STATIC,
			Endpoints: []*networking.WorkloadEntry{{Address: "10.20.1.1", Labels: map[string]string{"version": "v1"}}}})
		r := &networking.HTTPRoute{Route: []*networking.HTTPRouteDestination{
			{Destination: &networking.Destination{Host: "api.example.com", Port: &networking.PortSelector{Number: 9000}}, Weight: 20},
			{Destination: &networking.Destination{Host: "ext2.example.com", Port: &networking.PortSelector{Number: 80}}, Weight: 30},
			{Destination: &networking.Destination{Host: "*.wild.example.com", Port: &networking.PortSelector{Number: 8080}}, Weight: 50}}}
		g.addCfg("virtualservice", g.meta(gvk.VirtualService, "vs0", rootNS), &networking.VirtualService{Hosts: []string{"db.example.com"}, Http: []*networking.HTTPRoute{r}})
	}
}

// witnessMeshConfigs: mesh-wide settings of the witness meshes that need other than the defaults.
var witnessMeshConfigs = map[string]func(m *meshconfig.MeshConfig){
	"http-proxy-several-ports": func(m *meshconfig.MeshConfig) { m.ProxyHttpPort = 15002 },
	"two-metrics-providers": func(m *meshconfig.MeshConfig) {
		m.ExtensionProviders = append(m.ExtensionProviders, &meshconfig.MeshConfig_ExtensionProvider{Name: "prom-b",
			Provider: &meshconfig.MeshConfig_ExtensionProvider_Prometheus{Prometheus: &meshconfig.MeshConfig_ExtensionProvider_PrometheusMetricsProvider{}}})
	},
}

func init() {
	// C17-15: a route configuration for all ports (the mesh-wide http_proxy listener, an HTTP_PROXY or unix domain
	// socket egress listener of a Sidecar): a VirtualService on a service with several HTTP ports gave one virtual host
	// wrapper per port in map iteration order; the virtual hosts claim their domains first come first served and the
	// port-less domain survives only on port 80, so "ext1.example.com" was routed on some pushes and not on others.
	witnessMeshes["http-proxy-several-ports"] = func(g *mgen) {
		g.addCfg("serviceentry", g.meta(gvk.ServiceEntry, "se", "default"), &networking.ServiceEntry{
			Hosts: []string{"ext1.example.com"}, Resolution: networking.ServiceEntry_DNS,
			Ports: []*networking.ServicePort{httpPort(), {Number: 8080, Name: "http-2", Protocol: "HTTP"}, {Number: 8081, Name: "http-3", Protocol: "HTTP"}, {Number: 9080, Name: "http-4", Protocol: "HTTP"}}})
		g.addCfg("virtualservice", g.meta(gvk.VirtualService, "vs", "default"), &networking.VirtualService{Hosts: []string{"ext1.example.com"}, ExportTo: []string{"*"},
			Http: []*networking.HTTPRoute{simpleRoute("ext1.example.com")}})
		g.addCfg("sidecar", g.meta(gvk.Sidecar, "sc", "ns1"), &networking.Sidecar{Egress: []*networking.IstioEgressListener{
			{Port: &networking.SidecarPort{Number: 3128, Protocol: "HTTP_PROXY", Name: "http-proxy"}, Bind: "127.0.0.1", Hosts: []string{"*/*"}},
			{Hosts: []string{"*/*"}}}})
	}
	// Review round 2 (M2): egress listeners naming only exact, namespaced hosts take the fast path servicesForExactHosts,
	// which collects the candidates while ranging over two maps and relies on SortServicesByCreationTime afterwards.
	witnessMeshes["sidecar-exact-hosts"] = func(g *mgen) {
		for i, hn := range [][2]string{{"ext1.example.com", "default"}, {"ext2.example.com", "ns1"}, {"api.example.com", "default"}, {"db.example.com", "ns2"}, {"www.example.com", "ns1"}, {"www.wild.example.com", "ns2"}} {
			g.addCfg("serviceentry", g.meta(gvk.ServiceEntry, "se"+strconv.Itoa(i), hn[1]), &networking.ServiceEntry{
				Hosts: []string{hn[0]}, ExportTo: []string{"*"}, Ports: []*networking.ServicePort{httpPort()}, Resolution: networking.ServiceEntry_DNS})
		}
		g.addCfg("sidecar", g.meta(gvk.Sidecar, "sc", rootNS), &networking.Sidecar{Egress: []*networking.IstioEgressListener{{Hosts: []string{
			"default/ext1.example.com", "ns1/ext2.example.com", "default/api.example.com", "ns2/db.example.com", "ns1/www.example.com", "ns2/www.wild.example.com"}}}})
	}
}

func init() {
	// Review round 2 (M4): PILOT_CONVERT_SIDECAR_SCOPE_CONCURRENCY > 1 (case flag `sidecarconc`) converts the Sidecars in
	// worker goroutines and must keep them in creation order: two Sidecars of one namespace select the same workload
	// (the older one wins, getSidecarScope), eight more keep the workers busy.
	witnessMeshes["sidecars-same-workload"] = func(g *mgen) {
		for i, h := range []string{"ext1.example.com", "ext2.example.com", "api.example.com", "db.example.com"} {
			g.addCfg("serviceentry", g.meta(gvk.ServiceEntry, "se"+strconv.Itoa(i), "default"), &networking.ServiceEntry{
				Hosts: []string{h}, Ports: []*networking.ServicePort{httpPort()}, Resolution: networking.ServiceEntry_DNS})
		}
		for i := 0; i < 10; i++ {
			m := g.meta(gvk.Sidecar, "sc"+strconv.Itoa(i), "default")
			m.CreationTimestamp = t0.Add(time.Duration(i/2) * time.Second)
			sel := map[string]string{"app": "other" + strconv.Itoa(i)}
			hosts := []string{"./*"}
			switch i {
			case 4:
				sel, hosts = map[string]string{"app": "a"}, []string{"./ext1.example.com", "./api.example.com"}
			case 5:
				sel, hosts = map[string]string{"app": "a"}, []string{"./ext2.example.com", "./db.example.com"}
			case 7:
				sel, hosts = map[string]string{"version": "v1"}, []string{"./db.example.com"}
			}
			g.addCfg("sidecar", m, &networking.Sidecar{WorkloadSelector: &networking.WorkloadSelector{Labels: sel},
				Egress: []*networking.IstioEgressListener{{Hosts: hosts}}})
		}
	}
}

func init() {
	// NOT in the corpus: reproducer of a crash found by the widened generator (review round 3). A DestinationRule with
	// localityLbSetting.failoverPriority + outlierDetection on a ServiceEntry whose cluster has an inline load assignment.
	witnessMeshes["failover-priority-inline-cluster"] = func(g *mgen) {
		g.addCfg("serviceentry", g.meta(gvk.ServiceEntry, "se", "default"), &networking.ServiceEntry{
			Hosts: []string{"ext1.example.com"}, Ports: []*networking.ServicePort{httpPort()}, Resolution: networking.ServiceEntry_DNS,
			Endpoints: []*networking.WorkloadEntry{
				{Address: "e1.example.com", Locality: "r1/z1", Labels: map[string]string{"version": "v1"}},
				{Address: "e2.example.com", Locality: "r1/z1", Labels: map[string]string{"version": "v2"}},
				{Address: "e3.example.com", Locality: "r2/z1", Labels: map[string]string{"version": "v1"}}}})
		g.addCfg("destinationrule", g.meta(gvk.DestinationRule, "dr", "default"), &networking.DestinationRule{Host: "ext1.example.com",
			TrafficPolicy: &networking.TrafficPolicy{
				LoadBalancer: &networking.LoadBalancerSettings{LbPolicy: &networking.LoadBalancerSettings_Simple{Simple: networking.LoadBalancerSettings_ROUND_ROBIN},
					LocalityLbSetting: &networking.LocalityLoadBalancerSetting{FailoverPriority: []string{"topology.kubernetes.io/region", "version", "topology.kubernetes.io/zone"}}},
				OutlierDetection: &networking.OutlierDetection{Consecutive_5XxErrors: wrapperspb.UInt32(3), Interval: durationpb.New(time.Second), BaseEjectionTime: durationpb.New(time.Minute)}}})
	}
}

func init() {
	// C17-17: a headless service with endpoints in two clusters (two shards): EndpointShards.CopyEndpoints ranged over the
	// Shards map, and the addresses of the service in the NDS name table (and its per-instance listeners) kept that order.
	witnessMeshes["headless-two-shards"] = func(g *mgen) {
		g.node0()
		ports := []corev1.ServicePort{{Name: "http", Port: 80, TargetPort: intstr.FromInt32(8080), Protocol: corev1.ProtocolTCP}}
		g.k8sService("b", "default", corev1.ClusterIPNone, ports, 3, 1, "")
		// four remote clusters: five shard keys, so that a map-ordered walk flaps with high probability
		for c := 2; c <= 5; c++ {
			sh := &shardSpec{cluster: "c" + strconv.Itoa(c), host: "b.default.svc.cluster.local", ns: "default"}
			for p := 0; p < 2; p++ {
				sh.eps = append(sh.eps, &model.IstioEndpoint{Addresses: []string{fmt.Sprintf("10.3%d.0.%d", c, p+1)}, EndpointPort: 8080, ServicePortName: "http",
					HealthStatus: model.Healthy, Labels: map[string]string{"app": "b", "version": "v1"}, ServiceAccount: "spiffe://cluster.local/ns/default/sa/default",
					Namespace: "default", WorkloadName: fmt.Sprintf("b-c%d-%d", c, p), HostName: fmt.Sprintf("b-c%d-%d", c, p), SubDomain: "b",
					Locality: model.Locality{Label: "r2/z2", ClusterID: cluster2.ID("c" + strconv.Itoa(c))}, TLSMode: "istio"})
			}
			g.objs = append(g.objs, obj{shard: sh, desc: "Shard/" + sh.cluster + "/default/b", feat: "remote-cluster-shard"})
		}
	}
}

func init() {
	// Review round 3 (MU2): two metrics providers with different overrides give two stats filters; telemetry.go walks the
	// providers of a proxy in sorted order (a map underneath) - the order of the two filters must not change.
	witnessMeshes["two-metrics-providers"] = func(g *mgen) {
		g.addCfg("serviceentry", g.meta(gvk.ServiceEntry, "se", "default"), &networking.ServiceEntry{
			Hosts: []string{"ext1.example.com"}, Ports: []*networking.ServicePort{httpPort(), {Number: 9000, Name: "tcp", Protocol: "TCP"}}, Resolution: networking.ServiceEntry_DNS})
		// Which providers are in scope is decided by the LAST Metrics entry on the way root namespace -> namespace -> workload
		// (it overrides, it does not merge): the root Telemetry configures prometheus alone, the namespace Telemetry names
		// both providers - so both are in scope and prometheus carries one override more than prom-b: two different filters.
		mk := func(metric telemetry.MetricSelector_IstioMetric, tag string, providers ...string) *telemetry.Metrics {
			m := &telemetry.Metrics{Overrides: []*telemetry.MetricsOverrides{{
				Match:        &telemetry.MetricSelector{MetricMatch: &telemetry.MetricSelector_Metric{Metric: metric}},
				TagOverrides: map[string]*telemetry.MetricsOverrides_TagOverride{tag: {Value: "request.host"}}}}}
			for _, p := range providers {
				m.Providers = append(m.Providers, &telemetry.ProviderRef{Name: p})
			}
			return m
		}
		g.addCfg("telemetry", g.meta(gvk.Telemetry, "tl-root", rootNS), &telemetry.Telemetry{Metrics: []*telemetry.Metrics{mk(telemetry.MetricSelector_REQUEST_COUNT, "tag_a", "prometheus")}})
		for _, ns := range []string{"default", "ns1"} {
			g.addCfg("telemetry", g.meta(gvk.Telemetry, "tl", ns), &telemetry.Telemetry{Metrics: []*telemetry.Metrics{mk(telemetry.MetricSelector_REQUEST_DURATION, "tag_b", "prom-b", "prometheus")}})
		}
	}
}

func witnessMesh(name string) []obj {
	f, ok := witnessMeshes[name]
	if !ok {
		panic("unknown witness mesh " + name)
	}
	g := newWitnessGen()
	f(g)
	return g.objs
}
