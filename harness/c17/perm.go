package main

// Stream `perm`: the permutation harness on REAL generation (this is the property statement itself).
//
//	case <n> perm seed=<s> K=<k> R=<r> keep=<all|i,j,...>
//
// `observe` builds the mesh of the seed K times on a pilot/test/xds FakeDiscoveryServer (real config
// store, ServiceEntry registry, Kubernetes registry on a fake client, real PushContext, real
// generators), each time inserting the objects in a different order (partly before start, partly
// after), and generates every xDS type for every proxy R times from a freshly built PushContext with
// the XDS cache cleared.  Every resource is reduced to (name, sha256 of the serialized Any) - the
// bytes that go on the wire; nonces, versions and timestamps of the response envelope are not part
// of it.  One observation line per proxy and type lists the digest of the ordered resource list of
// every run; the monitor (Go `exec mon`, Lean `allEqualB`) accepts iff all digests are equal.
//
// EDS, RDS and ECDS answer a set of requested names; the real generators walk that set in Go map
// order (`w.ResourceNames.UnsortedList()`), so for these types the digest is taken over the
// name-sorted list, and the response order is observed separately in `<type>.order` lines.

import (
	"context"
	"crypto/sha256"
	"encoding/hex"
	"fmt"
	"os"
	goruntime "runtime"
	"runtime/debug"
	"sort"
	"strconv"
	"strings"
	"sync/atomic"
	"time"

	cluster "github.com/envoyproxy/go-control-plane/envoy/config/cluster/v3"
	corev3 "github.com/envoyproxy/go-control-plane/envoy/config/core/v3"
	endpoint "github.com/envoyproxy/go-control-plane/envoy/config/endpoint/v3"
	listener "github.com/envoyproxy/go-control-plane/envoy/config/listener/v3"
	hcm "github.com/envoyproxy/go-control-plane/envoy/extensions/filters/network/http_connection_manager/v3"
	"google.golang.org/protobuf/encoding/prototext"
	"google.golang.org/protobuf/proto"
	"google.golang.org/protobuf/types/known/anypb"
	corev1 "k8s.io/api/core/v1"
	discoveryv1 "k8s.io/api/discovery/v1"
	metav1 "k8s.io/apimachinery/pkg/apis/meta/v1"
	"k8s.io/apimachinery/pkg/runtime"
	gatewayv1 "sigs.k8s.io/gateway-api/apis/v1"

	meshconfig "istio.io/api/mesh/v1alpha1"
	networking "istio.io/api/networking/v1alpha3"
	networkingclient "istio.io/client-go/pkg/apis/networking/v1"
	"istio.io/istio/pilot/pkg/features"
	"istio.io/istio/pilot/pkg/model"
	"istio.io/istio/pilot/pkg/networking/core"
	"istio.io/istio/pilot/pkg/serviceregistry/provider"
	"istio.io/istio/pilot/pkg/util/protoconv"
	pxds "istio.io/istio/pilot/pkg/xds"
	txds "istio.io/istio/pilot/test/xds"
	cluster2 "istio.io/istio/pkg/cluster"
	"istio.io/istio/pkg/config"
	"istio.io/istio/pkg/config/mesh"
	"istio.io/istio/pkg/config/mesh/meshwatcher"
	"istio.io/istio/pkg/config/schema/collections"
	"istio.io/istio/pkg/config/schema/kind"
	"istio.io/istio/pkg/util/sets"
	"verifharness/internal/quiet"
	"verifharness/internal/wire"
)

const sidecarIP = "10.10.0.1"

type proxySpec struct {
	name string
	mk   func() *model.Proxy
}

var proxySpecs = []proxySpec{
	{"sidecar", func() *model.Proxy {
		l := map[string]string{"app": "a", "version": "v1"}
		return &model.Proxy{
			Type: model.SidecarProxy, ID: "a-0.default", ConfigNamespace: "default", DNSDomain: "default.svc.cluster.local",
			IPAddresses: []string{sidecarIP}, Labels: l,
			Locality: &corev3.Locality{Region: "r1", Zone: "z1"},
			Metadata: &model.NodeMetadata{Namespace: "default", Labels: l, ClusterID: "Kubernetes", DNSCapture: true, DNSAutoAllocate: true, ServiceAccount: "sa-a"},
		}
	}},
	{"sidecar-ns1", func() *model.Proxy {
		l := map[string]string{"app": "a", "version": "v2"}
		return &model.Proxy{
			Type: model.SidecarProxy, ID: "x-0.ns1", ConfigNamespace: "ns1", DNSDomain: "ns1.svc.cluster.local",
			IPAddresses: []string{"10.99.0.1"}, Labels: l, Locality: &corev3.Locality{},
			Metadata: &model.NodeMetadata{Namespace: "ns1", Labels: l, ClusterID: "Kubernetes"},
		}
	}},
	{"router", func() *model.Proxy {
		l := map[string]string{"istio": "ingressgateway"}
		return &model.Proxy{
			Type: model.Router, ID: "gw-0.istio-system", ConfigNamespace: rootNS, DNSDomain: rootNS + ".svc.cluster.local",
			IPAddresses: []string{"10.99.0.2"}, Labels: l, Locality: &corev3.Locality{Region: "r2", Zone: "z1"},
			Metadata: &model.NodeMetadata{Namespace: rootNS, Labels: l, ClusterID: "Kubernetes"},
		}
	}},
}

var waypointProxySpecs = []proxySpec{
	{"waypoint", func() *model.Proxy {
		l := map[string]string{"gateway.networking.k8s.io/gateway-name": waypointName, "gateway.istio.io/managed": "istio.io-mesh-controller"}
		return &model.Proxy{
			Type: model.Waypoint, ID: "waypoint-a.default", ConfigNamespace: "default", DNSDomain: "default.svc.cluster.local",
			IPAddresses: []string{waypointIP}, Labels: l, Locality: &corev3.Locality{Region: "r1", Zone: "z1"},
			Metadata: &model.NodeMetadata{Namespace: "default", Labels: l, ClusterID: "Kubernetes"},
		}
	}},
	proxySpecs[0],
}

func (c permCase) proxies() []proxySpec {
	if c.prof == "waypoint" {
		return waypointProxySpecs
	}
	return proxySpecs
}

// profileEpoch is bumped when the watchdog abandons a mesh: the restore function of that mesh must not run any more.
var profileEpoch int64

var baseProfile = [4]any{features.EnableAmbient, features.EnableAmbientWaypoints, features.SidecarPickBestServiceNamespace, features.ConvertSidecarScopeConcurrency}

func resetProfile() {
	features.EnableAmbient, features.EnableAmbientWaypoints = baseProfile[0].(bool), baseProfile[1].(bool)
	features.SidecarPickBestServiceNamespace, features.ConvertSidecarScopeConcurrency = baseProfile[2].(bool), baseProfile[3].(int)
}

func meshTimeout() time.Duration {
	if s := atoi(os.Getenv("C17_MESH_TIMEOUT_S")); s > 0 {
		return time.Duration(s) * time.Second
	}
	return 240 * time.Second
}

// stuckSite: the first frames of the first goroutine that is inside the harness' runCase.
func stuckSite(stacks string) string {
	for _, g := range strings.Split(stacks, "\n\n") {
		if strings.Contains(g, "main.runCase") {
			l := strings.Split(g, "\n")
			if len(l) > 9 {
				l = l[:9]
			}
			return strings.Join(l, " | ")
		}
	}
	return "?"
}

// setProfile switches the process-wide feature flags of the profile on; the returned function restores them.
func (c permCase) setProfile() func() {
	epoch := atomic.LoadInt64(&profileEpoch)
	a, w, pb, cc := features.EnableAmbient, features.EnableAmbientWaypoints, features.SidecarPickBestServiceNamespace, features.ConvertSidecarScopeConcurrency
	if c.prof == "waypoint" {
		features.EnableAmbient, features.EnableAmbientWaypoints = true, true
	}
	if c.flag == "nopickbest" {
		features.SidecarPickBestServiceNamespace = false
	}
	if c.flag == "sidecarconc" {
		features.ConvertSidecarScopeConcurrency = 4
	}
	return func() {
		if atomic.LoadInt64(&profileEpoch) != epoch {
			return // abandoned by the watchdog
		}
		features.EnableAmbient, features.EnableAmbientWaypoints, features.SidecarPickBestServiceNamespace, features.ConvertSidecarScopeConcurrency = a, w, pb, cc
	}
}

var permTypes = []string{"CDS", "EDS", "LDS", "RDS", "ECDS", "NDS"}

// ---------------------------------------------------------------- case lines

type permCase struct {
	n    string
	seed uint64
	mesh string // name of a hand-written witness mesh (witness.go); "" = the generated mesh of `seed`
	prof string // "" (sidecars + router) or "waypoint" (ambient on, waypoint proxy)
	flag string // "", "nopickbest" (PILOT_SIDECAR_PICK_BEST_SERVICE_NAMESPACE=false) or "sidecarconc" (PILOT_CONVERT_SIDECAR_SCOPE_CONCURRENCY=4)
	k, r int
	keep []int // nil = all
}

func parsePermCase(f []string) permCase {
	c := permCase{n: f[1], k: 3, r: 4}
	for _, t := range f[3:] {
		kv := strings.SplitN(t, "=", 2)
		if len(kv) != 2 {
			continue
		}
		switch kv[0] {
		case "seed":
			c.seed, _ = strconv.ParseUint(kv[1], 10, 64)
		case "mesh":
			c.mesh = kv[1]
		case "profile":
			c.prof = kv[1]
		case "flags":
			c.flag = kv[1]
		case "K":
			c.k = atoi(kv[1])
		case "R":
			c.r = atoi(kv[1])
		case "keep":
			if kv[1] != "all" {
				c.keep = []int{}
				for _, x := range elems(kv[1]) {
					c.keep = append(c.keep, atoi(x))
				}
			}
		}
	}
	return c
}

func (c permCase) line() []string {
	keep := "all"
	if c.keep != nil {
		ss := make([]string, len(c.keep))
		for i, x := range c.keep {
			ss[i] = strconv.Itoa(x)
		}
		keep = joinElems(ss)
	}
	src := "seed=" + strconv.FormatUint(c.seed, 10)
	if c.mesh != "" {
		src = "mesh=" + c.mesh
	}
	l := []string{"case", c.n, "perm", src, "K=" + strconv.Itoa(c.k), "R=" + strconv.Itoa(c.r), "keep=" + keep}
	if c.prof != "" {
		l = append(l, "profile="+c.prof)
	}
	if c.flag != "" {
		l = append(l, "flags="+c.flag)
	}
	return l
}

// meshConfig of the case (nil = default).
func (c permCase) meshConfig() *meshconfig.MeshConfig {
	if f, ok := witnessMeshConfigs[c.mesh]; ok && c.mesh != "" {
		m := mesh.DefaultMeshConfig()
		f(m)
		return m
	}
	if c.mesh != "" || c.prof == "waypoint" {
		return nil
	}
	return buildMesh(c.seed).mc
}

// meshNetworks of the case (nil = single network).
func (c permCase) meshNetworks() *meshconfig.MeshNetworks {
	if c.mesh != "" || c.prof == "waypoint" {
		return nil
	}
	return buildMesh(c.seed).nets
}

func (c permCase) allObjects() []obj {
	if c.mesh != "" {
		return witnessMesh(c.mesh)
	}
	if c.prof == "waypoint" {
		return waypointMesh(c.seed)
	}
	return buildMesh(c.seed).objs
}

func (c permCase) objects() []obj {
	all := c.allObjects()
	if c.keep == nil {
		return all
	}
	var out []obj
	for _, i := range c.keep {
		if i >= 0 && i < len(all) {
			out = append(out, all[i])
		}
	}
	return out
}

func genPerm(seed uint64, n int, outp string) {
	out := wire.Create(outp)
	defer out.Close()
	root := wire.NewRng(seed*0x51ed + 3)
	k, r := 3, 4
	if os.Getenv("VERIF_TIER") == "thorough" {
		k, r = 4, 8
	}
	for i := 0; i < n; i++ {
		c := permCase{n: strconv.Itoa(i), seed: root.Next() % 1000000007, k: k, r: r}
		if i%6 == 5 {
			c.prof = "waypoint"
		} else if i%12 == 2 {
			c.flag = "nopickbest"
		} else if i%12 == 8 {
			c.flag = "sidecarconc"
		}
		out.Line(c.line()...)
	}
}

// ---------------------------------------------------------------- building one world

type world struct {
	f        *failer
	s        *txds.FakeDiscoveryServer
	proxies  []proxySpec
	shared   map[string]bool // "ns/host" claimed by two or more ServiceEntries of that namespace
	multiNet bool            // the mesh has two networks: the proxies live on n1
	kindSeed uint64          // seeds the choice of the kind named by an incremental PushContext rebuild
	incrUsed map[string]int  // kinds used so far (evidence counter)
}

// sharedHosts lists the "namespace/host" keys that several ServiceEntries of one namespace claim.
func sharedHosts(objs []obj) map[string]bool {
	n := map[string]int{}
	for _, o := range objs {
		if o.cfg == nil {
			continue
		}
		if se, ok := o.cfg.Spec.(*networking.ServiceEntry); ok {
			for _, h := range se.Hosts {
				n[o.cfg.Namespace+"/"+h]++
			}
		}
	}
	out := map[string]bool{}
	for k, c := range n {
		if c > 1 {
			out[k] = true
		}
	}
	return out
}

func (w *world) close() { w.f.done() }

func createLateK8s(s *txds.FakeDiscoveryServer, o runtime.Object) error {
	kc := s.KubeClient().Kube()
	ctx := context.Background()
	var err error
	switch x := o.(type) {
	case *corev1.Node:
		_, err = kc.CoreV1().Nodes().Create(ctx, x, metav1.CreateOptions{})
	case *corev1.Service:
		_, err = kc.CoreV1().Services(x.Namespace).Create(ctx, x, metav1.CreateOptions{})
	case *corev1.Pod:
		_, err = kc.CoreV1().Pods(x.Namespace).Create(ctx, x, metav1.CreateOptions{})
	case *discoveryv1.EndpointSlice:
		_, err = kc.DiscoveryV1().EndpointSlices(x.Namespace).Create(ctx, x, metav1.CreateOptions{})
	case *gatewayv1.Gateway:
		_, err = s.KubeClient().GatewayAPI().GatewayV1().Gateways(x.Namespace).Create(ctx, x, metav1.CreateOptions{})
	case *gatewayv1.HTTPRoute:
		_, err = s.KubeClient().GatewayAPI().GatewayV1().HTTPRoutes(x.Namespace).Create(ctx, x, metav1.CreateOptions{})
	case *networkingclient.ServiceEntry:
		_, err = s.KubeClient().Istio().NetworkingV1().ServiceEntries(x.Namespace).Create(ctx, x, metav1.CreateOptions{})
	case *networkingclient.WorkloadEntry:
		_, err = s.KubeClient().Istio().NetworkingV1().WorkloadEntries(x.Namespace).Create(ctx, x, metav1.CreateOptions{})
	default:
		err = fmt.Errorf("unsupported late object %T", o)
	}
	return err
}

// buildWorld inserts `objs` in the given order; the first `early` of them before the server starts.
func buildWorld(objs []obj, early int, mc *meshconfig.MeshConfig, nets *meshconfig.MeshNetworks) *world {
	w := &world{f: &failer{}}
	var cfgs []config.Config
	var k8s []runtime.Object
	var earlyShards []*shardSpec
	for _, o := range objs[:early] {
		if o.shard != nil {
			earlyShards = append(earlyShards, o.shard)
			continue
		}
		if o.cfg != nil {
			cfgs = append(cfgs, o.cfg.DeepCopy())
		} else {
			k8s = append(k8s, o.k8s.DeepCopyObject())
		}
		if o.twin != nil {
			k8s = append(k8s, o.twin.DeepCopyObject())
		}
	}
	opts := txds.FakeOptions{Configs: cfgs, KubernetesObjects: k8s}
	if mc != nil {
		opts.MeshConfig = proto.Clone(mc).(*meshconfig.MeshConfig)
	}
	if nets != nil {
		opts.NetworksWatcher = meshwatcher.NewFixedNetworksWatcher(proto.Clone(nets).(*meshconfig.MeshNetworks))
	}
	w.s = txds.NewFakeDiscoveryServer(w.f, opts)
	quiet.Silence()
	for _, sh := range earlyShards {
		w.pushShard(sh)
	}
	for _, o := range objs[early:] {
		if o.shard != nil {
			w.pushShard(o.shard)
			continue
		}
		if o.cfg != nil {
			if _, err := w.s.Store().Create(o.cfg.DeepCopy()); err != nil {
				panic(fmt.Sprintf("late create %s: %v", o.desc, err))
			}
		} else if err := createLateK8s(w.s, o.k8s.DeepCopyObject()); err != nil {
			panic(fmt.Sprintf("late create %s: %v", o.desc, err))
		}
		if o.twin != nil {
			if err := createLateK8s(w.s, o.twin.DeepCopyObject()); err != nil {
				panic(fmt.Sprintf("late create twin of %s: %v", o.desc, err))
			}
		}
	}
	return w
}

// pushShard hands the endpoints of a second cluster to the server the way a remote registry does.
func (w *world) pushShard(sh *shardSpec) {
	eps := make([]*model.IstioEndpoint, 0, len(sh.eps))
	for _, e := range sh.eps {
		eps = append(eps, e.DeepCopy())
	}
	c := sh.cluster
	if c == "" {
		c = "c2"
	}
	w.s.Discovery.EDSUpdate(model.ShardKey{Cluster: cluster2.ID(c), Provider: provider.Kubernetes}, sh.host, sh.ns, eps)
}

// fingerprint is the order-insensitive content of the control plane's state: which configs,
// services and endpoints it holds.  Two builds are compared only once their fingerprints agree
// (asynchronous event handling has settled); what is then compared is generation.
func (w *world) fingerprint() string {
	lines := w.fingerprintLines()
	h := sha256.Sum256([]byte(strings.Join(lines, "\n")))
	return strconv.Itoa(len(lines)) + ":" + hex.EncodeToString(h[:8])
}

// specHash: digest of a config's spec (converted objects - Gateway API routes, merged VirtualServices - are state too).
func specHash(spec config.Spec) string {
	m, ok := spec.(proto.Message)
	if !ok {
		return "-"
	}
	b, _ := proto.MarshalOptions{Deterministic: true}.Marshal(m)
	h := sha256.Sum256(b)
	return hex.EncodeToString(h[:6])
}

func (w *world) fingerprintLines() []string {
	env := w.s.Env()
	var lines []string
	for _, sch := range collections.Pilot.All() {
		for _, c := range env.ConfigStore.List(sch.GroupVersionKind(), "") {
			lines = append(lines, "cfg "+sch.Kind()+" "+c.Namespace+"/"+c.Name+" "+specHash(c.Spec)+" t="+strconv.FormatInt(c.CreationTimestamp.Unix(), 10))
		}
	}
	if env.VirtualServiceController != nil {
		// derived asynchronously from the config store; PushContext reads this, not the store
		for _, v := range env.VirtualServiceController.MergedVirtualServices() {
			lines = append(lines, "mvs "+v.Namespace+"/"+v.Name+" "+specHash(v.Spec))
		}
	}
	for _, s := range env.ServiceDiscovery.Services() {
		ports := make([]string, 0, len(s.Ports))
		for _, p := range s.Ports {
			ports = append(ports, fmt.Sprintf("%s:%d", p.Name, p.Port))
		}
		// every field of the service that generation reads
		lines = append(lines, fmt.Sprintf("svc %s %s %s %v addr=%s vips=%v res=%v ext=%v t=%d obj=%s reg=%s exportTo=%v sa=%v labels=%v sel=%v alias=%s v4=%s v6=%s",
			s.Hostname, s.Attributes.Namespace, s.Attributes.Name, ports, s.DefaultAddress, s.ClusterVIPs.Addresses, s.Resolution, s.MeshExternal,
			s.CreationTime.UnixNano(), s.Attributes.K8sAttributes.ObjectName, s.Attributes.ServiceRegistry, sets.SortedList(s.Attributes.ExportTo),
			s.ServiceAccounts, s.Attributes.Labels, s.Attributes.LabelSelectors, s.Attributes.K8sAttributes.ExternalName,
			s.AutoAllocatedIPv4Address, s.AutoAllocatedIPv6Address))
		if features.EnableAmbient && env.AmbientIndexes != nil {
			// the ambient index' own record of the service (asynchronous; keyed by namespace/hostname)
			key := s.Attributes.Namespace + "/" + string(s.Hostname)
			if si := env.AmbientIndexes.ServiceInfo(key); si != nil {
				b, _ := proto.MarshalOptions{Deterministic: true}.Marshal(si.Service)
				h := sha256.Sum256(b)
				typ := "ambsvc"
				if w.shared[key] {
					typ = "ambsvc-shared-host"
				}
				hs := hex.EncodeToString(h[:6])
				if os.Getenv("C17_FPTEXT") != "" {
					hs = prototext.MarshalOptions{}.Format(si.Service)
				}
				lines = append(lines, fmt.Sprintf("%s %s %s src=%s/%s/%s wp=%s", typ, key, hs, si.Source.Kind, si.Source.Namespace, si.Source.Name, si.Waypoint.ResourceName))
			}
		}
	}
	for ns, m := range env.EndpointIndex.Shardz() {
		for svc, sh := range m {
			sh.RLock()
			for k, eps := range sh.Shards {
				for _, e := range eps {
					// every field of the endpoint that generation reads (labels carry e.g. the tunnel capability,
					// which the Kubernetes registry fills in from the Pod when the Pod arrives after the slice)
					lines = append(lines, fmt.Sprintf("ep %s %s %s %v %d %s %s %v %v %s %s %s %s %s %s %s %d %s %v", ns, svc, k, e.Addresses, e.EndpointPort,
						e.ServicePortName, e.Locality.Label, e.HealthStatus, e.Labels, e.ServiceAccount, e.Network, e.TLSMode, e.Namespace,
						e.WorkloadName, e.HostName, e.SubDomain, e.LbWeight, e.NodeName, e.SendUnhealthyEndpoints))
				}
			}
			sh.RUnlock()
		}
	}
	if features.EnableAmbient && env.AmbientIndexes != nil {
		// what the ambient index (asynchronous, krt) knows about every endpoint address: generation asks it
		// whether the workload behind an address is HBONE capable
		addrs := sets.New[string]()
		for _, m := range env.EndpointIndex.Shardz() {
			for _, sh := range m {
				sh.RLock()
				for _, eps := range sh.Shards {
					for _, e := range eps {
						for _, a := range e.Addresses {
							addrs.Insert(e.Network.String() + "/" + a)
						}
					}
				}
				sh.RUnlock()
			}
		}
		for _, a := range sets.SortedList(addrs) {
			infos, _ := env.AmbientIndexes.AddressInformation(sets.New(a))
			for _, wl := range model.ExtractWorkloadsFromAddresses(infos) {
				b, _ := proto.MarshalOptions{Deterministic: true}.Marshal(wl.Workload)
				h := sha256.Sum256(b)
				hs := hex.EncodeToString(h[:6])
				if os.Getenv("C17_FPTEXT") != "" {
					hs = prototext.MarshalOptions{}.Format(wl.Workload)
				}
				lines = append(lines, "amb "+a+" "+wl.Workload.GetUid()+" "+hs)
			}
		}
	}
	for _, ps := range w.proxies {
		if p := ps.mk(); p.Type == model.Waypoint && env.AmbientIndexes != nil {
			p.SetServiceTargets(env.ServiceDiscovery)
			key := model.WaypointKeyForProxy(p)
			lines = append(lines, fmt.Sprintf("wpkey %v %v", key.Hostnames, key.Addresses))
			for _, si := range env.AmbientIndexes.ServicesForWaypoint(key) {
				typ := "wpsvc"
				if w.shared[si.ResourceName()] {
					typ = "ambsvc-shared-host"
				}
				lines = append(lines, typ+" wp "+si.ResourceName()+" "+fmt.Sprint(len(si.Service.GetPorts())))
			}
			for _, wi := range env.AmbientIndexes.WorkloadsForWaypoint(key) {
				lines = append(lines, "wpwl "+wi.ResourceName())
			}
		}
	}
	sort.Strings(lines)
	return lines
}

func lineDiff(a, b []string) string {
	as, bs := sets.New(a...), sets.New(b...)
	var out []string
	for _, x := range a {
		if !bs.Contains(x) {
			out = append(out, "-"+x)
		}
	}
	for _, x := range b {
		if !as.Contains(x) {
			out = append(out, "+"+x)
		}
	}
	if len(out) > 8 && os.Getenv("C17_FPTEXT") == "" {
		out = out[:8]
	}
	return strings.Join(out, " ; ")
}

// sectionDigests hashes the fingerprint lines per section (first token of the line).
func sectionDigests(lines []string) map[string]string {
	by := map[string][]string{}
	for _, l := range lines {
		sec := l
		if i := strings.IndexByte(l, ' '); i >= 0 {
			sec = l[:i]
		}
		by[sec] = append(by[sec], l)
	}
	out := map[string]string{}
	for sec, ls := range by {
		h := sha256.Sum256([]byte(strings.Join(ls, "\n")))
		out[sec] = strconv.Itoa(len(ls)) + "." + hex.EncodeToString(h[:8])
	}
	return out
}

const (
	settled         = iota // the fingerprint equals `want` (or, without `want`, stayed unchanged over a quiet period)
	stableDifferent        // the fingerprint stayed unchanged for `restFor` but is not `want`: the STATE depends on the insertion order
	moving                 // still changing at the deadline
)

// settle waits until the fingerprint equals `want` (or, with want == "", is unchanged over a quiet
// period). A fingerprint that differs from `want` but has not moved for `restFor` is reported as
// stableDifferent: asynchronous event handling is over and the control plane holds a different state.
func (w *world) settle(want string, timeout, restFor time.Duration) (string, int) {
	deadline := time.Now().Add(timeout)
	last, since, stable := "", time.Now(), 0
	for {
		fp := w.fingerprint()
		if fp != last {
			last, since, stable = fp, time.Now(), 0
		} else {
			stable++
		}
		if want != "" {
			if fp == want {
				return fp, settled
			}
			if time.Since(since) >= restFor {
				return fp, stableDifferent
			}
		} else if stable >= 6 && time.Since(since) >= restFor/5 {
			// no reference yet (build 0): unchanged for 6 reads AND for a fifth of the rest period (300 ms)
			return fp, settled
		}
		if time.Now().After(deadline) {
			return fp, moving
		}
		time.Sleep(10 * time.Millisecond)
	}
}

// ---------------------------------------------------------------- one generation

type resource struct {
	name string
	any  *anypb.Any
	raw  string // payload of a pseudo resource (a removed name, a cache key)
}

type snapshot map[string][]resource // "<proxy>:<TYPE>" -> resources in response order

func setupProxy(w *world, p *model.Proxy, push *model.PushContext) *model.Proxy {
	p.Metadata.IstioVersion = "1.23.0"
	p.IstioVersion = model.ParseIstioVersion(p.Metadata.IstioVersion)
	if p.WatchedResources == nil {
		p.WatchedResources = map[string]*model.WatchedResource{}
	}
	if w.multiNet {
		p.Metadata.Network = "n1"
	}
	p.SetSidecarScope(push)
	p.SetServiceTargets(w.s.Env().ServiceDiscovery)
	p.SetGatewaysForProxy(push)
	p.DiscoverIPMode()
	return p
}

func generate(w *world, p *model.Proxy, push *model.PushContext, typ string, names []string) []resource {
	url := typeURL[typ]
	g := w.s.Discovery.Generators[url]
	wr := &model.WatchedResource{TypeUrl: url, ResourceNames: sets.New(names...)}
	res, _, err := g.Generate(p, wr, pushRequest(push))
	if err != nil {
		panic(fmt.Sprintf("generate %s: %v", typ, err))
	}
	return toResources(res)
}

func edsNames(cds []resource) []string {
	var out []string
	for _, r := range cds {
		c := &cluster.Cluster{}
		if r.any.UnmarshalTo(c) == nil && c.GetType() == cluster.Cluster_EDS {
			out = append(out, c.Name)
		}
	}
	sort.Strings(out)
	return out
}

func ldsRefs(lds []resource) (routes []string, ecds []string) {
	rs, es := sets.New[string](), sets.New[string]()
	for _, r := range lds {
		l := &listener.Listener{}
		if r.any.UnmarshalTo(l) != nil {
			continue
		}
		fcs := append([]*listener.FilterChain(nil), l.FilterChains...)
		if l.DefaultFilterChain != nil {
			fcs = append(fcs, l.DefaultFilterChain)
		}
		for _, fc := range fcs {
			for _, f := range fc.Filters {
				if cd := f.GetConfigDiscovery(); cd != nil {
					es.Insert(f.Name)
				}
				tc := f.GetTypedConfig()
				if tc == nil || !tc.MessageIs(&hcm.HttpConnectionManager{}) {
					continue
				}
				h := &hcm.HttpConnectionManager{}
				if tc.UnmarshalTo(h) != nil {
					continue
				}
				if rds := h.GetRds(); rds != nil {
					rs.Insert(rds.RouteConfigName)
				}
				for _, hf := range h.HttpFilters {
					if hf.GetConfigDiscovery() != nil {
						es.Insert(hf.Name)
					}
				}
			}
		}
	}
	return sets.SortedList(rs), sets.SortedList(es)
}

// incrKinds: the kinds named in the ConfigsUpdated of the incremental rebuilds (one per rebuild, rotating).
var incrKinds = []kind.Kind{kind.VirtualService, kind.DestinationRule, kind.ServiceEntry, kind.Sidecar, kind.AuthorizationPolicy,
	kind.Gateway, kind.EnvoyFilter, kind.PeerAuthentication, kind.Telemetry, kind.WasmPlugin, kind.RequestAuthentication}

func pushRequest(push *model.PushContext) *model.PushRequest {
	return &model.PushRequest{Push: push, Forced: true, Start: time.Now(), Reason: model.NewReasonStats(model.GlobalUpdate)}
}

func toResources(res model.Resources) []resource {
	out := make([]resource, 0, len(res))
	for _, r := range res {
		out = append(out, resource{name: r.Name, any: r.Resource})
	}
	return out
}

func nameList(names []string) []resource {
	out := make([]resource, 0, len(names))
	for _, n := range names {
		out = append(out, resource{name: n})
	}
	return out
}

// staleClusters: names a proxy may still watch for services that no longer exist.
var staleClusters = []string{
	"outbound|80||gone1.example.com", "outbound|80|v1|gone1.example.com", "outbound|80|v2|gone1.example.com", "outbound|9000||gone1.example.com",
	"outbound|80||gone2.example.com", "outbound|443||gone2.example.com", "outbound|8080||gone3.default.svc.cluster.local", "inbound|9999||",
}

// deltaCDS runs the delta-aware CDS generator for an update that names two vanished services and two
// existing ones, on a watch list that still contains clusters of the vanished services.
func deltaCDS(w *world, p *model.Proxy, push *model.PushContext, cds []resource) (built, removed []resource) {
	g, ok := w.s.Discovery.Generators[typeURL["CDS"]].(model.XdsDeltaResourceGenerator)
	if !ok {
		return nil, nil
	}
	watched := sets.New(staleClusters...)
	updated := sets.New(
		model.ConfigKey{Kind: kind.ServiceEntry, Name: "gone1.example.com", Namespace: "default"},
		model.ConfigKey{Kind: kind.ServiceEntry, Name: "gone2.example.com", Namespace: "ns1"},
		model.ConfigKey{Kind: kind.ServiceEntry, Name: "gone3.default.svc.cluster.local", Namespace: "default"},
	)
	n := 0
	for _, r := range cds {
		watched.Insert(r.name)
		if _, _, h, _ := model.ParseSubsetKey(r.name); h != "" && n < 3 {
			if svc := push.ServiceForHostname(p, h); svc != nil {
				if !updated.InsertContains(model.ConfigKey{Kind: kind.ServiceEntry, Name: string(h), Namespace: svc.Attributes.Namespace}) {
					n++
				}
			}
		}
	}
	req := &model.PushRequest{Push: push, ConfigsUpdated: updated, Start: time.Now(), Reason: model.NewReasonStats(model.ServiceUpdate)}
	res, del, _, _, err := g.GenerateDeltas(p, req, &model.WatchedResource{TypeUrl: typeURL["CDS"], ResourceNames: watched})
	if err != nil {
		panic(fmt.Sprintf("delta CDS: %v", err))
	}
	return toResources(res), nameList(del)
}

// deltaRemoved pushes one type on a bare delta connection whose watch list contains, next to what is
// generated, names that no longer exist, and returns the removed_resources of the response.
func deltaRemoved(w *world, p *model.Proxy, push *model.PushContext, typ string, current []resource, stale []string) []resource {
	watched := sets.New(stale...)
	for _, r := range current {
		watched.Insert(r.name)
	}
	resp, err := pxds.VerifC17PushDelta(w.s.Discovery, p, &model.WatchedResource{TypeUrl: typeURL[typ], ResourceNames: watched}, pushRequest(push))
	if err != nil {
		panic(fmt.Sprintf("delta %s: %v", typ, err))
	}
	return nameList(resp.GetRemovedResources())
}

// snapshot generates everything once. With prev == nil the PushContext is built from scratch
// (createNewContext); otherwise it is derived from prev as after an update of one config of kind
// incrKinds[rep] (updateContext re-initialises the indexes of that kind and copies the others) - the
// state is the same, so the output must be too.
//
// Keys: "<proxy>:<TYPE>" resources in response order. RDS and ECDS are built by the ConfigGenerator
// from the requested names in sorted order (their response order is then the generator's own);
// "<TYPE>.viaset" is the same request through the xDS generator, which walks the requested name SET
// in Go map order (documented: UnsortedList). EDS only exists through the set. "DCDS" / "DCDS.removed":
// delta-aware CDS; "DLDS.removed" / "DRDS.removed": removed_resources of a delta push; "RKEY": the
// cache key of every sidecar route configuration.
//
// With `cached` the PushContext `prev` itself is used again and the XDS cache is NOT cleared: what the cache
// still holds from the previous generation (clusters, endpoints, route configurations) is served, to
// proxies arriving in another order - the bytes must be those of a fresh generation.
func (w *world) snapshot(prev *model.PushContext, rep int, cached bool) (snapshot, *model.PushContext) {
	env := w.s.Env()
	push := prev
	if !cached {
		w.s.Discovery.Cache.ClearAll()
		push = model.NewPushContext()
		push.PushVersion = "verif"
	}
	if cached {
		// nothing to initialise
	} else if prev == nil {
		push.InitContext(env, nil, nil)
	} else {
		if k := os.Getenv("C17_INCR_KIND"); k != "" {
			rep = atoi(k)
		}
		// the kind is drawn per (mesh, process, generation): every kind of incrKinds is used, in every position
		ki := wire.NewRng(w.kindSeed + uint64(rep)*0x9e3779b9).Intn(len(incrKinds))
		if os.Getenv("C17_INCR_KIND") != "" {
			ki = rep % len(incrKinds)
		}
		if w.incrUsed != nil {
			w.incrUsed[incrKinds[ki].String()]++
		}
		push.InitContext(env, prev, &model.PushRequest{
			ConfigsUpdated: sets.New(model.ConfigKey{Kind: incrKinds[ki], Name: "does-not-matter", Namespace: "default"}),
			Reason:         model.NewReasonStats(model.ConfigUpdate),
		})
	}
	out := snapshot{}
	for i := range w.proxies {
		// the order in which the proxies are served rotates from one generation to the next: what a proxy gets must
		// not depend on which proxies were served before it (lazily computed, cached scopes)
		ps := w.proxies[(i+rep)%len(w.proxies)]
		p := setupProxy(w, ps.mk(), push)
		cds := generate(w, p, push, "CDS", nil)
		out[ps.name+":CDS"] = cds
		out[ps.name+":EDS.viaset"] = generate(w, p, push, "EDS", edsNames(cds))
		if os.Getenv("C17_EDSDUMP") != "" && rep == 0 {
			// debugging aid: the endpoint addresses of every ClusterLoadAssignment (is the split-horizon path taken?)
			fmt.Fprintf(os.Stderr, "EDS %s network gateways: %v\n", ps.name, push.NetworkManager().AllGateways())
			for _, l := range w.fingerprintLines() {
				if strings.HasPrefix(l, "ep ") && i == 0 {
					fmt.Fprintln(os.Stderr, "EDS state", l)
				}
			}
			for _, r := range out[ps.name+":EDS.viaset"] {
				cla := &endpoint.ClusterLoadAssignment{}
				if r.any.UnmarshalTo(cla) == nil {
					var addrs []string
					for _, le := range cla.Endpoints {
						for _, e := range le.LbEndpoints {
							addrs = append(addrs, fmt.Sprintf("%s:%d", e.GetEndpoint().GetAddress().GetSocketAddress().GetAddress(), e.GetEndpoint().GetAddress().GetSocketAddress().GetPortValue()))
						}
					}
					fmt.Fprintf(os.Stderr, "EDS %s %s: %v\n", ps.name, cla.ClusterName, addrs)
				}
			}
		}
		lds := generate(w, p, push, "LDS", nil)
		out[ps.name+":LDS"] = lds
		routes, ecds := ldsRefs(lds)
		rds, _ := w.s.ConfigGen.BuildHTTPRoutes(p, pushRequest(push), routes)
		out[ps.name+":RDS"] = toResources(rds)
		out[ps.name+":RDS.viaset"] = generate(w, p, push, "RDS", routes)
		out[ps.name+":ECDS"], out[ps.name+":ECDS.viaset"] = nil, nil
		if len(ecds) > 0 {
			for _, ec := range w.s.ConfigGen.BuildExtensionConfiguration(p, push, ecds, nil) {
				out[ps.name+":ECDS"] = append(out[ps.name+":ECDS"], resource{name: ec.Name, any: protoconv.MessageToAny(ec)})
			}
			out[ps.name+":ECDS.viaset"] = generate(w, p, push, "ECDS", ecds)
		}
		if ps.name == "sidecar" {
			out[ps.name+":NDS"] = generate(w, p, push, "NDS", nil)
		}
		// delta paths
		out[ps.name+":DCDS"], out[ps.name+":DCDS.removed"] = deltaCDS(w, p, push, cds)
		out[ps.name+":DLDS.removed"] = deltaRemoved(w, p, push, "LDS", lds, []string{"10.255.0.9_80", "10.255.0.1_443", "0.0.0.0_12345", "gone_listener"})
		// (no DRDS.removed: BuildHTTPRoutes answers EVERY requested route name, unknown ones with an empty route
		// configuration, so a delta RDS push never removes anything - the key was empty in all observations)
		// cache keys of the sidecar route configurations
		if p.Type == model.SidecarProxy {
			var keys []resource
			for _, rn := range routes {
				port, err := strconv.Atoi(rn)
				if err != nil {
					continue
				}
				_, _, rc := core.BuildSidecarOutboundVirtualHosts(p, push, rn, port, nil, model.DisabledCache{})
				if rc != nil {
					keys = append(keys, resource{name: rn, raw: fmt.Sprint(rc.Key())})
				}
			}
			out[ps.name+":RKEY"] = keys
		}
	}
	return out, push
}

func resHash(r resource) string {
	h := sha256.New()
	h.Write([]byte(r.raw))
	h.Write([]byte(r.any.GetTypeUrl()))
	h.Write([]byte{0})
	h.Write(r.any.GetValue())
	return hex.EncodeToString(h.Sum(nil))
}

func digest(rs []resource, sorted bool) string {
	items := make([]string, len(rs))
	for i, r := range rs {
		items[i] = r.name + "\x00" + resHash(r)
	}
	if sorted {
		sort.Strings(items)
	}
	h := sha256.Sum256([]byte(strings.Join(items, "\n")))
	return strconv.Itoa(len(rs)) + "." + hex.EncodeToString(h[:8])
}

// ---------------------------------------------------------------- running a case

type caseRun struct {
	keys      []string            // snapshot keys (explain)
	digests   map[string][]string // observation key -> one digest per run (per build for "state:*")
	snaps     []snapshot          // kept only when `keepRaw`
	runTag    []string            // "k/r" of each run
	unsettled string
	timedOut  string // abandoned by the per-mesh watchdog
	panicked  string // a panic of the real code or of the harness while running the case
	stateDiff string // first difference of a stable-but-different state (explain)
	nres      int
	nobjs     int
	incrUsed  map[string]int // kinds named by the incremental PushContext rebuilds
	ms        int64          // wall time of the case
	settleMs  int64          // of which waiting for the control plane to settle
	svcs      int            // services listed by the registries in build 0
	dupKeys   int            // of which share the whole comparator key with another one (hypothesis of sortServices_canonical)
}

// insertionOrder: build 0 inserts in generation order before start; the others shuffle and insert a
// prefix before start, the rest afterwards.
func insertionOrder(c permCase, objs []obj, k int) ([]obj, int) {
	if k == 0 {
		return objs, len(objs)
	}
	// the process index is mixed in: the two processes of a run explore different insertion orders
	r := wire.NewRng(c.seed*1000003 + uint64(k)*7919 + uint64(atoi(os.Getenv("C17_PROC")))*104729)
	// Nodes exist before anything is scheduled on them: they stay in front, at start-up
	// (a Node arriving after its Pods never refreshes the endpoints' locality; with C17_NODES_ANYWHERE
	// they are permuted like everything else and the difference shows as perm:state-order:ep).
	var nodes, p []obj
	for _, o := range objs {
		if o.feat == "node" && os.Getenv("C17_NODES_ANYWHERE") == "" {
			nodes = append(nodes, o)
		} else {
			p = append(p, o)
		}
	}
	shuffle(r, p)
	early := len(p)
	switch k % 4 {
	case 2:
		early = len(p) / 2
	case 3:
		early = 0
	case 0:
		early = len(p) / 3
	}
	return append(nodes, p...), early + len(nodes)
}

func (cr *caseRun) add(key, d string) { cr.digests[key] = append(cr.digests[key], d) }

func settleTimeout() time.Duration {
	if ms := atoi(os.Getenv("C17_SETTLE_MS")); ms > 0 {
		return time.Duration(ms) * time.Millisecond
	}
	return 30 * time.Second
}

func runCase(c permCase, keepRaw bool) (cr *caseRun) {
	if t := os.Getenv("C17_TEST_PANIC"); t != "" && t == c.n && os.Getenv("C17_PROC") != "0" {
		// self-test of the check: a crash in one process only must break the tie (notes/C17.md, review round 2 M5)
		panic("C17_TEST_PANIC")
	}
	objs := c.objects()
	mc := c.meshConfig()
	nets := c.meshNetworks()
	defer c.setProfile()()
	cr = &caseRun{digests: map[string][]string{}, nobjs: len(objs), incrUsed: map[string]int{}}
	t0case := time.Now()
	defer func() { cr.ms = time.Since(t0case).Milliseconds() }()
	shared := sharedHosts(objs)
	want := ""
	var wantLines []string
	var states []map[string]string
	for k := 0; k < c.k; k++ {
		order, early := insertionOrder(c, objs, k)
		w := buildWorld(order, early, mc, nets)
		w.multiNet = nets != nil
		w.kindSeed = c.seed*7 + uint64(atoi(os.Getenv("C17_PROC")))*1000003 + uint64(k)*101
		w.incrUsed = cr.incrUsed
		w.proxies = c.proxies()
		w.shared = shared
		tSettle := time.Now()
		fp, st := w.settle(want, settleTimeout(), 1500*time.Millisecond)
		cr.settleMs += time.Since(tSettle).Milliseconds()
		if q := atoi(os.Getenv("C17_QUIET_MS")); q > 0 && st != moving {
			// confirmation runs: the state must also survive a long quiet period unchanged
			for i := 0; i < 5; i++ {
				time.Sleep(time.Duration(q) * time.Millisecond)
				fp2, st2 := w.settle(want, settleTimeout(), 1500*time.Millisecond)
				same := fp2 == fp
				fp, st = fp2, st2
				if same || st == moving {
					break
				}
			}
		}
		if st == moving {
			cr.unsettled = fmt.Sprintf("build=%d still moving after %v fingerprint=%s want=%s diff: %s", k, settleTimeout(), fp, want, lineDiff(wantLines, w.fingerprintLines()))
			w.close()
			return cr
		}
		lines := w.fingerprintLines()
		states = append(states, sectionDigests(lines))
		if st == stableDifferent && cr.stateDiff == "" {
			// the control plane came to rest in a different state: what differs is judged as an observation of its own
			cr.stateDiff = fmt.Sprintf("build=%d: %s", k, lineDiff(wantLines, lines))
		}
		if k == 0 {
			want = fp
			wantLines = lines
			seen := map[string]bool{}
			for _, sv := range w.s.Env().ServiceDiscovery.Services() {
				key := fmt.Sprintf("%d|%s|%s|%s|%s|%s", sv.CreationTime.UnixNano(), sv.Attributes.Name, sv.Attributes.Namespace,
					sv.Attributes.K8sAttributes.ObjectName, sv.Hostname, sv.DefaultAddress)
				cr.svcs++
				if seen[key] {
					cr.dupKeys++
				}
				seen[key] = true
			}
		}
		var prev *model.PushContext
		for r := 0; r < c.r; r++ {
			// every second generation derives its PushContext incrementally from the previous one
			var from *model.PushContext
			if r%2 == 1 {
				from = prev
			}
			snap, push := w.snapshot(from, k*c.r+r, false)
			prev = push
			if k == 0 && r == 0 {
				for key := range snap {
					cr.keys = append(cr.keys, key)
					cr.nres += len(snap[key])
				}
				sort.Strings(cr.keys)
			}
			for _, key := range cr.keys {
				rs := snap[key]
				if base, ok := strings.CutSuffix(key, ".viaset"); ok {
					// same request through the xDS generator: the content must be that of the direct call,
					// the order follows the iteration of the requested name set
					cr.add(base, digest(rs, true))
					cr.add(base+".setorder", digest(rs, false))
				} else {
					cr.add(key, digest(rs, true))
					cr.add(key+".order", digest(rs, false))
				}
			}
			if keepRaw {
				cr.snaps = append(cr.snaps, snap)
				cr.runTag = append(cr.runTag, fmt.Sprintf("build%d/gen%d", k, r))
			}
			if r == c.r-1 {
				// one more generation from the same PushContext WITHOUT clearing the XDS cache (cache hits)
				csnap, _ := w.snapshot(push, k*c.r+r+1, true)
				for _, key := range cr.keys {
					rs := csnap[key]
					if base, ok := strings.CutSuffix(key, ".viaset"); ok {
						cr.add(base, digest(rs, true))
						cr.add(base+".setorder", digest(rs, false))
					} else {
						cr.add(key, digest(rs, true))
						cr.add(key+".order", digest(rs, false))
					}
				}
				if keepRaw {
					cr.snaps = append(cr.snaps, csnap)
					cr.runTag = append(cr.runTag, fmt.Sprintf("build%d/cached", k))
				}
				// does the ORDER of an EDS response follow the history of the cache (instead of only the iteration of
				// the requested name set, which is the known and masked cause)?
				for name, verdict := range w.edsCacheHistory(push) {
					cr.add(name+":EDS.cachehistory", "independent")
					cr.add(name+":EDS.cachehistory", verdict)
				}
			}
		}
		// the state must not have moved while we were generating
		if fp2 := w.fingerprint(); fp2 != fp {
			cr.unsettled = fmt.Sprintf("build=%d fingerprint moved during generation %s -> %s", k, fp, fp2)
			w.close()
			return cr
		}
		w.close()
	}
	secs := sets.New[string]()
	for _, st := range states {
		for sec := range st {
			secs.Insert(sec)
		}
	}
	for _, sec := range sets.SortedList(secs) {
		for _, st := range states {
			d, ok := st[sec]
			if !ok {
				d = "0."
			}
			cr.add("state:"+sec, d)
		}
	}
	return cr
}

// edsCacheHistory: an oracle for ONE cause of EDS response order other than map iteration. The EDS generator walks the
// requested name set in Go map order, so the order of a response is random and cannot be compared between runs
// (known class perm:response-order:requested-names:EDS). Whatever that order is, it must not depend on which of the
// names are already in the XDS cache. For the first two EDS clusters {a, b} of a proxy: clear the cache, warm a alone,
// request {a, b}; ten times; then the same with b warm. Under map iteration the first resource of the answer is
// distributed the same way in both arrangements; if the warm one is first in ALL twenty answers (probability below
// 4^-10 under any map order distribution) the order follows the cache history.
func (w *world) edsCacheHistory(push *model.PushContext) map[string]string {
	out := map[string]string{}
	const trials = 10
	for _, ps := range w.proxies {
		p := setupProxy(w, ps.mk(), push)
		names := edsNames(generate(w, p, push, "CDS", nil))
		if len(names) < 2 {
			continue
		}
		a, b := names[0], names[len(names)-1]
		warmFirst := 0
		for _, warm := range []string{a, b} {
			for t := 0; t < trials; t++ {
				w.s.Discovery.Cache.ClearAll()
				generate(w, p, push, "EDS", []string{warm})
				if res := generate(w, p, push, "EDS", []string{a, b}); len(res) == 2 && res[0].name == warm {
					warmFirst++
				}
			}
		}
		out[ps.name] = "independent"
		if warmFirst == 2*trials {
			out[ps.name] = "follows-cache"
		}
	}
	w.s.Discovery.Cache.ClearAll()
	return out
}

// obsKeys: the observation keys in print order (state first).
func (cr *caseRun) obsKeys() []string {
	var st, rest []string
	for k := range cr.digests {
		if strings.HasPrefix(k, "state:") {
			st = append(st, k)
		} else {
			rest = append(rest, k)
		}
	}
	sort.Strings(st)
	sort.Strings(rest)
	return append(st, rest...)
}

// orderKey: an observation of the ORDER of a response (as opposed to its content).
func orderKey(k string) bool {
	return strings.HasSuffix(k, ".order") || strings.HasSuffix(k, ".setorder")
}

func allEqual(l []string) bool {
	for _, x := range l {
		if x != l[0] {
			return false
		}
	}
	return true
}

// panicSite: the first frames of the panicking goroutine below the runtime (where the real code or the harness panicked).
func panicSite() string {
	var frames []string
	for _, l := range strings.Split(string(debug.Stack()), "\n") {
		l = strings.TrimSpace(l)
		if strings.HasPrefix(l, "/") && !strings.Contains(l, "/runtime/") && !strings.Contains(l, "panicSite") && !strings.Contains(l, "observePerm") {
			if i := strings.Index(l, " +0x"); i > 0 {
				l = l[:i]
			}
			frames = append(frames, l)
			if len(frames) >= 3 {
				break
			}
		}
	}
	return strings.Join(frames, " < ")
}

func observePerm(in, outp string) {
	out := wire.Create(outp)
	defer out.Close()
	for _, f := range wire.ReadLines(in) {
		if f[0] != "case" {
			continue
		}
		c := parsePermCase(f)
		var cr *caseRun
		done := make(chan *caseRun, 1)
		go func() {
			var res *caseRun
			defer func() {
				if r := recover(); r != nil {
					res = &caseRun{panicked: fmt.Sprint(r) + " @ " + panicSite()}
					if os.Getenv("C17_DEBUG") != "" {
						panic(r)
					}
				}
				done <- res
			}()
			res = runCase(c, false)
		}()
		// per-mesh watchdog: a mesh that does not finish is logged with the stacks of all goroutines, counted
		// (`timeout`) and abandoned; the run goes on. The abandoned goroutine may still flip the process-wide feature
		// flags when it ends, so they are reset here and its own restore is disarmed (profileEpoch).
		select {
		case cr = <-done:
		case <-time.After(meshTimeout()):
			atomic.AddInt64(&profileEpoch, 1)
			resetProfile()
			buf := make([]byte, 1<<20)
			buf = buf[:goruntime.Stack(buf, true)]
			fmt.Fprintf(os.Stderr, "WATCHDOG: mesh `%s` did not finish within %v; goroutines:\n%s\n", strings.Join(c.line(), " "), meshTimeout(), buf)
			cr = &caseRun{timedOut: fmt.Sprintf("no result after %v; stack of the first harness goroutine: %s", meshTimeout(), stuckSite(string(buf)))}
		}
		out.Line(append(c.line(), "objs="+strconv.Itoa(cr.nobjs), "res="+strconv.Itoa(cr.nres))...)
		feats := map[string]int{}
		for _, o := range c.objects() {
			feats[o.feat]++
		}
		var fl []string
		for k, v := range feats {
			fl = append(fl, k+":"+strconv.Itoa(v))
		}
		sort.Strings(fl)
		if mc := c.meshConfig(); mc != nil && mc.ProxyHttpPort > 0 {
			fl = append(fl, "mesh-proxy-http-port:1")
		}
		if c.meshNetworks() != nil {
			fl = append(fl, "mesh-two-networks:1")
		}
		if c.flag != "" {
			fl = append(fl, "flag-"+c.flag+":1")
		}
		var il []string
		for k, v := range cr.incrUsed {
			il = append(il, k+":"+strconv.Itoa(v))
		}
		sort.Strings(il)
		out.Line("info", "feat="+joinElems(fl), "svcs="+strconv.Itoa(cr.svcs), "dupkeys="+strconv.Itoa(cr.dupKeys),
			"incr="+joinElems(il), "ms="+strconv.FormatInt(cr.ms, 10), "settlems="+strconv.FormatInt(cr.settleMs, 10))
		if cr.stateDiff != "" {
			out.Line("info", "statediff="+wire.Enc(cr.stateDiff))
		}
		if cr.timedOut != "" {
			out.Line("timeout", wire.Enc(cr.timedOut))
		} else if cr.panicked != "" {
			out.Line("panic", wire.Enc(cr.panicked))
		} else if cr.unsettled != "" {
			out.Line("skip", wire.Enc(cr.unsettled))
		} else {
			for _, k := range cr.obsKeys() {
				out.Line(append([]string{"obs", k}, cr.digests[k]...)...)
			}
		}
		out.Flush()
	}
}

// ---------------------------------------------------------------- monitor (Go's own verdict)

func monLine(f []string) string {
	switch f[0] {
	case "case":
		return "ok"
	case "skip":
		return "skip"
	case "panic":
		return "panic"
	case "timeout":
		return "timeout"
	case "obs":
		if len(f) < 2 {
			return "bad-op"
		}
		if allEqual(f[2:]) || len(f) == 2 {
			return "ok"
		}
		return "bad " + f[1]
	}
	return "bad-op"
}

func execMon(in, outp string) {
	out := wire.Create(outp)
	defer out.Close()
	for _, f := range wire.ReadLines(in) {
		out.Line(monLine(f))
	}
}

// oracleMon: one verdict per case: state (the control plane holds a different state after a different
// insertion order), content, order, or only the documented order of a response that follows the
// iteration of the requested name set.
func oracleMon(in, outp string) {
	out := wire.Create(outp)
	defer out.Close()
	started := false
	var state, bad, order, setOrder []string
	flush := func() {
		if !started {
			return
		}
		switch {
		case len(state) > 0:
			out.Line("FAIL", "state-order", joinElems(state))
		case len(bad) > 0:
			out.Line("FAIL", "content", joinElems(bad))
		case len(order) > 0:
			out.Line("FAIL", "order", joinElems(order))
		case len(setOrder) > 0:
			out.Line("FAIL", "response-order-of-requested-set", joinElems(setOrder))
		default:
			out.Line("OK")
		}
	}
	for _, f := range wire.ReadLines(in) {
		if f[0] == "case" {
			flush()
			started, state, bad, order, setOrder = true, nil, nil, nil, nil
			continue
		}
		if f[0] == "obs" && len(f) > 2 && !allEqual(f[2:]) {
			switch {
			case strings.HasPrefix(f[1], "state:"):
				state = append(state, f[1])
			case strings.HasSuffix(f[1], ".setorder"):
				setOrder = append(setOrder, f[1])
			case strings.HasSuffix(f[1], ".order"):
				order = append(order, f[1])
			default:
				bad = append(bad, f[1])
			}
		}
	}
	flush()
}

// ---------------------------------------------------------------- minimise

// caseVerdict runs a case and returns the sorted observation keys that are not all-equal
// ("" when deterministic or unsettled).
func caseVerdict(c permCase, contentOnly bool) string {
	var cr *caseRun
	func() {
		defer func() {
			if r := recover(); r != nil {
				cr = &caseRun{panicked: fmt.Sprint(r)}
			}
		}()
		cr = runCase(c, false)
	}()
	if cr.unsettled != "" || cr.panicked != "" {
		return ""
	}
	var bad []string
	for _, k := range cr.obsKeys() {
		if contentOnly && orderKey(k) {
			continue
		}
		if !allEqual(cr.digests[k]) {
			bad = append(bad, k)
		}
	}
	return strings.Join(bad, ",")
}

// minimisePerm drops objects from the mesh of the first case while some observation key of
// `want` (comma separated; empty = any content key) still differs. Probabilistic failures are
// retried `attempts` times before a candidate counts as passing.
func minimisePerm(in, want string, attempts int) {
	var c permCase
	for _, f := range wire.ReadLines(in) {
		if f[0] == "case" {
			c = parsePermCase(f)
			break
		}
	}
	if c.keep == nil {
		n := len(c.allObjects())
		for i := 0; i < n; i++ {
			c.keep = append(c.keep, i)
		}
	}
	wantSet := sets.New[string]()
	if want != "" {
		wantSet.InsertAll(strings.Split(want, ",")...)
	}
	fails := func(keep []int) bool {
		cc := c
		cc.keep = keep
		for a := 0; a < attempts; a++ {
			v := caseVerdict(cc, want == "")
			if v == "" {
				continue
			}
			if want == "" {
				return true
			}
			for _, k := range strings.Split(v, ",") {
				if wantSet.Contains(k) {
					return true
				}
			}
		}
		return false
	}
	if !fails(c.keep) {
		fmt.Println("not failing:", strings.Join(c.line(), " "))
		return
	}
	keep := c.keep
	chunk := len(keep) / 2
	for chunk >= 1 {
		i := 0
		progressed := false
		for i < len(keep) {
			end := i + chunk
			if end > len(keep) {
				end = len(keep)
			}
			cand := append(append([]int(nil), keep[:i]...), keep[end:]...)
			if len(cand) > 0 && fails(cand) {
				keep = cand
				progressed = true
			} else {
				i += chunk
			}
		}
		if chunk == 1 && !progressed {
			break
		}
		if chunk > 1 {
			chunk /= 2
		}
	}
	c.keep = keep
	fmt.Println(strings.Join(c.line(), " "))
}

// ---------------------------------------------------------------- explain

func textOf(a *anypb.Any) string {
	m, err := a.UnmarshalNew()
	if err != nil {
		return fmt.Sprintf("<%s: %v>", a.GetTypeUrl(), err)
	}
	return prototext.MarshalOptions{Multiline: true, Indent: " "}.Format(m)
}

func firstDiffLines(a, b string, ctxLines int) string {
	la, lb := strings.Split(a, "\n"), strings.Split(b, "\n")
	i := 0
	for i < len(la) && i < len(lb) && la[i] == lb[i] {
		i++
	}
	from := i - ctxLines
	if from < 0 {
		from = 0
	}
	var sb strings.Builder
	for j := from; j < i+ctxLines*2 && (j < len(la) || j < len(lb)); j++ {
		x, y := "", ""
		if j < len(la) {
			x = la[j]
		}
		if j < len(lb) {
			y = lb[j]
		}
		mark := "  "
		if x != y {
			mark = "!="
		}
		fmt.Fprintf(&sb, "%s %-70s | %s\n", mark, strings.ReplaceAll(x, "\t", " "), y)
	}
	return sb.String()
}

func explainPerm(in string) {
	for _, f := range wire.ReadLines(in) {
		if f[0] != "case" {
			continue
		}
		c := parsePermCase(f)
		fmt.Println(strings.Join(c.line(), " "))
		objs := c.objects()
		for i, o := range objs {
			idx := i
			if c.keep != nil {
				idx = c.keep[i]
			}
			fmt.Printf("  obj %d %s\n", idx, o.desc)
			if os.Getenv("C17_DUMP") != "" && o.cfg != nil {
				if m, ok := o.cfg.Spec.(proto.Message); ok {
					fmt.Printf("      t=%d %s\n", o.cfg.CreationTimestamp.Unix()-t0.Unix(), prototext.MarshalOptions{}.Format(m))
				}
			}
		}
		var cr *caseRun
		for try := 0; try < 6; try++ {
			cr = runCase(c, true)
			if cr.unsettled != "" {
				break
			}
			hasContent := cr.stateDiff != ""
			for _, key := range cr.obsKeys() {
				if !orderKey(key) && !allEqual(cr.digests[key]) {
					hasContent = true
				}
			}
			if hasContent {
				break
			}
		}
		if cr.unsettled != "" {
			fmt.Println("  unsettled:", cr.unsettled)
			continue
		}
		if cr.stateDiff != "" {
			fmt.Println("  STATE differs after a different insertion order (differences of generated resources follow from it):")
			fmt.Println("   ", cr.stateDiff)
		}
		for _, key := range cr.keys {
			ref := cr.snaps[0][key]
			// content first: the first run whose name-sorted digest differs from run 0
			content := -1
			order := -1
			for ri, s := range cr.snaps[1:] {
				cur := s[key]
				if content < 0 && digest(ref, true) != digest(cur, true) {
					content = ri + 1
				}
				if order < 0 && digest(ref, true) == digest(cur, true) && digest(ref, false) != digest(cur, false) {
					order = ri + 1
				}
			}
			if content >= 0 {
				cur := cr.snaps[content][key]
				var tags []string
				for ri, s := range cr.snaps {
					tags = append(tags, cr.runTag[ri]+"="+digest(s[key], true))
				}
				fmt.Printf("  %s: CONTENT differs between %s and %s\n    runs: %s\n", key, cr.runTag[0], cr.runTag[content], strings.Join(tags, " "))
				am, bm := map[string]resource{}, map[string]resource{}
				for _, r := range ref {
					am[r.name] = r
				}
				for _, r := range cur {
					bm[r.name] = r
				}
				for _, n := range sortedNames(ref) {
					if _, ok := bm[n]; !ok {
						fmt.Printf("    only in %s: %s\n", cr.runTag[0], n)
					}
				}
				for _, n := range sortedNames(cur) {
					if _, ok := am[n]; !ok {
						fmt.Printf("    only in %s: %s\n", cr.runTag[content], n)
					}
				}
				shown := 0
				for _, n := range sortedNames(ref) {
					a, b := am[n], bm[n]
					if b.any != nil && resHash(a) != resHash(b) {
						ta, tb := textOf(a.any), textOf(b.any)
						if ta == tb {
							fmt.Printf("    resource %s: bytes differ but text form is equal (serialization order)\n", n)
						} else {
							fmt.Printf("    resource %s:\n%s", n, firstDiffLines(ta, tb, 6))
						}
						shown++
						if shown >= 2 {
							break
						}
					}
				}
			} else if order >= 0 && !strings.HasSuffix(key, ".viaset") {
				fmt.Printf("  %s: ORDER differs between %s and %s\n", key, cr.runTag[0], cr.runTag[order])
				a, b := names(ref), names(cr.snaps[order][key])
				for i := range a {
					if a[i] != b[i] {
						fmt.Printf("    [%d] %-60s | %s\n", i, a[i], b[i])
					}
				}
			}
		}
	}
}

func names(rs []resource) []string {
	out := make([]string, len(rs))
	for i, r := range rs {
		out[i] = r.name
	}
	return out
}

func sortedNames(rs []resource) []string {
	out := names(rs)
	sort.Strings(out)
	return out
}
