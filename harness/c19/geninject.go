package main

// Generator of the `inject` stream: every fixture document under each injector setting (quick
// tier: all under `default`, a rotating third under the others) plus n generated pods.

import (
	"encoding/json"
	"fmt"
	"os"
	"strings"

	corev1 "k8s.io/api/core/v1"
	"k8s.io/apimachinery/pkg/api/resource"
	metav1 "k8s.io/apimachinery/pkg/apis/meta/v1"
	"k8s.io/apimachinery/pkg/util/intstr"

	"verifharness/internal/wire"
)

func genInject(seed uint64, n int, out string) {
	rng := wire.NewRng(seed*0x51ed27 + 1919)
	o := wire.Create(out)
	defer o.Close()
	c := 0
	thorough := os.Getenv("VERIF_TIER") == "thorough"
	for fi, f := range fixtureFiles() {
		docs := fixtureDocs(f)
		for d := range docs {
			// A fixture that is an already injected pod (it carries a status annotation) was injected under the
			// default configuration; re-injecting it under another injector configuration is not "the same inputs".
			already := false
			if pod, _, err := fixturePod(f, d); err == nil && pod != nil {
				_, already = pod.Annotations["sidecar.istio.io/status"]
			}
			// the kube-inject path (IntoObject) on the same document
			o.Line("case", fmt.Sprint(c), "inject")
			o.Line("kubeinject", "default", wire.Enc(f), fmt.Sprint(d))
			c++
			_ = fi
			if thorough && !already {
				for _, sn := range []string{"hold", "cni", "native"} {
					o.Line("case", fmt.Sprint(c), "inject")
					o.Line("kubeinject", sn, wire.Enc(f), fmt.Sprint(d))
					c++
				}
			}
			for si, s := range settings {
				if already && si > 0 {
					continue
				}
				_ = si // every fixture under every rendering, in both tiers (a witness that exists only as a fixture is seen by every seed)
				o.Line("case", fmt.Sprint(c), "inject")
				o.Line("fixture", s.name, wire.Enc(f), fmt.Sprint(d))
				c++
			}
			// non-default webhook configurations / admission variants on the default rendering
			if !already {
				mods := []string{"default+pd", "default+sel", "default+pd+sel", "default+path", "default+d", "default+path+d", "native+d", "network+path",
					"default+http", "default+http+path", "default+pathenv", "default+pathcustom", "default+po", "default+alias", "default+ia", "chart-sel+http", "cni+http+d",
					"default+http1b", "network+http"}
				for mi, m := range mods {
					if !thorough && (fi+d+mi+int(seed))%len(mods) != 0 {
						continue
					}
					o.Line("case", fmt.Sprint(c), "inject")
					o.Line("fixture", m, wire.Enc(f), fmt.Sprint(d))
					c++
				}
			}
		}
	}
	for i := 0; i < n; i++ {
		r := rng.Fork()
		pod := genPod(r)
		b, err := json.Marshal(pod)
		if err != nil {
			continue
		}
		s := settings[0]
		if r.Chance(1, 2) {
			s = wire.Pick(r, settings)
		}
		if r.Chance(1, 8) {
			s.name += "+pd"
		}
		if r.Chance(1, 4) {
			s.name += "+sel"
		}
		if r.Chance(1, 8) {
			s.name += "+path"
		}
		if r.Chance(1, 5) {
			s.name += "+d"
		}
		if r.Chance(1, 15) {
			s.name += "+po"
		}
		if r.Chance(1, 10) {
			s.name += "+http"
		}
		if !strings.Contains(s.name, "+path") {
			if r.Chance(1, 16) {
				s.name += "+pathenv"
			} else if r.Chance(1, 16) {
				s.name += "+pathcustom"
			}
		}
		if r.Chance(1, 12) {
			s.name += "+alias"
		}
		if r.Chance(1, 12) {
			s.name += "+ia"
		}
		if strings.Contains(s.name, "+http") {
			// each +http setting holds a file watcher (an inotify instance): only a fixed handful of combinations
			s.name = wire.Pick(r, httpSettings)
		}
		// a pod that names a template of an extra rendering is admitted under that rendering (so that it is injected, not refused)
		switch strings.ReplaceAll(pod.Annotations["inject.istio.io/templates"], " ", "") {
		case "custom", "sidecar,custom":
			s.name = "custom" + s.name[len(strings.Split(s.name, "+")[0]):]
		case "spire":
			s.name = "spire" + s.name[len(strings.Split(s.name, "+")[0]):]
		case "sidecar,verif":
			s.name = "funcs" + s.name[len(strings.Split(s.name, "+")[0]):]
		}
		// namespace of the admission request; the pod's own namespace is set separately (genPod)
		ns := wire.Pick(r, []string{"default", "default", "", "test-ns", "istio-system"})
		if r.Chance(1, 8) {
			ns = wire.Pick(r, []string{"kube-system", "kube-public", "kube-node-lease", "local-path-storage", "kube-systemx"})
		}
		o.Line("case", fmt.Sprint(c), "inject")
		o.Line("pod", s.name, wire.Enc(ns), wire.Enc(string(b)))
		c++
		if i%4 == 0 {
			// the kube-inject call site on the same pod, in a workload object of every kind, in namespace ns; through IntoObject,
			// IntoResourceFile (@file) or IntoObject with an Injector that asks the webhook (@injector)
			base := strings.Split(s.name, "+")[0]
			wrap := wrapKinds[(i/4)%len(wrapKinds)]
			switch {
			case r.Chance(1, 4):
				wrap += "@file"
			case r.Chance(1, 5):
				wrap += "@injector"
			}
			o.Line("case", fmt.Sprint(c), "inject")
			o.Line("kubeinject-pod", base, wrap, wire.Enc(ns), wire.Enc(string(b)))
			c++
		}
		if i%10 == 7 {
			// the same through kube-inject: the injected WORKLOAD, changed, is handed to kube-inject again
			base := strings.Split(s.name, "+")[0]
			o.Line("case", fmt.Sprint(c), "inject")
			o.Line("redecide-kube", base, wrapKinds[(i/10)%len(wrapKinds)], wire.Enc(ns), wire.Enc(string(b)),
				wire.Pick(r, []string{"label-false", "annotation-false", "namespace-ignored", "host-network"}))
			c++
		}
		if i%10 == 3 {
			// decision-only: the really injected pod, changed so that the documented decision is "never", admitted again
			o.Line("case", fmt.Sprint(c), "inject")
			o.Line("redecide", s.name, wire.Enc(ns), wire.Enc(string(b)),
				wire.Pick(r, []string{"label-false", "annotation-false", "namespace-ignored", "request-namespace-ignored", "host-network", "probe-reset", "probe-reset"}))
			c++
		}
	}
}

var httpSettings = []string{"default+http", "default+http+path", "default+http1b", "default+http+pathcustom+d", "chart-sel+http", "cni+http+d", "default+http+pd+sel", "network+http"}

func i64(v int64) *int64 { return &v }
func bptr(v bool) *bool  { return &v }

func genProbe(r *wire.Rng, ports []corev1.ContainerPort) *corev1.Probe {
	p := &corev1.Probe{}
	port := intstr.FromInt32(8080)
	if len(ports) > 0 {
		cp := wire.Pick(r, ports)
		if cp.Name != "" && r.Chance(1, 2) {
			port = intstr.FromString(cp.Name)
		} else {
			port = intstr.FromInt32(cp.ContainerPort)
		}
	}
	if r.Chance(1, 15) {
		port = intstr.FromString("no-such-port") // a named port no container declares
	}
	switch r.Intn(5) {
	case 0, 1:
		p.HTTPGet = &corev1.HTTPGetAction{Path: wire.Pick(r, []string{"/healthz", "/ready", "/"}), Port: port}
		if r.Chance(1, 8) {
			p.HTTPGet.Host = wire.Pick(r, []string{"127.0.0.1", "example.com"})
		}
		if r.Chance(1, 3) {
			p.HTTPGet.Scheme = corev1.URISchemeHTTPS
		}
		if r.Chance(1, 3) {
			p.HTTPGet.HTTPHeaders = []corev1.HTTPHeader{{Name: "X-Probe", Value: "1"}}
		}
	case 2:
		p.TCPSocket = &corev1.TCPSocketAction{Port: port}
	case 3:
		p.GRPC = &corev1.GRPCAction{Port: 9090}
	default:
		p.Exec = &corev1.ExecAction{Command: []string{"cat", "/tmp/healthy"}}
	}
	if r.Chance(1, 2) {
		p.PeriodSeconds = int32(1 + r.Intn(10))
		p.TimeoutSeconds = int32(1 + r.Intn(3))
	}
	return p
}

func genContainer(r *wire.Rng, name string, volumes []corev1.Volume) corev1.Container {
	c := corev1.Container{Name: name, Image: wire.Pick(r, []string{"docker.io/istio/app:1", "nginx", "fake.docker.io/google-samples/hello-go-gke:1.0", "busybox:1.36"})}
	if r.Chance(1, 2) {
		c.Command = wire.Pick(r, [][]string{{"/bin/sh", "-c"}, {"/app"}, {"sleep"}})
	}
	if r.Chance(1, 2) {
		c.Args = wire.Pick(r, [][]string{{"--port", "8080"}, {"infinity"}, {"echo hi; sleep 1"}, {"-v", "--x=y z"}})
	}
	usedNames := map[string]bool{}
	for i, np := 0, r.Intn(4); i < np; i++ {
		p := corev1.ContainerPort{ContainerPort: int32(wire.Pick(r, []int{80, 8080, 8443, 9090, 3306, 15020, 15090, 53, 7070}))}
		if r.Chance(1, 2) {
			nm := wire.Pick(r, []string{"http", "grpc", "https", "tcp-db", "metrics", "dns"})
			if !usedNames[nm] {
				usedNames[nm] = true
				p.Name = nm
			}
		}
		if r.Chance(1, 4) {
			p.Protocol = wire.Pick(r, []corev1.Protocol{corev1.ProtocolTCP, corev1.ProtocolUDP, corev1.ProtocolSCTP})
		}
		if r.Chance(1, 10) {
			p.HostPort = p.ContainerPort
		}
		c.Ports = append(c.Ports, p)
	}
	if r.Chance(2, 5) {
		c.ReadinessProbe = genProbe(r, c.Ports)
	}
	if r.Chance(1, 4) {
		c.LivenessProbe = genProbe(r, c.Ports)
	}
	if r.Chance(1, 6) {
		c.StartupProbe = genProbe(r, c.Ports)
	}
	if r.Chance(1, 6) {
		c.Lifecycle = &corev1.Lifecycle{PreStop: &corev1.LifecycleHandler{HTTPGet: &corev1.HTTPGetAction{Path: "/stop", Port: intstr.FromInt32(8080)}}}
		if r.Chance(1, 2) {
			c.Lifecycle.PostStart = &corev1.LifecycleHandler{HTTPGet: &corev1.HTTPGetAction{Path: "/started", Port: intstr.FromInt32(8080)}}
		}
		if r.Chance(1, 4) {
			c.Lifecycle.PostStart = &corev1.LifecycleHandler{TCPSocket: &corev1.TCPSocketAction{Port: intstr.FromInt32(8080)}}
		}
	}
	if r.Chance(1, 3) {
		c.Env = []corev1.EnvVar{{Name: "FOO", Value: "bar"}}
		if r.Chance(1, 3) {
			c.Env = append(c.Env, corev1.EnvVar{Name: "POD_NAME", ValueFrom: &corev1.EnvVarSource{FieldRef: &corev1.ObjectFieldSelector{FieldPath: "metadata.name"}}})
		}
	}
	if len(volumes) > 0 && r.Chance(1, 2) {
		v := wire.Pick(r, volumes)
		c.VolumeMounts = []corev1.VolumeMount{{Name: v.Name, MountPath: "/mnt/" + v.Name}}
	}
	if r.Chance(1, 5) {
		c.SecurityContext = &corev1.SecurityContext{RunAsUser: i64(int64(wire.Pick(r, []int{0, 1000, 1337, 2000})))}
	}
	if r.Chance(1, 5) {
		c.Resources = corev1.ResourceRequirements{Requests: corev1.ResourceList{corev1.ResourceCPU: resource.MustParse("100m")}}
	}
	return c
}

func genPod(r *wire.Rng) *corev1.Pod {
	pod := &corev1.Pod{
		TypeMeta:   metav1.TypeMeta{Kind: "Pod", APIVersion: "v1"},
		ObjectMeta: metav1.ObjectMeta{Name: wire.Pick(r, []string{"hello", "web-0", "", "job-x"}), Labels: map[string]string{}, Annotations: map[string]string{}},
	}
	if pod.Name == "" {
		pod.GenerateName = "gen-"
	}
	if r.Chance(1, 3) {
		tr := true
		pod.OwnerReferences = []metav1.OwnerReference{{APIVersion: "apps/v1", Kind: "ReplicaSet", Name: "hello-5d4f8", Controller: &tr}}
	}
	if r.Chance(1, 6) {
		// the pod's own namespace wins over the namespace of the admission request
		pod.Namespace = wire.Pick(r, []string{"default", "test-ns", "kube-system", "kube-public", "kube-node-lease", "local-path-storage"})
	}
	if r.Chance(3, 4) {
		pod.Labels["app"] = wire.Pick(r, []string{"hello", "web", "db"})
	}
	if r.Chance(1, 10) {
		pod.Labels["topology.istio.io/network"] = wire.Pick(r, []string{"n2", "network-a", "n1"})
	}
	// labels and fields OUTSIDE the listed inputs of the decision: the decision at the call sites must not move with them
	if r.Chance(1, 6) {
		pod.Labels["istio.io/rev"] = wire.Pick(r, []string{"default", "canary", "1-20-0"})
	}
	if r.Chance(1, 6) {
		pod.Labels["istio.io/dataplane-mode"] = wire.Pick(r, []string{"ambient", "ambient", "none", "sidecar"})
	}
	if r.Chance(1, 10) {
		pod.Labels["istio.io/use-waypoint"] = "wp"
		pod.Labels["gateway.istio.io/managed"] = "istio.io-gateway-controller"
	}
	if r.Chance(1, 8) {
		pod.Spec.HostPID = r.Chance(1, 2)
		pod.Spec.HostIPC = !pod.Spec.HostPID
	}
	if r.Chance(1, 12) {
		pod.Spec.PriorityClassName = "system-node-critical"
	}
	if r.Chance(1, 2) {
		pod.Labels["version"] = "v1"
	}
	if r.Chance(1, 6) {
		pod.Labels["sidecar.istio.io/inject"] = wire.Pick(r, []string{"true", "true", "false", "maybe", ""})
	}
	if r.Chance(1, 8) {
		pod.Labels["service.istio.io/canonical-name"] = "canon"
	}
	// volumes
	volNames := []string{"data", "cfg", "cache", "secret-vol", "tmp"}
	used := map[string]bool{}
	for i, nv := 0, r.Intn(4); i < nv; i++ {
		n := wire.Pick(r, volNames)
		if r.Chance(1, 15) {
			n = wire.Pick(r, []string{"istio-envoy", "istio-data", "workload-certs", "istio-token"})
		}
		if used[n] {
			continue
		}
		used[n] = true
		v := corev1.Volume{Name: n}
		switch r.Intn(8) {
		case 4:
			v.Projected = &corev1.ProjectedVolumeSource{Sources: []corev1.VolumeProjection{
				{ServiceAccountToken: &corev1.ServiceAccountTokenProjection{Path: "token", Audience: "aud"}},
				{ConfigMap: &corev1.ConfigMapProjection{LocalObjectReference: corev1.LocalObjectReference{Name: "cm-" + n}}}}}
		case 5:
			v.PersistentVolumeClaim = &corev1.PersistentVolumeClaimVolumeSource{ClaimName: "pvc-" + n}
		case 6:
			v.HostPath = &corev1.HostPathVolumeSource{Path: "/var/" + n}
		case 7:
			v.DownwardAPI = &corev1.DownwardAPIVolumeSource{Items: []corev1.DownwardAPIVolumeFile{{Path: "labels", FieldRef: &corev1.ObjectFieldSelector{FieldPath: "metadata.labels"}}}}
		case 0:
			v.EmptyDir = &corev1.EmptyDirVolumeSource{}
		case 1:
			v.ConfigMap = &corev1.ConfigMapVolumeSource{LocalObjectReference: corev1.LocalObjectReference{Name: "cm-" + n}}
		case 2:
			v.Secret = &corev1.SecretVolumeSource{SecretName: "s-" + n}
		default:
			v.EmptyDir = &corev1.EmptyDirVolumeSource{Medium: corev1.StorageMediumMemory}
		}
		pod.Spec.Volumes = append(pod.Spec.Volumes, v)
	}
	// containers
	ctrNames := []string{"app", "app2", "worker", "logger", "zz-last", "aa-first", "a-container-with-a-rather-long-name-of-sixty-three-characters-xx"}
	usedC := map[string]bool{}
	nctr := 1 + r.Intn(3)
	if r.Chance(1, 10) {
		nctr = 4 + r.Intn(3) // more than three containers
	}
	for i, nc := 0, nctr; i < nc; i++ {
		n := wire.Pick(r, ctrNames)
		if usedC[n] {
			continue
		}
		usedC[n] = true
		pod.Spec.Containers = append(pod.Spec.Containers, genContainer(r, n, pod.Spec.Volumes))
	}
	// user containers that carry one of the injector's other reserved names
	if r.Chance(1, 30) {
		pod.Spec.Containers = append(pod.Spec.Containers, corev1.Container{Name: "enable-core-dump", Image: "busybox", Command: []string{"sh", "-c", "ulimit -c unlimited"}})
	}
	if r.Chance(1, 40) {
		n := wire.Pick(r, []string{"istio-validation", "enable-core-dump"})
		dup := false
		for _, c := range pod.Spec.Containers {
			dup = dup || c.Name == n
		}
		if !dup { // container names are unique across containers and initContainers
			pod.Spec.InitContainers = append(pod.Spec.InitContainers, corev1.Container{Name: n, Image: "auto"})
		}
	}
	if r.Chance(1, 20) {
		pod.Spec.EphemeralContainers = []corev1.EphemeralContainer{{EphemeralContainerCommon: corev1.EphemeralContainerCommon{Name: "debugger", Image: "busybox", Stdin: true}}}
	}
	// a pre-existing istio-proxy container (user customisation of the sidecar)
	if r.Chance(1, 4) {
		c := corev1.Container{Name: "istio-proxy", Image: wire.Pick(r, []string{"auto", "auto", "", "custom/proxy:1"})}
		if r.Chance(1, 2) {
			c.Resources = corev1.ResourceRequirements{Requests: corev1.ResourceList{corev1.ResourceCPU: resource.MustParse("333m")}}
		}
		if r.Chance(1, 3) {
			c.SecurityContext = &corev1.SecurityContext{RunAsUser: i64(int64(wire.Pick(r, []int{1234, 1337, 0}))), RunAsGroup: i64(4321)}
		}
		if r.Chance(1, 3) {
			c.Env = []corev1.EnvVar{{Name: "USER_ENV", Value: "1"}}
			if r.Chance(1, 2) {
				c.Env = append(c.Env, corev1.EnvVar{Name: "USER_ENV2", Value: "2"}, corev1.EnvVar{Name: "ISTIO_META_USER", Value: "u"})
			}
		}
		if r.Chance(1, 4) {
			c.Lifecycle = &corev1.Lifecycle{PreStop: &corev1.LifecycleHandler{Exec: &corev1.ExecAction{Command: []string{"sleep", "5"}}}}
		}
		if r.Chance(1, 4) && len(pod.Spec.Volumes) > 0 {
			c.VolumeMounts = []corev1.VolumeMount{{Name: pod.Spec.Volumes[0].Name, MountPath: "/user"}}
		}
		if r.Chance(1, 5) {
			c.Ports = []corev1.ContainerPort{{Name: "user-port", ContainerPort: 15099}}
		}
		if r.Chance(1, 6) {
			c.ReadinessProbe = &corev1.Probe{ProbeHandler: corev1.ProbeHandler{HTTPGet: &corev1.HTTPGetAction{Path: "/healthz/ready", Port: intstr.FromInt32(15021)}}, PeriodSeconds: 3}
		}
		if r.Chance(1, 8) {
			c.Args = []string{"proxy", "sidecar", "--log_output_level=default:debug"}
		}
		at := r.Intn(len(pod.Spec.Containers) + 1)
		pod.Spec.Containers = append(pod.Spec.Containers[:at], append([]corev1.Container{c}, pod.Spec.Containers[at:]...)...)
	}
	// init containers, some of them native sidecars
	initNames := []string{"init-db", "migrate", "native-helper", "wait"}
	usedI := map[string]bool{}
	for i, ni := 0, r.Intn(3); i < ni; i++ {
		n := wire.Pick(r, initNames)
		if usedI[n] {
			continue
		}
		usedI[n] = true
		c := genContainer(r, n, pod.Spec.Volumes)
		c.LivenessProbe, c.Lifecycle = nil, nil
		if r.Chance(1, 3) {
			always := corev1.ContainerRestartPolicyAlways
			c.RestartPolicy = &always
		} else {
			c.ReadinessProbe, c.StartupProbe = nil, nil
		}
		pod.Spec.InitContainers = append(pod.Spec.InitContainers, c)
	}
	nativeUserProxy := false
	if r.Chance(1, 25) && !usedC["istio-proxy-marker"] {
		// the user's sidecar customisation written as a native sidecar (init container with restartPolicy Always)
		hasProxy := false
		for _, c := range pod.Spec.Containers {
			hasProxy = hasProxy || c.Name == "istio-proxy"
		}
		if !hasProxy {
			always := corev1.ContainerRestartPolicyAlways
			pod.Spec.InitContainers = append(pod.Spec.InitContainers, corev1.Container{Name: "istio-proxy", Image: "auto", RestartPolicy: &always,
				Resources: corev1.ResourceRequirements{Requests: corev1.ResourceList{corev1.ResourceCPU: resource.MustParse("222m")}}})
			// under a configuration that injects the sidecar as a regular container this would give two containers of one name
			// (an invalid pod): the pod asks for the native placement itself
			nativeUserProxy = true
		}
	}
	if r.Chance(1, 20) {
		pod.Spec.InitContainers = append(pod.Spec.InitContainers, corev1.Container{Name: "istio-init", Image: "auto",
			SecurityContext: &corev1.SecurityContext{RunAsUser: i64(0)}})
	}
	// annotations that steer the injector
	ann := pod.Annotations
	if r.Chance(1, 8) {
		ann["sidecar.istio.io/inject"] = wire.Pick(r, []string{"true", "false", "true", "false", "", "maybe"})
	}
	if r.Chance(1, 3) {
		ann["inject.istio.io/templates"] = wire.Pick(r, []string{"sidecar", "gateway", "gateway", "grpc-agent", "grpc-agent", "grpc-simple", "grpc-simple", "nonexistent", "custom", "custom", "spire", "spire", "sidecar,verif", "sidecar,verif",
			"sidecar,custom", "sidecar, custom", "myalias", "waypoint", "kube-gateway", "agentgateway", "agentgateway-waypoint"})
	}
	if r.Chance(1, 12) {
		ann["kubectl.kubernetes.io/default-container"] = wire.Pick(r, []string{"app", "istio-proxy", "nope"})
		ann["kubectl.kubernetes.io/default-logs-container"] = "app"
	}
	if r.Chance(1, 12) {
		ann["sidecar.istio.io/capNetBindService"] = wire.Pick(r, []string{"true", "false"})
		ann["traffic.sidecar.istio.io/includeOutboundPorts"] = "8080,9090"
	}
	if r.Chance(1, 12) {
		ann["k8s.v1.cni.cncf.io/networks"] = wire.Pick(r, []string{"other-net", "other-net, istio-cni", `[{"name":"other-net"}]`})
	}
	if r.Chance(1, 10) {
		ann["resource.opentelemetry.io/service.namespace"] = "shop"
		if r.Chance(1, 2) {
			ann["resource.opentelemetry.io/service.version"] = "9.9"
		}
		if r.Chance(1, 2) {
			ann["resource.opentelemetry.io/service.instance.id"] = "inst-1"
		}
		pod.Labels["app.kubernetes.io/version"] = "1.0"
	}
	if r.Chance(1, 12) {
		ann["apm.datadoghq.com/env"] = `{"DD_ENV":"prod","DD_SERVICE":"svc"}`
	}
	if r.Chance(1, 12) {
		ann["prometheus.istio.io/scrape-targets"] = wire.Pick(r, []string{":9090/metrics", ":9090/metrics,:9091/other", "8080"})
	}
	if r.Chance(1, 6) {
		ann["sidecar.istio.io/rewriteAppHTTPProbers"] = wire.Pick(r, []string{"true", "false"})
	}
	if r.Chance(1, 6) {
		ann["proxy.istio.io/config"] = wire.Pick(r, []string{`{"holdApplicationUntilProxyStarts": true}`, `{"concurrency": 3}`, `{"statusPort": 15021}`, `holdApplicationUntilProxyStarts: false`})
	}
	if r.Chance(1, 6) {
		ann["sidecar.istio.io/nativeSidecar"] = wire.Pick(r, []string{"true", "false"})
	}
	if r.Chance(1, 10) {
		ann["sidecar.istio.io/nativeSidecar"] = wire.Pick(r, []string{"yes", "True", "", "FALSE", "1"}) // the templates read: anything but "false"
	}
	if strings.Contains(ann["inject.istio.io/templates"], "custom") || strings.Contains(ann["inject.istio.io/templates"], "verif") {
		// the test-only `custom` template of testdata and the harness' own `verif` template patch istio-proxy under `containers`:
		// not combined with the native placement (the pod does not carry its own native istio-proxy either)
		ann["sidecar.istio.io/nativeSidecar"] = "false"
	}
	if nativeUserProxy && ann["sidecar.istio.io/nativeSidecar"] == "false" {
		// drop the user's native istio-proxy again: this pod is pinned to the regular placement
		var keep []corev1.Container
		for _, c := range pod.Spec.InitContainers {
			if c.Name != "istio-proxy" {
				keep = append(keep, c)
			}
		}
		pod.Spec.InitContainers = keep
		nativeUserProxy = false
	}
	if nativeUserProxy {
		ann["sidecar.istio.io/nativeSidecar"] = "true"
		delete(ann, "inject.istio.io/templates")
	}
	if r.Chance(1, 8) {
		ann["sidecar.istio.io/interceptionMode"] = wire.Pick(r, []string{"TPROXY", "REDIRECT", "NONE"})
	}
	if r.Chance(1, 8) {
		ann["traffic.sidecar.istio.io/excludeInboundPorts"] = "4,5,6"
		ann["traffic.sidecar.istio.io/includeOutboundIPRanges"] = "10.0.0.0/8"
	}
	if r.Chance(1, 6) {
		ann["prometheus.io/scrape"] = wire.Pick(r, []string{"true", "true", "true", "false"})
		ann["prometheus.io/port"] = wire.Pick(r, []string{"9090", "15020", "80", "9090", "0x50", "http"})
		if r.Chance(1, 6) {
			ann["prometheus.io.scrape"] = "true" // the sanitized spelling next to the regular one
			ann["prometheus_io_port"] = "9091"
		}
		if r.Chance(1, 2) {
			ann["prometheus.io/path"] = "/metrics"
		}
	}
	if r.Chance(1, 10) {
		ann["sidecar.istio.io/userVolume"] = `[{"name":"user-volume-1","emptyDir":{}}]`
		ann["sidecar.istio.io/userVolumeMount"] = `[{"name":"user-volume-1","mountPath":"/mnt/uv1"}]`
	}
	if r.Chance(1, 10) {
		ann["sidecar.istio.io/proxyCPU"] = "250m"
		ann["sidecar.istio.io/proxyMemory"] = "64Mi"
	}
	if r.Chance(1, 12) {
		ann["sidecar.istio.io/proxyImage"] = "example.com/proxy:override"
	}
	if r.Chance(1, 12) {
		ann["sidecar.istio.io/bootstrapOverride"] = "bootstrap-cm"
	}
	if r.Chance(1, 12) {
		ann["sidecar.istio.io/agentLogLevel"] = "debug"
		ann["sidecar.istio.io/logLevel"] = "trace"
	}
	// annotations that move ports / paths the re-invocation logic compares against mesh defaults
	if r.Chance(1, 5) {
		ann["status.sidecar.istio.io/port"] = wire.Pick(r, []string{"15025", "15025", "15021", "0", "15020", "8080"})
	}
	if r.Chance(1, 8) {
		ann["readiness.status.sidecar.istio.io/initialDelaySeconds"] = wire.Pick(r, []string{"0", "5", "30"})
		ann["readiness.status.sidecar.istio.io/periodSeconds"] = wire.Pick(r, []string{"1", "15"})
		ann["readiness.status.sidecar.istio.io/failureThreshold"] = wire.Pick(r, []string{"1", "10"})
	}
	if r.Chance(1, 10) {
		ann["readiness.status.sidecar.istio.io/applicationPorts"] = wire.Pick(r, []string{"8080", "80,8443", ""})
	}
	if r.Chance(1, 10) {
		ann["prometheus.istio.io/merge-metrics"] = wire.Pick(r, []string{"true", "false"})
	}
	if r.Chance(1, 10) {
		ann["traffic.sidecar.istio.io/includeInboundPorts"] = wire.Pick(r, []string{"*", "80,8080", ""})
		ann["traffic.sidecar.istio.io/excludeOutboundPorts"] = wire.Pick(r, []string{"3306", "1,2"})
	}
	if r.Chance(1, 12) {
		ann["traffic.sidecar.istio.io/excludeOutboundIPRanges"] = "10.1.0.0/16"
		ann["traffic.sidecar.istio.io/kubevirtInterfaces"] = "net1"
	}
	if r.Chance(1, 12) {
		ann["sidecar.istio.io/proxyCPULimit"] = "2"
		ann["sidecar.istio.io/proxyMemoryLimit"] = "1Gi"
	}
	if r.Chance(1, 12) {
		ann["proxy.istio.io/config"] = wire.Pick(r, []string{`{"statusPort": 15025}`, `{"proxyMetadata":{"ENVOY_SECURE_MERGED_METRICS_PORT":"15091"}}`,
			`{"proxyMetadata":{"VERIF_META":"x"}}`, `{"proxyMetadata":{"ISTIO_META_DNS_CAPTURE":"true"}}`,
			`{"proxyMetadata":{"ISTIO_META_CLUSTER_ID":"other","PILOT_CERT_PROVIDER":"custom"}}`, `{"proxyMetadata":{"ISTIO_META_DNS_CAPTURE":"false","CA_ADDR":"ca.x:15012"}}`, `{"drainDuration":"10s","terminationDrainDuration":"7s"}`,
			`{"tracing":{"zipkin":{"address":"zipkin.x:9411"}}}`, `{"image":{"imageType":"distroless"}}`})
	}
	if r.Chance(1, 15) {
		ann["sidecar.istio.io/enableCoreDump"] = "true"
	}
	if r.Chance(1, 15) {
		ann["sidecar.istio.io/privileged"] = "true"
	}
	if r.Chance(1, 15) {
		ann["istio.io/reroute-virtual-interfaces"] = "net1"
	}
	if r.Chance(1, 10) {
		// an overrides annotation present before the first injection (a pod that was injected, had its status
		// annotation stripped and is admitted again). Only entries the injector itself would record (containers of
		// the template); an entry for a non-template container is a forged record, see notes/C19.md
		ann["proxy.istio.io/overrides"] = wire.Pick(r, []string{
			`{"containers":[{"name":"istio-proxy","resources":{"requests":{"cpu":"777m"}}}]}`,
			`{"containers":[{"name":"istio-proxy","image":"auto","env":[{"name":"OV","value":"1"}]}]}`,
			`{"initContainers":[{"name":"istio-init","resources":{"limits":{"cpu":"1"}}}]}`,
			`{"containers":[{"name":"istio-proxy","ports":[{"name":"ov-port","containerPort":15098}]}]}`,
			`{"containers":[{"name":"istio-proxy","readinessProbe":{"httpGet":{"path":"/healthz/ready","port":15021},"periodSeconds":4}}]}`,
			`{"containers":[{"name":"istio-proxy","securityContext":{"runAsUser":1234,"runAsGroup":4321}}],"initContainers":[{"name":"istio-init","image":"auto"}]}`,
		})
	}
	// no hand-written sidecar.istio.io/status annotation: that annotation is the injector's own record; the
	// property's "already injected pod" is the output of a real injection (the `twice` run), not a forged record
	if r.Chance(1, 25) {
		ann["sidecar.istio.io/proxyCPU"] = "not-a-quantity!" // rejected by annotation validation
	}
	// pod level
	if r.Chance(1, 4) {
		pod.Spec.ServiceAccountName = "sa"
	}
	if r.Chance(1, 6) {
		pod.Spec.SecurityContext = &corev1.PodSecurityContext{FSGroup: i64(1337)}
		if r.Chance(1, 2) {
			pod.Spec.SecurityContext.RunAsUser = i64(1000)
		}
	}
	if r.Chance(1, 6) {
		pod.Spec.DNSPolicy = wire.Pick(r, []corev1.DNSPolicy{corev1.DNSDefault, corev1.DNSClusterFirst, corev1.DNSClusterFirstWithHostNet, corev1.DNSNone})
	}
	if r.Chance(1, 15) {
		pod.Spec.HostNetwork = true
		if r.Chance(1, 2) {
			pod.Spec.DNSPolicy = corev1.DNSClusterFirstWithHostNet
		}
	}
	if r.Chance(1, 8) {
		pod.Spec.ImagePullSecrets = []corev1.LocalObjectReference{{Name: "regcred"}}
	}
	if r.Chance(1, 10) {
		pod.Spec.NodeName = "node-1"
	}
	if r.Chance(1, 10) {
		pod.Spec.ShareProcessNamespace = bptr(true)
	}
	if len(pod.Labels) == 0 {
		pod.Labels = nil
	}
	if len(pod.Annotations) == 0 {
		pod.Annotations = nil
	}
	return pod
}
