package main

// T-diff stream `decide`: the real injectRequired (and the real LabelSelectorAsSelector / Matches
// it calls) on random concrete pods and configurations, line by line against the Lean model.
//
//	case <n> decide
//	pod <hostNet> <ns> <labelKeys> <labelVals> <annoKeys> <annoVals>      -> ok
//	policy <p>                                                            -> ok
//	never|always <mlKeys> <mlVals> (<key> <op> <vals>)*                   -> err|empty|hit|miss   (this selector on the current pod)
//	eval                                                                  -> 0|1                   (injectRequired)

import (
	"fmt"
	"strings"

	corev1 "k8s.io/api/core/v1"
	metav1 "k8s.io/apimachinery/pkg/apis/meta/v1"
	"k8s.io/apimachinery/pkg/labels"

	"istio.io/api/annotation"
	"istio.io/api/label"
	"istio.io/istio/pkg/kube/inject"
	"verifharness/internal/wire"
)

var long64 = strings.Repeat("a", 64)
var long63 = strings.Repeat("b", 63)

var nsPool = []string{"default", "default", "default", "", "kube-system", "kube-public", "kube-node-lease", "local-path-storage",
	"istio-system", "kube-system2", "Kube-System", "kube"}
var injectVals = []string{"true", "true", "false", "false", "", "True", "yes", "TRUE", "false ", "enabled", "1", "disabled"}
var policyPool = []string{"enabled", "enabled", "enabled", "disabled", "disabled", "", "off", "Enabled", "DISABLED", "garbage"}
var keyPool = []string{"app", "version", "tier", "team", "example.com/name", "a.b-c/x_y.z", "istio.io/rev"}
var badKeys = []string{"", "-bad", "bad key", "a/b/c", "/x", "UPPER.com/x", "x-/y", "good.prefix/", long64, "exa_mple.com/x", "a..b/x", "k!"}
var okOddKeys = []string{long63, "A", "0", "a.b", "x.y.z/" + long63, "sidecar.istio.io/inject"}
var valPool = []string{"x", "y", "web", "v1", "true", "false", ""}
var badVals = []string{" x", "bad value!", "-x", long64, "x-", "a/b", "é"}
var okOddVals = []string{long63, "a.b-c_d", "A", "0"}
var opPool = []string{"In", "In", "NotIn", "Exists", "DoesNotExist"}
var badOps = []string{"Equals", "in", "", "Gt", "exists", "=="}

type kv struct{ k, v string }

func genDecide(seed uint64, n int, out string) {
	rng := wire.NewRng(seed*0x9e3779b1 + 19)
	o := wire.Create(out)
	defer o.Close()
	for c := 0; c < n; c++ {
		r := rng.Fork()
		o.Line("case", fmt.Sprint(c), "decide")
		// pod
		var lbl, ann []kv
		used := map[string]bool{}
		nl := r.Intn(4)
		for i := 0; i < nl; i++ {
			k := wire.Pick(r, keyPool)
			if r.Chance(1, 8) {
				k = wire.Pick(r, okOddKeys)
			}
			if r.Chance(1, 12) {
				k = wire.Pick(r, badKeys)
			}
			if used[k] {
				continue
			}
			used[k] = true
			v := wire.Pick(r, valPool)
			if r.Chance(1, 8) {
				v = wire.Pick(r, append(append([]string{}, badVals...), okOddVals...))
			}
			lbl = append(lbl, kv{k, v})
		}
		if r.Chance(2, 5) && !used[label.SidecarInject.Name] {
			used[label.SidecarInject.Name] = true
			lbl = append(lbl, kv{label.SidecarInject.Name, wire.Pick(r, injectVals)})
			if r.Chance(1, 2) { // not always last
				lbl[0], lbl[len(lbl)-1] = lbl[len(lbl)-1], lbl[0]
			}
		}
		if r.Chance(1, 2) {
			ann = append(ann, kv{annotation.SidecarInject.Name, wire.Pick(r, injectVals)})
		}
		if r.Chance(1, 3) {
			ann = append(ann, kv{wire.Pick(r, []string{"sidecar.istio.io/status", "prometheus.io/scrape", "sidecar.istio.io/Inject", "inject"}), wire.Pick(r, injectVals)})
		}
		ks, vs := split(lbl)
		aks, avs := split(ann)
		o.Line("pod", wire.B(r.Chance(1, 12)), wire.Enc(wire.Pick(r, nsPool)), wire.EncList(ks), wire.EncList(vs), wire.EncList(aks), wire.EncList(avs))
		o.Line("policy", wire.Enc(wire.Pick(r, policyPool)))
		// selectors
		for _, which := range []string{"never", "always"} {
			ns := r.Intn(3)
			if r.Chance(1, 3) {
				ns = 0
			}
			for s := 0; s < ns; s++ {
				toks := []string{which}
				var ml []kv
				seen := map[string]bool{}
				for i, m := 0, r.Intn(3); i < m; i++ {
					e := genKV(r, lbl)
					if seen[e.k] {
						continue
					}
					seen[e.k] = true
					ml = append(ml, e)
				}
				mk, mv := split(ml)
				toks = append(toks, wire.EncList(mk), wire.EncList(mv))
				for i, m := 0, r.Intn(3); i < m; i++ {
					e := genKV(r, lbl)
					op := wire.Pick(r, opPool)
					if r.Chance(1, 25) {
						op = wire.Pick(r, badOps)
					}
					var vals []string
					switch op {
					case "Exists", "DoesNotExist":
						if r.Chance(1, 20) {
							vals = []string{e.v}
						}
					default:
						if !r.Chance(1, 20) {
							vals = []string{e.v}
							if r.Chance(1, 3) {
								vals = append(vals, wire.Pick(r, valPool))
							}
						}
					}
					toks = append(toks, wire.Enc(e.k), wire.Enc(op), wire.EncList(vals))
				}
				o.Line(toks...)
			}
		}
		o.Line("eval")
		if r.Chance(1, 2) {
			// fields outside the listed inputs: the decision must not move
			o.Line("irr", wire.Enc(string(wire.Pick(r, dnsPolicies))), wire.B(r.Chance(1, 2)), wire.B(r.Chance(1, 2)),
				wire.Enc(wire.Pick(r, []string{"", "p", "istio-proxy"})), wire.Enc(wire.Pick(r, []string{"", "sa"})),
				wire.Enc(wire.Pick(r, []string{"", "sidecar", "gateway", "nonexistent"})), wire.B(r.Chance(1, 3)))
			o.Line("eval")
		}
	}
}

// genKV: a key/value mostly taken from the pod's labels (so that selectors match often).
func genKV(r *wire.Rng, lbl []kv) kv {
	if len(lbl) > 0 && r.Chance(3, 5) {
		e := wire.Pick(r, lbl)
		if r.Chance(1, 5) {
			e.v = wire.Pick(r, valPool)
		}
		return e
	}
	e := kv{wire.Pick(r, keyPool), wire.Pick(r, valPool)}
	if r.Chance(1, 25) {
		e.k = wire.Pick(r, badKeys)
	}
	if r.Chance(1, 12) {
		e.k = wire.Pick(r, okOddKeys)
	}
	if r.Chance(1, 25) {
		e.v = wire.Pick(r, badVals)
	}
	if r.Chance(1, 12) {
		e.v = wire.Pick(r, okOddVals)
	}
	return e
}

func split(l []kv) (ks, vs []string) {
	for _, e := range l {
		ks = append(ks, e.k)
		vs = append(vs, e.v)
	}
	return
}

func toMap(ks, vs []string) map[string]string {
	if len(ks) == 0 {
		return nil
	}
	m := map[string]string{}
	for i, k := range ks {
		if i < len(vs) {
			if _, dup := m[k]; !dup { // first occurrence wins, as in the model's lookup
				m[k] = vs[i]
			}
		}
	}
	return m
}

type decideState struct {
	spec corev1.PodSpec
	meta metav1.ObjectMeta
	cfg  inject.Config
}

func parseSelector(toks []string) (metav1.LabelSelector, bool) {
	// toks: mlKeys mlVals (key op vals)*
	var sel metav1.LabelSelector
	if len(toks) < 2 || (len(toks)-2)%3 != 0 {
		return sel, false
	}
	sel.MatchLabels = toMap(wire.DecList(toks[0]), wire.DecList(toks[1]))
	for i := 2; i+2 < len(toks); i += 3 {
		sel.MatchExpressions = append(sel.MatchExpressions, metav1.LabelSelectorRequirement{
			Key: wire.Dec(toks[i]), Operator: metav1.LabelSelectorOperator(wire.Dec(toks[i+1])), Values: wire.DecList(toks[i+2]),
		})
	}
	return sel, true
}

// selStatus runs exactly the calls injectRequired makes for one selector.
func selStatus(sel metav1.LabelSelector, lbls map[string]string) string {
	s, err := metav1.LabelSelectorAsSelector(&sel)
	if err != nil {
		return "err"
	}
	if s.Empty() {
		return "empty"
	}
	if s.Matches(labels.Set(lbls)) {
		return "hit"
	}
	return "miss"
}

func (st *decideState) step(toks []string) (out string) {
	defer func() {
		if e := recover(); e != nil {
			out = "crash"
		}
	}()
	switch toks[0] {
	case "case":
		*st = decideState{}
		return "ok"
	case "pod":
		if len(toks) != 7 {
			return "bad-op"
		}
		st.spec = corev1.PodSpec{HostNetwork: toks[1] == "1"}
		st.meta = metav1.ObjectMeta{
			Namespace:   wire.Dec(toks[2]),
			Labels:      toMap(wire.DecList(toks[3]), wire.DecList(toks[4])),
			Annotations: toMap(wire.DecList(toks[5]), wire.DecList(toks[6])),
		}
		return "ok"
	case "policy":
		if len(toks) != 2 {
			return "bad-op"
		}
		st.cfg.Policy = inject.InjectionPolicy(wire.Dec(toks[1]))
		return "ok"
	case "never", "always":
		sel, ok := parseSelector(toks[1:])
		if !ok {
			return "bad-op"
		}
		if toks[0] == "never" {
			st.cfg.NeverInjectSelector = append(st.cfg.NeverInjectSelector, sel)
		} else {
			st.cfg.AlwaysInjectSelector = append(st.cfg.AlwaysInjectSelector, sel)
		}
		return selStatus(sel, st.meta.Labels)
	case "irr":
		// irr <dnsPolicy> <hostPID> <hostIPC> <name> <serviceAccount> <templates-annotation> <own istio-proxy container>
		if len(toks) != 8 {
			return "bad-op"
		}
		st.spec.DNSPolicy = corev1.DNSPolicy(wire.Dec(toks[1]))
		st.spec.HostPID, st.spec.HostIPC = toks[2] == "1", toks[3] == "1"
		st.meta.Name = wire.Dec(toks[4])
		st.spec.ServiceAccountName = wire.Dec(toks[5])
		if t := wire.Dec(toks[6]); t != "" {
			if st.meta.Annotations == nil {
				st.meta.Annotations = map[string]string{}
			}
			st.meta.Annotations["inject.istio.io/templates"] = t
		}
		if toks[7] == "1" {
			st.spec.Containers = []corev1.Container{{Name: "istio-proxy", Image: "auto"}}
		}
		st.cfg.DefaultTemplates = []string{"sidecar"}
		return "ok"
	case "eval":
		cfg := st.cfg
		return wire.B(inject.VerifInjectRequired(inject.IgnoredNamespaces.UnsortedList(), &cfg, &st.spec, st.meta))
	}
	return "bad-op"
}

func execDecide(in, out string) {
	o := wire.Create(out)
	defer o.Close()
	st := &decideState{}
	for _, toks := range wire.ReadLines(in) {
		o.Line(st.step(toks))
		o.Flush()
	}
}

// ---------------------------------------------------------------- oracle

// documentedConcrete: the documented precedence stated on a concrete pod/config, independent of
// the Lean model. "A selector matches" has the Kubernetes meaning (invalid and empty selectors
// never count).
func documentedConcrete(st *decideState) (bool, string) {
	return documented(abstractRowOf(st))
}

// abstractRowOf: the abstract row of a concrete decision input (the harness' own abstraction, with its own ignored list).
func abstractRowOf(st *decideState) row {
	var r row
	r.hostNet = st.spec.HostNetwork
	r.nsIgnored = isDocumentedIgnored(st.meta.Namespace)
	class := func(m map[string]string, k string) int {
		v, ok := m[k]
		switch {
		case !ok:
			return vAbsent
		case v == "true":
			return vTrue
		case v == "false":
			return vFalse
		case v == "":
			return vEmpty
		}
		return vOther
	}
	r.label = class(st.meta.Labels, label.SidecarInject.Name)
	r.ann = class(st.meta.Annotations, annotation.SidecarInject.Name)
	anyHit := func(sels []metav1.LabelSelector) bool {
		for _, s := range sels {
			if selStatus(s, st.meta.Labels) == "hit" {
				return true
			}
		}
		return false
	}
	r.never = anyHit(st.cfg.NeverInjectSelector)
	r.always = anyHit(st.cfg.AlwaysInjectSelector)
	switch st.cfg.Policy {
	case inject.InjectionPolicyEnabled:
		r.policy = pEnabled
	case inject.InjectionPolicyDisabled:
		r.policy = pDisabled
	default:
		r.policy = pOther
	}
	return r
}

func oracleDecide(in, out string) {
	o := wire.Create(out)
	defer o.Close()
	st := &decideState{}
	verdict := ""
	started := false
	flush := func() {
		if started {
			if verdict == "" {
				verdict = "OK"
			}
			o.Line(verdict)
		}
		verdict = ""
	}
	for _, toks := range wire.ReadLines(in) {
		if toks[0] == "case" {
			flush()
			started = true
		}
		res := st.step(toks)
		if res == "crash" && verdict == "" {
			verdict = "FAIL crash " + toks[0]
		}
		if toks[0] == "eval" && verdict == "" {
			want, clause := documentedConcrete(st)
			if res != wire.B(want) {
				verdict = fmt.Sprintf("FAIL %s real=%s documented=%s", clause, res, wire.B(want))
			}
			// determinism: same inputs, same answer
			if again := st.step(toks); again != res {
				verdict = "FAIL nondeterministic " + res + " " + again
			}
		}
	}
	flush()
}
