#!/usr/bin/env python3
"""Mutation self-test for C19 (scratch worktree only). usage: mutate.py <name>|all"""
import os
import subprocess
import sys

WT = "/tmp/wt-c19"
INJ = "pkg/kube/inject/inject.go"
WH = "pkg/kube/inject/webhook.go"

NEVER_LOOP = '''	if useDefault {
		for _, neverSelector := range config.NeverInjectSelector {
			selector, err := metav1.LabelSelectorAsSelector(&neverSelector)
			if err != nil {
				log.Warnf("Invalid selector for NeverInjectSelector: %v (%v)", neverSelector, err)
			} else if !selector.Empty() && selector.Matches(labels.Set(metadata.Labels)) {
				log.Debugf("Explicitly disabling injection for pod %s/%s due to pod labels matching NeverInjectSelector config map entry.",
					metadata.Namespace, potentialPodName(metadata))
				inject = false
				useDefault = false
				break
			}
		}
	}
'''
ALWAYS_LOOP = '''	if useDefault {
		for _, alwaysSelector := range config.AlwaysInjectSelector {
			selector, err := metav1.LabelSelectorAsSelector(&alwaysSelector)
			if err != nil {
				log.Warnf("Invalid selector for AlwaysInjectSelector: %v (%v)", alwaysSelector, err)
			} else if !selector.Empty() && selector.Matches(labels.Set(metadata.Labels)) {
				log.Debugf("Explicitly enabling injection for pod %s/%s due to pod labels matching AlwaysInjectSelector config map entry.",
					metadata.Namespace, potentialPodName(metadata))
				inject = true
				useDefault = false
				break
			}
		}
	}
'''

MUTS = {
    "M1-annotation-before-label": (INJ, [('''	objectSelector := annos[annotation.SidecarInject.Name]
	if lbl, labelPresent := metadata.GetLabels()[label.SidecarInject.Name]; labelPresent {
		// The label is the new API; if both are present we prefer the label
		objectSelector = lbl
	}''', '''	objectSelector := metadata.GetLabels()[label.SidecarInject.Name]
	if a, annoPresent := annos[annotation.SidecarInject.Name]; annoPresent {
		objectSelector = a
	}''')]),
    "M2-never-after-always": (INJ, [(NEVER_LOOP, "\t// NEVER-PLACEHOLDER\n"), (ALWAYS_LOOP, ALWAYS_LOOP + "\n" + NEVER_LOOP.replace("if useDefault {", "if useDefault || inject {", 1)),
                                     ("\t// NEVER-PLACEHOLDER\n", "")]),
    "M2b-never-after-always-plain-swap": (INJ, [(NEVER_LOOP, "\t// NEVER-PLACEHOLDER\n"), (ALWAYS_LOOP, ALWAYS_LOOP + "\n" + NEVER_LOOP),
                                                 ("\t// NEVER-PLACEHOLDER\n", "")]),
    "M3-hostnetwork-dropped": (INJ, [('''	if podSpec.HostNetwork {
		return false
	}
''', "")]),
    "M4-policy-default-flipped": (INJ, [('''	case InjectionPolicyDisabled:
		if useDefault {
			required = false''', '''	case InjectionPolicyDisabled:
		if useDefault {
			required = true''')]),
    "M5-illegal-policy-honours-label": (INJ, [('''			config.Policy, InjectionPolicyDisabled, InjectionPolicyEnabled)
		required = false''', '''			config.Policy, InjectionPolicyDisabled, InjectionPolicyEnabled)
		required = !useDefault && inject''')]),
    "M6-empty-selector-counts": (INJ, [('''			} else if !selector.Empty() && selector.Matches(labels.Set(metadata.Labels)) {
				log.Debugf("Explicitly enabling''', '''			} else if selector.Matches(labels.Set(metadata.Labels)) {
				log.Debugf("Explicitly enabling''')]),
    "M7-ignored-namespace-one-missing": ("pkg/kube/inject/initializer.go", [('''	constants.KubeNodeLeaseNamespace,
''', "")]),
    "M8-unrecognised-label-falls-back-to-annotation": (INJ, [('''		objectSelector = lbl
	}''', '''		objectSelector = lbl
		if lbl != "true" && lbl != "false" {
			objectSelector = annos[annotation.SidecarInject.Name]
		}
	}''')]),
    "P1-user-volume-dropped-on-reinjection": (WH, [('''	patch, err := createPatch(mergedPod, originalPodSpec)
	if err != nil {
		return nil, fmt.Errorf("failed to create patch: %v", err)
	}''', '''	if _, again := req.pod.Annotations[annotation.SidecarStatus.Name]; again {
		for i, v := range mergedPod.Spec.Volumes {
			if v.Name == "data" || v.Name == "cfg" {
				mergedPod.Spec.Volumes = append(mergedPod.Spec.Volumes[:i:i], mergedPod.Spec.Volumes[i+1:]...)
				break
			}
		}
	}
	patch, err := createPatch(mergedPod, originalPodSpec)
	if err != nil {
		return nil, fmt.Errorf("failed to create patch: %v", err)
	}''')]),
    "P2-user-containers-reordered": (WH, [('''	case MoveLast:
		return append(containers, *match)''', '''	case MoveLast:
		slices.Reverse(containers)
		return append(containers, *match)''')]),
    "P3-user-container-args-lost-with-probe-rewrite": (WH, [('''		patchRewriteProbe(pod.Annotations, pod, req.meshConfig.GetDefaultConfig().GetStatusPort())''', '''		patchRewriteProbe(pod.Annotations, pod, req.meshConfig.GetDefaultConfig().GetStatusPort())
		for i := range pod.Spec.Containers {
			if pod.Spec.Containers[i].ReadinessProbe != nil && pod.Spec.Containers[i].Name != ProxyContainerName {
				pod.Spec.Containers[i].Args = nil
			}
		}''')]),
    "P4-revert-F10a-overrides-not-reapplied": (WH, [('''		match := FindContainer(c.Name, existingOverrides.Containers)
		if match == nil {
			if FindContainer(c.Name, parsedInjectedStatus.Containers) != nil {
				continue
			}
			match = FindContainer(c.Name, originalPod.Spec.Containers)
		}''', '''		if match := FindContainer(c.Name, parsedInjectedStatus.Containers); match != nil {
			continue
		}
		match := FindContainer(c.Name, existingOverrides.Containers)
		if match == nil {
			match = FindContainer(c.Name, originalPod.Spec.Containers)
		}''')]),
    "P5-revert-F10c-ports-reapplied": (WH, [('''	if current != nil && len(overlay.Ports) > 0 && slices.Equal(current.Ports, overlay.Ports) {''',
                                             '''	if false && current != nil && len(overlay.Ports) > 0 && slices.Equal(current.Ports, overlay.Ports) {''')]),
    "P6-revert-F10b-uid-from-pod": (WH, [('''	adjustInitContainerUser(finalPod, FindContainer(ProxyContainerName, overrides.AllContainers()), proxyConfig)''',
                                          '''	adjustInitContainerUser(finalPod, FindSidecar(originalPod), proxyConfig)''')]),
    "P8-injected-containers-not-stripped-before-rendering": (INJ, [('''	for _, c := range prevStatus.Containers {
		pod.Spec.Containers = modifyContainers(pod.Spec.Containers, c, Remove)
	}
''', "")]),
    "P9-probers-appended-again": (WH, [('''	if !previouslyInjected {
		return append(envVars, corev1.EnvVar{Name: status.KubeAppProberEnvName, Value: newProbers})
	}''', '''	if previouslyInjected || !previouslyInjected {
		return append(envVars, corev1.EnvVar{Name: status.KubeAppProberEnvName, Value: newProbers})
	}''')]),
    "P10-init-loop-reads-overrides-containers": (WH, [('''		match := FindContainer(c.Name, existingOverrides.InitContainers)''', '''		match := FindContainer(c.Name, existingOverrides.Containers)''')]),
    "P11-seed-C19-b-merge-direction-on-current-head": (WH, [('''				// merge old and new probers.
				newKubeAppProber[k] = v''', '''				if _, f := newKubeAppProber[k]; !f {
					newKubeAppProber[k] = v
				}''')]),
    "P12-revert-F10d-status-port": (WH, [('''DumpAppProbers(pod, probeStatusPort(pod.Annotations, req.meshConfig.GetDefaultConfig().GetStatusPort()))''', '''DumpAppProbers(pod, req.meshConfig.GetDefaultConfig().GetStatusPort())''')]),
    "R1-webhook-ignored-namespaces-nil": (WH, [('''	if !injectRequired(IgnoredNamespaces.UnsortedList(), wh.Config, &pod.Spec, pod.ObjectMeta) {''', '''	if !injectRequired(nil, wh.Config, &pod.Spec, pod.ObjectMeta) {''')]),
    "R1b-request-namespace-fallback-deleted": (WH, [('''	if pod.ObjectMeta.Namespace == "" {
		pod.ObjectMeta.Namespace = req.Namespace
	}
''', "")]),
    "R2-hostnetwork-unless-dns-clusterfirstwithhostnet": (INJ, [('''	if podSpec.HostNetwork {
		return false
	}

	// skip special kubernetes system namespaces''', '''	if podSpec.HostNetwork && podSpec.DNSPolicy != corev1.DNSClusterFirstWithHostNet {
		return false
	}

	// skip special kubernetes system namespaces''')]),
    "R3-network-label-garbled": (WH, [('''		pod.Labels[label.TopologyNetwork.Name] = nw''', '''		pod.Labels[label.TopologyNetwork.Name] = nw + "-x"''')]),
    "R3b-network-label-dropped": (WH, [('''		pod.Labels[label.TopologyNetwork.Name] = nw''', '''		_, _ = label.TopologyNetwork.Name, nw''')]),
    "R5-valid-annotation-rejected": ("pkg/kube/inject/validate.go", [('''		annotation.IoIstioRerouteVirtualInterfaces.Name:           ValidateExcludeInterfaces,''', '''		annotation.IoIstioRerouteVirtualInterfaces.Name:           validateBool,''')]),
    "R6-revert-F10f-env-dedupe": (WH, [('''	dedupeSidecarEnv(pod)

''', "")]),
    "R7-kubeinject-ignores-label": (INJ, [('''		if !injectRequired(IgnoredNamespaces.UnsortedList(), &Config{Policy: InjectionPolicyEnabled}, &pod.Spec, pod.ObjectMeta) {''', '''		if false && !injectRequired(IgnoredNamespaces.UnsortedList(), &Config{Policy: InjectionPolicyEnabled}, &pod.Spec, pod.ObjectMeta) {''')]),
    "S1-kubeinject-ignored-namespaces-nil": (INJ, [('''		if !injectRequired(IgnoredNamespaces.UnsortedList(), &Config{Policy: InjectionPolicyEnabled}, &pod.Spec, decisionMeta) {
			return skip()''', '''		if !injectRequired(nil, &Config{Policy: InjectionPolicyEnabled}, &pod.Spec, decisionMeta) {
			return skip()''')]),
    "S2-excludeInboundPort-already-excluded-return-removed": ("pkg/kube/inject/template.go", [('''		if port == portStr {
			// The port is already excluded.
			return excludedInboundPorts
		}''', '''''')]),
    "S3-selector-loops-guarded-by-nonempty-labels": (INJ, [('''	if useDefault {
		for _, neverSelector := range config.NeverInjectSelector {''', '''	if useDefault && len(metadata.Labels) > 0 {
		for _, neverSelector := range config.NeverInjectSelector {'''), ('''	if useDefault {
		for _, alwaysSelector := range config.AlwaysInjectSelector {''', '''	if useDefault && len(metadata.Labels) > 0 {
		for _, alwaysSelector := range config.AlwaysInjectSelector {''')]),
    "S5-status-port-mesh-default-hardcoded": (WH, [('''DumpAppProbers(pod, probeStatusPort(pod.Annotations, req.meshConfig.GetDefaultConfig().GetStatusPort()))''', '''DumpAppProbers(pod, probeStatusPort(pod.Annotations, 15020))''')]),
    "S6-webhook-drops-never-selector": (WH, [('''	if !injectRequired(IgnoredNamespaces.UnsortedList(), wh.Config, &pod.Spec, pod.ObjectMeta) {''', '''	if !injectRequired(IgnoredNamespaces.UnsortedList(), &Config{Policy: wh.Config.Policy, AlwaysInjectSelector: wh.Config.AlwaysInjectSelector}, &pod.Spec, pod.ObjectMeta) {''')]),
    "S7-revert-F10h-otel": ("pkg/kube/inject/template.go", [('''		if c.Name != ProxyContainerName {
			apps = append(apps, c)
		}''', '''		apps = append(apps, c)''')]),
    "S8-revert-F10i-kubeinject-namespace": (INJ, [('''	if decisionMeta.Namespace == "" {
		decisionMeta.Namespace = namespace
	}''', '''	_ = namespace''')]),
    "T1-reflective-branch-namespace-dropped": (INJ, [('''		deploymentMetadata = types.NamespacedName{Name: om.GetName(), Namespace: om.GetNamespace()}''', '''		deploymentMetadata = types.NamespacedName{Name: om.GetName()}''')]),
    "T3-never-selector-json-tag-renamed": (INJ, [('''	NeverInjectSelector []metav1.LabelSelector `json:"neverInjectSelector"`''', '''	NeverInjectSelector []metav1.LabelSelector `json:"neverInjectSelectors"`''')]),
    "T4-status-annotation-bypasses-decision": (WH, [('''	if !injectRequired(IgnoredNamespaces.UnsortedList(), wh.Config, &pod.Spec, pod.ObjectMeta) {''', '''	if _, again := pod.Annotations[annotation.SidecarStatus.Name]; !again && !injectRequired(IgnoredNamespaces.UnsortedList(), wh.Config, &pod.Spec, pod.ObjectMeta) {''')]),
    "T7-reinsert-init-overrides-into-containers": (WH, [('''		pod.Spec.InitContainers = append(pod.Spec.InitContainers, c)''', '''		pod.Spec.Containers = append(pod.Spec.Containers, c)''')]),
    "TU-funcmap-key-renamed-config-unloadable": ("pkg/kube/inject/template.go", [('''		"otelResourceAttributes": otelResourceAttributes,''', '''		"otelResourceAttributesX": otelResourceAttributes,''')]),
    "T8-revert-F10j-cronjob-decision": (INJ, [('''	if podMetadata != nil {
		decisionMeta = *podMetadata''', '''	if false && podMetadata != nil {
		decisionMeta = *podMetadata''')]),
    "T9-status-annotation-omits-volumes": (WH, [('''		stat.Volumes = append(stat.Volumes, c.Name)''', '''		_ = c''')]),
    "N2-webhook-skips-ambient-dataplane-label": (WH, [('''	if !injectRequired(IgnoredNamespaces.UnsortedList(), wh.Config, &pod.Spec, pod.ObjectMeta) {''', '''	if pod.Labels["istio.io/dataplane-mode"] == "ambient" || !injectRequired(IgnoredNamespaces.UnsortedList(), wh.Config, &pod.Spec, pod.ObjectMeta) {''')]),
    "N4-kubeinject-status-annotation-bypasses-decision": (INJ, [('''		if !injectRequired(IgnoredNamespaces.UnsortedList(), &Config{Policy: InjectionPolicyEnabled}, &pod.Spec, decisionMeta) {
			return skip()''', '''		if _, again := pod.Annotations[annotation.SidecarStatus.Name]; !again && !injectRequired(IgnoredNamespaces.UnsortedList(), &Config{Policy: InjectionPolicyEnabled}, &pod.Spec, decisionMeta) {
			return skip()''')]),
    "N5-webhook-annotation-false-wins-over-label": (INJ, [('''		objectSelector = lbl
	}''', '''		objectSelector = lbl
		if annos[annotation.SidecarInject.Name] == "false" {
			objectSelector = "false"
		}
	}''')]),
    "H1b-reinsert-drops-ports-of-istio-proxy": (WH, [('''		pod.Spec.Containers = append(pod.Spec.Containers, c)
	}

	for _, c := range existingOverrides.InitContainers {''', '''		if c.Name == ProxyContainerName {
			c.Ports = nil
		}
		pod.Spec.Containers = append(pod.Spec.Containers, c)
	}

	for _, c := range existingOverrides.InitContainers {''')]),
    "H2-cluster-envs-appended-unsorted": (INJ, [('''	sort.Strings(keys)
	for _, key := range keys {
		val := newKVs[key]''', '''	sort.Sort(sort.Reverse(sort.StringSlice(keys)))
	for _, key := range keys {
		val := newKVs[key]''')]),
    "V1-list-continue-to-break-on-unregistered-item": (INJ, [('''			if runtime.IsNotRegisteredError(err) {
				continue
			}''', '''			if runtime.IsNotRegisteredError(err) {
				break
			}''')]),
    "V2-revert-cronjob-injector-decision": (INJ, [('''		if podMetadata != nil && !injectRequired(''', '''		if false && podMetadata != nil && !injectRequired(''')]),
    "V3-revert-nativeSidecar-annotation-reading": (INJ, [('''			native = v != "false"''', '''			native = (v == "true") || (v != "false" && params.nativeSidecar)''')]),
    "V4-webhook-request-namespace-overrides-pods-own": (WH, [('''	if pod.ObjectMeta.Namespace == "" {
		pod.ObjectMeta.Namespace = req.Namespace
	}''', '''	if req.Namespace != "" {
		pod.ObjectMeta.Namespace = req.Namespace
	}''')]),
    "V5-dedupe-env-keeps-position-of-last": (WH, [('''	out := make([]corev1.EnvVar, 0, len(last))
	seen := make(map[string]bool, len(last))
	for _, e := range sidecar.Env {
		if !seen[e.Name] {
			seen[e.Name] = true
			out = append(out, sidecar.Env[last[e.Name]])
		}
	}''', '''	out := make([]corev1.EnvVar, 0, len(last))
	for i, e := range sidecar.Env {
		if last[e.Name] == i {
			out = append(out, e)
		}
	}''')]),
    "V6-multi-document-file-stops-after-unknown-kind": (INJ, [('''		} else {
			updated = raw // unchanged
		}''', '''		} else {
			updated = raw // unchanged
			_, _ = out.Write(updated)
			break
		}''')]),
    "P7-status-annotation-not-stripped": (INJ, [('''	delete(pod.Annotations, annotation.SidecarStatus.Name)

	return pod''', '''	return pod''')]),
}


def sh(cmd, **kw):
    return subprocess.run(cmd, shell=True, stdout=subprocess.PIPE, stderr=subprocess.STDOUT, text=True, **kw)


def run(name):
    path, edits = MUTS[name]
    if edits is None:
        print(name, "not scripted (see notes)")
        return
    sh("git -C /repo worktree remove --force %s" % WT)
    r = sh("git -C /repo worktree add --detach %s HEAD" % WT)
    if r.returncode != 0:
        print(name, "worktree failed", r.stdout)
        return
    f = os.path.join(WT, path)
    s = open(f).read()
    for old, new in edits:
        if old not in s:
            print(name, "PATTERN NOT FOUND:", old[:60])
            sh("git -C /repo worktree remove --force %s" % WT)
            return
        s = s.replace(old, new, 1)
    open(f, "w").write(s)
    env = dict(os.environ, VERIF_REPO=WT)
    r = sh("cd /verif && ./check C19", env=env)
    lines = r.stdout.split("\n")
    keep = [l for l in lines if "violation recorded" in l or l.startswith("VIOLATION") or "rc=1" in l or "DIFFER" in l or "REJECT" in l]
    print("=== %s exit=%d" % (name, r.returncode))
    for l in keep:
        print("   ", l[:260])
    sh("git -C /repo worktree remove --force %s" % WT)


if __name__ == "__main__":
    which = sys.argv[1:]
    if which == ["all"]:
        which = list(MUTS)
    for n in which:
        run(n)
