package main

// T-gen: the real injectRequired evaluated on every row of the abstract domain
//   hostNetwork(2) x nsIgnored(2) x label(5) x annotation(5) x neverMatches(2) x alwaysMatches(2) x policy(3) = 1200
// under several realisation variants (the same abstract row built from different concrete
// pods / configurations, with fields the decision must not depend on varied).

import (
	"fmt"
	"math/big"
	"os"
	"sort"
	"strings"

	corev1 "k8s.io/api/core/v1"
	metav1 "k8s.io/apimachinery/pkg/apis/meta/v1"
	"k8s.io/apimachinery/pkg/types"

	"istio.io/api/annotation"
	"istio.io/api/label"
	"istio.io/istio/pkg/kube/inject"
)

const (
	vAbsent = iota
	vTrue
	vFalse
	vEmpty
	vOther
)

const (
	pEnabled = iota
	pDisabled
	pOther
)

type row struct {
	hostNet, nsIgnored bool
	label, ann         int
	never, always      bool
	policy             int
}

const nRows = 2 * 2 * 5 * 5 * 2 * 2 * 3

func b2i(b bool) int {
	if b {
		return 1
	}
	return 0
}

// idx must agree with Row.idx in lean/IstioModel/C19/Model.lean.
func (r row) idx() int {
	return (((((b2i(r.hostNet)*2+b2i(r.nsIgnored))*5+r.label)*5+r.ann)*2+b2i(r.never))*2+b2i(r.always))*3 + r.policy
}

func rowOf(i int) row {
	var r row
	r.policy = i % 3
	i /= 3
	r.always = i%2 == 1
	i /= 2
	r.never = i%2 == 1
	i /= 2
	r.ann = i % 5
	i /= 5
	r.label = i % 5
	i /= 5
	r.nsIgnored = i%2 == 1
	i /= 2
	r.hostNet = i%2 == 1
	return r
}

var valNames = []string{"absent", "true", "false", "empty", "other"}
var polNames = []string{"enabled", "disabled", "other"}

func (r row) String() string {
	return fmt.Sprintf("hostNetwork=%v nsIgnored=%v label=%s annotation=%s neverMatches=%v alwaysMatches=%v policy=%s",
		r.hostNet, r.nsIgnored, valNames[r.label], valNames[r.ann], r.never, r.always, polNames[r.policy])
}

var variantNames = []string{
	"canonical",
	"irrelevant-pod-and-config-fields",
	"other-namespaces",
	"other-garbage-values",
	"selectors-by-expressions-with-invalid-and-empty-entries",
	"no-selector-instead-of-non-matching",
	"canonical-again",
	"dns-clusterfirstwithhostnet-host-pid-ipc",
	"randomised-irrelevant-fields",
	"minimal-labels-nil-annotations",
}

var dnsPolicies = []corev1.DNSPolicy{"", corev1.DNSClusterFirst, corev1.DNSClusterFirstWithHostNet, corev1.DNSDefault, corev1.DNSNone}

// mix is a small deterministic hash (per row and purpose) for the randomised variant.
func mix(i, salt int) int {
	x := uint64(i)*0x9e3779b97f4a7c15 + uint64(salt)*0xbf58476d1ce4e5b9
	x ^= x >> 29
	x *= 0x94d049bb133111eb
	x ^= x >> 32
	return int(x % 1000003)
}

// documentedIgnored: the system namespaces the injector documents as never injected (stated here independently of
// inject.IgnoredNamespaces, which is the code under test).
var documentedIgnored = []string{"kube-node-lease", "kube-public", "kube-system", "local-path-storage"}

func isDocumentedIgnored(ns string) bool {
	for _, n := range documentedIgnored {
		if n == ns {
			return true
		}
	}
	return false
}

func ignoredSorted() []string {
	l := inject.IgnoredNamespaces.UnsortedList()
	sort.Strings(l)
	return l
}

var garbageVals = []string{"True", "yes", "1", " true", "TRUE", "enabled", "false ", "t"}
var garbagePolicies = []string{"", "off", "Enabled", "DISABLED", "garbage", "enabled ", "true"}
var otherNamespaces = []string{"default", "", "istio-system", "kube-systemx", "Kube-System", "kube", "kube-system "}

func valString(v int, variant int, i int) (string, bool) {
	switch v {
	case vAbsent:
		return "", false
	case vTrue:
		return "true", true
	case vFalse:
		return "false", true
	case vEmpty:
		return "", true
	}
	if variant == 3 {
		return garbageVals[i%len(garbageVals)], true
	}
	return "garbage", true
}

// realise builds real inputs of injectRequired for abstract row r under a variant.
func realise(r row, variant int) (*inject.Config, *corev1.PodSpec, metav1.ObjectMeta) {
	i := r.idx()
	cfg := &inject.Config{}
	spec := &corev1.PodSpec{HostNetwork: r.hostNet}
	meta := metav1.ObjectMeta{Labels: map[string]string{"app": "x"}, Annotations: map[string]string{}}

	// namespace
	ign := documentedIgnored
	if r.nsIgnored {
		meta.Namespace = "kube-system"
		if variant == 2 {
			meta.Namespace = ign[i%len(ign)]
		}
	} else {
		meta.Namespace = "default"
		if variant == 2 {
			meta.Namespace = otherNamespaces[i%len(otherNamespaces)]
		}
	}
	// label / annotation
	if s, ok := valString(r.label, variant, i); ok {
		meta.Labels[label.SidecarInject.Name] = s
	}
	if s, ok := valString(r.ann, variant, i/3); ok {
		meta.Annotations[annotation.SidecarInject.Name] = s
	}
	// policy
	switch r.policy {
	case pEnabled:
		cfg.Policy = inject.InjectionPolicyEnabled
	case pDisabled:
		cfg.Policy = inject.InjectionPolicyDisabled
	default:
		cfg.Policy = ""
		if variant == 3 {
			cfg.Policy = inject.InjectionPolicy(garbagePolicies[i%len(garbagePolicies)])
		}
	}
	// selectors
	mk := func(key string, matches bool) []metav1.LabelSelector {
		invalid := metav1.LabelSelector{MatchExpressions: []metav1.LabelSelectorRequirement{{Key: key, Operator: "Bogus"}}}
		invalid2 := metav1.LabelSelector{MatchLabels: map[string]string{"bad key!": "y"}}
		empty := metav1.LabelSelector{}
		switch variant {
		case 4:
			if matches {
				meta.Labels[key] = "y"
				switch i % 3 {
				case 0:
					return []metav1.LabelSelector{invalid, empty, {MatchExpressions: []metav1.LabelSelectorRequirement{{Key: key, Operator: metav1.LabelSelectorOpIn, Values: []string{"x", "y"}}}}}
				case 1:
					return []metav1.LabelSelector{empty, invalid2, {MatchExpressions: []metav1.LabelSelectorRequirement{{Key: key, Operator: metav1.LabelSelectorOpExists}}}}
				default:
					return []metav1.LabelSelector{{MatchLabels: map[string]string{"nope": "z"}}, {MatchLabels: map[string]string{key: "y"},
						MatchExpressions: []metav1.LabelSelectorRequirement{{Key: "nope", Operator: metav1.LabelSelectorOpDoesNotExist}}}}
				}
			}
			// selectors that are present but must not count: invalid ones and the empty one (which would match everything)
			switch i % 3 {
			case 0:
				return []metav1.LabelSelector{invalid, empty}
			case 1:
				meta.Labels[key] = "other"
				return []metav1.LabelSelector{empty, invalid2, {MatchExpressions: []metav1.LabelSelectorRequirement{{Key: key, Operator: metav1.LabelSelectorOpNotIn, Values: []string{"other"}}}}}
			default:
				return []metav1.LabelSelector{{MatchLabels: map[string]string{key: "y"}}, invalid}
			}
		case 5:
			if matches {
				meta.Labels[key] = "y"
				return []metav1.LabelSelector{{MatchLabels: map[string]string{key: "y"}}}
			}
			return nil
		}
		if matches {
			meta.Labels[key] = "y"
		}
		return []metav1.LabelSelector{{MatchLabels: map[string]string{key: "y"}}}
	}
	cfg.NeverInjectSelector = mk("verif/never", r.never)
	cfg.AlwaysInjectSelector = mk("verif/always", r.always)
	if variant == 9 {
		// nothing the row does not need: no other label (nil map when the inject label is absent), nil annotations when the
		// annotation is absent; a selector "matches" through the ABSENCE of a key (DoesNotExist / NotIn on an absent key)
		meta.Labels, meta.Annotations = nil, nil
		if s, ok := valString(r.label, variant, i); ok {
			meta.Labels = map[string]string{label.SidecarInject.Name: s}
		}
		if s, ok := valString(r.ann, variant, i/3); ok {
			meta.Annotations = map[string]string{annotation.SidecarInject.Name: s}
		}
		absent := func(matches bool, which int) []metav1.LabelSelector {
			if matches {
				if (i+which)%2 == 0 {
					return []metav1.LabelSelector{{MatchExpressions: []metav1.LabelSelectorRequirement{{Key: "verif/absent", Operator: metav1.LabelSelectorOpDoesNotExist}}}}
				}
				return []metav1.LabelSelector{{MatchExpressions: []metav1.LabelSelectorRequirement{{Key: "verif/absent", Operator: metav1.LabelSelectorOpNotIn, Values: []string{"x"}}}}}
			}
			return []metav1.LabelSelector{{MatchExpressions: []metav1.LabelSelectorRequirement{{Key: "verif/absent", Operator: metav1.LabelSelectorOpExists}}}}
		}
		cfg.NeverInjectSelector = absent(r.never, 0)
		cfg.AlwaysInjectSelector = absent(r.always, 1)
	}

	if variant == 7 {
		// the DNS policy that usually accompanies host networking, on every row
		spec.DNSPolicy = corev1.DNSClusterFirstWithHostNet
		spec.HostPID, spec.HostIPC = true, true
		spec.HostUsers = nil
	}
	if variant == 8 {
		// every irrelevant field drawn per row from its whole range
		spec.DNSPolicy = dnsPolicies[mix(i, 1)%len(dnsPolicies)]
		spec.HostPID = mix(i, 2)%2 == 0
		spec.HostIPC = mix(i, 3)%2 == 0
		spec.RestartPolicy = []corev1.RestartPolicy{"", corev1.RestartPolicyAlways, corev1.RestartPolicyNever, corev1.RestartPolicyOnFailure}[mix(i, 4)%4]
		spec.ServiceAccountName = []string{"", "default", "sa"}[mix(i, 5)%3]
		spec.PriorityClassName = []string{"", "system-node-critical"}[mix(i, 6)%2]
		meta.Name = []string{"", "p", "istio-proxy"}[mix(i, 7)%3]
		meta.GenerateName = []string{"", "g-"}[mix(i, 8)%2]
		if mix(i, 9)%2 == 0 {
			meta.Annotations["sidecar.istio.io/Inject"] = "true" // other capitalisation: a different key
			meta.Annotations["inject.istio.io/templates"] = []string{"sidecar", "gateway", "nonexistent"}[mix(i, 10)%3]
		}
		if mix(i, 11)%2 == 0 {
			meta.Labels["sidecar.istio.io/Inject"] = "false"
			meta.Labels["istio.io/rev"] = []string{"default", "canary"}[mix(i, 12)%2]
		}
		if mix(i, 13)%3 == 0 {
			spec.Containers = []corev1.Container{{Name: "istio-proxy", Image: "auto"}}
		}
		cfg.DefaultTemplates = [][]string{nil, {"sidecar"}, {"gateway", "sidecar"}}[mix(i, 14)%3]
	}
	if variant == 1 {
		// fields the decision must not depend on
		tr := true
		uid := int64(1337)
		meta.Name = fmt.Sprintf("pod-%d", i)
		meta.GenerateName = "gen-"
		meta.UID = types.UID("u")
		meta.OwnerReferences = []metav1.OwnerReference{{Kind: "ReplicaSet", Name: "rs", APIVersion: "apps/v1", Controller: &tr}}
		meta.Labels["istio.io/rev"] = "canary"
		meta.Labels["istio.io/dataplane-mode"] = "ambient"
		meta.Labels["sidecar.istio.io/status"] = "x"
		meta.Annotations[annotation.SidecarStatus.Name] = `{"containers":["istio-proxy"]}`
		meta.Annotations["inject.istio.io/templates"] = "gateway"
		meta.Annotations["sidecar.istio.io/proxyImage"] = "x"
		meta.Annotations["istio.io/rev"] = "canary"
		spec.HostPID = true
		spec.HostIPC = true
		spec.DNSPolicy = corev1.DNSDefault
		spec.ServiceAccountName = "sa"
		spec.NodeName = "node-1"
		spec.SecurityContext = &corev1.PodSecurityContext{RunAsUser: &uid}
		spec.Containers = []corev1.Container{{Name: "istio-proxy", Image: "auto"}, {Name: "app", Image: "img"}}
		spec.InitContainers = []corev1.Container{{Name: "istio-init", Image: "x"}}
		spec.Volumes = []corev1.Volume{{Name: "v"}}
		cfg.DefaultTemplates = []string{"sidecar", "gateway"}
		cfg.Aliases = map[string][]string{"a": {"b"}}
		cfg.InjectedAnnotations = map[string]string{"k": "v"}
		cfg.RawTemplates = inject.RawTemplates{"sidecar": "spec: {}"}
	}
	return cfg, spec, meta
}

func evalRow(r row, variant int) (res bool, crashed bool) {
	defer func() {
		if e := recover(); e != nil {
			crashed = true
		}
	}()
	cfg, spec, meta := realise(r, variant)
	res = inject.VerifInjectRequired(inject.IgnoredNamespaces.UnsortedList(), cfg, spec, meta)
	// same inputs, second evaluation (fresh objects): must agree
	cfg2, spec2, meta2 := realise(r, variant)
	if inject.VerifInjectRequired(inject.IgnoredNamespaces.UnsortedList(), cfg2, spec2, meta2) != res {
		crashed = true
	}
	return res, crashed
}

func tables() ([]*big.Int, []string) {
	var problems []string
	out := make([]*big.Int, len(variantNames))
	for v := range variantNames {
		bits := new(big.Int)
		for i := 0; i < nRows; i++ {
			r := rowOf(i)
			if r.idx() != i {
				panic("index round trip")
			}
			res, crashed := evalRow(r, v)
			if crashed {
				problems = append(problems, fmt.Sprintf("variant %s row %d (%s): panic or unstable result", variantNames[v], i, r))
			}
			if res {
				bits.SetBit(bits, i, 1)
			}
		}
		out[v] = bits
	}
	return out, problems
}

func leanStr(s string) string {
	return "\"" + strings.ReplaceAll(strings.ReplaceAll(s, "\\", "\\\\"), "\"", "\\\"") + "\""
}

func leanStrList(l []string) string {
	q := make([]string, len(l))
	for i, s := range l {
		q[i] = leanStr(s)
	}
	return "[" + strings.Join(q, ", ") + "]"
}

func writeTable(path string) int {
	tabs, problems := tables()
	if len(problems) > 0 {
		for _, p := range problems {
			fmt.Fprintln(os.Stderr, p)
		}
		return 1
	}
	var sb strings.Builder
	sb.WriteString("/- GENERATED by `harness/c19 table` from the working tree of the istio repository: the real\n")
	sb.WriteString("   inject.injectRequired evaluated on every row of the abstract domain. Do not edit. -/\n")
	sb.WriteString("namespace IstioModel.C19.Gen\n\n")
	fmt.Fprintf(&sb, "def nRows : Nat := %d\n\n", nRows)
	fmt.Fprintf(&sb, "/-- bit `Row.idx r` = result of the real function on the canonical realisation of `r` -/\n")
	fmt.Fprintf(&sb, "def implBits : Nat := 0x%s\n\n", hexOf(tabs[0]))
	sb.WriteString("/-- the same table under each realisation variant -/\n")
	sb.WriteString("def variantBits : List Nat := [\n")
	for v := range tabs {
		sep := ","
		if v == len(tabs)-1 {
			sep = ""
		}
		fmt.Fprintf(&sb, "  0x%s%s -- %s\n", hexOf(tabs[v]), sep, variantNames[v])
	}
	sb.WriteString("]\n\n")
	fmt.Fprintf(&sb, "def variantNames : List String := %s\n\n", leanStrList(variantNames))
	fmt.Fprintf(&sb, "def injectLabelKey : String := %s\n", leanStr(label.SidecarInject.Name))
	fmt.Fprintf(&sb, "def injectAnnotationKey : String := %s\n", leanStr(annotation.SidecarInject.Name))
	fmt.Fprintf(&sb, "def ignoredNamespaces : List String := %s\n", leanStrList(ignoredSorted()))
	fmt.Fprintf(&sb, "def policyEnabled : String := %s\n", leanStr(string(inject.InjectionPolicyEnabled)))
	fmt.Fprintf(&sb, "def policyDisabled : String := %s\n", leanStr(string(inject.InjectionPolicyDisabled)))
	fmt.Fprintf(&sb, "def reservedContainerNames : List String := %s\n", leanStrList(reserved))
	sb.WriteString("\nend IstioModel.C19.Gen\n")
	if err := os.MkdirAll(dirOf(path), 0o755); err != nil {
		fmt.Fprintln(os.Stderr, err)
		return 2
	}
	tmp := path + ".tmp"
	if err := os.WriteFile(tmp, []byte(sb.String()), 0o644); err != nil {
		fmt.Fprintln(os.Stderr, err)
		return 2
	}
	if err := os.Rename(tmp, path); err != nil {
		fmt.Fprintln(os.Stderr, err)
		return 2
	}
	// plain listing for the check's accounting and samples: idx result row-description
	var lb strings.Builder
	for i := 0; i < nRows; i++ {
		fmt.Fprintf(&lb, "%d %d %s\n", i, tabs[0].Bit(i), rowOf(i))
	}
	_ = os.WriteFile("table.rows", []byte(lb.String()), 0o644)
	fmt.Printf("rows=%d variants=%d inject-rows=%d\n", nRows, len(tabs), popcount(tabs[0]))
	return 0
}

func dirOf(p string) string {
	if i := strings.LastIndex(p, "/"); i >= 0 {
		return p[:i]
	}
	return "."
}

func hexOf(b *big.Int) string {
	s := b.Text(16)
	if s == "" {
		return "0"
	}
	return s
}

func popcount(b *big.Int) int {
	n := 0
	for i := 0; i < b.BitLen(); i++ {
		if b.Bit(i) == 1 {
			n++
		}
	}
	return n
}

// ---------------------------------------------------------------- oracle: documented precedence

// documented is an independent statement of the documented precedence on the abstract row, kept
// separate from the Lean spec (it is what a reader of the injection docs would write down).
// Returns the decision and the name of the clause that decided.
func documented(r row) (bool, string) {
	if r.hostNet {
		return false, "host-network-never"
	}
	if r.nsIgnored {
		return false, "ignored-namespace-never"
	}
	if r.policy == pOther {
		return false, "illegal-policy-disables"
	}
	switch r.label {
	case vTrue:
		return true, "label-over-annotation"
	case vFalse:
		return false, "label-over-annotation"
	case vAbsent:
		switch r.ann {
		case vTrue:
			return true, "annotation-over-selectors"
		case vFalse:
			return false, "annotation-over-selectors"
		}
	}
	if r.never {
		return false, "never-selector-over-always"
	}
	if r.always {
		return true, "always-selector-over-policy"
	}
	return r.policy == pEnabled, "namespace-policy"
}

// oracleTable: every row under every variant against `documented`. One line per failing
// (row, variant): FAIL <clause> <row description>; a final OK/FAIL summary line.
func oracleTable(outPath string) int {
	f, err := os.Create(outPath)
	if err != nil {
		fmt.Fprintln(os.Stderr, err)
		return 2
	}
	defer f.Close()
	fails := 0
	for v := range variantNames {
		for i := 0; i < nRows; i++ {
			r := rowOf(i)
			got, crashed := evalRow(r, v)
			want, clause := documented(r)
			if crashed {
				fmt.Fprintf(f, "FAIL nondeterministic-or-panic row=%d variant=%s %s\n", i, variantNames[v], strings.ReplaceAll(r.String(), " ", ","))
				fails++
			} else if got != want {
				fmt.Fprintf(f, "FAIL %s row=%d variant=%s %s real=%v documented=%v\n", clause, i, variantNames[v], strings.ReplaceAll(r.String(), " ", ","), got, want)
				fails++
			}
		}
	}
	if fails == 0 {
		fmt.Fprintf(f, "OK rows=%d variants=%d\n", nRows, len(variantNames))
	}
	return 0
}
