// Harness for C19: sidecar injection decision (injectRequired) and the webhook inject path.
//
//	c19 table  <name> <out.lean>                  evaluate the REAL injectRequired on the whole abstract domain
//	c19 gen    <stream> <seed> <ncases> <ops-out>
//	c19 exec   <stream> <ops-in> <impl-out>
//	c19 oracle <stream> <ops-in> <verdict-out>
//
// Streams: decide (concrete pods/configs vs the Lean model of injectRequired),
// inject (real webhook path once/twice, reduced pods checked by the Lean monitors),
// table (oracle only: the real function vs an independent statement of the documented precedence
// on all rows and all realisation variants).
package main

import (
	"fmt"
	"os"
	"strconv"

	_ "verifharness/internal/quiet"
)

func main() {
	if len(os.Args) < 2 {
		usage()
	}
	switch os.Args[1] {
	case "table":
		if len(os.Args) < 4 {
			usage()
		}
		os.Exit(writeTable(os.Args[3]))
	case "dump": // debugging aid: c19 dump <ops-with-one-case> -> orig.json once.json twice.json in the cwd
		dumpInject(os.Args[2])
	case "gen":
		if len(os.Args) < 6 {
			usage()
		}
		seed, _ := strconv.ParseUint(os.Args[3], 10, 64)
		n, _ := strconv.Atoi(os.Args[4])
		switch os.Args[2] {
		case "decide":
			genDecide(seed, n, os.Args[5])
		case "inject":
			genInject(seed, n, os.Args[5])
		default:
			usage()
		}
	case "exec":
		if len(os.Args) < 5 {
			usage()
		}
		switch os.Args[2] {
		case "decide":
			execDecide(os.Args[3], os.Args[4])
		case "inject":
			execInject(os.Args[3], os.Args[4])
		default:
			usage()
		}
	case "oracle":
		if len(os.Args) < 5 {
			usage()
		}
		switch os.Args[2] {
		case "decide":
			oracleDecide(os.Args[3], os.Args[4])
		case "inject":
			oracleInject(os.Args[3], os.Args[4])
		case "table":
			os.Exit(oracleTable(os.Args[4]))
		default:
			usage()
		}
	default:
		usage()
	}
}

func usage() {
	fmt.Fprintln(os.Stderr, "usage: c19 table <name> <out.lean> | gen|exec|oracle <stream> ...")
	os.Exit(2)
}
