package main

import "os"

func genInject(seed uint64, n int, out string) { os.Exit(2) }
func execInject(in, out string)               { os.Exit(2) }
func oracleInject(in, out string)             { os.Exit(2) }
