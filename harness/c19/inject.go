package main

// T-mon stream `inject`: the REAL webhook path (Webhook.inject = injectRequired + injectPod, through
// the verif hook) applied once and twice to pod fixtures and generated pods; the pods before /
// after are reduced to a canonical line form which the Lean monitors (preservesB, idempotentB)
// judge.  The oracle judges the same runs directly on the Go objects.
//
// ops (written by gen, self-contained):
//	case <n> inject
//	fixture <setting> <file> <docIndex>          a document of pkg/kube/inject/testdata/inject/<file>
//	pod <setting> <namespace> <pod-json>         a literal pod
//
// trace (written by exec, read by the Lean driver): per case
//	case <n> inject
//	src ...                                      the op line, for the record
//	begin orig|once|twice ; c/i/v/m/inj lines ; end
//	status injected|skipped|error|unloadable
//	check                                        <- the Lean driver answers with its verdict here

import (
	"bytes"
	"crypto/sha1"
	"encoding/hex"
	"encoding/json"
	"fmt"
	"net/http"
	"net/http/httptest"
	"os"
	"path/filepath"
	"reflect"
	"sort"
	"strconv"
	"strings"

	jsonpatch "github.com/evanphx/json-patch/v5"
	openshiftv1 "github.com/openshift/api/apps/v1"
	admissionv1 "k8s.io/api/admission/v1"
	appsv1 "k8s.io/api/apps/v1"
	batchv1 "k8s.io/api/batch/v1"
	corev1 "k8s.io/api/core/v1"
	metav1 "k8s.io/apimachinery/pkg/apis/meta/v1"
	apimeta "k8s.io/apimachinery/pkg/api/meta"
	"k8s.io/apimachinery/pkg/runtime"
	"k8s.io/apimachinery/pkg/runtime/schema"
	"sigs.k8s.io/yaml"

	"istio.io/api/annotation"
	meshconfig "istio.io/api/mesh/v1alpha1"
	"istio.io/istio/operator/pkg/render"
	"istio.io/istio/pilot/pkg/features"
	"istio.io/istio/pilot/pkg/model"
	"istio.io/istio/pkg/config/mesh"
	"istio.io/istio/pkg/config/mesh/meshwatcher"
	"istio.io/istio/pkg/config/schema/gvk"
	"istio.io/istio/pkg/kube"
	"istio.io/istio/pkg/kube/inject"
	"istio.io/istio/pkg/kube/multicluster"
	"verifharness/internal/quiet"
	"verifharness/internal/wire"
)

var tmpDirs []string

// cleanupTmp removes what the +http settings wrote (config / values files for the file watcher).
func cleanupTmp() {
	for _, d := range tmpDirs {
		os.RemoveAll(d)
	}
	tmpDirs = nil
}

func repoDir() string {
	if d := os.Getenv("VERIF_REPO"); d != "" {
		return d
	}
	return "/repo"
}

func fixtureDir() string { return filepath.Join(repoDir(), "pkg/kube/inject/testdata/inject") }

// ---------------------------------------------------------------- settings (injector configurations)

type setting struct {
	name   string
	flags  []string
	files  []string // IstioOperator files under testdata/inject (extra templates)
	native bool
	mesh   func(m *meshconfig.MeshConfig) // as the `mesh:` entries of the package's TestInjection
}

// Base settings (how the charts are rendered). A setting token in an op is `<base>[+<modifier>]*`:
//
//	+pd    webhook Config.Policy = disabled
//	+sel   webhook Config with Never/AlwaysInjectSelector lists (incl. an invalid and an empty entry)
//	+path  admission arrives on the inject URL path /inject/cluster/c1/net/n1
//	+d     API-server defaulting is applied to the pod before each admission (and to each result)
var settings = []setting{
	{name: "default"},
	{name: "hold", flags: []string{"values.global.proxy.holdApplicationUntilProxyStarts=true"}},
	{name: "cni", flags: []string{"components.cni.enabled=true"}},
	{name: "native", native: true},
	{name: "noprobe", flags: []string{"values.sidecarInjectorWebhook.rewriteAppHTTPProbe=false"}},
	{name: "custom", files: []string{"custom-template.iop.yaml"}},
	{name: "spire", files: []string{"spire-template.iop.yaml"}},
	{name: "network", flags: []string{"values.global.network=network-a", "values.global.multiCluster.clusterName=cluster-a"}},
	// the setFlags / mesh entries of inject_test.go TestInjection
	{name: "otel", mesh: func(m *meshconfig.MeshConfig) {
		m.ExtensionProviders = append(m.ExtensionProviders, &meshconfig.MeshConfig_ExtensionProvider{
			Name: "otel",
			Provider: &meshconfig.MeshConfig_ExtensionProvider_Opentelemetry{
				Opentelemetry: &meshconfig.MeshConfig_ExtensionProvider_OpenTelemetryTracingProvider{
					Service: "otel-collector.observability.svc.cluster.local", Port: 4317,
					ServiceAttributeEnrichment: meshconfig.MeshConfig_ExtensionProvider_OTEL_SEMANTIC_CONVENTIONS,
				},
			},
		})
	}},
	{name: "mesh-tproxy", mesh: func(m *meshconfig.MeshConfig) { m.DefaultConfig.InterceptionMode = meshconfig.ProxyConfig_TPROXY }},
	{name: "mesh-statusport", mesh: func(m *meshconfig.MeshConfig) { m.DefaultConfig.StatusPort = 15025 }},
	{name: "statusport123", flags: []string{"values.global.proxy.statusPort=123", "values.global.proxy.readinessInitialDelaySeconds=100",
		"values.global.proxy.readinessPeriodSeconds=200", "values.global.proxy.readinessFailureThreshold=300"}},
	{name: "statusport0", flags: []string{"values.global.proxy.includeIPRanges=127.0.0.1/24,10.96.0.1/24", "values.global.proxy.excludeIPRanges=10.96.0.2/24,10.96.0.3/24",
		"values.global.proxy.excludeInboundPorts=4,5,6", "values.global.proxy.statusPort=0"}},
	{name: "multus", flags: []string{"components.cni.enabled=true", "values.cni.provider=multus"}},
	{name: "mtlscerts", flags: []string{"values.global.mountMtlsCerts=true"}},
	{name: "mesh-proxymetadata", mesh: func(m *meshconfig.MeshConfig) {
		if m.DefaultConfig.ProxyMetadata == nil {
			m.DefaultConfig.ProxyMetadata = map[string]string{}
		}
		m.DefaultConfig.ProxyMetadata["ISTIO_META_TLS_CLIENT_KEY"] = "/etc/identity/client/keys/client-key.pem"
		m.DefaultConfig.ProxyMetadata["ISTIO_META_DNS_CAPTURE"] = "true"
	}},
	{name: "chart-sel", files: []string{"@chart-sel"}},
	{name: "funcs", files: []string{"@funcs"}},
	{name: "secrets", files: []string{"hello-image-secrets-in-values.iop.yaml"}},
	{name: "values-misc", flags: []string{"values.global.logAsJson=true", "values.global.proxy.tracer=zipkin", "values.global.proxy.seccompProfile.type=RuntimeDefault",
		"values.global.proxy.lifecycle.preStop.exec.command[0]=/bin/true", "values.global.proxy.privileged=true",
		"values.global.proxy.enableCoreDump=true"}},
	{name: "compat", flags: []string{"compatibilityVersion=1.27"}},
	{name: "values-misc2", flags: []string{"revision=canary", "values.global.caAddress=ca.example:15012", "values.global.sts.servicePort=15463",
		"values.global.proxy.outlierLogPath=/dev/stdout", "values.global.nativeNftables=true",
		"values.global.proxy.includeOutboundPorts=80,443", "values.global.proxy.tracer=datadog", "values.global.imagePullSecrets[0]=regcred-values"}},
	{name: "mesh-misc", flags: []string{"values.global.imagePullPolicy=Always", "values.global.proxy.image=proxyTest"}, mesh: func(m *meshconfig.MeshConfig) {
		m.DefaultConfig.Tracing = &meshconfig.Tracing{}
		m.InboundTrafficPolicy = &meshconfig.MeshConfig_InboundTrafficPolicy{Mode: meshconfig.MeshConfig_InboundTrafficPolicy_LOCALHOST}
	}},
}

type loaded struct {
	wh         *inject.Webhook
	cfg        *inject.Config // the Config the webhook really decides with (parsed by the code under test)
	expect     inject.Config  // what the documentation says this configuration decides with (stated by the harness)
	native     bool
	path       string
	pathEnvs   map[string]string // the variables the inject URL path stands for (stated by the harness)
	defaulting bool
	mux        *http.ServeMux // +http: admissions go through the HTTP handler of a Webhook built by NewWebhook
	v1beta1    bool           // +http1b: ... as admission.k8s.io/v1beta1 AdmissionReview documents
	err        error          // a rendering that failed is remembered (and reported), not retried per case
}

const injectPath = "/inject/cluster/c1/net/n1"
const injectPathEnv = "/inject/:ENV:cluster=c1:ENV:net=n1"
const injectPathCustom = "/inject/cluster/c1/net/n1/custom/v--slash--w"

// chart-sel: the selectors and the policy travel through the chart values, the rendered ConfigMap and UnmarshalConfig
func chartSelectors() (never, always []metav1.LabelSelector) {
	never = []metav1.LabelSelector{{MatchExpressions: []metav1.LabelSelectorRequirement{{Key: "app", Operator: metav1.LabelSelectorOpIn, Values: []string{"web", "db"}}}}}
	always = []metav1.LabelSelector{{MatchLabels: map[string]string{"version": "v1"}}}
	return
}

// funcs: a template `verif` (added through the chart values, as a user would) that calls env / applicationPorts /
// includeInboundPorts / ProxyUID-GID, which no shipped template calls any more; pods name `sidecar,verif`.
const funcsIOP = `apiVersion: install.istio.io/v1alpha1
kind: IstioOperator
spec:
  values:
    sidecarInjectorWebhook:
      templates:
        verif: |
          spec:
            containers:
            - name: istio-proxy
              env:
              - name: VERIF_APPLICATION_PORTS
                value: "{{ applicationPorts .Spec.Containers }}"
              - name: VERIF_ENV_DEFAULT
                value: "{{ env "VERIF_NO_SUCH_VARIABLE" "dflt" }}"
              - name: VERIF_PROXY_UID
                value: "{{ .ProxyUID | default "1337" }}:{{ .ProxyGID | default "1337" }}"
`

const chartSelIOP = `apiVersion: install.istio.io/v1alpha1
kind: IstioOperator
spec:
  values:
    global:
      proxy:
        autoInject: disabled
    sidecarInjectorWebhook:
      enableNamespacesByDefault: false
      neverInjectSelector:
      - matchExpressions:
        - key: app
          operator: In
          values: [web, db]
      alwaysInjectSelector:
      - matchLabels:
          version: v1
      injectedAnnotations:
        verif/chart-injected: "yes"
`

func selectorConfig(cfg *inject.Config) {
	cfg.NeverInjectSelector = []metav1.LabelSelector{
		{MatchExpressions: []metav1.LabelSelectorRequirement{{Key: "app", Operator: "Bogus"}}}, // does not parse: skipped
		{}, // empty: skipped (would match everything)
		{MatchExpressions: []metav1.LabelSelectorRequirement{{Key: "app", Operator: metav1.LabelSelectorOpIn, Values: []string{"web", "db"}}}},
	}
	cfg.AlwaysInjectSelector = []metav1.LabelSelector{
		{MatchLabels: map[string]string{"bad key!": "x"}},
		{MatchLabels: map[string]string{"version": "v1"}},
		{MatchExpressions: []metav1.LabelSelectorRequirement{{Key: "service.istio.io/canonical-name", Operator: metav1.LabelSelectorOpExists}}},
	}
}

var loadedSettings = map[string]*loaded{}

// loadSetting renders the charts of the repository with the operator (as the package's own tests
// do) and builds a Webhook from the resulting injector ConfigMap.
func loadSetting(name string) (*loaded, error) {
	if l, ok := loadedSettings[name]; ok {
		if l.err != nil {
			return nil, l.err
		}
		return l, nil
	}
	parts := strings.Split(name, "+")
	if len(parts) > 1 {
		base, err := loadSetting(parts[0])
		if err != nil {
			return nil, err
		}
		cfg := *base.cfg
		l := &loaded{native: base.native, expect: base.expect}
		http := false
		for _, m := range parts[1:] {
			switch m {
			case "pd":
				cfg.Policy, l.expect.Policy = inject.InjectionPolicyDisabled, inject.InjectionPolicyDisabled
			case "po":
				cfg.Policy, l.expect.Policy = "garbage", "garbage"
			case "sel":
				selectorConfig(&cfg)
				selectorConfig(&l.expect)
			case "path":
				l.path, l.pathEnvs = injectPath, map[string]string{"ISTIO_META_CLUSTER_ID": "c1", "ISTIO_META_NETWORK": "n1"}
			case "pathenv":
				l.path, l.pathEnvs = injectPathEnv, map[string]string{"ISTIO_META_CLUSTER_ID": "c1", "ISTIO_META_NETWORK": "n1"}
			case "pathcustom":
				l.path, l.pathEnvs = injectPathCustom, map[string]string{"ISTIO_META_CLUSTER_ID": "c1", "ISTIO_META_NETWORK": "n1", "CUSTOM": "v/w"}
			case "d":
				l.defaulting = true
			case "http":
				http = true
			case "http1b":
				http, l.v1beta1 = true, true
			case "alias":
				cfg.Aliases = map[string][]string{"myalias": {inject.SidecarTemplateName}}
			case "ia":
				cfg.InjectedAnnotations = map[string]string{"verif/injected": "1"}
				l.expect.InjectedAnnotations = map[string]string{"verif/injected": "1"}
			default:
				return nil, fmt.Errorf("unknown setting modifier %q", m)
			}
		}
		wc := base.wh.GetConfig()
		l.cfg = &cfg
		if http {
			if err := newHTTPWebhook(l, &cfg, wc.Values, wc.MeshConfig); err != nil {
				l.err = err
				loadedSettings[name] = l
				return nil, err
			}
		} else {
			l.wh = inject.VerifNewWebhook(&cfg, wc.Values, wc.MeshConfig, "default")
		}
		loadedSettings[name] = l
		return l, nil
	}
	var st *setting
	for i := range settings {
		if settings[i].name == name {
			st = &settings[i]
		}
	}
	if st == nil {
		return nil, fmt.Errorf("unknown setting %q", name)
	}
	flags := append(append([]string{}, st.flags...), "installPackagePath="+filepath.Join(repoDir(), "manifests"), "profile=empty", "components.pilot.enabled=true")
	var files []string
	for _, f := range st.files {
		if f == "@chart-sel" || f == "@funcs" {
			tmp := filepath.Join(".", fmt.Sprintf("verif-c19-%s-%d.yaml", f[1:], os.Getpid()))
			body := chartSelIOP
			if f == "@funcs" {
				body = funcsIOP
			}
			if err := os.WriteFile(tmp, []byte(body), 0o644); err != nil {
				return nil, err
			}
			defer os.Remove(tmp)
			files = append(files, tmp)
			continue
		}
		files = append(files, filepath.Join(fixtureDir(), f))
	}
	fail := func(err error) (*loaded, error) {
		loadedSettings[name] = &loaded{err: err}
		return nil, err
	}
	manifests, _, err := render.GenerateManifest(files, flags, false, nil, nil)
	quiet.Silence()
	if err != nil {
		return fail(err)
	}
	var cfg *inject.Config
	var vc inject.ValuesConfig
	var mc *meshconfig.MeshConfig
	for _, object := range manifests {
		for _, o := range object.Manifests {
			if (o.GetName() == "istio-sidecar-injector" || o.GetName() == "istio-sidecar-injector-canary") && o.GetKind() == gvk.ConfigMap.Kind {
				data, _ := o.Object["data"].(map[string]any)
				rawConfig, _ := data["config"].(string)
				vs, _ := data["values"].(string)
				v, err := inject.NewValuesConfig(vs)
				if err != nil {
					return fail(err)
				}
				vc = v
				c, err := inject.UnmarshalConfig([]byte(rawConfig))
				if err != nil {
					return fail(err)
				}
				cfg = &c
			} else if (o.GetName() == "istio" || o.GetName() == "istio-canary") && o.GetKind() == gvk.ConfigMap.Kind {
				data, _ := o.Object["data"].(map[string]any)
				meshdata, _ := data["mesh"].(string)
				m, err := mesh.ApplyMeshConfig(meshdata, mesh.DefaultMeshConfig())
				if err != nil {
					return fail(err)
				}
				mc = m
			}
		}
	}
	if cfg == nil || mc == nil {
		return fail(fmt.Errorf("injector or mesh ConfigMap not rendered"))
	}
	if st.mesh != nil {
		st.mesh(mc)
	}
	l := &loaded{wh: inject.VerifNewWebhook(cfg, vc, mc, "default"), cfg: cfg, native: st.native, expect: inject.Config{Policy: inject.InjectionPolicyEnabled}}
	if st.name == "chart-sel" {
		l.expect.Policy = inject.InjectionPolicyDisabled
		l.expect.NeverInjectSelector, l.expect.AlwaysInjectSelector = chartSelectors()
		l.expect.InjectedAnnotations = map[string]string{"verif/chart-injected": "yes"}
	}
	loadedSettings[name] = l
	return l, nil
}

// ---------------------------------------------------------------- fixtures -> pods (as webhook_test.go objectToPod)

func simulateOwnerRef(m metav1.ObjectMeta, name string, k schema.GroupVersionKind) metav1.ObjectMeta {
	controller := true
	m.GenerateName = name
	m.OwnerReferences = []metav1.OwnerReference{{APIVersion: k.GroupVersion().String(), Kind: k.Kind, Name: name, Controller: &controller}}
	return m
}

func objectToPod(obj runtime.Object) *corev1.Pod {
	k := obj.GetObjectKind().GroupVersionKind()
	conv := func(template corev1.PodTemplateSpec, name string) *corev1.Pod {
		template.ObjectMeta = simulateOwnerRef(template.ObjectMeta, name, k)
		return &corev1.Pod{ObjectMeta: template.ObjectMeta, Spec: template.Spec}
	}
	switch o := obj.(type) {
	case *corev1.Pod:
		return o
	case *batchv1.CronJob:
		o.Spec.JobTemplate.Spec.Template.ObjectMeta = simulateOwnerRef(o.Spec.JobTemplate.Spec.Template.ObjectMeta, o.Name, k)
		return &corev1.Pod{ObjectMeta: o.Spec.JobTemplate.Spec.Template.ObjectMeta, Spec: o.Spec.JobTemplate.Spec.Template.Spec}
	case *appsv1.DaemonSet:
		return conv(o.Spec.Template, o.Name)
	case *appsv1.ReplicaSet:
		return conv(o.Spec.Template, o.Name)
	case *corev1.ReplicationController:
		return conv(*o.Spec.Template, o.Name)
	case *appsv1.StatefulSet:
		return conv(o.Spec.Template, o.Name)
	case *batchv1.Job:
		return conv(o.Spec.Template, o.Name)
	case *openshiftv1.DeploymentConfig:
		return conv(*o.Spec.Template, o.Name)
	case *appsv1.Deployment:
		rs := schema.GroupVersionKind{Kind: "ReplicaSet", Group: "apps", Version: "v1"}
		o.Spec.Template.ObjectMeta = simulateOwnerRef(o.Spec.Template.ObjectMeta, o.Name+"-fake", rs)
		o.Spec.Template.ObjectMeta.GenerateName += "-"
		if o.Spec.Template.ObjectMeta.Labels == nil {
			o.Spec.Template.ObjectMeta.Labels = map[string]string{}
		}
		o.Spec.Template.ObjectMeta.Labels["pod-template-hash"] = "fake"
		return &corev1.Pod{ObjectMeta: o.Spec.Template.ObjectMeta, Spec: o.Spec.Template.Spec}
	}
	return nil
}

func injectableDocs(doc string) []string {
	m := map[string]any{}
	if err := yaml.Unmarshal([]byte(doc), &m); err != nil {
		return nil
	}
	switch m["kind"] {
	case "Deployment", "DeploymentConfig", "DaemonSet", "StatefulSet", "Job", "ReplicaSet", "ReplicationController", "CronJob", "Pod":
		return []string{doc}
	case "List":
		var out []string
		list := metav1.List{}
		if err := yaml.Unmarshal([]byte(doc), &list); err != nil {
			return nil
		}
		for _, i := range list.Items {
			iout, err := yaml.Marshal(i)
			if err != nil {
				continue
			}
			out = append(out, injectableDocs(string(iout))...)
		}
		return out
	}
	return nil
}

func fixtureDocs(file string) []string {
	b, err := os.ReadFile(filepath.Join(fixtureDir(), file))
	if err != nil {
		return nil
	}
	var out []string
	for _, part := range strings.Split(string(b), "\n---") {
		out = append(out, injectableDocs(part)...)
	}
	return out
}

func fixtureFiles() []string {
	ents, err := os.ReadDir(fixtureDir())
	if err != nil {
		return nil
	}
	var out []string
	for _, e := range ents {
		n := e.Name()
		if strings.HasSuffix(n, ".yaml") && !strings.HasSuffix(n, ".iop.yaml") {
			out = append(out, n)
		}
	}
	sort.Strings(out)
	return out
}

func fixturePod(file string, doc int) (*corev1.Pod, string, error) {
	docs := fixtureDocs(file)
	if doc >= len(docs) {
		return nil, "", fmt.Errorf("no document %d in %s", doc, file)
	}
	obj, err := inject.FromRawToObject([]byte(docs[doc]))
	if err != nil {
		return nil, "", err
	}
	pod := objectToPod(obj)
	if pod == nil {
		return nil, "", fmt.Errorf("unsupported kind")
	}
	// request namespace = namespace of the top-level object, as in the package's runWebhook
	var meta struct {
		Metadata struct {
			Namespace string `json:"namespace"`
		} `json:"metadata"`
	}
	_ = yaml.Unmarshal([]byte(docs[doc]), &meta)
	return pod, meta.Metadata.Namespace, nil
}

// ---------------------------------------------------------------- running the real path

type run struct {
	status            string // injected | skipped | error | bad-patch | crash | *-on-reinjection | unloadable
	detail            string
	kind              string // fixture | kubeinject | pod
	file              string // fixture file (fixture / kubeinject)
	l                 *loaded
	reqNS             string
	rerunCron         func() *run        // CronJob through kube-inject: the same pod with its annotations ALSO on jobTemplate.metadata
	decMeta           *metav1.ObjectMeta // kube-inject: the metadata of the pods per the documented rule (pod template), when it differs from orig
	via               string             // kube-inject: direct | file | injector
	orig, once, twice *corev1.Pod
	origJSON          []byte
	onceJSON          []byte
	twiceJSON         []byte
}

// newHTTPWebhook builds the webhook the way istiod does: NewWebhook over a file watcher (config and values files), so that
// updateConfig parses them, and registers serveInject on a mux; admissions are then POSTed as AdmissionReview documents.
func newHTTPWebhook(l *loaded, cfg *inject.Config, values inject.ValuesConfig, mc *meshconfig.MeshConfig) error {
	dir, err := os.MkdirTemp(".", "verif-c19-wh") // in the work directory of the check, removed when the harness ends
	if err != nil {
		return err
	}
	tmpDirs = append(tmpDirs, dir)
	configBytes, err := yaml.Marshal(cfg)
	if err != nil {
		return err
	}
	valuesBytes, err := yaml.Marshal(values.Map())
	if err != nil {
		return err
	}
	cf, vf := filepath.Join(dir, "config"), filepath.Join(dir, "values")
	if err := os.WriteFile(cf, configBytes, 0o644); err != nil {
		return err
	}
	if err := os.WriteFile(vf, valuesBytes, 0o644); err != nil {
		return err
	}
	watcher, err := inject.NewFileWatcher(cf, vf)
	if err != nil {
		return err
	}
	store := model.NewFakeStore()
	env := &model.Environment{Watcher: meshwatcher.NewTestWatcher(mc), ConfigStore: store}
	env.SetPushContext(&model.PushContext{ProxyConfigs: &model.ProxyConfigs{}})
	prev := features.EnableNativeSidecars
	features.EnableNativeSidecars = features.NativeSidecarModeDisabled
	defer func() { features.EnableNativeSidecars = prev }()
	mux := http.NewServeMux()
	wh, err := inject.NewWebhook(inject.WebhookParameters{Watcher: watcher, Env: env, Mux: mux, Revision: "default", MultiCluster: multicluster.NewFakeController()})
	quiet.Silence()
	if err != nil {
		return err
	}
	l.wh, l.mux = wh, mux
	return nil
}

// admitHTTP: one admission through serveInject.
func admitHTTP(l *loaded, podJSON []byte, ns string) (patch []byte, message string, err error) {
	review := admissionv1.AdmissionReview{
		TypeMeta: metav1.TypeMeta{Kind: "AdmissionReview", APIVersion: "admission.k8s.io/v1"},
		Request: &admissionv1.AdmissionRequest{
			UID: "verif", Namespace: ns, Operation: admissionv1.Create,
			Kind:   metav1.GroupVersionKind{Version: "v1", Kind: "Pod"},
			Object: runtime.RawExtension{Raw: podJSON},
		},
	}
	if l.v1beta1 {
		review.APIVersion = "admission.k8s.io/v1beta1"
	}
	body, err := json.Marshal(review)
	if err != nil {
		return nil, "", err
	}
	path := l.path
	if path == "" {
		path = "/inject"
	}
	req := httptest.NewRequest(http.MethodPost, path, bytes.NewReader(body))
	req.Header.Set("Content-Type", "application/json")
	rec := httptest.NewRecorder()
	l.mux.ServeHTTP(rec, req)
	if rec.Code != http.StatusOK {
		return nil, "", fmt.Errorf("HTTP %d: %s", rec.Code, truncate(rec.Body.String(), 200))
	}
	var out admissionv1.AdmissionReview
	if err := json.Unmarshal(rec.Body.Bytes(), &out); err != nil {
		return nil, "", fmt.Errorf("response does not decode: %v", err)
	}
	if out.Response == nil {
		return nil, "", fmt.Errorf("response without a response")
	}
	if want := review.APIVersion; out.APIVersion != want {
		return nil, "", fmt.Errorf("response apiVersion %q for a %q request", out.APIVersion, want)
	}
	if out.Response.UID != "verif" {
		return nil, "", fmt.Errorf("response for uid %q", out.Response.UID)
	}
	if out.Response.Result != nil && out.Response.Result.Message != "" {
		return nil, out.Response.Result.Message, nil
	}
	if !out.Response.Allowed {
		return nil, "not allowed", nil
	}
	return out.Response.Patch, "", nil
}

func admit(l *loaded, podJSON []byte, ns string) (patched []byte, status string, detail string) {
	defer func() {
		if e := recover(); e != nil {
			patched, status, detail = nil, "crash", fmt.Sprint(e)
		}
	}()
	prev := features.EnableNativeSidecars
	if l.native {
		features.EnableNativeSidecars = features.NativeSidecarModeEnabled
	} else {
		features.EnableNativeSidecars = features.NativeSidecarModeDisabled
	}
	defer func() { features.EnableNativeSidecars = prev }()
	var patch []byte
	if l.mux != nil {
		pb, msg, err := admitHTTP(l, podJSON, ns)
		if err != nil {
			return nil, "bad-patch", err.Error()
		}
		if msg != "" {
			return nil, "error", msg
		}
		patch = pb
	} else {
		resp := l.wh.VerifInject(&kube.AdmissionReview{Request: &kube.AdmissionRequest{
			Object: runtime.RawExtension{Raw: podJSON}, Namespace: ns,
		}}, l.path)
		if resp == nil {
			return nil, "error", "nil response"
		}
		if resp.Result != nil && resp.Result.Message != "" {
			return nil, "error", resp.Result.Message
		}
		patch = resp.Patch
	}
	if patch == nil {
		return podJSON, "skipped", ""
	}
	p, err := jsonpatch.DecodePatch(patch)
	if err != nil {
		return nil, "bad-patch", "patch does not decode: " + err.Error()
	}
	out, err := p.Apply(podJSON)
	if err != nil {
		return nil, "bad-patch", "patch does not apply: " + err.Error()
	}
	if json.Unmarshal(out, &corev1.Pod{}) != nil {
		return nil, "bad-patch", "patched pod does not decode"
	}
	return out, "injected", ""
}

func runPod(settingName string, pod *corev1.Pod, ns string) *run {
	r := &run{orig: pod, reqNS: ns}
	l, err := loadSetting(settingName)
	if err != nil {
		r.status, r.detail = "unloadable", err.Error()
		return r
	}
	r.l = l
	// redo normalises through JSON (all three pods went through the same decoding) and, in the +d variant,
	// applies what the API server would default before the pod reaches the next admission plugin
	redo := func(b []byte) (*corev1.Pod, []byte, error) {
		q := &corev1.Pod{}
		if err := json.Unmarshal(b, q); err != nil {
			return nil, nil, err
		}
		if l.defaulting {
			apiDefaults(q)
			nb, err := json.Marshal(q)
			if err != nil {
				return nil, nil, err
			}
			q = &corev1.Pod{}
			if err := json.Unmarshal(nb, q); err != nil {
				return nil, nil, err
			}
			return q, nb, nil
		}
		return q, b, nil
	}
	b, err := json.Marshal(pod)
	if err != nil {
		r.status, r.detail = "unloadable", err.Error()
		return r
	}
	if r.orig, r.origJSON, err = redo(b); err != nil {
		r.status, r.detail = "unloadable", err.Error()
		return r
	}
	onceJSON, st, detail := admit(l, r.origJSON, ns)
	r.status, r.detail = st, detail
	if st != "injected" && st != "skipped" {
		return r
	}
	if r.once, r.onceJSON, err = redo(onceJSON); err != nil {
		r.status, r.detail = "bad-patch", "patched pod does not decode: "+err.Error()
		return r
	}
	twiceJSON, st2, detail2 := admit(l, r.onceJSON, ns)
	if st2 != "injected" && st2 != "skipped" {
		r.status, r.detail = st2+"-on-reinjection", detail2
		return r
	}
	if st == "injected" && st2 == "skipped" {
		r.status, r.detail = "error-on-reinjection", "the injected pod is skipped when admitted again"
		return r
	}
	if r.twice, r.twiceJSON, err = redo(twiceJSON); err != nil {
		r.status, r.detail = "error-on-reinjection", err.Error()
		return r
	}
	return r
}

// apiDefaults applies the defaults the API server sets on a pod (k8s.io/kubernetes pkg/apis/core/v1/defaults.go; written
// out by hand, the defaulting package is not importable): these are the fields strategic-merge slips act on.
func apiDefaults(p *corev1.Pod) {
	ctr := func(c *corev1.Container) {
		for i := range c.Ports {
			if c.Ports[i].Protocol == "" {
				c.Ports[i].Protocol = corev1.ProtocolTCP
			}
		}
		if c.TerminationMessagePath == "" {
			c.TerminationMessagePath = corev1.TerminationMessagePathDefault
		}
		if c.TerminationMessagePolicy == "" {
			c.TerminationMessagePolicy = corev1.TerminationMessageReadFile
		}
		if c.ImagePullPolicy == "" {
			c.ImagePullPolicy = corev1.PullIfNotPresent
			if strings.HasSuffix(c.Image, ":latest") || !strings.Contains(c.Image[strings.LastIndex(c.Image, "/")+1:], ":") {
				c.ImagePullPolicy = corev1.PullAlways
			}
		}
		for _, pr := range []*corev1.Probe{c.ReadinessProbe, c.LivenessProbe, c.StartupProbe} {
			if pr == nil {
				continue
			}
			if pr.TimeoutSeconds == 0 {
				pr.TimeoutSeconds = 1
			}
			if pr.PeriodSeconds == 0 {
				pr.PeriodSeconds = 10
			}
			if pr.SuccessThreshold == 0 {
				pr.SuccessThreshold = 1
			}
			if pr.FailureThreshold == 0 {
				pr.FailureThreshold = 3
			}
			if pr.HTTPGet != nil && pr.HTTPGet.Scheme == "" {
				pr.HTTPGet.Scheme = corev1.URISchemeHTTP
			}
			if pr.GRPC != nil && pr.GRPC.Service == nil {
				e := ""
				pr.GRPC.Service = &e
			}
		}
		for i := range c.Env {
			if c.Env[i].ValueFrom != nil && c.Env[i].ValueFrom.FieldRef != nil && c.Env[i].ValueFrom.FieldRef.APIVersion == "" {
				c.Env[i].ValueFrom.FieldRef.APIVersion = "v1"
			}
		}
	}
	for i := range p.Spec.Containers {
		ctr(&p.Spec.Containers[i])
	}
	for i := range p.Spec.InitContainers {
		ctr(&p.Spec.InitContainers[i])
	}
	mode := int32(0o644)
	for i := range p.Spec.Volumes {
		v := &p.Spec.Volumes[i]
		if v.Secret != nil && v.Secret.DefaultMode == nil {
			v.Secret.DefaultMode = &mode
		}
		if v.ConfigMap != nil && v.ConfigMap.DefaultMode == nil {
			v.ConfigMap.DefaultMode = &mode
		}
		if v.Projected != nil && v.Projected.DefaultMode == nil {
			v.Projected.DefaultMode = &mode
		}
		if v.DownwardAPI != nil {
			if v.DownwardAPI.DefaultMode == nil {
				v.DownwardAPI.DefaultMode = &mode
			}
			for j := range v.DownwardAPI.Items {
				if f := v.DownwardAPI.Items[j].FieldRef; f != nil && f.APIVersion == "" {
					f.APIVersion = "v1"
				}
			}
		}
	}
	if p.Spec.RestartPolicy == "" {
		p.Spec.RestartPolicy = corev1.RestartPolicyAlways
	}
	if p.Spec.DNSPolicy == "" {
		p.Spec.DNSPolicy = corev1.DNSClusterFirst
	}
	if p.Spec.SchedulerName == "" {
		p.Spec.SchedulerName = corev1.DefaultSchedulerName
	}
	if p.Spec.SecurityContext == nil {
		p.Spec.SecurityContext = &corev1.PodSecurityContext{}
	}
	if p.Spec.TerminationGracePeriodSeconds == nil {
		g := int64(corev1.DefaultTerminationGracePeriodSeconds)
		p.Spec.TerminationGracePeriodSeconds = &g
	}
	if p.Spec.EnableServiceLinks == nil {
		t := corev1.DefaultEnableServiceLinks
		p.Spec.EnableServiceLinks = &t
	}
	if p.Spec.ServiceAccountName != "" && p.Spec.DeprecatedServiceAccount == "" {
		p.Spec.DeprecatedServiceAccount = p.Spec.ServiceAccountName
	}
}

func runOp(toks []string) *run {
	switch toks[0] {
	case "fixture":
		if len(toks) != 4 {
			return &run{status: "unloadable", detail: "bad op"}
		}
		doc := 0
		fmt.Sscan(toks[3], &doc)
		pod, ns, err := fixturePod(wire.Dec(toks[2]), doc)
		if err != nil {
			return &run{status: "unloadable", detail: err.Error()}
		}
		r := runPod(toks[1], pod, ns)
		r.kind, r.file = "fixture", wire.Dec(toks[2])
		return r
	case "kubeinject":
		if len(toks) != 4 {
			return &run{status: "unloadable", detail: "bad op"}
		}
		doc := 0
		fmt.Sscan(toks[3], &doc)
		r := runKubeInject(toks[1], wire.Dec(toks[2]), doc)
		r.kind, r.file = "kubeinject", wire.Dec(toks[2])
		return r
	case "kubeinject-pod": // kubeinject-pod <setting> <pod|deployment> <workload namespace> <pod json>
		if len(toks) != 5 {
			return &run{status: "unloadable", detail: "bad op"}
		}
		pod := &corev1.Pod{}
		if err := json.Unmarshal([]byte(wire.Dec(toks[4])), pod); err != nil {
			return &run{status: "unloadable", detail: err.Error()}
		}
		r := runKubeInjectPod(toks[1], toks[2], wire.Dec(toks[3]), pod)
		r.kind = "kubeinject"
		return r
	case "pod":
		if len(toks) != 4 {
			return &run{status: "unloadable", detail: "bad op"}
		}
		pod := &corev1.Pod{}
		if err := json.Unmarshal([]byte(wire.Dec(toks[3])), pod); err != nil {
			return &run{status: "unloadable", detail: err.Error()}
		}
		r := runPod(toks[1], pod, wire.Dec(toks[2]))
		r.kind = "pod"
		return r
	case "redecide-kube": // redecide-kube <rendering> <kind> <workload ns> <pod json> <change>
		if len(toks) != 6 {
			return &run{status: "unloadable", detail: "bad op"}
		}
		pod := &corev1.Pod{}
		if err := json.Unmarshal([]byte(wire.Dec(toks[4])), pod); err != nil {
			return &run{status: "unloadable", detail: err.Error()}
		}
		r := runRedecideKube(toks[1], toks[2], wire.Dec(toks[3]), pod, toks[5])
		if r.kind == "" {
			r.kind = "kubeinject"
		}
		return r
	case "redecide": // redecide <setting> <request ns> <pod json> <change>
		// The pod is injected for real; the INJECTED pod (status annotation, sidecar and all) is then changed so that the
		// documented decision becomes "never", and admitted again: the decision must not look at anything but its inputs.
		if len(toks) != 5 {
			return &run{status: "unloadable", detail: "bad op"}
		}
		pod := &corev1.Pod{}
		if err := json.Unmarshal([]byte(wire.Dec(toks[3])), pod); err != nil {
			return &run{status: "unloadable", detail: err.Error()}
		}
		ns := wire.Dec(toks[2])
		first := runPod(toks[1], pod, ns)
		if first.status != "injected" || first.once == nil {
			if first.status == "unloadable" || first.status == "crash" || first.status == "bad-patch" {
				return first
			}
			return &run{status: "na", detail: "first admission: " + first.status, l: first.l}
		}
		changed := first.once.DeepCopy()
		switch toks[4] {
		case "label-false":
			if changed.Labels == nil {
				changed.Labels = map[string]string{}
			}
			changed.Labels["sidecar.istio.io/inject"] = "false"
		case "annotation-false":
			delete(changed.Labels, "sidecar.istio.io/inject")
			if changed.Annotations == nil {
				changed.Annotations = map[string]string{}
			}
			changed.Annotations["sidecar.istio.io/inject"] = "false"
		case "namespace-ignored":
			changed.Namespace = "kube-system"
		case "request-namespace-ignored":
			changed.Namespace = ""
			ns = "kube-public"
		case "host-network":
			changed.Spec.HostNetwork = true
		case "probe-reset":
			// what a later mutating webhook may do between two invocations: an application probe is set back to what the user
			// wrote. The decision stays "inject"; re-admission dumps that probe again under the key the first injection recorded
			// (the merge loop of mergeOrAppendProbers with a colliding key) and has to reach a fixpoint.
			reset := false
			for i := range changed.Spec.Containers {
				for _, oc := range first.orig.Spec.Containers {
					if oc.Name == changed.Spec.Containers[i].Name && oc.ReadinessProbe != nil && oc.Name != inject.ProxyContainerName {
						changed.Spec.Containers[i].ReadinessProbe = oc.ReadinessProbe.DeepCopy()
						reset = true
					}
				}
			}
			if !reset {
				return &run{status: "na", detail: "no readiness probe to reset", l: first.l}
			}
		default:
			return &run{status: "unloadable", detail: "unknown change"}
		}
		r := runPod(toks[1], changed, ns)
		r.kind = "pod"
		return r
	}
	return &run{status: "unloadable", detail: "unknown op"}
}

// ---------------------------------------------------------------- the kube-inject path (public API IntoObject)

// templateOf returns the pod (template) inside a workload object, without the owner simulation of objectToPod.
func templateOf(obj runtime.Object) *corev1.Pod {
	mk := func(t corev1.PodTemplateSpec) *corev1.Pod { return &corev1.Pod{ObjectMeta: t.ObjectMeta, Spec: t.Spec} }
	switch o := obj.(type) {
	case *corev1.Pod:
		return o
	case *batchv1.CronJob:
		// IntoObject treats jobTemplate.metadata + jobTemplate.spec.template.spec as "the pod" of a CronJob
		// (pinned by the golden file cronjob.yaml.injected); observe the same pair
		return &corev1.Pod{ObjectMeta: o.Spec.JobTemplate.ObjectMeta, Spec: o.Spec.JobTemplate.Spec.Template.Spec}
	case *appsv1.DaemonSet:
		return mk(o.Spec.Template)
	case *appsv1.ReplicaSet:
		return mk(o.Spec.Template)
	case *corev1.ReplicationController:
		if o.Spec.Template == nil {
			return nil
		}
		return mk(*o.Spec.Template)
	case *appsv1.StatefulSet:
		return mk(o.Spec.Template)
	case *batchv1.Job:
		return mk(o.Spec.Template)
	case *openshiftv1.DeploymentConfig:
		if o.Spec.Template == nil {
			return nil
		}
		return mk(*o.Spec.Template)
	case *appsv1.Deployment:
		return mk(o.Spec.Template)
	}
	return nil
}

// runKubeInject: `istioctl kube-inject` on a fixture document, then on its own output.
func runKubeInject(settingName, file string, doc int) *run {
	docs := fixtureDocs(file)
	if doc >= len(docs) {
		return &run{status: "unloadable", detail: "no such document"}
	}
	obj, err := inject.FromRawToObject([]byte(docs[doc]))
	if err != nil {
		return &run{status: "unloadable", detail: err.Error()}
	}
	return runKubeInjectObject(settingName, obj)
}

var wrapKinds = []string{"pod", "deployment", "statefulset", "daemonset", "job", "cronjob", "replicaset", "replicationcontroller", "deploymentconfig", "list", "list3"}

// wrapPod puts a generated pod into a workload object of the given kind in namespace wlNS.
func wrapPod(wrap, wlNS string, pod *corev1.Pod) runtime.Object {
	om := metav1.ObjectMeta{Name: "wl", Namespace: wlNS}
	tmpl := corev1.PodTemplateSpec{
		ObjectMeta: metav1.ObjectMeta{Namespace: pod.Namespace, Labels: pod.Labels, Annotations: pod.Annotations},
		Spec:       pod.Spec,
	}
	switch wrap {
	case "pod":
		pod.TypeMeta = metav1.TypeMeta{Kind: "Pod", APIVersion: "v1"}
		return pod
	case "deployment":
		return &appsv1.Deployment{TypeMeta: metav1.TypeMeta{Kind: "Deployment", APIVersion: "apps/v1"}, ObjectMeta: om, Spec: appsv1.DeploymentSpec{Template: tmpl}}
	case "statefulset":
		return &appsv1.StatefulSet{TypeMeta: metav1.TypeMeta{Kind: "StatefulSet", APIVersion: "apps/v1"}, ObjectMeta: om, Spec: appsv1.StatefulSetSpec{Template: tmpl}}
	case "daemonset":
		return &appsv1.DaemonSet{TypeMeta: metav1.TypeMeta{Kind: "DaemonSet", APIVersion: "apps/v1"}, ObjectMeta: om, Spec: appsv1.DaemonSetSpec{Template: tmpl}}
	case "replicaset":
		return &appsv1.ReplicaSet{TypeMeta: metav1.TypeMeta{Kind: "ReplicaSet", APIVersion: "apps/v1"}, ObjectMeta: om, Spec: appsv1.ReplicaSetSpec{Template: tmpl}}
	case "job":
		return &batchv1.Job{TypeMeta: metav1.TypeMeta{Kind: "Job", APIVersion: "batch/v1"}, ObjectMeta: om, Spec: batchv1.JobSpec{Template: tmpl}}
	case "cronjob":
		return &batchv1.CronJob{TypeMeta: metav1.TypeMeta{Kind: "CronJob", APIVersion: "batch/v1"}, ObjectMeta: om,
			Spec: batchv1.CronJobSpec{Schedule: "* * * * *", JobTemplate: batchv1.JobTemplateSpec{Spec: batchv1.JobSpec{Template: tmpl}}}}
	case "replicationcontroller":
		return &corev1.ReplicationController{TypeMeta: metav1.TypeMeta{Kind: "ReplicationController", APIVersion: "v1"}, ObjectMeta: om,
			Spec: corev1.ReplicationControllerSpec{Template: &tmpl}}
	case "deploymentconfig":
		return &openshiftv1.DeploymentConfig{TypeMeta: metav1.TypeMeta{Kind: "DeploymentConfig", APIVersion: "apps.openshift.io/v1"}, ObjectMeta: om,
			Spec: openshiftv1.DeploymentConfigSpec{Template: &tmpl}}
	case "list3":
		// a List as users write them: an item of a kind the injector does not know, a workload that says "never" (it has to
		// come back unchanged) and, LAST, the workload under observation
		foo := []byte(`{"apiVersion":"example.com/v1","kind":"Foo","metadata":{"name":"foo"},"spec":{"x":1}}`)
		decoyT := *tmpl.DeepCopy()
		decoyT.Labels = map[string]string{"sidecar.istio.io/inject": "false", "app": "decoy"}
		decoy, _ := json.Marshal(&appsv1.Deployment{TypeMeta: metav1.TypeMeta{Kind: "Deployment", APIVersion: "apps/v1"},
			ObjectMeta: metav1.ObjectMeta{Name: "decoy", Namespace: wlNS}, Spec: appsv1.DeploymentSpec{Template: decoyT}})
		d := &appsv1.StatefulSet{TypeMeta: metav1.TypeMeta{Kind: "StatefulSet", APIVersion: "apps/v1"}, ObjectMeta: om, Spec: appsv1.StatefulSetSpec{Template: tmpl}}
		raw, _ := json.Marshal(d)
		return &corev1.List{TypeMeta: metav1.TypeMeta{Kind: "List", APIVersion: "v1"}, Items: []runtime.RawExtension{{Raw: foo}, {Raw: decoy}, {Raw: raw}}}
	case "list":
		d := &appsv1.StatefulSet{TypeMeta: metav1.TypeMeta{Kind: "StatefulSet", APIVersion: "apps/v1"}, ObjectMeta: om, Spec: appsv1.StatefulSetSpec{Template: tmpl}}
		raw, _ := json.Marshal(d)
		return &corev1.List{TypeMeta: metav1.TypeMeta{Kind: "List", APIVersion: "v1"}, Items: []runtime.RawExtension{{Raw: raw}}}
	}
	return nil
}

// runKubeInjectPod: a generated pod in a workload object of any kind, through kube-inject.
// wrap is `<kind>[@file|@injector]`: @file goes through IntoResourceFile (YAML in, YAML out), @injector through the
// `injector != nil` branch of IntoObject with an Injector that asks the webhook of the same configuration.
func runKubeInjectPod(settingName, wrap, wlNS string, pod *corev1.Pod) *run {
	kind, via := wrap, "direct"
	if i := strings.Index(wrap, "@"); i >= 0 {
		kind, via = wrap[:i], wrap[i+1:]
	}
	obj := wrapPod(kind, wlNS, pod.DeepCopy())
	if obj == nil {
		return &run{status: "unloadable", detail: "unknown wrap " + wrap}
	}
	r := runKubeInjectObjectVia(settingName, obj, via)
	if kind == "cronjob" && len(pod.Annotations) > 0 {
		// known finding F10n is keyed by its CAUSE: kube-inject reads (and writes) spec.jobTemplate.metadata of a CronJob,
		// not the metadata of the pod template. The same pod with its annotations also where the code reads them:
		r.rerunCron = func() *run {
			o2 := wrapPod(kind, wlNS, pod.DeepCopy()).(*batchv1.CronJob)
			o2.Spec.JobTemplate.ObjectMeta.Annotations = map[string]string{}
			for k, v := range pod.Annotations {
				o2.Spec.JobTemplate.ObjectMeta.Annotations[k] = v
			}
			r2 := runKubeInjectObjectVia(settingName, o2, via)
			r2.kind = "kubeinject"
			return r2
		}
	}
	return r
}

// podTemplateRef: the metadata and spec of the pods of a workload object (the documented place for labels / annotations).
func podTemplateRef(obj runtime.Object) (*metav1.ObjectMeta, *corev1.PodSpec) {
	switch o := obj.(type) {
	case *corev1.Pod:
		return &o.ObjectMeta, &o.Spec
	case *appsv1.Deployment:
		return &o.Spec.Template.ObjectMeta, &o.Spec.Template.Spec
	case *appsv1.StatefulSet:
		return &o.Spec.Template.ObjectMeta, &o.Spec.Template.Spec
	case *appsv1.DaemonSet:
		return &o.Spec.Template.ObjectMeta, &o.Spec.Template.Spec
	case *appsv1.ReplicaSet:
		return &o.Spec.Template.ObjectMeta, &o.Spec.Template.Spec
	case *batchv1.Job:
		return &o.Spec.Template.ObjectMeta, &o.Spec.Template.Spec
	case *batchv1.CronJob:
		return &o.Spec.JobTemplate.Spec.Template.ObjectMeta, &o.Spec.JobTemplate.Spec.Template.Spec
	case *corev1.ReplicationController:
		if o.Spec.Template != nil {
			return &o.Spec.Template.ObjectMeta, &o.Spec.Template.Spec
		}
	case *openshiftv1.DeploymentConfig:
		if o.Spec.Template != nil {
			return &o.Spec.Template.ObjectMeta, &o.Spec.Template.Spec
		}
	}
	return nil, nil
}

// runRedecideKube: the workload is injected by kube-inject for real; the INJECTED workload is changed so that the documented
// decision is "never" and handed to kube-inject again - it must come back unchanged.
func runRedecideKube(settingName, kind, wlNS string, pod *corev1.Pod, change string) *run {
	l, err := loadSetting(settingName)
	if err != nil {
		return &run{status: "unloadable", detail: err.Error()}
	}
	obj := wrapPod(kind, wlNS, pod)
	if obj == nil {
		return &run{status: "unloadable", detail: "unknown kind " + kind}
	}
	prev := features.EnableNativeSidecars
	features.EnableNativeSidecars = features.NativeSidecarModeDisabled
	if l.native {
		features.EnableNativeSidecars = features.NativeSidecarModeEnabled
	}
	wc := l.wh.GetConfig()
	var first runtime.Object
	func() {
		defer func() {
			features.EnableNativeSidecars = prev
			_ = recover()
		}()
		out, err := inject.IntoObject(nil, wc.Templates, wc.Values, "", wc.MeshConfig, obj, func(string) {})
		if err == nil {
			first, _ = out.(runtime.Object)
		}
	}()
	if first == nil {
		return &run{status: "na", detail: "first kube-inject refused", l: l}
	}
	inner := unwrapList(first)
	meta, spec := podTemplateRef(inner)
	if meta == nil {
		return &run{status: "unloadable", detail: "no pod template"}
	}
	if _, injected := templateOf(inner).Annotations[annotation.SidecarStatus.Name]; !injected {
		return &run{status: "na", detail: "first kube-inject skipped", l: l}
	}
	switch change {
	case "label-false":
		if meta.Labels == nil {
			meta.Labels = map[string]string{}
		}
		meta.Labels["sidecar.istio.io/inject"] = "false"
	case "annotation-false":
		delete(meta.Labels, "sidecar.istio.io/inject")
		if meta.Annotations == nil {
			meta.Annotations = map[string]string{}
		}
		meta.Annotations["sidecar.istio.io/inject"] = "false"
	case "namespace-ignored":
		meta.Namespace = "kube-system"
	case "host-network":
		spec.HostNetwork = true
	default:
		return &run{status: "unloadable", detail: "unknown change"}
	}
	if lst, ok := first.(*corev1.List); ok { // keep the raw form of the item in step with the object
		raw, _ := json.Marshal(inner)
		lst.Items[0] = runtime.RawExtension{Raw: raw}
	}
	return runKubeInjectObjectVia(settingName, first, "direct")
}

// unwrapList returns the single workload inside a List (as an object), else the object itself.
func unwrapList(obj runtime.Object) runtime.Object {
	l, ok := obj.(*corev1.List)
	if !ok || len(l.Items) == 0 {
		return obj
	}
	it := l.Items[len(l.Items)-1]
	if o, ok := it.Object.(runtime.Object); ok && o != nil {
		return o
	}
	o, err := inject.FromRawToObject(it.Raw)
	if err != nil {
		return obj
	}
	return o
}

// otherItems: the items of a List before the last, as canonical JSON (they have to come back unchanged: an item of an
// unknown kind, a workload that says "never").
func otherItems(obj runtime.Object) []string {
	l, ok := obj.(*corev1.List)
	if !ok {
		return nil
	}
	var out []string
	for _, it := range l.Items[:max(0, len(l.Items)-1)] {
		var v any
		raw := it.Raw
		if o, ok := it.Object.(runtime.Object); ok && o != nil {
			raw, _ = json.Marshal(o)
		}
		if json.Unmarshal(raw, &v) != nil {
			out = append(out, string(raw))
			continue
		}
		dropEmpty(v)
		b, _ := json.Marshal(v)
		out = append(out, string(b))
	}
	return out
}

// dropEmpty removes the zero-valued fields typed (un)marshalling adds (status: {}, creationTimestamp: null, strategy: {}, ...).
func dropEmpty(v any) bool {
	switch x := v.(type) {
	case map[string]any:
		for k, e := range x {
			if e == nil || dropEmpty(e) {
				delete(x, k)
			}
		}
		return len(x) == 0
	case []any:
		for _, e := range x {
			dropEmpty(e)
		}
		return false
	}
	return false
}

// podTemplateMeta: the metadata the pods of the workload will carry (documented rule), where that is not what templateOf
// observes: a CronJob's pods carry spec.jobTemplate.spec.template.metadata.
func podTemplateMeta(obj runtime.Object) *metav1.ObjectMeta {
	if cj, ok := unwrapList(obj).(*batchv1.CronJob); ok {
		m := cj.Spec.JobTemplate.Spec.Template.ObjectMeta.DeepCopy()
		return m
	}
	return nil
}

const unknownDoc = "apiVersion: example.com/v1\nkind: Foo\nmetadata:\n  name: foo\nspec:\n  x: 1"

func splitDocs(s string) []string {
	var out []string
	for _, d := range strings.Split(s, "\n---") {
		if strings.TrimSpace(d) != "" {
			out = append(out, strings.TrimSpace(d))
		}
	}
	return out
}

// whInjector is an inject.Injector that asks the webhook of the same configuration, as `istioctl kube-inject` does with a
// running injector.
type whInjector struct{ l *loaded }

func (w whInjector) Inject(pod *corev1.Pod, namespace string) ([]byte, error) {
	b, err := json.Marshal(pod)
	if err != nil {
		return nil, err
	}
	resp := w.l.wh.VerifInject(&kube.AdmissionReview{Request: &kube.AdmissionRequest{Object: runtime.RawExtension{Raw: b}, Namespace: namespace}}, "")
	if resp == nil {
		return nil, fmt.Errorf("nil response")
	}
	if resp.Result != nil && resp.Result.Message != "" {
		return nil, fmt.Errorf("%s", resp.Result.Message)
	}
	return resp.Patch, nil
}

func (w whInjector) GetKubeClient() kube.Client { return nil }

func runKubeInjectObject(settingName string, obj runtime.Object) *run {
	return runKubeInjectObjectVia(settingName, obj, "direct")
}

func runKubeInjectObjectVia(settingName string, obj runtime.Object, via string) (r *run) {
	r = &run{via: via}
	defer func() {
		if e := recover(); e != nil {
			r.status, r.detail = "crash", fmt.Sprint(e)
		}
	}()
	l, err := loadSetting(settingName)
	if err != nil {
		r.status, r.detail = "unloadable", err.Error()
		return r
	}
	r.l = l
	// namespace of the workload object (the documented namespace of its pods when the template names none)
	if acc, err := apimeta.Accessor(unwrapList(obj)); err == nil {
		r.reqNS = acc.GetNamespace()
	}
	r.decMeta = podTemplateMeta(obj)
	prev := features.EnableNativeSidecars
	features.EnableNativeSidecars = features.NativeSidecarModeDisabled
	if l.native {
		features.EnableNativeSidecars = features.NativeSidecarModeEnabled
	}
	defer func() { features.EnableNativeSidecars = prev }()
	wc := l.wh.GetConfig()
	into := func(in runtime.Object) (runtime.Object, error) {
		var injector inject.Injector
		if via == "injector" {
			injector = whInjector{l}
		}
		if via == "file" {
			y, err := yaml.Marshal(in)
			if err != nil {
				return nil, err
			}
			var buf bytes.Buffer
			y = append([]byte(unknownDoc+"\n---\n"), y...) // a multi-document file whose first document is of an unknown kind
			if err := inject.IntoResourceFile(nil, wc.Templates, wc.Values, "", wc.MeshConfig, bytes.NewReader(y), &buf, func(string) {}); err != nil {
				return nil, err
			}
			docs := splitDocs(buf.String())
			if len(docs) != 2 {
				return nil, fmt.Errorf("IntoResourceFile wrote %d documents for 2", len(docs))
			}
			var a, b any
			if yaml.Unmarshal([]byte(docs[0]), &a) != nil || yaml.Unmarshal([]byte(unknownDoc), &b) != nil || !reflect.DeepEqual(a, b) {
				return nil, fmt.Errorf("IntoResourceFile changed a document of a kind it does not know")
			}
			return inject.FromRawToObject([]byte(docs[1]))
		}
		out, err := inject.IntoObject(injector, wc.Templates, wc.Values, "", wc.MeshConfig, in, func(string) {})
		if err != nil {
			return nil, err
		}
		o, ok := out.(runtime.Object)
		if !ok {
			return nil, fmt.Errorf("IntoObject returned %T", out)
		}
		return o, nil
	}
	norm := func(o runtime.Object) (*corev1.Pod, []byte) {
		p := templateOf(unwrapList(o))
		if p == nil {
			return nil, nil
		}
		b, _ := json.Marshal(p)
		q := &corev1.Pod{}
		_ = json.Unmarshal(b, q)
		return q, b
	}
	r.orig, r.origJSON = norm(obj)
	if r.orig == nil {
		r.status, r.detail = "unloadable", "no pod template"
		return r
	}
	others := otherItems(obj)
	o1, err := into(obj)
	if err != nil {
		r.status, r.detail = "error", err.Error()
		if strings.Contains(err.Error(), "IntoResourceFile ") {
			r.status = "bad-patch"
		}
		return r
	}
	if got := otherItems(o1); !reflect.DeepEqual(got, others) {
		r.status, r.detail = "bad-patch", "kube-inject changed a List item that is of an unknown kind or says never"
		return r
	}
	r.once, r.onceJSON = norm(o1)
	if jsonEqual(r.origJSON, r.onceJSON) {
		r.status = "skipped"
		return r
	}
	r.status = "injected"
	o2, err := into(o1)
	if err != nil {
		r.status, r.detail = "error-on-reinjection", err.Error()
		return r
	}
	r.twice, r.twiceJSON = norm(o2)
	return r
}

// ---------------------------------------------------------------- reduction to the monitor's line form

func digest(v any) string {
	b, err := json.Marshal(v)
	if err != nil {
		return "unmarshalable"
	}
	h := sha1.Sum(b)
	return hex.EncodeToString(h[:8])
}

func portToks(c corev1.Container) []string {
	var out []string
	for _, p := range c.Ports {
		out = append(out, fmt.Sprintf("%s/%d/%s/%d/%s", p.Name, p.ContainerPort, p.Protocol, p.HostPort, p.HostIP))
	}
	return out
}

func statusOf(pod *corev1.Pod) *inject.SidecarInjectionStatus {
	v, ok := pod.Annotations[annotation.SidecarStatus.Name]
	if !ok {
		return nil
	}
	var s inject.SidecarInjectionStatus
	if err := json.Unmarshal([]byte(v), &s); err != nil {
		return nil
	}
	return &s
}

func writePod(o *wire.Out, which string, pod *corev1.Pod) {
	o.Line("begin", which)
	ctr := func(tag string, c corev1.Container) {
		o.Line(tag, wire.Enc(c.Name), wire.Enc(c.Image), wire.EncList(c.Command), wire.EncList(c.Args), wire.EncList(portToks(c)), digest(c))
	}
	for _, c := range pod.Spec.Containers {
		ctr("c", c)
	}
	for _, c := range pod.Spec.InitContainers {
		ctr("i", c)
	}
	for _, v := range pod.Spec.Volumes {
		o.Line("v", wire.Enc(v.Name), digest(v))
	}
	for _, e := range pod.Spec.EphemeralContainers {
		o.Line("e", wire.Enc(e.Name), digest(e))
	}
	rest := pod.Spec.DeepCopy()
	rest.Containers, rest.InitContainers, rest.Volumes = nil, nil, nil
	o.Line("m", digest(pod.ObjectMeta), digest(rest))
	if s := statusOf(pod); s != nil {
		o.Line("inj", wire.EncList(s.Containers), wire.EncList(s.InitContainers), wire.EncList(s.Volumes))
	} else {
		o.Line("inj", "-", "-", "-")
	}
	o.Line("end")
}

func execInject(in, out string) {
	defer cleanupTmp()
	o := wire.Create(out)
	defer o.Close()
	for _, toks := range wire.ReadLines(in) {
		if toks[0] == "case" {
			o.Line(toks...)
			continue
		}
		r := runOp(toks)
		src := toks
		if toks[0] == "pod" && len(toks) == 4 {
			src = []string{"pod", toks[1], toks[2], "json:" + digest(toks[3])}
		}
		if toks[0] == "kubeinject-pod" && len(toks) == 5 {
			src = []string{"kubeinject-pod", toks[1], toks[2], toks[3], "json:" + digest(toks[4])}
		}
		if toks[0] == "redecide-kube" && len(toks) == 6 {
			src = []string{"redecide-kube", toks[1], toks[2], toks[3], "json:" + digest(toks[4]), toks[5]}
		}
		if toks[0] == "redecide" && len(toks) == 5 {
			src = []string{"redecide", toks[1], toks[2], "json:" + digest(toks[3]), toks[4]}
		}
		o.Line(append([]string{"src"}, src...)...)
		if r.orig != nil && r.l != nil && r.status != "unloadable" && r.status != "na" {
			writeDecisionInputs(o, decisionInputs(r))
			o.Line("refusal", refusalExpectation(r))
			o.Line("feat", wire.EncList(features_(r)))
			_, clause := documentedConcrete(decisionInputs(r))
			o.Line("row", callSite(r, toks[0]), fmt.Sprint(abstractRowOf(decisionInputs(r)).idx()), clause)
		}
		if r.orig != nil && r.status != "unloadable" {
			writePod(o, "orig", r.orig)
		}
		if r.once != nil {
			writePod(o, "once", r.once)
		}
		if r.twice != nil {
			writePod(o, "twice", r.twice)
		}
		detail := r.detail
		if i := strings.Index(detail, "; have "); i >= 0 {
			detail = detail[:i] // the list of known templates is printed in map order: keep the trace byte-stable
		}
		o.Line("status", r.status, wire.Enc(truncate(detail, 200)))
		o.Line("check")
		o.Flush()
	}
}

// callSite names the code path through which the decision of this case is taken.
func callSite(r *run, op string) string {
	switch {
	case r.kind == "kubeinject" && r.via == "file":
		return "kube-inject-IntoResourceFile"
	case r.kind == "kubeinject" && r.via == "injector":
		return "kube-inject-with-injector"
	case r.kind == "kubeinject":
		return "kube-inject-IntoObject"
	case r.l != nil && r.l.mux != nil:
		return "webhook-http-handler"
	}
	return "webhook-inject"
}

// features_ names what this case exercises (coverage counters in the evidence).
func features_(r *run) []string {
	var f []string
	add := func(c bool, n string) {
		if c {
			f = append(f, n)
		}
	}
	p := r.orig
	all := append(append([]corev1.Container{}, p.Spec.Containers...), p.Spec.InitContainers...)
	hasProbe, hasPostStart, hasPreStop, userProxy, userProxyInit, userInit, nativeUser := false, false, false, false, false, false, false
	for _, c := range all {
		if c.ReadinessProbe != nil || c.LivenessProbe != nil || c.StartupProbe != nil {
			hasProbe = true
		}
		if c.Lifecycle != nil && c.Lifecycle.PostStart != nil {
			hasPostStart = true
		}
		if c.Lifecycle != nil && c.Lifecycle.PreStop != nil {
			hasPreStop = true
		}
		if c.Name == inject.ProxyContainerName {
			userProxy = true
		}
		if c.Name == inject.InitContainerName || c.Name == inject.ValidationContainerName {
			userInit = true
		}
		if c.RestartPolicy != nil {
			nativeUser = true
		}
	}
	for _, c := range p.Spec.InitContainers {
		if c.Name == inject.ProxyContainerName {
			userProxyInit = true
		}
	}
	_, ov := p.Annotations[annotation.ProxyOverrides.Name]
	_, st := p.Annotations[annotation.SidecarStatus.Name]
	_, tm := p.Annotations["inject.istio.io/templates"]
	add(hasProbe, "probes")
	add(hasPostStart, "postStart")
	add(hasPreStop, "preStop")
	add(userProxy, "user-istio-proxy")
	add(userProxyInit, "user-istio-proxy-in-initContainers")
	add(userInit, "user-istio-init")
	add(nativeUser, "user-native-sidecar")
	add(ov, "overrides-annotation")
	add(st, "status-annotation")
	add(tm, "templates-annotation")
	add(strings.Contains(p.Annotations["inject.istio.io/templates"], ","), "multi-template")
	add(len(p.Spec.InitContainers) > 0, "init-containers")
	add(len(p.Spec.Volumes) > 0, "volumes")
	add(p.Annotations["prometheus.istio.io/scrape-targets"] != "", "scrape-targets")
	add(p.Annotations["status.sidecar.istio.io/port"] != "", "status-port-annotation")
	add(p.Annotations["proxy.istio.io/config"] != "", "proxy-config-annotation")
	add(p.Labels["topology.istio.io/network"] != "", "network-label")
	add(p.Spec.HostNetwork, "hostNetwork")
	add(len(p.Spec.EphemeralContainers) > 0, "ephemeral-containers")
	add(len(p.Spec.Containers) > 3, "more-than-3-containers")
	for _, c := range all {
		add(c.Name == inject.EnableCoreDumpName || c.Name == inject.ValidationContainerName, "user-container-of-reserved-name")
	}
	for _, v := range p.Spec.Volumes {
		add(v.Projected != nil, "volume-projected")
		add(v.PersistentVolumeClaim != nil, "volume-pvc")
		add(v.HostPath != nil, "volume-hostPath")
		add(v.DownwardAPI != nil, "volume-downwardAPI")
		add(v.ConfigMap != nil, "volume-configMap")
		add(v.Secret != nil, "volume-secret")
		add(v.EmptyDir != nil, "volume-emptyDir")
	}
	if nv, ok := p.Annotations["sidecar.istio.io/nativeSidecar"]; ok {
		add(nv != "true" && nv != "false", "nativeSidecar-annotation-other-value")
	}
	if r.status == "injected" {
		t := strings.ReplaceAll(strings.ReplaceAll(p.Annotations["inject.istio.io/templates"], " ", ""), ",", "+")
		if t == "" {
			t = "(default)"
		}
		f = append(f, "injected-with-template:"+t)
	}
	f = dedupe(f)
	add(r.l != nil && r.l.native, "native-mode")
	add(r.l != nil && r.l.mux != nil, "http-handler")
	add(r.l != nil && r.l.path != "", "inject-url-path")
	add(r.l != nil && r.l.defaulting, "api-defaulting")
	add(r.via == "file", "IntoResourceFile")
	add(r.via == "injector", "IntoObject-with-injector")
	if r.once != nil && r.status == "injected" {
		if sc := inject.FindSidecar(r.once); sc != nil {
			for _, e := range sc.Env {
				add(e.Name == "ISTIO_KUBE_APP_PROBERS", "probes-rewritten")
			}
		}
		for _, c := range r.once.Spec.InitContainers {
			add(c.Name == inject.ProxyContainerName, "sidecar-as-native")
			add(c.Name == inject.ValidationContainerName, "istio-validation")
		}
	}
	sort.Strings(f)
	return f
}

func dedupe(l []string) []string {
	seen := map[string]bool{}
	var out []string
	for _, x := range l {
		if !seen[x] {
			seen[x] = true
			out = append(out, x)
		}
	}
	return out
}

func truncate(s string, n int) string {
	if len(s) > n {
		return s[:n]
	}
	return s
}

// ---------------------------------------------------------------- what the documentation says should happen to this pod

// decisionInputs are the inputs of the documented decision for this admission: the pod's namespace is its own, else the
// namespace of the admission request; the webhook decides with its Config (policy, selectors); kube-inject decides with
// policy "enabled" and no selectors.
func decisionInputs(r *run) *decideState {
	st := &decideState{}
	st.spec = *r.orig.Spec.DeepCopy()
	st.meta = *r.orig.ObjectMeta.DeepCopy()
	if r.kind == "kubeinject" {
		// documented rule (not the code's view): the pods carry the metadata of the pod template; their namespace is the
		// template's, else the workload's
		if r.decMeta != nil {
			st.meta = *r.decMeta.DeepCopy()
		}
		if st.meta.Namespace == "" {
			st.meta.Namespace = r.reqNS
		}
		st.cfg = inject.Config{Policy: inject.InjectionPolicyEnabled}
		return st
	}
	if st.meta.Namespace == "" {
		st.meta.Namespace = r.reqNS
	}
	// the configuration as the harness stated it (for chart-sel: as written into the chart values), not as the code parsed it
	st.cfg = inject.Config{Policy: r.l.expect.Policy, NeverInjectSelector: r.l.expect.NeverInjectSelector, AlwaysInjectSelector: r.l.expect.AlwaysInjectSelector}
	return st
}

func selectorToks(sel metav1.LabelSelector) []string {
	var ks, vs []string
	for k := range sel.MatchLabels {
		ks = append(ks, k)
	}
	sort.Strings(ks)
	for _, k := range ks {
		vs = append(vs, sel.MatchLabels[k])
	}
	toks := []string{wire.EncList(ks), wire.EncList(vs)}
	for _, e := range sel.MatchExpressions {
		toks = append(toks, wire.Enc(e.Key), wire.Enc(string(e.Operator)), wire.EncList(e.Values))
	}
	return toks
}

func mapToks(m map[string]string) (string, string) {
	var ks, vs []string
	for k := range m {
		ks = append(ks, k)
	}
	sort.Strings(ks)
	for _, k := range ks {
		vs = append(vs, m[k])
	}
	return wire.EncList(ks), wire.EncList(vs)
}

// writeDecisionInputs prints the inputs in the syntax of the `decide` stream, so that the Lean driver evaluates its
// model of the documented cascade on them.
func writeDecisionInputs(o *wire.Out, st *decideState) {
	lk, lv := mapToks(st.meta.Labels)
	ak, av := mapToks(st.meta.Annotations)
	o.Line("pod", wire.B(st.spec.HostNetwork), wire.Enc(st.meta.Namespace), lk, lv, ak, av)
	o.Line("policy", wire.Enc(string(st.cfg.Policy)))
	for _, sel := range st.cfg.NeverInjectSelector {
		o.Line(append([]string{"never"}, selectorToks(sel)...)...)
	}
	for _, sel := range st.cfg.AlwaysInjectSelector {
		o.Line(append([]string{"always"}, selectorToks(sel)...)...)
	}
}

// invalidAnnotationValues: values the generator emits on purpose and the documentation declares invalid.
var invalidAnnotationValues = map[string][]string{
	"sidecar.istio.io/proxyCPU": {"not-a-quantity!"},
}

func hasGolden(file string) bool {
	_, err := os.Stat(filepath.Join(fixtureDir(), file+".injected"))
	return err == nil
}

// refusalExpectation: "must" - the injector has to refuse the pod (it names a template that does not exist, or carries an
// annotation value documented as invalid); "may" - a repository fixture without a golden output (the suite's negative
// cases); "no" - the pod has to be injected.
func refusalExpectation(r *run) string {
	known := map[string]bool{}
	for k := range r.l.cfg.Templates {
		known[k] = true
	}
	names := r.l.cfg.DefaultTemplates
	aliases := r.l.cfg.Aliases
	if r.kind == "kubeinject" && r.via != "injector" {
		names, aliases = []string{inject.SidecarTemplateName}, nil
	}
	if a, f := r.orig.Annotations["inject.istio.io/templates"]; f {
		names = nil
		for _, n := range strings.Split(a, ",") {
			names = append(names, strings.TrimSpace(n))
		}
	}
	for _, n := range names {
		res := []string{n}
		if al, f := aliases[n]; f {
			res = al
		}
		for _, x := range res {
			if !known[x] {
				return "must"
			}
		}
	}
	// templates of the injector's map that render Gateway deployments, not pods: naming them on a pod is refused
	for _, n := range names {
		switch n {
		case "waypoint", "kube-gateway", "agentgateway", "agentgateway-waypoint":
			return "must"
		}
	}
	for k, bad := range invalidAnnotationValues {
		if v, f := r.orig.Annotations[k]; f {
			for _, b := range bad {
				if v == b {
					return "must"
				}
			}
		}
	}
	if p, ok := r.orig.Annotations["prometheus.io/port"]; ok {
		if n, err := strconv.Atoi(p); err != nil || n < 0 || n > 65535 {
			return "may" // documented as a port number: anything else may be refused
		}
	}
	if r.orig.Annotations["prometheus.io/port"] == "15020" {
		// 15020 is documented as reserved for the agent; whether scraping it is refused depends on the status port in force
		return "may"
	}
	if (r.kind == "fixture" || r.kind == "kubeinject") && r.file != "" && !hasGolden(r.file) {
		return "may"
	}
	return "no"
}

// ---------------------------------------------------------------- oracle (directly on the Go objects)

func names(l []string) map[string]bool {
	m := map[string]bool{}
	for _, s := range l {
		m[s] = true
	}
	return m
}

// keptContainers: every container of `before` that the injector does not own must occur in
// `after`, in the same relative order, with image, command, args and ports unchanged.
func keptContainers(before, after []corev1.Container, owned map[string]bool) string {
	j := 0
	for _, b := range before {
		if owned[b.Name] {
			continue
		}
		found := false
		for ; j < len(after); j++ {
			a := after[j]
			if a.Name == b.Name {
				if a.Image != b.Image || !reflect.DeepEqual(nz(a.Command), nz(b.Command)) || !reflect.DeepEqual(nz(a.Args), nz(b.Args)) ||
					!reflect.DeepEqual(portToks(a), portToks(b)) {
					return "changed:" + b.Name
				}
				found = true
				j++
				break
			}
		}
		if !found {
			return "lost-or-reordered:" + b.Name
		}
	}
	return ""
}

func nz(l []string) []string {
	if len(l) == 0 {
		return nil
	}
	return l
}

func keptVolumes(before, after []corev1.Volume, owned map[string]bool) string {
	j := 0
	for _, b := range before {
		if owned[b.Name] {
			continue
		}
		found := false
		for ; j < len(after); j++ {
			if after[j].Name == b.Name {
				if !reflect.DeepEqual(after[j], b) {
					return "changed:" + b.Name
				}
				found = true
				j++
				break
			}
		}
		if !found {
			return "lost-or-reordered:" + b.Name
		}
	}
	return ""
}

// reserved are the container names the injector owns (a container of that name in the user's pod is a
// customisation of the injected one, which is merged, not preserved).
var reserved = []string{inject.ProxyContainerName, inject.InitContainerName, inject.ValidationContainerName, inject.EnableCoreDumpName}

func preserved(tag string, before, after *corev1.Pod) string {
	s := statusOf(after)
	if s == nil {
		return "FAIL " + tag + "-no-status-annotation"
	}
	owned := names(reserved)
	if d := keptContainers(before.Spec.Containers, after.Spec.Containers, owned); d != "" {
		return "FAIL " + tag + "-containers " + wire.Enc(d)
	}
	if d := keptContainers(before.Spec.InitContainers, after.Spec.InitContainers, owned); d != "" {
		return "FAIL " + tag + "-inits " + wire.Enc(d)
	}
	// a user volume with the name of an injected volume is merged with it
	if d := keptVolumes(before.Spec.Volumes, after.Spec.Volumes, names(s.Volumes)); d != "" {
		return "FAIL " + tag + "-volumes " + wire.Enc(d)
	}
	// a container of a reserved name is merged, reordered - but never dropped
	have := map[string]bool{}
	for _, c := range append(append([]corev1.Container{}, after.Spec.Containers...), after.Spec.InitContainers...) {
		have[c.Name] = true
	}
	for _, c := range append(append([]corev1.Container{}, before.Spec.Containers...), before.Spec.InitContainers...) {
		if owned[c.Name] && !have[c.Name] {
			return "FAIL " + tag + "-reserved " + wire.Enc("vanished:"+c.Name)
		}
	}
	return ""
}

// statusContent: the sidecar.istio.io/status annotation of the result is a truthful record - every name it lists is in
// the pod (containers may sit in either list: native sidecars), and everything the pod gained is listed.
func statusContent(orig, after *corev1.Pod) string {
	s := statusOf(after)
	if s == nil {
		return "FAIL status-content " + wire.Enc("no status annotation")
	}
	ctrs, vols := map[string]bool{}, map[string]bool{}
	for _, c := range append(append([]corev1.Container{}, after.Spec.Containers...), after.Spec.InitContainers...) {
		ctrs[c.Name] = true
	}
	for _, v := range after.Spec.Volumes {
		vols[v.Name] = true
	}
	listed := names(append(append([]string{}, s.Containers...), s.InitContainers...))
	for n := range listed {
		if !ctrs[n] {
			return "FAIL status-content " + wire.Enc("lists container "+n+" which is not in the pod")
		}
	}
	for _, n := range s.Volumes {
		if !vols[n] {
			return "FAIL status-content " + wire.Enc("lists volume "+n+" which is not in the pod")
		}
	}
	before := map[string]bool{}
	for _, c := range append(append([]corev1.Container{}, orig.Spec.Containers...), orig.Spec.InitContainers...) {
		before[c.Name] = true
	}
	for n := range ctrs {
		if !before[n] && !listed[n] {
			return "FAIL status-content " + wire.Enc("container "+n+" was added but is not recorded")
		}
	}
	beforeV := map[string]bool{}
	for _, v := range orig.Spec.Volumes {
		beforeV[v.Name] = true
	}
	lv := names(s.Volumes)
	for n := range vols {
		if !beforeV[n] && !lv[n] {
			return "FAIL status-content " + wire.Enc("volume "+n+" was added but is not recorded")
		}
	}
	return ""
}

func verdictOf(r *run) string {
	v := verdictOf1(r)
	if strings.HasPrefix(v, "FAIL ") && r.rerunCron != nil && !strings.HasPrefix(v, "FAIL decision-") && !strings.HasPrefix(v, "FAIL unloadable") {
		if v2 := verdictOf1(r.rerunCron()); strings.HasPrefix(v2, "OK ") || strings.HasPrefix(v2, "FAIL idempotent-") {
			// the failure disappears when the pod template's annotations are also on jobTemplate.metadata: known finding F10n
			return "FAIL cronjob-pod-template-annotations-ignored " + wire.Enc(strings.Fields(v)[1])
		}
	}
	return v
}

func verdictOf1(r *run) string {
	switch r.status {
	case "unloadable":
		// a configuration or an input of the check that does not load is a broken tie, never a pass
		return "FAIL unloadable " + wire.Enc(truncate(r.detail, 160))
	case "na":
		return "OK n/a"
	case "crash":
		return "FAIL crash " + wire.Enc(truncate(r.detail, 120))
	case "bad-patch":
		return "FAIL bad-patch " + wire.Enc(truncate(r.detail, 120))
	case "error-on-reinjection", "crash-on-reinjection", "bad-patch-on-reinjection":
		return "FAIL reinjection-errors " + wire.Enc(truncate(r.detail, 120))
	}
	// the decision of this admission against the documented precedence
	want, clause := documentedConcrete(decisionInputs(r))
	refusal := refusalExpectation(r)
	switch r.status {
	case "error":
		if !want {
			return "FAIL decision-refused-but-documented-skip " + clause
		}
		if refusal == "no" {
			return "FAIL unexpected-refusal " + wire.Enc(truncate(r.detail, 160))
		}
		return "OK rejected"
	case "skipped":
		if want {
			return "FAIL decision-skipped-but-documented-inject " + clause
		}
		if !jsonEqual(r.origJSON, r.onceJSON) {
			return "FAIL skipped-but-changed"
		}
		return "OK skipped"
	}
	if !want {
		return "FAIL decision-injected-but-documented-skip " + clause
	}
	if refusal == "must" {
		return "FAIL expected-refusal-but-injected"
	}
	if v := preserved("preserve-once", r.orig, r.once); v != "" {
		return v
	}
	if v := preserved("preserve-twice", r.orig, r.twice); v != "" {
		return v
	}
	for _, p := range []*corev1.Pod{r.once, r.twice} {
		seen := map[string]bool{}
		for _, c := range append(append([]corev1.Container{}, p.Spec.Containers...), p.Spec.InitContainers...) {
			if seen[c.Name] {
				return "FAIL duplicate-container-name " + wire.Enc(c.Name)
			}
			seen[c.Name] = true
		}
	}
	for _, p := range []*corev1.Pod{r.once, r.twice} {
		if !reflect.DeepEqual(p.Spec.EphemeralContainers, r.orig.Spec.EphemeralContainers) {
			return "FAIL preserve-ephemeral " + wire.Enc("ephemeral containers changed")
		}
	}
	if so := statusOf(r.orig); so == nil || len(so.Containers)+len(so.InitContainers)+len(so.Volumes) == 0 {
		if v := statusContent(r.orig, r.once); v != "" {
			return v
		}
	}
	if v := statusFields(r); v != "" {
		return v
	}
	if v := networkExpectation(r); v != "" {
		return v
	}
	if v := configExpectation(r); v != "" {
		return v
	}
	if v := funcsExpectation(r); v != "" {
		return v
	}
	if !jsonEqual(r.onceJSON, r.twiceJSON) {
		if k := knownClass(r); k != "" {
			// known findings F10e / F10g, classified exactly: see notes/C19.md
			return "FAIL " + k + " " + wire.Enc(firstDiff(r.onceJSON, r.twiceJSON))
		}
		return "FAIL idempotent " + wire.Enc(firstDiff(r.onceJSON, r.twiceJSON))
	}
	return "OK injected"
}

// networkExpectation (oracle only): the network of the workload is, in this order, the pod's topology.istio.io/network
// label, the `net` element of the inject URL path, values.global.network; the injected pod carries it as that label and
// the sidecar's ISTIO_META_NETWORK says the same (exactly once); without any of the three there is neither.
func networkExpectation(r *run) string {
	if r.kind == "kubeinject" || r.l == nil {
		return ""
	}
	const key = "topology.istio.io/network"
	want, explicit := r.orig.Labels[key]
	if !explicit {
		if n, ok := r.l.pathEnvs["ISTIO_META_NETWORK"]; ok {
			want = n
		} else {
			want = r.l.wh.GetConfig().Values.Struct().GetGlobal().GetNetwork()
		}
	}
	for _, p := range []*corev1.Pod{r.once, r.twice} {
		got, has := p.Labels[key]
		if got != want || (has && want == "" && !explicit) {
			return "FAIL network-label " + wire.Enc(fmt.Sprintf("label=%q present=%v want %q", got, has, want))
		}
		sc := inject.FindSidecar(p)
		if sc == nil || !hasTemplate(r, inject.SidecarTemplateName) || userProxySetsEnv(r.orig, "ISTIO_META_NETWORK") {
			continue
		}
		n, env := 0, ""
		for _, e := range sc.Env {
			if e.Name == "ISTIO_META_NETWORK" {
				n++
				env = e.Value
			}
		}
		if n > 1 || env != want {
			return "FAIL network-env " + wire.Enc(fmt.Sprintf("ISTIO_META_NETWORK x%d = %q want %q", n, env, want))
		}
	}
	return ""
}

// statusFields (oracle only): the other fields of the status record - the revision is the injector's ("default" for the
// webhook of the harness and for kube-inject without one), every image pull secret it lists is on the pod, and every pull
// secret the pod gained is listed.
func statusFields(r *run) string {
	s := statusOf(r.once)
	if s == nil {
		return ""
	}
	if s.Revision != "default" {
		return "FAIL status-fields " + wire.Enc(fmt.Sprintf("revision %q", s.Revision))
	}
	have, before := map[string]bool{}, map[string]bool{}
	for _, p := range r.once.Spec.ImagePullSecrets {
		have[p.Name] = true
	}
	for _, p := range r.orig.Spec.ImagePullSecrets {
		before[p.Name] = true
	}
	listed := names(s.ImagePullSecrets)
	for n := range listed {
		if !have[n] {
			return "FAIL status-fields " + wire.Enc("lists image pull secret "+n+" which is not on the pod")
		}
	}
	if so := statusOf(r.orig); so == nil {
		for n := range have {
			if !before[n] && !listed[n] {
				return "FAIL status-fields " + wire.Enc("image pull secret "+n+" was added but is not recorded")
			}
		}
	}
	return ""
}

// funcsExpectation (oracle only): the `verif` template of rendering `funcs` - applicationPorts lists the TCP ports of the
// containers but istio-proxy in order, env falls back to its default, ProxyUID/GID are the defaults without a namespace.
func funcsExpectation(r *run) string {
	if r.l == nil || !strings.Contains(strings.ReplaceAll(r.orig.Annotations["inject.istio.io/templates"], " ", ""), "verif") {
		return ""
	}
	var ports []string
	for _, c := range r.orig.Spec.Containers {
		if c.Name == inject.ProxyContainerName {
			continue
		}
		for _, p := range c.Ports {
			if p.Protocol == corev1.ProtocolUDP || p.Protocol == corev1.ProtocolSCTP {
				continue
			}
			ports = append(ports, strconv.Itoa(int(p.ContainerPort)))
		}
	}
	want := map[string]string{"VERIF_APPLICATION_PORTS": strings.Join(ports, ","), "VERIF_ENV_DEFAULT": "dflt", "VERIF_PROXY_UID": "1337:1337"}
	for _, p := range []*corev1.Pod{r.once, r.twice} {
		sc := inject.FindSidecar(p)
		if sc == nil {
			return "FAIL template-funcs " + wire.Enc("no sidecar")
		}
		for k, w := range want {
			got, n := "", 0
			for _, e := range sc.Env {
				if e.Name == k {
					got = e.Value
					n++
				}
			}
			if n != 1 || got != w {
				return "FAIL template-funcs " + wire.Enc(fmt.Sprintf("%s x%d = %q want %q", k, n, got, w))
			}
		}
	}
	return ""
}

// configExpectation (oracle only): variables named on the inject URL path reach the sidecar exactly once with their value;
// the InjectedAnnotations of the configuration are on the injected pod.
func configExpectation(r *run) string {
	if r.kind == "kubeinject" || r.l == nil {
		return ""
	}
	for _, p := range []*corev1.Pod{r.once, r.twice} {
		if sc := inject.FindSidecar(p); sc != nil {
			for k, want := range r.l.pathEnvs {
				if k == "ISTIO_META_NETWORK" {
					continue // networkExpectation (the pod's label has precedence)
				}
				n, got := 0, ""
				for _, e := range sc.Env {
					if e.Name == k {
						n++
						got = e.Value
					}
				}
				if n != 1 || got != want {
					return "FAIL path-env " + wire.Enc(fmt.Sprintf("%s x%d = %q want %q", k, n, got, want))
				}
			}
		}
		for k, v := range r.l.expect.InjectedAnnotations {
			if p.Annotations[k] != v {
				return "FAIL injected-annotations " + wire.Enc(fmt.Sprintf("%s=%q want %q", k, p.Annotations[k], v))
			}
		}
	}
	return ""
}

func userProxySetsEnv(orig *corev1.Pod, name string) bool {
	for _, c := range append(append([]corev1.Container{}, orig.Spec.Containers...), orig.Spec.InitContainers...) {
		if c.Name == inject.ProxyContainerName {
			for _, e := range c.Env {
				if e.Name == name {
					return true
				}
			}
		}
	}
	return strings.Contains(orig.Annotations[annotation.ProxyOverrides.Name], name)
}

// hasTemplate: the pod is injected with (exactly) the named template.
func hasTemplate(r *run, name string) bool {
	a, f := r.orig.Annotations["inject.istio.io/templates"]
	if !f {
		return len(r.l.cfg.DefaultTemplates) == 1 && r.l.cfg.DefaultTemplates[0] == name
	}
	return strings.TrimSpace(a) == name
}

// knownClass classifies a difference between once and twice as one of the known findings by PREDICTING the second pod:
//
//	F10e podports  - the pod customises the sidecar with a container (or recorded override) named istio-proxy that
//	                 declares ports. Predicted: everything equal except the value of the sidecar's ISTIO_META_POD_PORTS, and
//	                 there: the ports of the application containers are the same multiset; the first list additionally has
//	                 exactly the ports of the user's istio-proxy if that is a regular container of the pod (else of an
//	                 overrides entry under `containers`), the second exactly the ports of the entry the first injection
//	                 recorded under `containers` (none when the sidecar is a native sidecar: the user's port disappears).
//	F10g env order - the injector was given cluster / network variables (values.global.multiCluster.clusterName,
//	                 values.global.network, an inject URL path or the pod's topology.istio.io/network label). Predicted: the
//	                 sidecar's env list of the second pod is the first list with these variables taken out and re-appended,
//	                 sorted by name, at the END (which is what updateClusterEnvs does); variables the user's own istio-proxy
//	                 customisation supplies may sit anywhere (the strategic merge aligns them against the hole), nothing else
//	                 moves or changes.
//
// A pod in both classes is reported under the first. Anything the prediction does not produce is a violation.
func knownClass(r *run) string {
	if r.once == nil || r.twice == nil {
		return ""
	}
	var userPortList []corev1.ContainerPort // any ports the user's customisation declares (class membership)
	userEnv := map[string]bool{}
	userProxy := func(c corev1.Container) {
		if c.Name != inject.ProxyContainerName {
			return
		}
		userPortList = append(userPortList, c.Ports...)
		for _, e := range c.Env {
			userEnv[e.Name] = true
		}
	}
	overridePorts := func(p *corev1.Pod) []corev1.ContainerPort { // ports of an istio-proxy entry recorded under `containers`
		var pc inject.ParsedContainers
		if json.Unmarshal([]byte(p.Annotations[annotation.ProxyOverrides.Name]), &pc) == nil {
			for _, c := range pc.Containers {
				if c.Name == inject.ProxyContainerName {
					return c.Ports
				}
			}
		}
		return nil
	}
	// What the template sees (ISTIO_META_POD_PORTS ranges over the REGULAR containers of the pod it is handed):
	// first injection - the user's istio-proxy if it is a regular container of the pod, else an entry re-inserted from an
	// overrides annotation's `containers` list; second injection - the injected sidecar is stripped and the entry the first
	// injection recorded under `containers` is re-inserted.
	var firstPorts []corev1.ContainerPort
	regular := false
	for _, c := range r.orig.Spec.Containers {
		if c.Name == inject.ProxyContainerName {
			firstPorts, regular = c.Ports, true
		}
	}
	if !regular {
		firstPorts = overridePorts(r.orig)
	}
	secondPorts := overridePorts(r.once)
	if ov, ok := r.orig.Annotations[annotation.ProxyOverrides.Name]; ok { // a recorded override wins over the container
		var pc inject.ParsedContainers
		if json.Unmarshal([]byte(ov), &pc) == nil {
			for _, c := range pc.AllContainers() {
				userProxy(c)
			}
		}
	}
	for _, c := range append(append([]corev1.Container{}, r.orig.Spec.Containers...), r.orig.Spec.InitContainers...) {
		userProxy(c)
	}
	// the cluster variables this admission is given, as the harness states them
	cv := map[string]bool{}
	if r.l != nil {
		g := r.l.wh.GetConfig().Values.Struct().GetGlobal()
		if g.GetMultiCluster().GetClusterName() != "" {
			cv["ISTIO_META_CLUSTER_ID"] = true
		}
		if g.GetNetwork() != "" {
			cv["ISTIO_META_NETWORK"] = true
		}
		if _, netLabel := r.orig.Labels["topology.istio.io/network"]; netLabel {
			cv["ISTIO_META_NETWORK"] = true
		}
		if r.kind != "kubeinject" {
			for k := range r.l.pathEnvs {
				cv[k] = true
			}
		}
	}
	sidecars := func(p *corev1.Pod) (out []*corev1.Container, native bool) {
		for i := range p.Spec.Containers {
			if p.Spec.Containers[i].Name == inject.ProxyContainerName {
				out = append(out, &p.Spec.Containers[i])
			}
		}
		for i := range p.Spec.InitContainers {
			if p.Spec.InitContainers[i].Name == inject.ProxyContainerName {
				out = append(out, &p.Spec.InitContainers[i])
				native = true
			}
		}
		return
	}
	// canonical multiset of the elements of a POD_PORTS value
	ports := func(v string) (map[string]int, bool) {
		var l []map[string]any
		if strings.TrimSpace(v) == "" {
			return map[string]int{}, true
		}
		if json.Unmarshal([]byte(v), &l) != nil {
			return nil, false
		}
		m := map[string]int{}
		for _, e := range l {
			b, _ := json.Marshal(e)
			m[string(b)]++
		}
		return m, true
	}
	podPorts := func(c *corev1.Container) string {
		for _, e := range c.Env {
			if e.Name == "ISTIO_META_POD_PORTS" {
				return e.Value
			}
		}
		return ""
	}
	portsPredicted := func() bool {
		s1, native := sidecars(r.once)
		s2, _ := sidecars(r.twice)
		if len(s1) != 1 || len(s2) != 1 {
			return false
		}
		m1, ok1 := ports(podPorts(s1[0]))
		m2, ok2 := ports(podPorts(s2[0]))
		if !ok1 || !ok2 {
			return false
		}
		_ = native
		// base ports (of the application containers) are equal: take the predicted user ports out of each side
		take := func(m map[string]int, l []corev1.ContainerPort) bool {
			for _, p := range l {
				b, _ := json.Marshal(p)
				var e map[string]any
				_ = json.Unmarshal(b, &e)
				cb, _ := json.Marshal(e)
				if m[string(cb)] == 0 {
					return false
				}
				m[string(cb)]--
				if m[string(cb)] == 0 {
					delete(m, string(cb))
				}
			}
			return true
		}
		return take(m1, firstPorts) && take(m2, secondPorts) && reflect.DeepEqual(m1, m2)
	}
	// env prediction for F10g: twice (without the user's variables) = once (without the user's and the cluster variables, in
	// order) ++ the cluster variables sorted by name; the user's variables are the same multiset
	envPredicted := func(e1, e2 []corev1.EnvVar) bool {
		var rest1, rest2, cv2, u1, u2 []corev1.EnvVar
		cvVal1 := map[string]corev1.EnvVar{}
		for _, e := range e1 {
			switch {
			case userEnv[e.Name]:
				u1 = append(u1, e)
			case cv[e.Name]:
				cvVal1[e.Name] = e
			default:
				rest1 = append(rest1, e)
			}
		}
		tail := false
		for _, e := range e2 {
			switch {
			case userEnv[e.Name]:
				u2 = append(u2, e)
			case cv[e.Name]:
				cv2 = append(cv2, e)
				tail = true
			default:
				if tail {
					return false // something follows the re-appended cluster variables
				}
				rest2 = append(rest2, e)
			}
		}
		if !reflect.DeepEqual(rest1, rest2) || len(cv2) != len(cvVal1) {
			return false
		}
		for i, e := range cv2 {
			if i > 0 && cv2[i-1].Name >= e.Name {
				return false // not sorted
			}
			if !reflect.DeepEqual(cvVal1[e.Name], e) {
				return false
			}
		}
		key := func(l []corev1.EnvVar) []string {
			var o []string
			for _, e := range l {
				b, _ := json.Marshal(e)
				o = append(o, string(b))
			}
			sort.Strings(o)
			return o
		}
		return reflect.DeepEqual(key(u1), key(u2))
	}
	// the pods with the parts a class predicts separately taken out
	strip := func(p *corev1.Pod, blankPorts, dropEnv bool) []byte {
		q := p.DeepCopy()
		sc, _ := sidecars(q)
		for _, c := range sc {
			if blankPorts {
				for j := range c.Env {
					if c.Env[j].Name == "ISTIO_META_POD_PORTS" {
						c.Env[j].Value = ""
					}
				}
			}
			if dropEnv {
				c.Env = nil
			}
		}
		b, _ := json.Marshal(q)
		return b
	}
	envOK := func(blankPorts bool) bool {
		p1, p2 := r.once.DeepCopy(), r.twice.DeepCopy()
		s1, _ := sidecars(p1)
		s2, _ := sidecars(p2)
		if len(s1) != 1 || len(s2) != 1 {
			return false
		}
		e1, e2 := s1[0].Env, s2[0].Env
		if blankPorts {
			blank := func(l []corev1.EnvVar) []corev1.EnvVar {
				o := append([]corev1.EnvVar{}, l...)
				for j := range o {
					if o[j].Name == "ISTIO_META_POD_PORTS" {
						o[j].Value = ""
					}
				}
				return o
			}
			e1, e2 = blank(e1), blank(e2)
		}
		return envPredicted(e1, e2)
	}
	userPorts := len(userPortList) > 0
	clusterVars := len(cv) > 0
	if userPorts && jsonEqual(strip(r.once, true, false), strip(r.twice, true, false)) && portsPredicted() {
		return "idempotent-podports-user-proxy-ports"
	}
	if clusterVars && jsonEqual(strip(r.once, false, true), strip(r.twice, false, true)) && envOK(false) {
		return "idempotent-sidecar-env-order-cluster-vars"
	}
	if userPorts && clusterVars && jsonEqual(strip(r.once, true, true), strip(r.twice, true, true)) && portsPredicted() && envOK(true) {
		return "idempotent-podports-user-proxy-ports"
	}
	return ""
}

func jsonEqual(a, b []byte) bool {
	var x, y any
	if json.Unmarshal(a, &x) != nil || json.Unmarshal(b, &y) != nil {
		return false
	}
	return reflect.DeepEqual(x, y)
}

// firstDiff names the first JSON path at which two documents differ.
func firstDiff(a, b []byte) string {
	var x, y any
	_ = json.Unmarshal(a, &x)
	_ = json.Unmarshal(b, &y)
	return diffPath("", x, y)
}

func diffPath(path string, x, y any) string {
	if reflect.DeepEqual(x, y) {
		return ""
	}
	switch xv := x.(type) {
	case map[string]any:
		yv, ok := y.(map[string]any)
		if !ok {
			return path
		}
		keys := map[string]bool{}
		for k := range xv {
			keys[k] = true
		}
		for k := range yv {
			keys[k] = true
		}
		var ks []string
		for k := range keys {
			ks = append(ks, k)
		}
		sort.Strings(ks)
		for _, k := range ks {
			if d := diffPath(path+"/"+k, xv[k], yv[k]); d != "" {
				return d
			}
		}
	case []any:
		yv, ok := y.([]any)
		if !ok {
			return path
		}
		for i := 0; i < len(xv) && i < len(yv); i++ {
			if d := diffPath(fmt.Sprintf("%s/%d", path, i), xv[i], yv[i]); d != "" {
				return d
			}
		}
		return fmt.Sprintf("%s(len %d vs %d)", path, len(xv), len(yv))
	}
	return fmt.Sprintf("%s: %v != %v", path, truncate(fmt.Sprint(x), 60), truncate(fmt.Sprint(y), 60))
}

func oracleInject(in, out string) {
	defer cleanupTmp()
	o := wire.Create(out)
	defer o.Close()
	pendingCase := false
	for _, toks := range wire.ReadLines(in) {
		if toks[0] == "case" {
			if pendingCase {
				o.Line("OK empty")
			}
			pendingCase = true
			continue
		}
		if !pendingCase {
			continue
		}
		pendingCase = false
		o.Line(verdictOf(runOp(toks)))
		o.Flush()
	}
	if pendingCase {
		o.Line("OK empty")
	}
}

func dumpInject(in string) {
	defer cleanupTmp()
	for _, toks := range wire.ReadLines(in) {
		if toks[0] == "case" {
			continue
		}
		r := runOp(toks)
		fmt.Println(r.status, r.detail, verdictOf(r))
		_ = os.WriteFile("orig.json", r.origJSON, 0o644)
		_ = os.WriteFile("once.json", r.onceJSON, 0o644)
		_ = os.WriteFile("twice.json", r.twiceJSON, 0o644)
		return
	}
}
