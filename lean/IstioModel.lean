-- Root of the `IstioModel` library: shared helpers only.  Per-property modules
-- (`IstioModel.Cxx.*`) are built by name by the check driver and by `lake build` through the
-- `IstioAll` aggregate below.
import IstioModel.Common.Wire
import IstioModel.Common.Audit
