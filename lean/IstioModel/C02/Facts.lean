import IstioModel.C02.Model

/-
C02 - what a push request *says*, as far as the property is concerned: the changed config keys,
addresses and waypoints it names and whether it is forced.  "No update is lost or weakened" is
about these facts; snapshots, reasons and start times are handled separately.
-/
namespace IstioModel.C02

inductive Fact
  | cfg (k : String) | adr (k : String) | wp (k : String) | forced
  deriving DecidableEq, Repr

def factsV (v : View) : List Fact :=
  (keys v.configs).map .cfg ++ (keys v.addrs).map .adr ++ (keys v.wps).map .wp ++
    (if v.forced then [.forced] else [])

/-- Changed keys and the forced flag of the request behind a pointer (nothing for nil). -/
def facts (h : Heap) (r : Option Ref) : List Fact :=
  match viewAt h r with
  | none => []
  | some v => factsV v


end IstioModel.C02
