import IstioModel.C02.PipeLemmas

/-!
# C02 - end to end: from `ConfigUpdate` to `Event.pushRequest` of every connected proxy

"Every change notification accepted by the control plane is carried into a push that every
connected proxy eventually receives ..."

`pipeline_no_loss`: in every state the composed system (`Pipe.lean`: push channel, debounce loop,
`pushFn` = `Push`/`AdsPushAll`/`StartPush` over all registered connections, push queue, sender, stream
loops) can reach - any interleaving of producers, timers, push completions, sender steps, clients
closing at any moment, server stop - and for every connection `c` that is registered, every fact
(changed key, forced flag) of every notification accepted **since the last `mark`** is in one of
these places:

  still in the push channel · pending in the debounce loop · in a `pushFn` that has not reached
  `StartPush` yet · waiting for `c` in the push queue · in `c`'s parked push event ·
  **received by `c`'s stream loop as `Event.pushRequest` since that `mark`** ·
  or given up (since the mark) by an exit that is only taken when `c`'s stream is closed or the
  server stops.

`mark` is a ghost event that may occur anywhere in a history (it empties the logs and nothing else),
so this is a statement about occurrences, not about key sets accumulated over the whole history: a
notification that repeats keys delivered long ago must be delivered again after it was accepted.

`pipeline_delivered_at_rest`: hence, once the first five are empty and `c` is alive, `c` has
received it (since the mark).  (That they do become empty is the liveness part:
`debounce_eventually`, `fifo_fair`, `loop_can_proceed`, `flight_exit_releases`, under fairness.)

`register` (a connection appearing later, e.g. a reconnect) is **not** covered: the set of
connections is fixed from the start, `unregister` is allowed.  `addCon` happening before
`MarkInitialized` is covered by the tie (stream `server`) only.
-/
namespace IstioModel.C02

/-- The debounce history only grows. -/
theorem stepD_pushed_prefix (o : DOpts) (s s' : DB) (e : Ev) (h : stepD o s e = some s') :
    s.pushed <+: s'.pushed ∧ s.edsPushed <+: s'.edsPushed := by
  have pw : ∀ t : DB, t.pushed <+: (pushWorker o t).pushed ∧ t.edsPushed <+: (pushWorker o t).edsPushed := by
    intro t
    unfold pushWorker
    split
    · cases t.req with
      | none => exact ⟨List.prefix_refl _, List.prefix_refl _⟩
      | some v => exact ⟨List.prefix_append _ _, List.prefix_refl _⟩
    · exact ⟨List.prefix_refl _, List.prefix_refl _⟩
  cases e with
  | tick d => simp only [stepD, Option.some.injEq] at h; subst h; exact ⟨List.prefix_refl _, List.prefix_refl _⟩
  | recv r =>
    simp only [stepD, Option.some.injEq] at h; subst h
    unfold onRecv; simp only []
    split
    · exact ⟨List.prefix_refl _, List.prefix_append _ _⟩
    · exact ⟨List.prefix_refl _, List.prefix_refl _⟩
  | timer =>
    simp only [stepD] at h
    cases ht : s.timerAt with
    | none => simp [ht] at h
    | some t =>
      simp only [ht] at h
      split at h
      · simp only [Option.some.injEq] at h; subst h
        split
        · exact pw { s with timerAt := none }
        · exact ⟨List.prefix_refl _, List.prefix_refl _⟩
      · cases h
  | pushReturn =>
    simp only [stepD] at h
    cases hr : s.running with
    | nil => simp [hr] at h
    | cons a rest =>
      simp only [hr] at h
      split at h
      · cases h
      · simp only [Option.some.injEq] at h; subst h; exact ⟨List.prefix_refl _, List.prefix_refl _⟩
  | freeRecv =>
    simp only [stepD] at h
    split at h
    · simp only [Option.some.injEq] at h; subst h; exact pw { s with freeTok := false, free := true }
    · cases h
  | edsReturn =>
    simp only [stepD] at h
    cases hr : s.edsRunning with
    | nil => simp [hr] at h
    | cons a rest => simp only [hr, Option.some.injEq] at h; subst h; exact ⟨List.prefix_refl _, List.prefix_refl _⟩

theorem mem_factsL_of_prefix {l l' : List View} (hp : l <+: l') (x : Fact) :
    x ∈ factsL l' ↔ x ∈ factsL l ∨ x ∈ factsL (l'.drop l.length) := by
  obtain ⟨t, rfl⟩ := hp
  simp [factsL_append]

theorem mem_newPushes (o : DOpts) (s s' : DB) (e : Ev) (h : stepD o s e = some s') (x : Fact) :
    (x ∈ factsL s'.pushed ∨ x ∈ factsL s'.edsPushed) ↔
      ((x ∈ factsL s.pushed ∨ x ∈ factsL s.edsPushed) ∨ x ∈ factsL (newPushes s s')) := by
  obtain ⟨h1, h2⟩ := stepD_pushed_prefix o s s' e h
  rw [mem_factsL_of_prefix h1, mem_factsL_of_prefix h2]
  simp only [newPushes, factsL_append, List.mem_append]
  constructor
  · rintro ((h | h) | (h | h)) <;> simp [h]
  · rintro ((h | h) | (h | h)) <;> simp [h]

/-! ## The invariant -/

/-- Where the facts enqueued for `c` can be. -/
def Held (p : Pipe) (c : Conn) (x : Fact) : Prop :=
  x ∈ logOf p.seenLog c ∨ x ∈ logOf p.dropLog c ∨ x ∈ mail p.snd.q c ∨ x ∈ flightFacts p.snd c

structure PInv (p : Pipe) : Prop where
  sI : InvS p.snd
  dI : InvD p.opts p.db
  /-- parked push events point to existing requests -/
  fl : ∀ f, f ∈ p.snd.parked → okRef p.snd.q.heap.reqs.length f.2 = true
  /-- accepted (since the mark) ⊆ still in the channel ∪ taken by the debounce loop (since the mark) -/
  acc : ∀ x, x ∈ factsL p.accepted → (x ∈ factsL p.chan ∨ x ∈ p.recvS)
  /-- taken by the loop ⊆ handed to `pushFn` ∪ pending -/
  deb : ∀ x, x ∈ p.recvS → (x ∈ p.pushS ∨ x ∈ factsO p.db.req)
  /-- handed to `pushFn` ⊆ not yet at `StartPush` ∪ enqueued for every registered connection -/
  bro : p.snd.q.down = false → ∀ c, c ∈ p.conns → ∀ x, x ∈ p.pushS → (x ∈ factsL p.toStart ∨ x ∈ logOf p.enqLog c)
  /-- per connection: enqueued ⊆ received by its stream loop ∪ given up ∪ waiting in the queue ∪ in its parked event -/
  sl : ∀ c x, x ∈ logOf p.enqLog c → Held p c x
  /-- push events are given up only for a closed stream or a stopping server -/
  dr : ∀ c, logOf p.dropLog c ≠ [] → (p.snd.closed c = true ∨ p.snd.stopped = true)

/-- Histories of the theorem: no connection registers later (see the header). -/
def PEv.ok : PEv → Prop
  | .register _ => False
  | _ => True

theorem flightFacts_of_parked_heap (s s' : Sender) (c : Conn) (hp : s'.parked = s.parked)
    (hh : s'.q.heap = s.q.heap) : flightFacts s' c = flightFacts s c := by
  simp only [flightFacts, hp, hh]

/-- Sender events that touch neither the queue tables nor the flights. -/
theorem pinv_snd_neutral (p : Pipe) (s' : Sender) (hi : PInv p) (hs : InvS s')
    (hq : s'.q.pending = p.snd.q.pending ∧ s'.q.processing = p.snd.q.processing ∧ s'.q.heap = p.snd.q.heap)
    (hp : s'.parked = p.snd.parked) (hdown : s'.q.down = false → p.snd.q.down = false)
    (hcl : ∀ c, p.snd.closed c = true → s'.closed c = true) (hst : p.snd.stopped = true → s'.stopped = true) :
    PInv { p with snd := s' } := by
  have hmail : ∀ c, mail s'.q c = mail p.snd.q c := by
    intro c; simp only [mail, pendingOf, procOf, hq.1, hq.2.1, hq.2.2]
  refine { sI := hs, dI := hi.dI, fl := ?_, acc := hi.acc, deb := hi.deb, bro := fun hd => hi.bro (hdown hd), sl := ?_, dr := ?_ }
  · intro f hf; rw [hp] at hf; rw [hq.2.2]; exact hi.fl f hf
  · intro c x hx
    have := hi.sl c x hx
    simp only [Held, hmail c, flightFacts_of_parked_heap p.snd s' c hp hq.2.2] at this ⊢
    exact this
  · intro c hc
    rcases hi.dr c hc with h | h
    · exact Or.inl (hcl c h)
    · exact Or.inr (hst h)

theorem parked_nodup (s : Sender) (hi : InvS s) : (s.parked.map (·.1)).Nodup := by
  have := hi.nodup
  simp only [inflight, List.map_append] at this
  exact (List.nodup_append.mp this).1

/-- A closed-stream / server-stop exit of `c`'s parked push event. -/
theorem pinv_exit (p : Pipe) (hi : PInv p) (c : Conn) (f : Flight) (rest : List Flight)
    (htk : takeFlight c p.snd.parked = some (f, rest))
    (hS : InvS (doneFunc { p.snd with parked := rest } c))
    (hwhy : p.snd.closed c = true ∨ p.snd.stopped = true) :
    PInv { p with snd := doneFunc { p.snd with parked := rest } c
                  dropLog := p.dropLog ++ [(c, flightPush p.snd c, flightFacts p.snd c)] } := by
  have hnd := parked_nodup p.snd hi.sI
  have hperm := (takeFlight_spec c _ f rest htk).2
  refine { sI := hS, dI := hi.dI, fl := ?_, acc := hi.acc, deb := hi.deb, bro := ?_, sl := ?_, dr := ?_ }
  · intro g hg; simp only [doneFunc, markDone_heap]
    exact hi.fl g (hperm.mem_iff.mpr (List.mem_cons_of_mem _ hg))
  · intro hd; simp only [doneFunc, markDone_down] at hd; exact hi.bro hd
  · intro c' x hx
    have hold := hi.sl c' x hx
    simp only [Held, flightFacts_L, mem_logOf_snoc] at hold ⊢
    simp only [doneFunc, markDone_heap, mail_markDone p.snd.q hi.sI.qinv c c' x]
    by_cases hcc : c' = c
    · subst hcc
      have hf1 : flightFactsL p.snd.q.heap rest c' = [] := by
        simp only [flightFactsL, flightRef_take_self _ _ _ _ htk hnd]
      simp only [hf1, List.not_mem_nil, or_false, true_and]
      rcases hold with h | h | h | h <;> simp [h]
    · have hf1 : flightFactsL p.snd.q.heap rest c' = flightFactsL p.snd.q.heap p.snd.parked c' := by
        simp only [flightFactsL, flightRef_take_other _ _ _ _ _ htk hcc]
      simp only [hcc, false_and, or_false, hf1]
      exact hold
  · intro c' hc'
    by_cases hcc : c' = c
    · subst hcc; simpa [doneFunc] using hwhy
    · have : logOf (p.dropLog ++ [(c, flightPush p.snd c, flightFacts p.snd c)]) c' = logOf p.dropLog c' := by
        unfold logOf
        have hne : ¬ c = c' := fun e => hcc e.symm
        simp [List.filter_append, hne]
      rw [this] at hc'
      simpa [doneFunc] using hi.dr c' hc'

theorem pinv_step (p p' : Pipe) (e : PEv) (hi : PInv p) (hok : e.ok) (h : stepP p e = some p') : PInv p' := by
  cases e with
  | register c => exact absurd hok id
  | mark =>
    simp only [stepP, Option.some.injEq] at h; subst h
    exact { sI := hi.sI, dI := hi.dI, fl := hi.fl, acc := by intro x hx; simp [factsL] at hx,
            deb := by intro x hx; simp at hx, bro := by intro _ c _ x hx; simp at hx,
            sl := by intro c x hx; simp [logOf_nil] at hx, dr := by intro c hc; simp [logOf_nil] at hc }
  | unregister c =>
    simp only [stepP, Option.some.injEq] at h; subst h
    exact { hi with bro := fun hd c' hc' => hi.bro hd c' (List.mem_filter.mp hc').1 }
  | configUpdate v =>
    simp only [stepP] at h
    split at h
    · simp only [Option.some.injEq] at h; subst h
      refine { hi with acc := ?_ }
      intro x hx
      simp only [factsL_append, List.mem_append] at hx ⊢
      rcases hx with hx | hx
      · rcases hi.acc x hx with h | h
        · exact Or.inl (Or.inl h)
        · exact Or.inr h
      · exact Or.inl (Or.inr hx)
    · cases h
  | recv =>
    simp only [stepP] at h
    cases hc : p.chan with
    | nil => simp [hc] at h
    | cons v rest =>
      simp only [hc] at h
      cases hs : stepD p.opts p.db (.recv v) with
      | none => simp [hs] at h
      | some db' =>
        simp only [hs, Option.some.injEq] at h; subst h
        have hflow := fun x => stepD_req_flow p.opts p.db db' (.recv v) hs x
        refine { sI := hi.sI, dI := invD_step _ _ _ _ hi.dI hs, fl := hi.fl, acc := ?_, deb := ?_, bro := ?_, sl := hi.sl, dr := hi.dr }
        · intro x hx
          rcases hi.acc x hx with h | h
          · rw [hc] at h
            have : factsL (v :: rest) = factsV v ++ factsL rest := by simp [factsL]
            rw [this, List.mem_append] at h
            rcases h with h | h
            · exact Or.inr (List.mem_append.mpr (Or.inr h))
            · exact Or.inl h
          · exact Or.inr (List.mem_append.mpr (Or.inl h))
        · intro x hx
          simp only [List.mem_append] at hx ⊢
          have hL : ∀ l : List View, l.flatMap factsV = factsL l := fun _ => rfl
          rw [hL]
          rcases hx with hx | hx
          · rcases hi.deb x hx with h | h
            · exact Or.inl (Or.inl h)
            · rcases (hflow x).1 h with h' | h'
              · exact Or.inr h'
              · exact Or.inl (Or.inr h')
          · rcases (hflow x).2 v rfl hx with h' | h'
            · exact Or.inr h'
            · exact Or.inl (Or.inr h')
        · intro hd c hcm x hx
          have hL : ∀ l : List View, l.flatMap factsV = factsL l := fun _ => rfl
          simp only [List.mem_append, hL, factsL_append] at hx ⊢
          rcases hx with hx | hx
          · rcases hi.bro hd c hcm x hx with h | h
            · exact Or.inl (Or.inl h)
            · exact Or.inr h
          · exact Or.inl (Or.inr hx)
  | deb e =>
    simp only [stepP] at h
    split at h
    · cases h
    · rename_i hne
      cases hs : stepD p.opts p.db e with
      | none => simp [hs] at h
      | some db' =>
        simp only [hs, Option.some.injEq] at h; subst h
        have hflow := fun x => stepD_req_flow p.opts p.db db' e hs x
        have hL : ∀ l : List View, l.flatMap factsV = factsL l := fun _ => rfl
        refine { sI := hi.sI, dI := invD_step _ _ _ _ hi.dI hs, fl := hi.fl, acc := hi.acc, deb := ?_, bro := ?_, sl := hi.sl, dr := hi.dr }
        · intro x hx
          simp only [List.mem_append, hL]
          rcases hi.deb x hx with h | h
          · exact Or.inl (Or.inl h)
          · rcases (hflow x).1 h with h' | h'
            · exact Or.inr h'
            · exact Or.inl (Or.inr h')
        · intro hd c hcm x hx
          simp only [List.mem_append, hL, factsL_append] at hx ⊢
          rcases hx with hx | hx
          · rcases hi.bro hd c hcm x hx with h | h
            · exact Or.inl (Or.inl h)
            · exact Or.inr h
          · exact Or.inl (Or.inr hx)
  | proxyUpdate c ver =>
    simp only [stepP] at h
    split at h
    · simp only [Option.some.injEq] at h; subst h
      have e := startPush_spec p.snd.q hi.sI.qinv hi.sI.nn (puView ver) [c]
      have hs' : InvS { p.snd with q := (enqueueAll { p.snd.q with heap := allocView p.snd.q.heap (puView ver) }
          p.snd.q.heap.reqs.length [c]) } :=
        { qinv := e.inv, balance := hi.sI.balance, bound := hi.sI.bound
          proc := fun c => by
            have := e.proc c
            have h2 := hi.sI.proc c
            simp only [inflight] at h2 ⊢
            rw [this]; exact h2
          nodup := hi.sI.nodup, once := hi.sI.once, nn := e.nn, alive := hi.sI.alive }
      refine { sI := hs', dI := hi.dI, fl := ?_, acc := hi.acc, deb := hi.deb, bro := ?_, sl := ?_, dr := hi.dr }
      · intro f hf; exact okRef_le e.le (hi.fl f hf)
      · intro hd c' hcm x hx
        have hd' : p.snd.q.down = false := by rw [← e.down]; exact hd
        simp only [hd', Bool.false_eq_true, if_false, mem_logOf_snoc]
        rcases hi.bro hd' c' hcm x hx with h | h
        · exact Or.inl h
        · exact Or.inr (Or.inl h)
      · intro c' x hx
        simp only [Held, flightFacts_L]
        rw [flightFactsL_grow _ _ _ c' e.le hi.sI.qinv.wf hi.fl, e.mail c' x]
        by_cases hd : p.snd.q.down = true
        · simp only [hd, if_true] at hx
          have hold := hi.sl c' x hx
          simp only [Held, flightFacts_L] at hold
          rcases hold with h | h | h | h <;> simp [h]
        · have hd' : p.snd.q.down = false := by simpa using hd
          simp only [hd', Bool.false_eq_true, if_false, mem_logOf_snoc] at hx
          rcases hx with hx | ⟨hcm, hx⟩
          · have hold := hi.sl c' x hx
            simp only [Held, flightFacts_L] at hold
            rcases hold with h | h | h | h <;> simp [h]
          · exact Or.inr (Or.inr (Or.inl (Or.inr ⟨hd', by simp [hcm], hx⟩)))
    · cases h
  | startPush =>
    simp only [stepP] at h
    cases ht : p.toStart with
    | nil => simp [ht] at h
    | cons v rest =>
      simp only [ht, Option.some.injEq] at h; subst h
      have e := startPush_spec p.snd.q hi.sI.qinv hi.sI.nn (prepPush (p.version + 1) v) p.conns
      have hs' : InvS { p.snd with q := (enqueueAll { p.snd.q with heap := allocView p.snd.q.heap (prepPush (p.version + 1) v) }
          p.snd.q.heap.reqs.length p.conns) } :=
        { qinv := e.inv, balance := hi.sI.balance, bound := hi.sI.bound
          proc := fun c => by
            have := e.proc c
            have h2 := hi.sI.proc c
            simp only [inflight] at h2 ⊢
            rw [this]; exact h2
          nodup := hi.sI.nodup, once := hi.sI.once, nn := e.nn, alive := hi.sI.alive }
      refine { sI := hs', dI := hi.dI, fl := ?_, acc := hi.acc, deb := hi.deb, bro := ?_, sl := ?_, dr := hi.dr }
      · intro f hf; exact okRef_le e.le (hi.fl f hf)
      · intro hd c hcm x hx
        have hd' : p.snd.q.down = false := by rw [← e.down]; exact hd
        simp only [hd', Bool.false_eq_true, if_false, mem_logOf_append_map]
        rcases hi.bro hd' c hcm x hx with h | h
        · rw [ht] at h
          have : factsL (v :: rest) = factsV v ++ factsL rest := by simp [factsL]
          rw [this, List.mem_append] at h
          rcases h with h | h
          · exact Or.inr (Or.inr ⟨hcm, h⟩)
          · exact Or.inl h
        · exact Or.inr (Or.inl h)
      · intro c x hx
        simp only [Held, flightFacts_L]
        rw [flightFactsL_grow _ _ _ c e.le hi.sI.qinv.wf hi.fl, e.mail c x, factsV_prepPush]
        by_cases hd : p.snd.q.down = true
        · simp only [hd, if_true] at hx
          have hold := hi.sl c x hx
          simp only [Held, flightFacts_L] at hold
          rcases hold with h | h | h | h <;> simp [h]
        · have hd' : p.snd.q.down = false := by simpa using hd
          simp only [hd', Bool.false_eq_true, if_false, mem_logOf_append_map] at hx
          rcases hx with hx | ⟨hcm, hx⟩
          · have hold := hi.sl c x hx
            simp only [Held, flightFacts_L] at hold
            rcases hold with h | h | h | h <;> simp [h]
          · exact Or.inr (Or.inr (Or.inl (Or.inr ⟨hd', hcm, hx⟩)))
  | snd e =>
    simp only [stepP] at h
    split at h
    · cases h
    · rename_i hne
      cases hs : stepS p.snd e with
      | none => simp [hs] at h
      | some s' =>
        have hok' : e.ok p.snd := by
          cases e <;> first | trivial | (simp [isEnq] at hne)
        have hS := invS_step p.snd s' e hi.sI hok' hs
        cases e with
        | enq c r => simp [isEnq] at hne
        | enter =>
          simp only [hs, Option.some.injEq] at h; subst h
          simp only [stepS] at hs; split at hs
          · simp only [Option.some.injEq] at hs; subst hs
            exact pinv_snd_neutral p _ hi hS ⟨rfl, rfl, rfl⟩ rfl id (fun _ h => h) id
          · cases hs
        | acquire =>
          simp only [hs, Option.some.injEq] at h; subst h
          simp only [stepS] at hs; split at hs
          · simp only [Option.some.injEq] at hs; subst hs
            exact pinv_snd_neutral p _ hi hS ⟨rfl, rfl, rfl⟩ rfl id (fun _ h => h) id
          · cases hs
        | loopStop =>
          simp only [hs, Option.some.injEq] at h; subst h
          simp only [stepS] at hs; split at hs
          · simp only [Option.some.injEq] at hs; subst hs
            exact pinv_snd_neutral p _ hi hS ⟨rfl, rfl, rfl⟩ rfl id (fun _ h => h) id
          · cases hs
        | close c =>
          simp only [hs, Option.some.injEq] at h; subst h
          simp only [stepS, Option.some.injEq] at hs; subst hs
          exact pinv_snd_neutral p _ hi hS ⟨rfl, rfl, rfl⟩ rfl id (fun c' h => by by_cases hc : c' = c <;> simp [hc, h]) id
        | stop =>
          simp only [hs, Option.some.injEq] at h; subst h
          simp only [stepS, Option.some.injEq] at hs; subst hs
          exact pinv_snd_neutral p _ hi hS ⟨rfl, rfl, rfl⟩ rfl id (fun _ h => h) (fun _ => rfl)
        | shut =>
          simp only [hs, Option.some.injEq] at h; subst h
          simp only [stepS, Option.some.injEq] at hs; subst hs
          exact pinv_snd_neutral p _ hi hS ⟨rfl, rfl, rfl⟩ rfl (fun hd => by simp [shutDown] at hd)
            (fun _ h => h) id
        | dequeue =>
          simp only [hs, Option.some.injEq] at h; subst h
          simp only [stepS] at hs
          split at hs
          · cases hres : dequeueRes p.snd.q with
            | blocked => simp [hres] at hs
            | shutdown =>
              simp only [hres, Option.some.injEq] at hs; subst hs
              exact pinv_snd_neutral p _ hi hS ⟨rfl, rfl, rfl⟩ rfl id (fun _ h => h) id
            | got c r =>
              have hq : ∃ rest, p.snd.q.queue = c :: rest := by
                unfold dequeueRes at hres
                cases hq : p.snd.q.queue with
                | nil => simp [hq] at hres; split at hres <;> cases hres
                | cons c' rest => simp only [hq, DeqRes.got.injEq] at hres; exact ⟨rest, by rw [hres.1]⟩
              obtain ⟨rest, hq⟩ := hq
              obtain ⟨i, hri⟩ := got_nonnil p.snd.q hi.sI.qinv hi.sI.nn c r rest hq hres
              subst hri
              have hpo : pendingOf p.snd.q c = some i := by
                have := dequeue_head p.snd.q c rest hq
                rw [hres] at this; simp only [DeqRes.got.injEq, true_and] at this; exact this.symm
              simp only [hres, Option.some.injEq] at hs; subst hs
              obtain ⟨hpn, _, _⟩ := dequeue_not_in_flight p.snd.q hi.sI.qinv c (some i) hres
              have hcn : c ∉ p.snd.parked.map (·.1) := by
                intro hm
                have : c ∈ inflight p.snd := by simp only [inflight, List.map_append, List.mem_append]; exact Or.inl hm
                have := (hi.sI.proc c).mpr this; rw [hpn] at this; cases this
              have hheap : (dequeueState p.snd.q).heap = p.snd.q.heap := by simp [dequeueState, hq]
              have hdown : (dequeueState p.snd.q).down = p.snd.q.down := by simp [dequeueState, hq]
              refine { sI := hS, dI := hi.dI, fl := ?_, acc := hi.acc, deb := hi.deb, bro := ?_, sl := ?_, dr := hi.dr }
              · intro f hf
                simp only [List.mem_append, List.mem_singleton] at hf
                rw [hheap]
                rcases hf with hf | hf
                · exact hi.fl f hf
                · subst hf
                  have := pendingOf_ok p.snd.q hi.sI.qinv c
                  rw [hpo] at this; exact this
              · intro hd; rw [hdown] at hd; exact hi.bro hd
              · intro c' x hx
                have hold := hi.sl c' x hx
                simp only [Held, flightFacts_L] at hold ⊢
                rw [hheap]
                by_cases hcc : c' = c
                · subst hcc
                  have hf1 : flightFactsL p.snd.q.heap (p.snd.parked ++ [(c', some i)]) c' = facts p.snd.q.heap (some i) := by
                    simp only [flightFactsL, flightRef_snoc_self _ _ _ hcn]
                  rw [hf1]
                  rw [mail_dequeue p.snd.q hi.sI.qinv c' rest hq x, hpo] at hold
                  have hf0 : flightFactsL p.snd.q.heap p.snd.parked c' = [] := by
                    simp only [flightFactsL, flightRef_none _ _ hcn]
                  rw [hf0] at hold
                  rcases hold with h | h | (h | h) | h <;> simp_all
                · have hf1 : flightFactsL p.snd.q.heap (p.snd.parked ++ [(c, some i)]) c' =
                      flightFactsL p.snd.q.heap p.snd.parked c' := by
                    simp only [flightFactsL, flightRef_snoc_other _ _ _ _ hcc]
                  rw [hf1, mail_dequeue_other p.snd.q c rest hq c' hcc]
                  exact hold
          · cases hs
        | loopReturn c =>
          simp only [hs, Option.some.injEq] at h; subst h
          simp only [stepS] at hs; split at hs
          · cases hs
          · simp only [Option.some.injEq] at hs; subst hs
            exact pinv_snd_neutral p _ hi hS ⟨rfl, rfl, rfl⟩ rfl id (fun c' h => by by_cases hc : c' = c <;> simp [hc, h]) id
        | deliver c =>
          simp only [hs, Option.some.injEq] at h; subst h
          simp only [stepS] at hs
          split at hs
          · cases hs
          cases htk : takeFlight c p.snd.parked with
          | none => simp [htk] at hs
          | some pr =>
            obtain ⟨f, rest⟩ := pr
            simp only [htk, Option.some.injEq] at hs; subst hs
            have hnd := parked_nodup p.snd hi.sI
            have hperm := (takeFlight_spec c _ f rest htk).2
            refine { sI := hS, dI := hi.dI, fl := ?_, acc := hi.acc, deb := hi.deb, bro := hi.bro, sl := ?_, dr := hi.dr }
            · intro g hg; exact hi.fl g (hperm.mem_iff.mpr (List.mem_cons_of_mem _ hg))
            · intro c' x hx
              have hold := hi.sl c' x hx
              simp only [Held, flightFacts_L, mem_logOf_snoc] at hold ⊢
              by_cases hcc : c' = c
              · subst hcc
                have hf1 : flightFactsL p.snd.q.heap rest c' = [] := by
                  simp only [flightFactsL, flightRef_take_self _ _ _ _ htk hnd]
                simp only [hf1, List.not_mem_nil, or_false, true_and]
                rcases hold with h | h | h | h <;> simp [h]
              · have hf1 : flightFactsL p.snd.q.heap rest c' = flightFactsL p.snd.q.heap p.snd.parked c' := by
                  simp only [flightFactsL, flightRef_take_other _ _ _ _ _ htk hcc]
                simp only [hcc, false_and, or_false, hf1]
                exact hold
        | pushDone c =>
          simp only [hs, Option.some.injEq] at h; subst h
          simp only [stepS] at hs
          cases htk : takeFlight c p.snd.delivered with
          | none => simp [htk] at hs
          | some pr =>
            obtain ⟨f, rest⟩ := pr
            simp only [htk, Option.some.injEq] at hs; subst hs
            refine { sI := hS, dI := hi.dI, fl := ?_, acc := hi.acc, deb := hi.deb, bro := ?_, sl := ?_, dr := hi.dr }
            · intro g hg; simp only [doneFunc, markDone_heap]; exact hi.fl g hg
            · intro hd; simp only [doneFunc, markDone_down] at hd; exact hi.bro hd
            · intro c' x hx
              have hold := hi.sl c' x hx
              simp only [Held, flightFacts_L] at hold ⊢
              simp only [doneFunc, markDone_heap, mail_markDone p.snd.q hi.sI.qinv c c' x]
              exact hold
        | closedExit c =>
          simp only [hs, Option.some.injEq] at h; subst h
          simp only [stepS] at hs
          split at hs
          · rename_i hcl
            cases htk : takeFlight c p.snd.parked with
            | none => simp [htk] at hs
            | some pr =>
              obtain ⟨f, rest⟩ := pr
              simp only [htk, Option.some.injEq] at hs; subst hs
              exact pinv_exit p hi c f rest htk hS (Or.inl hcl)
          · cases hs
        | stopExit c =>
          simp only [hs, Option.some.injEq] at h; subst h
          simp only [stepS] at hs
          split at hs
          · rename_i hst
            cases htk : takeFlight c p.snd.parked with
            | none => simp [htk] at hs
            | some pr =>
              obtain ⟨f, rest⟩ := pr
              simp only [htk, Option.some.injEq] at hs; subst hs
              exact pinv_exit p hi c f rest htk hS (Or.inr hst)
          · cases hs

/-! ## The statements -/

/-- The system at start: nothing accepted yet, the connections `cs` registered (`adsClients`), an
    empty push queue over any heap of existing objects. -/
def Pipe.init (o : DOpts) (h : Heap) (cap : Nat) (cs : List Conn) : Pipe :=
  { opts := o, snd := { q := QState.init h, cap := cap }, conns := cs }

theorem pinv_init (o : DOpts) (h : Heap) (hwf : h.wf = true) (cap : Nat) (cs : List Conn) :
    PInv (Pipe.init o h cap cs) :=
  { sI := invS_init h hwf cap, dI := invD_init o, fl := by intro f hf; simp [Pipe.init] at hf,
    acc := by intro x hx; simp [Pipe.init, factsL] at hx, deb := by intro x hx; simp [Pipe.init] at hx,
    bro := by intro _ c _ x hx; simp [Pipe.init] at hx,
    sl := by intro c x hx; simp [Pipe.init, logOf_nil] at hx,
    dr := by intro c hc; simp [Pipe.init, logOf_nil] at hc }

def PEvsOk : List PEv → Prop
  | [] => True
  | e :: es => e.ok ∧ PEvsOk es

theorem pinv_run (p p' : Pipe) (es : List PEv) (hi : PInv p) (hok : PEvsOk es) (h : runP p es = some p') : PInv p' := by
  induction es generalizing p with
  | nil => simp only [runP, Option.some.injEq] at h; subst h; exact hi
  | cons e es ih =>
    simp only [runP] at h
    cases hs : stepP p e with
    | none => simp [hs] at h
    | some p1 =>
      simp only [hs, Option.bind_some] at h
      exact ih p1 (pinv_step p p1 e hi hok.1 hs) hok.2 h

/-- **pipeline_no_loss** (see the header): where every fact of every notification accepted since the
    last `mark` is, for every registered connection, in every reachable state of the running system.
    The history `es` may contain `mark` anywhere. -/
theorem pipeline_no_loss (o : DOpts) (h : Heap) (hwf : h.wf = true) (cap : Nat) (cs : List Conn)
    (es : List PEv) (hok : PEvsOk es) (p : Pipe) (hr : runP (Pipe.init o h cap cs) es = some p)
    (hd : p.snd.q.down = false) (c : Conn) (hc : c ∈ p.conns) (x : Fact) (hx : x ∈ factsL p.accepted) :
    x ∈ factsL p.chan ∨ x ∈ factsO p.db.req ∨ x ∈ factsL p.toStart ∨ x ∈ mail p.snd.q c ∨
      x ∈ flightFacts p.snd c ∨ x ∈ logOf p.seenLog c ∨
      (x ∈ logOf p.dropLog c ∧ (p.snd.closed c = true ∨ p.snd.stopped = true)) := by
  have hi := pinv_run _ p es (pinv_init o h hwf cap cs) hok hr
  rcases hi.acc x hx with h1 | h1
  · exact Or.inl h1
  · rcases hi.deb x h1 with h2 | h2
    · rcases hi.bro hd c hc x h2 with h3 | h3
      · exact Or.inr (Or.inr (Or.inl h3))
      · rcases hi.sl c x h3 with h4 | h4 | h4 | h4
        · exact Or.inr (Or.inr (Or.inr (Or.inr (Or.inr (Or.inl h4)))))
        · refine Or.inr (Or.inr (Or.inr (Or.inr (Or.inr (Or.inr ⟨h4, hi.dr c ?_⟩)))))
          intro he; rw [he] at h4; cases h4
        · exact Or.inr (Or.inr (Or.inr (Or.inl h4)))
        · exact Or.inr (Or.inr (Or.inr (Or.inr (Or.inl h4))))
    · exact Or.inr (Or.inl h2)

/-- **Delivered at rest**: when nothing is on its way any more (channel empty, nothing pending in the
    debounce loop, every entered `pushFn` has run `StartPush`, nothing waiting for `c` in the queue,
    no parked push event of `c`) and `c`'s stream is open and the server running, every fact of
    every notification accepted since the last `mark` has reached `Event.pushRequest` of `c`'s
    stream loop since that `mark`. -/
theorem pipeline_delivered_at_rest (o : DOpts) (h : Heap) (hwf : h.wf = true) (cap : Nat) (cs : List Conn)
    (es : List PEv) (hok : PEvsOk es) (p : Pipe) (hr : runP (Pipe.init o h cap cs) es = some p)
    (hd : p.snd.q.down = false) (c : Conn) (hc : c ∈ p.conns)
    (h1 : p.chan = []) (h2 : p.db.req = none) (h3 : p.toStart = []) (h4 : mail p.snd.q c = [])
    (h5 : flightFacts p.snd c = []) (h6 : p.snd.closed c = false) (h7 : p.snd.stopped = false)
    (x : Fact) (hx : x ∈ factsL p.accepted) : x ∈ logOf p.seenLog c := by
  have := pipeline_no_loss o h hwf cap cs es hok p hr hd c hc x hx
  rw [h1, h2, h3, h4, h5, h6, h7] at this
  simpa [factsL, factsO] using this

/-! ## Liveness: per stage, and every stage step is a step of the composition

There is no end-to-end liveness theorem ("a notification accepted by `ConfigUpdate` is eventually handed
to every live stream loop").  What is proved is per stage: `debounce_eventually` / `debounce_max_delay`
(a pending request is pushed once its timer fires, at the latest `max` after the batch began),
`loop_can_proceed` (the sender loop takes the head of the queue whenever the semaphore has room),
`flight_exit_releases` (every flight has a releasing exit).  The four lemmas below say that the steps
those theorems speak about are steps of the composed system, and that the two stages that are plain
buffers (the push channel, the list of entered `pushFn` calls) can always hand on their head - so each
per-stage statement holds inside the composition, one stage at a time.  Chaining them into one schedule
needs fairness and environment assumptions that are not modelled (timers fire, `pushFn` returns, clients
read, the semaphore is not held by clients that have stopped reading). -/

/-- The push channel can always hand its head to the debounce loop. -/
theorem chan_head_can_be_received (p : Pipe) (v : View) (rest : List View) (h : p.chan = v :: rest) :
    ∃ p', stepP p .recv = some p' ∧ p'.chan = rest ∧ p'.db = onRecv p.opts p.db v := by
  simp [stepP, h, stepD]

/-- An entered `pushFn` can always run `StartPush`; every registered connection is handed its request. -/
theorem entered_push_can_start (p : Pipe) (v : View) (rest : List View) (h : p.toStart = v :: rest) :
    ∃ p', stepP p .startPush = some p' ∧ p'.toStart = rest ∧ p'.version = p.version + 1 := by
  simp [stepP, h]

/-- A step of the debounce loop (other than taking from the channel) is a step of the composition; what it
    hands to `pushFn` is what `StartPush` will be run with. -/
theorem debounce_step_is_pipeline_step (p : Pipe) (e : Ev) (db' : DB) (hne : isRecv e = false)
    (h : stepD p.opts p.db e = some db') :
    ∃ p', stepP p (.deb e) = some p' ∧ p'.db = db' ∧ p'.toStart = p.toStart ++ newPushes p.db db' ∧
      p'.snd = p.snd ∧ p'.chan = p.chan := by
  simp [stepP, hne, h]

/-- A step of the sender / of a stream loop (other than an enqueue) is a step of the composition. -/
theorem sender_step_is_pipeline_step (p : Pipe) (e : SEv) (s' : Sender) (hne : isEnq e = false)
    (h : stepS p.snd e = some s') :
    ∃ p', stepP p (.snd e) = some p' ∧ p'.snd = s' ∧ p'.db = p.db ∧ p'.chan = p.chan ∧ p'.toStart = p.toStart := by
  cases e <;> simp_all [stepP, isEnq]

/-! ## Non-vacuity -/

/-- Two connections; the same key is notified twice with a `mark` in between: both arrive. -/
def exPipeEvs : List PEv :=
  [.configUpdate { configs := some ["VirtualService/ns1/a"], forced := true }, .recv, .deb (.tick 10), .deb .timer,
   .startPush, .snd .enter, .snd .acquire, .snd .dequeue, .snd .enter, .snd .acquire, .snd .dequeue,
   .snd (.deliver 0), .snd (.deliver 1), .snd (.pushDone 1), .snd (.pushDone 0), .deb .pushReturn, .deb .freeRecv,
   .mark,
   .configUpdate { configs := some ["VirtualService/ns1/a"] }, .recv, .deb (.tick 10), .deb .timer, .startPush,
   .snd .enter, .snd .acquire, .snd .dequeue, .snd (.deliver 0), .snd (.pushDone 0)]

example : ((runP (Pipe.init { after := 10, max := 100, eds := true } {} 2 [0, 1]) exPipeEvs).map
    (fun p => (logOf p.seenLog 0, logOf p.seenLog 1, mail p.snd.q 1, p.snd.tokens))) =
    some ([.cfg "VirtualService/ns1/a"], [], [.cfg "VirtualService/ns1/a"], 0) := by decide +kernel

end IstioModel.C02
