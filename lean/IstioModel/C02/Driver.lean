import IstioModel.Common.Wire
import IstioModel.C02.Model
import IstioModel.C02.Queue
import IstioModel.C02.Debounce
import IstioModel.C02.Sender
import IstioModel.C02.Pipe

/-! Line-protocol driver for C02 (stream `merge`; see harness/c02).  Objects are declared by `set`,
    `rsn`, `req` lines (ids are positions in the per-type stores, in declaration order) and then
    handed to the modelled functions; every answer carries the identity of the result and, for
    `dump`, the whole heap, so that mutation of inputs and aliasing are compared too. -/
namespace IstioModel.C02
open IstioModel.Wire

def sortDedup (l : List String) : List String :=
  let s := l.mergeSort (fun a b => !(b < a))
  s.foldr (fun x acc => match acc with
    | y :: _ => if x = y then acc else x :: acc
    | [] => [x]) []

def encSet (l : List String) : String := encList (sortDedup l)

def showRsn (m : List (String × Nat)) : String :=
  let ks := sortDedup (m.map (·.1))
  if ks.isEmpty then "-" else ",".intercalate (ks.map (fun k => s!"{enc k}={rcount m k}"))

def showRef (pfx : String) (o : Option Nat) : String :=
  match o with
  | none => "nil"
  | some r => s!"{pfx}{r}"

def showReq (R : ReqObj) : String :=
  s!"{showRef "c" R.configs}/{showRef "a" R.addrs}/{showRef "w" R.wps}/{showRef "r" R.reason}/{showRef "p" R.push}/{R.start}/{R.delta}/{boolTok R.forced}"

def showStore {α : Type} (name : String) (f : α → String) (st : List α) : String :=
  if st.isEmpty then s!"{name}=-" else s!"{name}=" ++ "|".intercalate (st.map f)

def showHeap (h : Heap) : String :=
  " ".intercalate [showStore "cfgs" encSet h.cfgs, showStore "adrs" encSet h.adrs, showStore "wps" encSet h.wpss,
    showStore "rsns" showRsn h.rsns, showStore "reqs" showReq h.reqs]

/-- The objects allocated since the heap had the sizes of `old`. -/
def showNew (old h : Heap) : String :=
  " ".intercalate [showStore "cfgs" encSet (h.cfgs.drop old.cfgs.length), showStore "adrs" encSet (h.adrs.drop old.adrs.length),
    showStore "wps" encSet (h.wpss.drop old.wpss.length), showStore "rsns" showRsn (h.rsns.drop old.rsns.length),
    showStore "reqs" showReq (h.reqs.drop old.reqs.length)]

structure DState where
  heap : Heap := {}
  last : Option Ref := none      -- result of the last merge / cmerge
  lastR : Option Ref := none     -- result of the last rcmerge
  nconn : Nat := 0               -- connections of a `queue` case are 0 .. nconn-1
  q : QState := {}               -- the queue (its heap field is the authoritative heap of a queue case)
  dopts : DOpts := { after := 0, max := 0, eds := true }
  db : DB := {}                  -- the debounce loop of a `debounce` case
  snd : Sender := {}             -- the sender system of a `sender` case (its queue's heap is authoritative there)
  started : Bool := false        -- doSendPushes has been started
  stream : String := ""
  pipe : Pipe := {}              -- the composed pipeline of a `server` case
  sheld : List Conn := []        -- connection parked between addCon and MarkInitialized
  sblocked : List Conn := []     -- clients whose Send blocks (they stopped reading)
  sfailing : List Conn := []     -- clients whose next Send fails
  sdead : List Conn := []        -- stream ended (by the rule of the ops)
  sn : Nat := 0                  -- connections opened so far
  sended : Bool := false
  supd : Nat := 0                -- updates issued so far
  snode : List Nat := []         -- node identity presented by each connection (its own index, or the one it re-connects as)
  sdown : Bool := false          -- DiscoveryServer.Shutdown() has been called
  sforced : List String := []    -- keys of forced updates
  sbusy : List Conn := []        -- stream loops stuck in `Process` (answering a client request, Send blocked): they take no push event
  sreqd : List Conn := []        -- connections that have made their one `busyreq`
  squiet : Bool := true          -- nothing accepted since the last sync (every stream loop is idle in its select)
  sstopped : Bool := false       -- the server's stop channel is closed and `DiscoveryServer.Shutdown()` has run
  sstopping : List Conn := []    -- `Connection.Stop()` called while the loop was inside a push (it returns after `done()`)
  shammer : Bool := false        -- goroutines keep calling `ProxyUpdate` until the next sync
  swinUpd : Nat := 0             -- producers' calls in this sync window ...
  swinByp : Nat := 0             -- ... of which endpoints-only with EDS debounce off (pushed outside the debounce loop)

/-- `nil`, `last`, or an index below `n`. -/
def parseRef (n : Nat) (last : Option Ref) (t : String) : Option (Option Ref) :=
  if t == "nil" then some none
  else if t == "last" then some last
  else match t.toNat? with
    | some i => if i < n then some (some i) else none
    | none => none

/-- `nil` or an index below `n` (no `last`). -/
def parseRefDecl (n : Nat) (t : String) : Option (Option Ref) :=
  if t == "last" then none else parseRef n none t

def parseOptNat (t : String) : Option (Option Nat) :=
  if t == "nil" then some none else (t.toNat?).map some

def parseCounts (t : String) : List Nat :=
  if t == "-" then [] else (t.splitOn ",").map (fun x => x.toNat?.getD 0)

def stepMerge (s : DState) (toks : List String) : DState × String :=
  match toks with
  | ["set", kind, elems] =>
    let l := decList elems
    let h := s.heap
    if kind == "c" then ({ s with heap := { h with cfgs := h.cfgs ++ [l] } }, s!"c{h.cfgs.length}")
    else if kind == "a" then ({ s with heap := { h with adrs := h.adrs ++ [l] } }, s!"a{h.adrs.length}")
    else if kind == "w" then ({ s with heap := { h with wpss := h.wpss ++ [l] } }, s!"w{h.wpss.length}")
    else (s, "bad-op")
  | ["rsn", ks, cs] =>
    let h := s.heap
    let m := (decList ks).zip (parseCounts cs)
    ({ s with heap := { h with rsns := h.rsns ++ [m] } }, s!"r{h.rsns.length}")
  | ["req", cfg, adr, wp, rsn, push, start, delta, forced] =>
    let h := s.heap
    match parseRefDecl h.cfgs.length cfg, parseRefDecl h.adrs.length adr, parseRefDecl h.wpss.length wp,
          parseRefDecl h.rsns.length rsn, parseOptNat push, start.toNat?, delta.toNat? with
    | some c, some a, some w, some r, some p, some st, some d =>
      let R : ReqObj := { configs := c, addrs := a, wps := w, reason := r, push := p, start := st, delta := d,
                          forced := tokBool forced }
      ({ s with heap := { h with reqs := h.reqs ++ [R] } }, s!"q{h.reqs.length}")
    | _, _, _, _, _, _, _ => (s, "bad-op")
  | ["merge", a, b] =>
    match parseRef s.heap.reqs.length s.last a, parseRef s.heap.reqs.length s.last b with
    | some x, some y =>
      let r := merge s.heap x y
      ({ s with heap := r.1, last := r.2 }, s!"res={showRef "q" r.2} {showHeap r.1}")
    | _, _ => (s, "bad-op")
  | ["cmerge", a, b] =>
    match parseRef s.heap.reqs.length s.last a, parseRef s.heap.reqs.length s.last b with
    | some x, some y =>
      let r := copyMerge s.heap x y
      ({ s with heap := r.1, last := r.2 }, s!"res={showRef "q" r.2} {showHeap r.1}")
    | _, _ => (s, "bad-op")
  | ["rcmerge", a, b] =>
    match parseRef s.heap.rsns.length s.lastR a, parseRef s.heap.rsns.length s.lastR b with
    | some x, some y =>
      let r := rsCopyMerge s.heap.rsns x y
      let h' := { s.heap with rsns := r.1 }
      ({ s with heap := h', lastR := r.2 }, s!"res={showRef "r" r.2} {showHeap h'}")
    | _, _ => (s, "bad-op")
  | ["dump"] => (s, showHeap s.heap)
  | _ => (s, "bad-op")

/-! ### stream `queue` -/

def showCMap (n : Nat) (m : CMap) : String :=
  let parts := (List.range n).filterMap (fun c => (m c).map (fun r => s!"{c}:{showRef "q" r}"))
  if parts.isEmpty then "-" else ";".intercalate parts

def showQ (n : Nat) (s : QState) : String :=
  let q := if s.queue.isEmpty then "-" else ",".intercalate (s.queue.map toString)
  s!"q={q} pend={showCMap n s.pending} proc={showCMap n s.processing} down={boolTok s.down}"

def parseConn (n : Nat) (t : String) : Option Conn :=
  match t.toNat? with
  | some c => if c < n then some c else none
  | none => none

/-- Queue operations act on `s.q` whose heap is kept equal to `s.heap`. -/
def stepQueue (s : DState) (toks : List String) : DState × String :=
  match toks with
  | ["enq", c, r] =>
    match parseConn s.nconn c, parseRefDecl s.heap.reqs.length r with
    | some c, some r =>
      let q' := enqueue { s.q with heap := s.heap } c r
      ({ s with q := q', heap := q'.heap }, s!"{showQ s.nconn q'} new {showNew s.heap q'.heap}")
    | _, _ => (s, "bad-op")
  | ["deq"] =>
    let q0 := { s.q with heap := s.heap }
    let q' := dequeueState q0
    let res := match dequeueRes q0 with
      | .blocked => "blocked"
      | .shutdown => "shutdown"
      | .got c r => s!"got {c} {showRef "q" r}"
    ({ s with q := q' }, s!"{res} {showQ s.nconn q'}")
  | ["done", c] =>
    match parseConn s.nconn c with
    | some c =>
      let q' := markDone { s.q with heap := s.heap } c
      ({ s with q := q' }, showQ s.nconn q')
    | none => (s, "bad-op")
  | ["shut"] =>
    let q' := shutDown { s.q with heap := s.heap }
    ({ s with q := q' }, showQ s.nconn q')
  | ["pending"] => (s, toString (pendingCount s.q))
  | _ => stepMerge s toks

/-! ### stream `debounce`

The real loop runs on physical timers, so batch boundaries are not comparable; what the theorems
say is schedule-independent is compared: the union of facts handed to `pushFn`, the number of events
committed, single flight.  The model takes every `send` as a `recv` event and, at `end`, is driven
to quiescence through enabled events only. -/

def factStrings (v : View) : List String :=
  (keys v.configs).map (fun k => "c:" ++ k) ++ (keys v.addrs).map (fun k => "a:" ++ k) ++
    (keys v.wps).map (fun k => "w:" ++ k) ++ (if v.forced then ["forced"] else [])

/-- One round of "let everything that is running finish, then let the timer fire". -/
def drainStep (o : DOpts) (s : DB) : Option DB :=
  if !s.edsRunning.isEmpty then stepD o s .edsReturn
  else if !s.running.isEmpty then stepD o s .pushReturn
  else if s.freeTok then stepD o s .freeRecv
  else match s.req, s.timerAt with
    | some _, some t => (stepD o s (.tick (t + o.after + o.max))).bind (fun s' => stepD o s' .timer)
    | _, _ => none

def drain (o : DOpts) : Nat → DB → DB
  | 0, s => s
  | n + 1, s => match drainStep o s with
    | some s' => drain o n s'
    | none => s

/-! #### Trace acceptance

`exec` logs what the real loop was observed to do: `S|id|t` (a send about to be offered on the
channel, in order), `P|value|t` (pushFn entered on the debounced path with a request reading
`value`), `X` (that pushFn returns), `E|value` (pushFn entered on the bypass path), `U|n`
(`updateSent` at the end).  `accept` builds, from the observed batches, a sequence of model events
- the recvs in order, and the hidden `tick` / `timer` / `pushReturn` / `freeRecv` needed in between -
and **runs it through `stepD`**: the trace is accepted only if every event is enabled and the run
hands exactly the observed values to pushFn in the observed order (so: batching = in-order `Merge`
from nil with the Reason default, a push only from a free loop after a wake-up, bypass iff
`!enableEDSDebounce` and endpoints-only, committed count).  Physical time is used only in the sound
direction: `pushWorker`'s own guard must hold for (time pushFn was entered) against (times the
first / last event of the batch were *about to be* offered) - the loop never pushes early. -/

def showSetO (o : Option (List String)) : String :=
  match o with
  | none => "nil"
  | some l => encSet l

def showViewCanon (v : View) : String :=
  let r := match v.reason with
    | none => "nil"
    | some m => showRsn m
  s!"c={showSetO v.configs};a={showSetO v.addrs};w={showSetO v.wps};r={r};p={showRef "p" v.push};f={boolTok v.forced}"

inductive TEv
  | send (id : Nat) (t : Nat) | push (val : String) (t : Nat) | ret | eds (val : String) | sent (n : Nat)
  | note   -- `N|...`: a remark of the harness for the check (how a flood went), not an event

def parseTEv (tok : String) : Option TEv :=
  match tok.splitOn "|" with
  | ["S", i, t] => match i.toNat?, t.toNat? with
    | some i, some t => some (.send i t)
    | _, _ => none
  | ["P", v, t] => (t.toNat?).map (fun t => .push v t)
  | ["X"] => some .ret
  | ["E", v] => some (.eds v)
  | ["U", n] => (n.toNat?).map .sent
  | ["N", _] => some .note
  | _ => none

def stepE (o : DOpts) (s : DB) (e : Ev) (what : String) : Except String DB :=
  match stepD o s e with
  | some s' => .ok s'
  | none => .error s!"model-event-not-enabled({what})"

/-- Feed sends (in order) until the model's pending request reads `val`.
    Returns the state, the unused sends and the offer times of the first / last event of the batch. -/
def feedUntil (o : DOpts) (val : String) (s : DB) (tFirst : Option Nat) :
    List (View × Nat) → Except String (DB × List (View × Nat) × Nat × Nat)
  | [] => .error "push-is-not-the-in-order-merge-of-the-updates-since-the-last-push"
  | (v, t) :: rest =>
    match stepE o s (.recv v) "recv" with
    | .error e => .error e
    | .ok s' =>
      if s'.edsPushed.length > s.edsPushed.length then feedUntil o val s' tFirst rest
      else
        let tF := tFirst.getD t
        if (s'.req.map showViewCanon) == some val then .ok (s', rest, tF, t)
        else feedUntil o val s' (some tF) rest

/-- Hidden events that make a free-or-finishing loop hand the pending request to pushFn. -/
def forcePush (o : DOpts) (s : DB) : Except String DB := do
  let s1 ← if s.running.isEmpty then pure s else stepE o s .pushReturn "pushReturn"
  if s1.freeTok then
    let s2 ← stepE o s1 (.tick (o.after + o.max)) "tick"
    stepE o s2 .freeRecv "freeRecv"
  else match s1.timerAt with
    | some t =>
      let s2 ← stepE o s1 (.tick (t + o.after + o.max)) "tick"
      stepE o s2 .timer "timer"
    | none => .error "pending-request-without-wake-up"

/-- `pushWorker`'s guard on observed times (µs; options are ms). -/
def dueAt (o : DOpts) (tFirst tLast tPush : Nat) : Bool :=
  (pushWorker { after := o.after * 1000, max := o.max * 1000, eds := o.eds }
    { now := tPush, start := tFirst, last := tLast, req := some {} }).req.isNone

/-- Which branch of `pushWorker` the observed times of one push show (for the evidence counters only): `quiet`
    (the quiet period had elapsed) or `max` (only the maximum delay had); `during` = the batch began while the
    previous push was still running (so `case <-freeCh` had a pending batch to look at); `rearm` = the batch got a
    later update before its first timer could fire, so that timer found neither condition true and re-armed. -/
def branchOf (o : DOpts) (during : Bool) (tF tL tPush : Nat) : List String :=
  [if o.after * 1000 ≤ tPush - tL then "quiet" else "max"] ++
    (if during then ["during"] else []) ++ (if tF < tL then ["rearm"] else [])

/-- Per observed push: did an update of its batch arrive before the previous push returned? -/
def duringFlags : Bool → Bool → List TEv → List Bool
  | _, _, [] => []
  | infl, saw, .send _ _ :: es => duringFlags infl (saw || infl) es
  | _, saw, .ret :: es => duringFlags false saw es
  | _, saw, .push _ _ :: es => saw :: duringFlags true false es
  | infl, saw, _ :: es => duringFlags infl saw es

def acceptPushes (o : DOpts) : DB → List (View × Nat) → List (String × Nat) → List Bool → List String →
    Except String (DB × List (View × Nat) × List String)
  | s, sends, [], _, tags => .ok (s, sends, tags)
  | s, sends, (val, tPush) :: more, fl, tags => do
    let (s1, rest, tF, tL) ← feedUntil o val s none sends
    if !dueAt o tF tL tPush then
      throw s!"pushed-before-the-quiet-period(first={tF},last={tL},push={tPush})"
    let n := s1.pushed.length
    let s2 ← forcePush o s1
    if s2.pushed.length != n + 1 || (s2.pushed.getLast?.map showViewCanon) != some val then
      throw "model-did-not-push-the-observed-request"
    acceptPushes o s2 rest more fl.tail (tags ++ branchOf o (fl.headD false) tF tL tPush)

def feedAll (o : DOpts) : DB → List (View × Nat) → Except String DB
  | s, [] => .ok s
  | s, (v, _) :: rest => do
    let s' ← stepE o s (.recv v) "recv"
    feedAll o s' rest

def sortStr (l : List String) : List String := l.mergeSort (fun a b => !(b < a))

def singleFlightLog : Nat → List TEv → Bool
  | _, [] => true
  | n, .push _ _ :: es => n == 0 && singleFlightLog 1 es
  | n, .ret :: es => n == 1 && singleFlightLog 0 es
  | n, _ :: es => singleFlightLog n es

def acceptTrace (o : DOpts) (h : Heap) (toks : List String) : String :=
  match toks.mapM parseTEv with
  | none => "reject:unparsable-trace"
  | some evs =>
    if !singleFlightLog 0 evs then "reject:two-debounced-pushes-in-flight" else
    let sends? := (evs.filterMap (fun e => match e with | .send i t => some (i, t) | _ => none)).mapM
      (fun (it : Nat × Nat) => (viewAt h (some it.1)).map (fun v => (v, it.2)))
    match sends? with
    | none => "reject:unknown-request-in-trace"
    | some sends =>
      let pushes := evs.filterMap (fun e => match e with | .push v t => some (v, t) | _ => none)
      let byp := sortStr (evs.filterMap (fun e => match e with | .eds v => some v | _ => none))
      let sent := (evs.filterMap (fun e => match e with | .sent n => some n | _ => none)).head?
      let res : Except String String := do
        let (s1, rest, tags) ← acceptPushes o {} sends pushes (duringFlags false false evs) []
        let s2 ← feedAll o s1 rest
        if s2.req.isSome then throw "update-still-pending-in-the-model-after-the-last-observed-push"
        let f := drain o (4 * s2.recvd.length + 8) s2
        if sortStr (f.edsPushed.map showViewCanon) != byp then throw "bypass-pushes-differ"
        if some f.sent != sent then throw s!"committed-count(model={f.sent})"
        let cnt := fun (t : String) => (tags.filter (· == t)).length
        pure s!"accept pushes={pushes.length} bypass={byp.length} events={f.recvd.length} quiet={cnt "quiet"} max={cnt "max"} during={cnt "during"} rearm={cnt "rearm"}"
      match res with
      | .ok m => m
      | .error e => s!"reject:{e}"

def stepDebounce (s : DState) (toks : List String) : DState × String :=
  match toks with
  | "trace" :: evs => (s, acceptTrace s.dopts s.heap evs)
  | ["send", r] =>
    match parseRefDecl s.heap.reqs.length r with
    | some (some i) =>
      match viewAt s.heap (some i) with
      | some v => ({ s with db := onRecv s.dopts s.db v }, "ok")
      | none => (s, "bad-op")
    | _ => (s, "bad-op")
  | ["flood", r, n, _gap] =>
    match parseRefDecl s.heap.reqs.length r, n.toNat? with
    | some (some i), some n =>
      if n == 0 then (s, "bad-op") else
      match viewAt s.heap (some i) with
      | some v => ({ s with db := (List.range n).foldl (fun db _ => onRecv s.dopts db v) s.db }, "ok")
      | none => (s, "bad-op")
    | _, _ => (s, "bad-op")
  | ["sleep", d] => ({ s with db := { s.db with now := s.db.now + d.toNat?.getD 0 } }, "ok")
  | ["hold"] => (s, "ok")
  | ["release"] => (s, "ok")
  | ["waitpush"] => (s, "ok")
  | ["end"] =>
    let f := drain s.dopts (4 * s.db.recvd.length + 8) s.db
    let facts := (f.pushed ++ f.edsPushed).flatMap factStrings
    let quiet := f.req.isNone && f.running.isEmpty && f.edsRunning.isEmpty && !f.freeTok
    ({ s with db := f },
     s!"facts={encSet facts} events={f.recvd.length} sent={f.sent} quiescent={boolTok quiet} single=1 batches=1 unmutated=1 verdict=OK")
  | _ => stepQueue s toks

/-! ### stream `sender`

The real `doSendPushes` runs by itself; the harness observes it only when it has come to rest
(loop blocked on the semaphore or in `Dequeue`, or returned; no parked push event with an enabled
exit).  The model is run to the same point by `settle` after every operation. -/

def sortNat (l : List Nat) : List Nat := l.mergeSort (fun a b => a ≤ b)

def showSender (n : Nat) (s : Sender) : String :=
  let q := if s.q.queue.isEmpty then "-" else ",".intercalate ((sortNat s.q.queue).map toString)
  if s.loop == .crashed then "crashed" else
  let exited := s.loop == .exitedStop || s.loop == .exitedShutdown
  -- once the server is stopping / the queue shutting down, which re-queued mail is still picked up
  -- depends on the order in which parked pushes take their exits: not compared
  if s.stopped || s.q.down then
    s!"tok={s.tokens} exit={boolTok exited} q=* pend=* proc={showCMap n s.q.processing} down={boolTok s.q.down}"
  else
    s!"tok={s.tokens} exit={boolTok exited} q={q} pend={showCMap n s.q.pending} proc={showCMap n s.q.processing} down={boolTok s.q.down}"

def settleIf (b : Bool) (s : Sender) : Sender := if b then settle 100000 s else s

def applyAll (s : Sender) : List SEv → Sender
  | [] => s
  | e :: es => applyAll ((stepS s e).getD s) es

def stepSender (s0 : DState) (toks : List String) : DState × String :=
  -- the heap of declarations is authoritative until the queue allocates
  let s : DState := { s0 with snd := { s0.snd with q := { s0.snd.q with heap := s0.heap } } }
  let fin := fun (x : Sender) => ({ s with snd := x, heap := x.q.heap }, showSender s.nconn x)
  if s.snd.loop == .crashed then (s0, if toks == ["end"] then "crashed verdict=OK" else "crashed") else
  match toks with
  | ["start"] =>
    if s.started then (s, "bad-op") else
    let x := settle 100000 s.snd
    ({ s with snd := x, started := true, heap := x.q.heap }, showSender s.nconn x)
  | ["enq", c, r] =>
    match parseConn s.nconn c, parseRefDecl s.heap.reqs.length r with
    | some c, some r =>
      fin (settleIf s.started ((stepS s.snd (.enq c r)).getD s.snd))
    | _, _ => (s, "bad-op")
  | ["deliver", c] =>
    match parseConn s.nconn c with
    | some c =>
      if s.snd.closed c || s.snd.stopped then (s, "bad-op") else
      match takeFlight c s.snd.parked, stepS s.snd (.deliver c) with
      | some (f, _), some x => ({ s with snd := x }, s!"ev={showRef "q" f.2} {showSender s.nconn x}")
      | _, _ => (s, "bad-op")
    | none => (s, "bad-op")
  | ["pushdone", c] =>
    match parseConn s.nconn c with
    | some c =>
      match stepS s.snd (.pushDone c) with
      | some x => fin (settleIf s.started x)
      | none => (s, "bad-op")
    | none => (s, "bad-op")
  | ["close", c] =>
    match parseConn s.nconn c with
    | some c => fin (settleIf s.started ((stepS s.snd (.close c)).getD s.snd))
    | none => (s, "bad-op")
  | ["stop"] => fin (settleIf s.started ((stepS s.snd .stop).getD s.snd))
  | ["shut"] => fin (settleIf s.started ((stepS s.snd .shut).getD s.snd))
  | ["end"] =>
    -- finish every delivered push, close every client, stop the server, shut the queue down
    let x1 := settleIf s.started (applyAll s.snd ((sortNat (s.snd.delivered.map (·.1))).map SEv.pushDone))
    let x2 := settleIf s.started (applyAll x1 ((List.range s.nconn).map SEv.close))
    let x3 := settleIf s.started (applyAll x2 [.stop])
    let x4 := settleIf s.started (applyAll x3 [.shut])
    ({ s with snd := x4, heap := x4.q.heap }, showSender s.nconn x4 ++ " verdict=OK")
  | _ => stepMerge s toks

/-! ### stream `server`

A real DiscoveryServer runs the whole pipeline by itself; the harness reports, at rest, which facts
reached `Event.pushRequest` of each live connection.  The composed model (`Pipe.lean`) is driven to
rest with the same script: every hand-over (`recv`, `startPush`), every hidden debounce / sender
event, and - for clients that are reading - `deliver` followed by what the stream loop does with
the event: `done()` after a push that succeeded **or failed**, nothing while `Send` blocks. -/

def factStr : Fact → String
  | .cfg k => "c:" ++ k
  | .adr k => "a:" ++ k
  | .wp k => "w:" ++ k
  | .forced => "forced"

def pev (p : Pipe) (e : PEv) : Pipe := (stepP p e).getD p

def hasDelivered (p : Pipe) (c : Conn) : Bool := p.snd.delivered.any (fun f => f.1 == c)

/-- The client's stream ends: context done, connection unregistered, a `Send` it was blocked in returns. -/
def srvKill (s : DState) (c : Conn) : DState :=
  let p1 := pev (pev s.pipe (.snd (.close c))) (.unregister c)
  let p2 := if hasDelivered p1 c then pev p1 (.snd (.pushDone c)) else p1
  { s with pipe := p2, sdead := if s.sdead.contains c then s.sdead else s.sdead ++ [c]
           sblocked := s.sblocked.filter (· ≠ c), sheld := s.sheld.filter (· ≠ c), sbusy := s.sbusy.filter (· ≠ c) }

def srvStep (s : DState) : Option DState :=
  let p := s.pipe
  if !p.chan.isEmpty then some { s with pipe := pev p .recv }
  else if !p.toStart.isEmpty then some { s with pipe := pev p .startPush }
  else if !p.db.edsRunning.isEmpty then some { s with pipe := pev p (.deb .edsReturn) }
  else if !p.db.running.isEmpty then some { s with pipe := pev p (.deb .pushReturn) }
  else if p.db.freeTok then some { s with pipe := pev p (.deb .freeRecv) }
  else match p.db.req, p.db.timerAt with
    | some _, some t => some { s with pipe := pev (pev p (.deb (.tick (t + p.opts.after + p.opts.max)))) (.deb .timer) }
    | _, _ =>
      match settleStep p.snd with
      | some snd' => some { s with pipe := { p with snd := snd' } }
      | none =>
        -- a parked push event whose client is reading
        match p.snd.parked.find? (fun f => !s.sheld.contains f.1 && !s.sbusy.contains f.1 && !p.snd.closed f.1 && !hasDelivered p f.1) with
        | none => none
        | some f =>
          let c := f.1
          let forced := ((viewAt p.snd.q.heap f.2).map (·.forced)).getD false
          let p1 := pev p (.snd (.deliver c))
          if forced && s.sblocked.contains c then some { s with pipe := p1 }   -- stuck in Send
          else
            let s1 := { s with pipe := pev p1 (.snd (.pushDone c)) }             -- done(), push ok or not
            if forced && s.sfailing.contains c then some (srvKill s1 c)         -- Send failed: the loop returns the error
            else some s1

def srvSettle : Nat → DState → DState
  | 0, s => s
  | n + 1, s => match srvStep s with
    | some s' => srvSettle n s'
    | none => s

/-- With EDS debounce off two `Push` calls can overlap; which snapshot a connection gets last is then a race. -/
def srvOverlap (s : DState) : Bool := s.swinByp > 0 && s.swinUpd > 1

/-- What the deliveries to `c` say: "c:<key>" for every key, "f:<key>" for a key of a forced update that
    arrived in a forced request; `cur` = the last delivery carried the newest snapshot. -/
def srvSeen (s : DState) (c : Conn) : String :=
  let ds := s.pipe.seenLog.filter (fun e => e.1 == c)
  let keysOf := fun (fs : List Fact) => fs.filterMap (fun f => match f with | .cfg k => some k | _ => none)
  let cs := ds.flatMap (fun e => e.2.2.map (fun f => match f with
    | .cfg k => "c:" ++ k | .adr k => "a:" ++ k | .wp k => "w:" ++ k | .forced => "forced"))
  let fs := ds.flatMap (fun e => if e.2.2.contains .forced then
      ((keysOf e.2.2).filter (fun k => s.sforced.contains k)).map (fun k => "f:" ++ k) else [])
  let cur := if srvOverlap s then "*" else match ds.getLast? with
    | none => "-"
    | some e => boolTok (e.2.1 == some s.pipe.version)
  s!"{encSet (cs ++ fs)};cur={cur}"

def srvSummary (s : DState) : String :=
  if s.sn == 0 then "-" else
  " ".intercalate ((List.range s.sn).map (fun c =>
    if s.sdown then s!"{c}=*" else if s.sdead.contains c then s!"{c}=dead" else s!"{c}={srvSeen s c}"))

def srvStuck (s : DState) : Bool :=
  !s.sheld.isEmpty || !s.sblocked.isEmpty || !s.sbusy.isEmpty

/-- The loop of `c` returns on its stop channel (it holds no event). -/
def srvLoopReturn (s : DState) (c : Conn) : DState :=
  { s with pipe := pev (pev s.pipe (.snd (.loopReturn c))) (.unregister c) }

/-- The gate of a connection parked in its initialisation opens; with a failing transport the answer to its first
    request fails and the stream ends. -/
def srvRelease1 (s : DState) (c : Conn) : DState :=
  let s1 := { s with sheld := s.sheld.filter (· ≠ c), squiet := false }
  if s1.sfailing.contains c && !s1.sdead.contains c then srvKill s1 c else s1

def srvRelease (s : DState) : DState := s.sheld.foldl srvRelease1 s


def srvUnblock (s : DState) (c : Conn) : DState :=
  let s1 := { s with sblocked := s.sblocked.filter (· ≠ c), sbusy := s.sbusy.filter (· ≠ c) }
  let s3 :=
    if hasDelivered s1.pipe c then
      let s2 := { s1 with pipe := pev s1.pipe (.snd (.pushDone c)) }
      if s2.sfailing.contains c then srvKill s2 c else s2
    else s1
  if s3.sstopping.contains c then srvLoopReturn { s3 with sstopping := s3.sstopping.filter (· ≠ c) } c else s3

def srvUpdate (s : DState) (forced : Bool) (ks as ws : List String) : DState × String :=
  if s.sended || s.sstopped then (s, "bad-op") else
  let opt := fun (l : List String) => if l.isEmpty then none else some l
  let v : View := { configs := opt ks, addrs := opt as, wps := opt ws, forced := forced, reason := some [("config", 1)] }
  let s1 := if s.pipe.chan.length < chanCap then s else srvSettle 1000 s   -- ConfigUpdate blocks while the channel is full
  ({ s1 with pipe := pev s1.pipe (.configUpdate v), supd := s1.supd + 1, squiet := false
             swinUpd := s1.swinUpd + 1
             swinByp := if !s1.pipe.opts.eds && onlyEndpoints v then s1.swinByp + 1 else s1.swinByp
             sforced := if forced then s1.sforced ++ ks else s1.sforced }, "ok")

def srvConn (s : DState) (op i kind : String) : DState × String :=
  if (op != "conn" && op != "connheld") || (kind != "sotw" && kind != "delta") || s.sended || s.sstopped then (s, "bad-op") else
  match i.toNat? with
  | none => (s, "bad-op")
  | some i =>
    if i != s.sn then (s, "bad-op") else
    ({ s with pipe := pev s.pipe (.register i), sn := s.sn + 1, snode := s.snode ++ [i]
              sheld := if op == "connheld" then s.sheld ++ [i] else s.sheld }, "ok")

def stepServer (s : DState) (toks : List String) : DState × String :=
  match toks with
  | ["update", f, ks] => srvUpdate s (tokBool f) (decList ks) [] []
  | ["update", f, ks, as, ws] => srvUpdate s (tokBool f) (decList ks) (decList as) (decList ws)
  | ["updatepar", f, ks] =>
    if s.sended || s.sstopped then (s, "bad-op") else
    ((decList ks).foldl (fun st k => (srvUpdate st (tokBool f) [k] [] []).1) s, "ok")
  | ["proxyupdate", i] =>
    match i.toNat? with
    | some i =>
      if i >= s.sn || s.sdead.contains i || s.sheld.contains i || s.sended || s.sstopped then (s, "bad-op")
      else
        -- every initialised, live connection registered for the address (= presenting the same node) gets the request
        let same := (List.range s.sn).filter (fun j => s.snode[j]? == s.snode[i]? && !s.sdead.contains j && !s.sheld.contains j)
        ({ s with pipe := same.foldl (fun p j => pev p (.proxyUpdate j p.version)) s.pipe, squiet := false
                  swinUpd := s.swinUpd + 1 }, "ok")
    | none => (s, "bad-op")
  | ["puhammer", n] =>
    -- goroutines keep calling `ProxyUpdate` for every live connection until the next sync: as facts, one forced
    -- request each (the later ones carry the then newest push context: the guard of `proxyUpdate`)
    match n.toNat? with
    | some n =>
      if n < 1 || n > 64 || s.shammer || s.sended || s.sstopped || s.sdown then (s, "bad-op")
      else
        let live := (List.range s.sn).filter (fun j => !s.sdead.contains j && !s.sheld.contains j)
        ({ s with pipe := live.foldl (fun p j => pev p (.proxyUpdate j p.version)) s.pipe, squiet := false
                  swinUpd := s.swinUpd + 1, shammer := true }, "ok")
    | none => (s, "bad-op")
  | ["pushall"] =>
    -- the debug trigger `AdsPushAll(s)`: the third producer; a forced request with the global push context for every
    -- registered connection (one `Enqueue` each, as `StartPush` does)
    if s.sended || s.sstopped then (s, "bad-op") else
    ({ s with pipe := s.pipe.conns.foldl (fun p c => pev p (.proxyUpdate c p.version)) s.pipe, squiet := false
              swinUpd := s.swinUpd + 1 }, "ok")
  | ["stopconn", i] =>
    match i.toNat? with
    | some i =>
      -- a loop stuck in `Process` (busy) holds no push event: it can be told to stop; one stuck in a push cannot here
      -- also for a loop parked in its initialisation or stuck in Send: it returns once it is let go
      if i >= s.sn || s.sdead.contains i || s.sended then (s, "bad-op")
      else if hasDelivered s.pipe i then ({ s with sdead := s.sdead ++ [i], sstopping := s.sstopping ++ [i] }, "ok")
      else (srvLoopReturn { s with sdead := s.sdead ++ [i] } i, "ok")
    | none => (s, "bad-op")
  | ["reqnew", i] =>
    -- one more request that needs an answer; with a failing transport `Process` returns the error
    match i.toNat? with
    | some i =>
      if i >= s.sn || s.sdead.contains i || s.sheld.contains i || s.sblocked.contains i || s.sbusy.contains i ||
          s.sreqd.contains i || s.sended then (s, "bad-op")
      else
        let s1 := { s with sreqd := s.sreqd ++ [i] }
        (if s1.sfailing.contains i then srvKill s1 i else s1, "ok")
    | none => (s, "bad-op")
  | ["recverr", i] =>
    -- `Recv` fails with an unexpected error: the loop returns it (`errorChan`), the stream ends
    match i.toNat? with
    | some i =>
      if i >= s.sn || s.sdead.contains i || s.sheld.contains i || s.sblocked.contains i || s.sbusy.contains i || s.sended then
        (s, "bad-op")
      else (srvKill s i, "ok")
    | none => (s, "bad-op")
  | ["stopserver"] =>
    -- the stop channel closes (every parked push goroutine takes its stop exit, the sender loop leaves) and
    -- `DiscoveryServer.Shutdown()` shuts the queue down; the stream loops stay
    if s.sstopped || s.sended then (s, "bad-op")
    else ({ s with pipe := pev (pev s.pipe (.snd .stop)) (.snd .shut), sdown := true, sstopped := true, shammer := false }, "ok")
  | ["connas", i, j, kind] =>
    -- a second registration for the address of connection `i`, which stays as it is
    match i.toNat?, j.toNat? with
    | some i, some j =>
      if i >= s.sn || s.sended || s.sstopped || j != s.sn || (kind != "sotw" && kind != "delta") then (s, "bad-op")
      else ({ s with pipe := pev s.pipe (.register j), sn := s.sn + 1, snode := s.snode ++ [s.snode.getD i i] }, "ok")
    | _, _ => (s, "bad-op")
  | ["busyreq", i] =>
    -- the client stops reading and asks for one more resource type: the stream loop sits in `Process` (blocked in
    -- Send) and takes no push event until `unblock`; only right after a sync (the loop is idle in its select)
    match i.toNat? with
    | some i =>
      if i >= s.sn || s.sdead.contains i || s.sheld.contains i || s.sblocked.contains i || s.sfailing.contains i ||
          s.sreqd.contains i || !s.squiet || s.sdown || s.sended || s.sstopped then (s, "bad-op")
      else ({ s with sblocked := s.sblocked ++ [i], sbusy := s.sbusy ++ [i], sreqd := s.sreqd ++ [i] }, "ok")
    | none => (s, "bad-op")
  | ["req", i] =>
    match i.toNat? with
    | some i => if i < s.sn && !s.sdead.contains i && !s.sended then (s, "ok") else (s, "bad-op")
    | none => (s, "bad-op")
  | ["reconn", i, j, kind] =>
    match i.toNat?, j.toNat? with
    | some i, some j =>
      if i >= s.sn || s.sdead.contains i || s.sended || s.sstopped || j != s.sn || (kind != "sotw" && kind != "delta") then
        (s, "bad-op")
      else
        let s1 := srvKill s i
        ({ s1 with pipe := pev s1.pipe (.register j), sn := s1.sn + 1, snode := s1.snode ++ [s1.snode.getD i i] }, "ok")
    | _, _ => (s, "bad-op")
  | ["shutdown"] =>
    if s.sdown || srvStuck s || s.sended then (s, "bad-op")
    else ({ s with pipe := pev s.pipe (.snd .shut), sdown := true, shammer := false }, "ok")
  | [op, i, kind] => srvConn s op i kind
  | [op, i, kind, "router"] => srvConn s op i kind
  | ["release", i] =>
    match i.toNat? with
    | some i => if s.sheld.contains i then (srvRelease1 s i, "ok") else (s, "bad-op")
    | none => (s, "bad-op")
  | ["failsend", i] =>
    match i.toNat? with
    | some i => if i < s.sn && !s.sbusy.contains i then ({ s with sfailing := s.sfailing ++ [i] }, "ok") else (s, "bad-op")
    | none => (s, "bad-op")
  | ["blocksend", i] =>
    match i.toNat? with
    | some i => if i < s.sn && !s.sblocked.contains i then ({ s with sblocked := s.sblocked ++ [i] }, "ok") else (s, "bad-op")
    | none => (s, "bad-op")
  | ["unblock", i] =>
    match i.toNat? with
    | some i => if i < s.sn && s.sblocked.contains i then (srvUnblock s i, "ok") else (s, "bad-op")
    | none => (s, "bad-op")
  | ["closectx", i] =>
    match i.toNat? with
    | some i => if i < s.sn then (srvKill s i, "ok") else (s, "bad-op")
    | none => (s, "bad-op")
  | ["pushed"] => (s, "ok")
  | ["sync"] =>
    if srvStuck s || s.sended || s.sstopped then (s, "bad-op") else
    let s1 := srvSettle 100000 s
    -- a new window: from here on the logs speak about what is accepted / delivered from now on (`mark`)
    ({ s1 with pipe := pev s1.pipe .mark, sforced := [], squiet := true, shammer := false, swinUpd := 0, swinByp := 0 }, srvSummary s1)
  | ["end"] =>
    if s.sended then (s, "bad-op") else
    let s0 := srvRelease s
    let s1 := s0.sblocked.foldl srvUnblock s0
    let s2 := srvSettle 100000 { s1 with sblocked := [], sbusy := [] }
    let held := ((List.range s2.sn).filter (fun c => (s2.pipe.snd.q.processing c).isSome)).length
    ({ s2 with sended := true }, s!"{srvSummary s2} held={held} verdict=OK")
  | _ => (s, "bad-op")

def step (s : DState) (toks : List String) : DState × String :=
  match toks with
  | "case" :: _ :: "queue" :: n :: _ => ({ nconn := n.toNat?.getD 0 }, "ok")
  | "case" :: _ :: "server" :: rest =>
    -- the real server: DebounceAfter 3 ms, debounceMax 10 s, sender running; push throttle and EDS debounce per case
    let thr := (rest.head?.bind (·.toNat?)).getD 0
    let eds := (rest.drop 1).head? != some "0"
    ({ stream := "server", pipe := { opts := { after := 3, max := 10000, eds := eds },
                                     snd := settle 10 { cap := if thr == 0 then 100 else thr } } }, "ok")
  | "case" :: _ :: "sender" :: n :: cap :: _ =>
    ({ nconn := n.toNat?.getD 0, snd := { cap := cap.toNat?.getD 1 }, stream := "sender" }, "ok")
  | "case" :: _ :: "debounce" :: a :: m :: e :: _ =>
    ({ dopts := { after := a.toNat?.getD 0, max := m.toNat?.getD 0, eds := tokBool e } }, "ok")
  | "case" :: _ => ({}, "ok")
  | _ => if s.stream == "sender" then stepSender s toks
         else if s.stream == "server" then stepServer s toks
         else stepDebounce s toks

end IstioModel.C02
