import IstioModel.C02.Model

/-
C02 - executable model of `xds.PushQueue` (pilot/pkg/xds/pushqueue.go):
`Enqueue`, `Dequeue`, `MarkDone`, `ShutDown`, `Pending`.

Every method runs under the queue's mutex, so a history of the queue is a *sequence* of these
operations, issued by any number of producers and workers in any interleaving; the model is the
sequential object and the theorems quantify over all operation sequences.  `Dequeue` on an empty
queue blocks (`cond.Wait`): here it is the answer `blocked` and no state change.

The queue state refers to request objects in the `Heap` of Model.lean (a `*PushRequest` is an
`Option Ref`), because the queue stores the caller's pointer itself on first enqueue - the request
object shared by all connections of a push - and must never write through it.
A Go `map[*Connection]*PushRequest` is a function `Conn → Option (Option Ref)`: outer `none` = key
absent, `some none` = key present with a nil pointer (the `processing[con] = nil` marker).
-/
namespace IstioModel.C02

abbrev Conn := Nat

abbrev CMap := Conn → Option (Option Ref)

def CMap.set (m : CMap) (c : Conn) (v : Option (Option Ref)) : CMap :=
  fun c' => if c' = c then v else m c'

@[simp] theorem CMap.set_same (m : CMap) (c : Conn) (v : Option (Option Ref)) : (m.set c v) c = v := by
  simp [CMap.set]

@[simp] theorem CMap.set_other (m : CMap) (c c' : Conn) (v : Option (Option Ref)) (h : c' ≠ c) :
    (m.set c v) c' = m c' := by
  simp [CMap.set, h]

structure QState where
  heap       : Heap := {}
  pending    : CMap := fun _ => none
  queue      : List Conn := []
  processing : CMap := fun _ => none
  down       : Bool := false

/-- `NewPushQueue()` in a world that already contains the objects of `h`. -/
def QState.init (h : Heap) : QState := { heap := h }

/-- `Enqueue(con, pushRequest)`. -/
def enqueue (s : QState) (c : Conn) (r : Option Ref) : QState :=
  if s.down then s
  else match s.processing c with
    | some req =>
      { s with heap := (copyMerge s.heap req r).1
               processing := s.processing.set c (some (copyMerge s.heap req r).2) }
    | none =>
      match s.pending c with
      | some req =>
        { s with heap := (copyMerge s.heap req r).1
                 pending := s.pending.set c (some (copyMerge s.heap req r).2) }
      | none =>
        { s with pending := s.pending.set c (some r), queue := s.queue ++ [c] }

inductive DeqRes
  | blocked                          -- would wait on the condition variable
  | shutdown                         -- `(nil, nil, true)`
  | got (c : Conn) (r : Option Ref)  -- `(con, request, false)`
  deriving DecidableEq, Repr

/-- The request `Dequeue` reads for the head connection: `p.pending[con]` (nil if absent). -/
def pendingOf (s : QState) (c : Conn) : Option Ref := (s.pending c).getD none

/-- State after `Dequeue()`. -/
def dequeueState (s : QState) : QState :=
  match s.queue with
  | [] => s
  | c :: rest =>
    { s with queue := rest, pending := s.pending.set c none, processing := s.processing.set c (some none) }

/-- Result of `Dequeue()`. -/
def dequeueRes (s : QState) : DeqRes :=
  match s.queue with
  | [] => if s.down then .shutdown else .blocked
  | c :: _ => .got c (pendingOf s c)

/-- `MarkDone(con)`. -/
def markDone (s : QState) (c : Conn) : QState :=
  match s.processing c with
  | some (some r) =>
    { s with processing := s.processing.set c none
             pending := s.pending.set c (some (some r))
             queue := s.queue ++ [c] }
  | _ => { s with processing := s.processing.set c none }

/-- `ShutDown()`. -/
def shutDown (s : QState) : QState := { s with down := true }

/-- `Pending()`. -/
def pendingCount (s : QState) : Nat := s.queue.length

/-- One operation of a history. -/
inductive Op
  | enq (c : Conn) (r : Option Ref)
  | deq
  | done (c : Conn)
  | shut
  deriving DecidableEq, Repr

def stepQ (s : QState) : Op → QState
  | .enq c r => enqueue s c r
  | .deq => dequeueState s
  | .done c => markDone s c
  | .shut => shutDown s

/-- What the operation returns to its caller (only `Dequeue` returns something). -/
def outQ (s : QState) : Op → Option DeqRes
  | .deq => some (dequeueRes s)
  | _ => none

def runQ (s : QState) : List Op → QState
  | [] => s
  | op :: ops => runQ (stepQ s op) ops

end IstioModel.C02
