import IstioModel.C02.Queue

/-
C02 - executable model of the push sender: `doSendPushes` (pilot/pkg/xds/discovery.go), the
goroutine it starts per dequeued connection, and the `done()` call of the stream loops
(`Connection.Push` in ads.go, `StreamDeltas` in delta.go) - as a transition system.

    for { select { case <-stopCh: return
                   default:
                     semaphore <- struct{}{}                         -- acquire
                     client, push, shuttingdown := queue.Dequeue()   -- dequeue (may block)
                     if shuttingdown { return }
                     doneFunc := func() { queue.MarkDone(client); <-semaphore }
                     go func() { select {
                         case client.PushCh() <- pushEv: return      -- deliver: the stream loop pushes, then calls done()
                         case <-closed:  doneFunc()                  -- closedExit
                         case <-stopCh:  doneFunc() } }() } }        -- stopExit

Goroutine scheduling, `select` choice and the environment (producers, clients connecting and dying,
server stop) are the choice of the next event; the theorems quantify over all event sequences.
-/
namespace IstioModel.C02

/-- Where the `doSendPushes` loop is. -/
inductive LoopPc
  | top             -- at the outer `select`
  | acquiring       -- took the `default:` branch, at (possibly blocked in) `semaphore <- struct{}{}`
  | holding         -- has put its token into the semaphore, in (or about to call) `Dequeue`
  | exitedStop      -- returned through `case <-stopCh`
  | exitedShutdown  -- returned through `if shuttingdown` (its token stays in the semaphore)
  | crashed         -- `Dequeue` handed out a nil request: `recordPushTriggers(push.Reason)` dereferences it (panic)
  deriving DecidableEq, Repr

/-- A dequeued (connection, request) travelling towards its `done()`. -/
abbrev Flight := Conn × Option Ref

structure Sender where
  q         : QState := {}
  cap       : Nat := 1                 -- capacity of the semaphore channel (`features.PushThrottle`)
  tokens    : Nat := 0                 -- `len(semaphore)`
  loop      : LoopPc := .top
  parked    : List Flight := []        -- goroutines waiting in the inner `select`
  delivered : List Flight := []        -- events a stream loop has received; `done()` not yet called
  closed    : Conn → Bool := fun _ => false   -- the client's stream context is done
  gone      : Conn → Bool := fun _ => false   -- the connection's stream loop has returned
  stopped   : Bool := false            -- `stopCh` is closed
  -- history
  deqs      : Conn → Nat := fun _ => 0   -- how often `Dequeue` handed out the connection
  dones     : Conn → Nat := fun _ => 0   -- how often `MarkDone` was called for it by an exit path

def bump (f : Conn → Nat) (c : Conn) : Conn → Nat := fun c' => if c' = c then f c + 1 else f c'

/-- `doneFunc()`: `queue.MarkDone(client); <-semaphore`. -/
def doneFunc (s : Sender) (c : Conn) : Sender :=
  { s with q := markDone s.q c, tokens := s.tokens - 1, dones := bump s.dones c }

/-- Remove the first flight of connection `c` from a list. -/
def takeFlight (c : Conn) : List Flight → Option (Flight × List Flight)
  | [] => none
  | f :: rest =>
    if f.1 = c then some (f, rest)
    else match takeFlight c rest with
      | some (g, rest') => some (g, f :: rest')
      | none => none

inductive SEv
  -- the sender and the stream loops
  | enter                -- outer `default:` (only when `stopCh` is not ready)
  | acquire              -- `semaphore <- struct{}{}`
  | loopStop             -- outer `case <-stopCh: return`
  | dequeue              -- `queue.Dequeue()` returns (a connection, or shutting down)
  | deliver (c : Conn)   -- inner `case client.PushCh() <- pushEv` (the stream loop of `c` received it)
  | pushDone (c : Conn)  -- the stream loop finished `pushConnection` (ok or error) and calls `pushEv.done()`
  | loopReturn (c : Conn)  -- the stream loop of `c` returns (`con.stop` closed by a forced disconnect, the request
                           -- channel closed, a failed `Process`/`Push`): never between taking a push event and its
                           -- `done()` (`Push` calls `done()` before the loop looks at anything else); the handler
                           -- returning ends the stream's context
  | closedExit (c : Conn)  -- inner `case <-closed: doneFunc()`
  | stopExit (c : Conn)    -- inner `case <-stopCh: doneFunc()`
  -- the environment
  | enq (c : Conn) (r : Option Ref)   -- `queue.Enqueue`
  | close (c : Conn)                  -- the client's stream ends (context cancelled) - at any moment
  | stop                              -- server stop: `close(stopCh)`
  | shut                              -- `queue.ShutDown()`
  deriving Repr

/-- One event; `none` when it is not enabled (a blocked channel operation, a `select` case that is
    not ready). -/
def stepS (s : Sender) : SEv → Option Sender
  | .enter =>
    if s.loop = .top ∧ s.stopped = false then some { s with loop := .acquiring } else none
  | .acquire =>
    if s.loop = .acquiring ∧ s.tokens < s.cap then
      some { s with tokens := s.tokens + 1, loop := .holding }
    else none
  | .loopStop =>
    if s.loop = .top ∧ s.stopped = true then some { s with loop := .exitedStop } else none
  | .dequeue =>
    if s.loop = .holding then
      match dequeueRes s.q with
      | .blocked => none
      | .shutdown => some { s with loop := .exitedShutdown }
      | .got c r =>
        match r with
        | none => some { s with q := dequeueState s.q, loop := .crashed, deqs := bump s.deqs c }
        | some _ =>
          some { s with q := dequeueState s.q, parked := s.parked ++ [(c, r)], loop := .top, deqs := bump s.deqs c }
    else none
  | .deliver c =>
    if s.gone c then none   -- a loop that has returned receives nothing
    else match takeFlight c s.parked with
      | some (f, rest) => some { s with parked := rest, delivered := s.delivered ++ [f] }
      | none => none
  | .loopReturn c =>
    if s.delivered.any (fun f => f.1 == c) then none
    else some { s with gone := fun c' => if c' = c then true else s.gone c'
                       closed := fun c' => if c' = c then true else s.closed c' }
  | .pushDone c =>
    match takeFlight c s.delivered with
    | some (_, rest) => some (doneFunc { s with delivered := rest } c)
    | none => none
  | .closedExit c =>
    if s.closed c then
      match takeFlight c s.parked with
      | some (_, rest) => some (doneFunc { s with parked := rest } c)
      | none => none
    else none
  | .stopExit c =>
    if s.stopped then
      match takeFlight c s.parked with
      | some (_, rest) => some (doneFunc { s with parked := rest } c)
      | none => none
    else none
  | .enq c r => some { s with q := enqueue s.q c r }
  | .close c => some { s with closed := fun c' => if c' = c then true else s.closed c' }
  | .stop => some { s with stopped := true }
  | .shut => some { s with q := shutDown s.q }

def runS (s : Sender) : List SEv → Option Sender
  | [] => some s
  | e :: es => (stepS s e).bind (fun s' => runS s' es)

/-- The semaphore token the loop itself accounts for. -/
def LoopPc.holds : LoopPc → Nat
  | .holding | .exitedShutdown | .crashed => 1
  | _ => 0

/-! ### Running the autonomous part to quiescence (used by the driver)

Everything except `deliver` / `pushDone` and the environment happens by itself.  The order of
autonomous steps is scheduler-dependent; the quiescent state reached is compared with the real
system with the queue order read as a set. -/

def firstExit (s : Sender) : Option SEv :=
  match s.parked.find? (fun f => s.closed f.1 || s.stopped) with
  | some f => some (if s.closed f.1 then .closedExit f.1 else .stopExit f.1)
  | none => none

def settleStep (s : Sender) : Option Sender :=
  match firstExit s with
  | some e => stepS s e
  | none =>
    match stepS s .loopStop with
    | some s' => some s'
    | none =>
      match stepS s .enter with
      | some s' => some s'
      | none =>
        match stepS s .acquire with
        | some s' => some s'
        | none => stepS s .dequeue

def settle : Nat → Sender → Sender
  | 0, s => s
  | n + 1, s => match settleStep s with
    | some s' => settle n s'
    | none => s

end IstioModel.C02
