import IstioModel.C02.QueueTheorems

/-!
# C02 - the push queue refines a per-connection mailbox

The abstract specification a reader should have in mind for `PushQueue`:

* every connection has a **mailbox** holding the merge (`CopyMerge`, in arrival order) of every
  request accepted for it since it was last handed out - as a *value*: no pointers, no sharing;
* a connection is **busy** from the moment it is handed to a worker until `MarkDone`;
* connections that have mail and are not busy wait in FIFO **order**;
* `Dequeue` hands out the first of them together with its whole mailbox and empties the mailbox;
* mail arriving for a busy connection stays in its mailbox, and `MarkDone` puts the connection back
  in line if there is any.

`queue_refines_mailbox`: under the representation invariant, every operation of the real queue
(pointers into a heap with arbitrary sharing) is exactly that operation on the abstract state read
off it, with the same answer.  Stated for non-nil enqueues (nobody enqueues a nil request; the
executable model and the differential tie do cover that corner).
-/
namespace IstioModel.C02

structure Spec where
  box   : Conn → Option View
  busy  : Conn → Bool
  order : List Conn
  down  : Bool

def Spec.enq (a : Spec) (c : Conn) (v : View) : Spec :=
  if a.down then a
  else { a with
    box := fun c' => if c' = c then liftO vCopyMerge (a.box c) (some v) else a.box c'
    order := if a.busy c || (a.box c).isSome then a.order else a.order ++ [c] }

def Spec.deq (a : Spec) : Spec :=
  match a.order with
  | [] => a
  | c :: rest =>
    { a with order := rest
             box := fun c' => if c' = c then none else a.box c'
             busy := fun c' => if c' = c then true else a.busy c' }

/-- The answer of the abstract `Dequeue`. -/
inductive SpecOut
  | blocked | shutdown | got (c : Conn) (mail : Option View)

def Spec.deqOut (a : Spec) : SpecOut :=
  match a.order with
  | [] => if a.down then .shutdown else .blocked
  | c :: _ => .got c (a.box c)

def Spec.done (a : Spec) (c : Conn) : Spec :=
  { a with busy := fun c' => if c' = c then false else a.busy c'
           order := if a.busy c && (a.box c).isSome then a.order ++ [c] else a.order }

def Spec.shut (a : Spec) : Spec := { a with down := true }

theorem Spec.eq_of (a b : Spec) (h1 : ∀ c, a.box c = b.box c) (h2 : ∀ c, a.busy c = b.busy c)
    (h3 : a.order = b.order) (h4 : a.down = b.down) : a = b := by
  cases a; cases b
  simp only [Spec.mk.injEq] at *
  exact ⟨funext h1, funext h2, h3, h4⟩

/-! ## Abstraction function -/

/-- The pointer holding `c`'s mail: its pending request, else the one parked while it is busy. -/
def mailRef (s : QState) (c : Conn) : Option Ref :=
  match s.pending c with
  | some r => r
  | none => procOf s c

def abs (s : QState) : Spec :=
  { box := fun c => viewAt s.heap (mailRef s c)
    busy := fun c => (s.processing c).isSome
    order := s.queue
    down := s.down }

/-- No nil pointer is stored as pending (holds as long as nobody enqueues nil). -/
def NN (s : QState) : Prop := ∀ c, s.pending c ≠ some none

theorem mailRef_ok (s : QState) (hi : Inv s) (c : Conn) : okRef s.heap.reqs.length (mailRef s c) = true := by
  unfold mailRef
  cases h : s.pending c with
  | none => exact procOf_ok s hi c
  | some r => exact hi.pref c r h

theorem viewAt_stableO {h h' : Heap} (hle : h.le h') (hwf : h.wf = true) (r : Option Ref)
    (hr : okRef h.reqs.length r = true) : viewAt h' r = viewAt h r := by
  cases r with
  | none => rfl
  | some i => exact viewAt_stable hle hwf i (by simpa [okRef] using hr)

theorem viewAt_isSome (h : Heap) (r : Ref) (hr : r < h.reqs.length) : (viewAt h (some r)).isSome = true := by
  simp [viewAt, List.getElem?_eq_getElem hr]

theorem pending_none_of_processing (s : QState) (hi : Inv s) (c : Conn) (req : Option Ref)
    (hp : s.processing c = some req) : s.pending c = none := by
  cases h : s.pending c with
  | none => rfl
  | some v => have := hi.excl c (by simp [h]); rw [hp] at this; cases this

/-! ## Refinement, operation by operation -/

theorem refines_enqueue (s : QState) (hi : Inv s) (hnn : NN s) (c : Conn) (r : Ref) (R : ReqObj)
    (hR : s.heap.reqs[r]? = some R) :
    abs (enqueue s c (some r)) = (abs s).enq c (view s.heap R) ∧ NN (enqueue s c (some r)) := by
  have hr : r < s.heap.reqs.length := (List.getElem?_eq_some_iff.mp hR).1
  have hrr : okRef s.heap.reqs.length (some r) = true := by simp [okRef, hr]
  have hvr : viewAt s.heap (some r) = some (view s.heap R) := by simp [viewAt, hR]
  by_cases hd : s.down = true
  · have e : enqueue s c (some r) = s := by simp [enqueue, hd]
    rw [e]; exact ⟨by simp [Spec.enq, abs, hd], hnn⟩
  · have hd' : s.down = false := by simpa using hd
    have hle := queue_never_writes s (.enq c (some r))
    simp only [stepQ] at hle
    -- entries of other connections
    have hother : ∀ c', c' ≠ c → mailRef (enqueue s c (some r)) c' = mailRef s c' := by
      intro c' hcc
      obtain ⟨e1, e2, _, _⟩ := other_conn_entries s c c' hcc (some r)
      simp [mailRef, procOf, e1, e2]
    have hbox_other : ∀ c', c' ≠ c →
        viewAt (enqueue s c (some r)).heap (mailRef (enqueue s c (some r)) c') = viewAt s.heap (mailRef s c') := by
      intro c' hcc
      rw [hother c' hcc]
      exact viewAt_stableO hle hi.wf _ (mailRef_ok s hi c')
    cases hp : s.processing c with
    | some req =>
      have hpn := pending_none_of_processing s hi c req hp
      have hreq := hi.qref c req hp
      have e : enqueue s c (some r) =
          { s with heap := (copyMerge s.heap req (some r)).1
                   processing := s.processing.set c (some (copyMerge s.heap req (some r)).2) } := by
        simp [enqueue, hd', hp]
      constructor
      · apply Spec.eq_of
        · intro c'
          by_cases hcc : c' = c
          · subst hcc
            have : mailRef (enqueue s c' (some r)) c' = (copyMerge s.heap req (some r)).2 := by
              rw [e]; simp [mailRef, procOf, hpn]
            simp only [abs, Spec.enq, hd', Bool.false_eq_true, if_false, if_true, this]
            rw [e]
            simp only []
            rw [copyMerge_viewO s.heap req (some r) hreq hrr, hvr]
            simp [mailRef, hpn, procOf, hp]
          · have := hbox_other c' hcc
            simp only [abs, Spec.enq, hd', Bool.false_eq_true, if_false, hcc]
            exact this
        · intro c'
          rw [e]
          by_cases hcc : c' = c
          · subst hcc; simp [abs, Spec.enq, hd', hp]
          · simp [abs, Spec.enq, hd', hcc]
        · rw [e]; simp [abs, Spec.enq, hd', hp]
        · rw [e]; simp [abs, Spec.enq, hd']
      · intro c'; rw [e]; exact hnn c'
    | none =>
      cases hq : s.pending c with
      | some req =>
        have hreq := hi.pref c req hq
        have e : enqueue s c (some r) =
            { s with heap := (copyMerge s.heap req (some r)).1
                     pending := s.pending.set c (some (copyMerge s.heap req (some r)).2) } := by
          simp [enqueue, hd', hp, hq]
        have hreqne : req ≠ none := by intro h; subst h; exact hnn c hq
        constructor
        · apply Spec.eq_of
          · intro c'
            by_cases hcc : c' = c
            · subst hcc
              have : mailRef (enqueue s c' (some r)) c' = (copyMerge s.heap req (some r)).2 := by
                rw [e]; simp [mailRef]
              simp only [abs, Spec.enq, hd', Bool.false_eq_true, if_false, if_true, this]
              rw [e]
              simp only []
              rw [copyMerge_viewO s.heap req (some r) hreq hrr, hvr]
              simp [mailRef, hq]
            · have := hbox_other c' hcc
              simp only [abs, Spec.enq, hd', Bool.false_eq_true, if_false, hcc]
              exact this
          · intro c'; rw [e]; simp [abs, Spec.enq, hd']
          · rw [e]
            cases req with
            | none => exact absurd rfl hreqne
            | some q =>
              have hq' : q < s.heap.reqs.length := by simpa [okRef] using hreq
              simp [abs, Spec.enq, hd', hp, mailRef, hq, viewAt_isSome _ _ hq']
          · rw [e]; simp [abs, Spec.enq, hd']
        · intro c'
          rw [e]
          by_cases hcc : c' = c
          · subst hcc
            simp only [CMap.set_same, ne_eq, Option.some.injEq]
            intro h
            have := (copyMerge_ref_none _ _ _ h).2
            cases this
          · simp only [CMap.set_other _ _ _ _ hcc]; exact hnn c'
      | none =>
        have e : enqueue s c (some r) =
            { s with pending := s.pending.set c (some (some r)), queue := s.queue ++ [c] } := by
          simp [enqueue, hd', hp, hq]
        constructor
        · apply Spec.eq_of
          · intro c'
            by_cases hcc : c' = c
            · subst hcc
              rw [e]
              have hvn : viewAt s.heap none = none := rfl
              simp [abs, Spec.enq, hd', mailRef, hq, hp, procOf, hvr, hvn, liftO]
            · have := hbox_other c' hcc
              simp only [abs, Spec.enq, hd', Bool.false_eq_true, if_false, hcc]
              exact this
          · intro c'; rw [e]; simp [abs, Spec.enq, hd']
          · rw [e]; simp [abs, Spec.enq, hd', hp, mailRef, hq, procOf, viewAt]
          · rw [e]; simp [abs, Spec.enq, hd']
        · intro c'
          rw [e]
          by_cases hcc : c' = c
          · subst hcc; simp
          · simp only [CMap.set_other _ _ _ _ hcc]; exact hnn c'

theorem refines_dequeue (s : QState) (hi : Inv s) (hnn : NN s) :
    abs (dequeueState s) = (abs s).deq ∧ NN (dequeueState s) ∧
    (match dequeueRes s with
     | .blocked => (abs s).deqOut = .blocked
     | .shutdown => (abs s).deqOut = .shutdown
     | .got c r => (abs s).deqOut = .got c (viewAt s.heap r)) := by
  cases hq : s.queue with
  | nil =>
    have e : dequeueState s = s := by simp [dequeueState, hq]
    rw [e]
    refine ⟨by simp [Spec.deq, abs, hq], hnn, ?_⟩
    simp only [dequeueRes, hq, Spec.deqOut, abs]
    cases s.down <;> simp
  | cons c rest =>
    have hm : c ∈ s.queue := by simp [hq]
    have hpend := (hi.queued c).mp hm
    have hproc : s.processing c = none := hi.excl c hpend
    have e : dequeueState s =
        { s with queue := rest, pending := s.pending.set c none, processing := s.processing.set c (some none) } := by
      simp [dequeueState, hq]
    refine ⟨?_, ?_, ?_⟩
    · apply Spec.eq_of
      · intro c'
        rw [e]
        by_cases hcc : c' = c
        · subst hcc; simp [abs, Spec.deq, hq, mailRef, procOf, viewAt]
        · simp [abs, Spec.deq, hq, mailRef, procOf, hcc]
      · intro c'
        rw [e]
        by_cases hcc : c' = c
        · subst hcc; simp [abs, Spec.deq, hq]
        · simp [abs, Spec.deq, hq, hcc]
      · rw [e]; simp [abs, Spec.deq, hq]
      · rw [e]; simp [abs, Spec.deq, hq]
    · intro c'
      rw [e]
      by_cases hcc : c' = c
      · subst hcc; simp
      · simp only [CMap.set_other _ _ _ _ hcc]; exact hnn c'
    · simp only [dequeueRes, hq, Spec.deqOut, abs, pendingOf, mailRef]
      cases hp : s.pending c with
      | none => rw [hp] at hpend; cases hpend
      | some v => simp

theorem refines_markDone (s : QState) (hi : Inv s) (hnn : NN s) (c : Conn) :
    abs (markDone s c) = (abs s).done c ∧ NN (markDone s c) := by
  cases hp : s.processing c with
  | none =>
    have e : markDone s c = { s with processing := s.processing.set c none } := by
      simp [markDone, hp]
    have e2 : s.processing.set c none = s.processing := by
      funext c'; by_cases hcc : c' = c
      · subst hcc; simp [hp]
      · simp [hcc]
    rw [e, e2]
    refine ⟨?_, hnn⟩
    apply Spec.eq_of
    · intro c'; rfl
    · intro c'
      by_cases hcc : c' = c
      · subst hcc; simp [abs, Spec.done, hp]
      · simp [abs, Spec.done, hcc]
    · simp [abs, Spec.done, hp]
    · rfl
  | some v =>
    have hpn := pending_none_of_processing s hi c v hp
    cases v with
    | none =>
      have e : markDone s c = { s with processing := s.processing.set c none } := by
        simp [markDone, hp]
      rw [e]
      refine ⟨?_, hnn⟩
      apply Spec.eq_of
      · intro c'
        by_cases hcc : c' = c
        · subst hcc; simp [abs, Spec.done, mailRef, procOf, hpn, hp]
        · simp [abs, Spec.done, mailRef, procOf, hcc]
      · intro c'
        by_cases hcc : c' = c
        · subst hcc; simp [abs, Spec.done]
        · simp [abs, Spec.done, hcc]
      · simp [abs, Spec.done, hp, mailRef, hpn, procOf, viewAt]
      · rfl
    | some r =>
      have hr : r < s.heap.reqs.length := by simpa [okRef] using hi.qref c _ hp
      have e : markDone s c = { s with processing := s.processing.set c none
                                       pending := s.pending.set c (some (some r))
                                       queue := s.queue ++ [c] } := by
        simp [markDone, hp]
      rw [e]
      constructor
      · apply Spec.eq_of
        · intro c'
          by_cases hcc : c' = c
          · subst hcc; simp [abs, Spec.done, mailRef, procOf, hpn, hp]
          · simp [abs, Spec.done, mailRef, procOf, hcc]
        · intro c'
          by_cases hcc : c' = c
          · subst hcc; simp [abs, Spec.done]
          · simp [abs, Spec.done, hcc]
        · simp [abs, Spec.done, hp, mailRef, hpn, procOf, viewAt_isSome _ _ hr]
        · rfl
      · intro c'
        by_cases hcc : c' = c
        · subst hcc; simp
        · simp only [CMap.set_other _ _ _ _ hcc]; exact hnn c'

theorem refines_shutDown (s : QState) : abs (shutDown s) = (abs s).shut := rfl

/-! ## The refinement over whole histories -/

/-- Abstract operation corresponding to a concrete one (the enqueued pointer read as a value). -/
def Spec.step (a : Spec) (h : Heap) : Op → Spec
  | .enq c r => (match viewAt h r with
      | some v => a.enq c v
      | none => a)
  | .deq => a.deq
  | .done c => a.done c
  | .shut => a.shut

/-- Histories whose enqueues carry a non-nil pointer to an existing request. -/
def OpsNN (n : Nat) : List Op → Prop
  | [] => True
  | .enq _ r :: ops => (∃ i, r = some i ∧ i < n) ∧ OpsNN n ops
  | _ :: ops => OpsNN n ops

theorem opsNN_mono {n m : Nat} (h : n ≤ m) : ∀ ops, OpsNN n ops → OpsNN m ops
  | [], _ => trivial
  | .enq _ _ :: ops, ho => ⟨by obtain ⟨i, h1, h2⟩ := ho.1; exact ⟨i, h1, Nat.lt_of_lt_of_le h2 h⟩, opsNN_mono h ops ho.2⟩
  | .deq :: ops, ho => opsNN_mono h ops ho
  | .done _ :: ops, ho => opsNN_mono h ops ho
  | .shut :: ops, ho => opsNN_mono h ops ho

def Spec.run (a : Spec) (h : Heap) : List Op → Spec
  | [] => a
  | op :: ops => (a.step h op).run h ops

/-- **queue_refines_mailbox**: from an empty queue over any well-formed heap `h` of request
    objects (any sharing), after any history of operations whose enqueues point to objects of `h`,
    the real queue's state reads exactly as the abstract mailbox state after the same history - in
    which each enqueue contributes the *value* its request had in `h`.  (So no operation ever
    changes the value of a request it was given, no connection's mail depends on another's, mail
    arriving while busy is kept and re-queued, and hand-outs are FIFO.) -/
theorem queue_refines_mailbox (h : Heap) (hwf : h.wf = true) (ops : List Op) (hok : OpsNN h.reqs.length ops) :
    abs (runQ (QState.init h) ops) = (abs (QState.init h)).run h ops := by
  suffices H : ∀ (s : QState), Inv s → NN s → h.le s.heap → OpsNN h.reqs.length ops →
      abs (runQ s ops) = (abs s).run h ops by
    exact H _ (inv_init h hwf) (by intro c; simp [QState.init]) (Heap.le_refl h) hok
  clear hok
  induction ops with
  | nil => intro s _ _ _ _; rfl
  | cons op ops ih =>
    intro s hi hnn hle hok
    have hle' : h.le (stepQ s op).heap := Heap.le_trans hle (queue_never_writes s op)
    cases op with
    | enq c r =>
      obtain ⟨⟨i, rfl, hi'⟩, hrest⟩ := hok
      have hi'' : i < s.heap.reqs.length := Nat.lt_of_lt_of_le hi' hle.reqs.length_le
      have hR : s.heap.reqs[i]? = some s.heap.reqs[i] := List.getElem?_eq_getElem hi''
      obtain ⟨e, hnn'⟩ := refines_enqueue s hi hnn c i _ hR
      have hv : viewAt h (some i) = some (view s.heap s.heap.reqs[i]) := by
        rw [← viewAt_stable hle hwf i hi']; simp [viewAt, hR]
      have hok1 : (Op.enq c (some i)).ok s := by simp [Op.ok, okRef, hi'']
      simp only [runQ, Spec.run, Spec.step, hv, stepQ]
      rw [← e]
      exact ih _ (inv_step s _ hi hok1) hnn' hle' hrest
    | deq =>
      obtain ⟨e, hnn', _⟩ := refines_dequeue s hi hnn
      simp only [runQ, Spec.run, Spec.step, stepQ]
      rw [← e]
      exact ih _ (inv_step s .deq hi trivial) hnn' hle' hok
    | done c =>
      obtain ⟨e, hnn'⟩ := refines_markDone s hi hnn c
      simp only [runQ, Spec.run, Spec.step, stepQ]
      rw [← e]
      exact ih _ (inv_step s (.done c) hi trivial) hnn' hle' hok
    | shut =>
      simp only [runQ, Spec.run, Spec.step, stepQ]
      rw [← refines_shutDown]
      exact ih _ (inv_step s .shut hi trivial) hnn hle' hok

/-- What a worker receives is the abstract mailbox (answers agree along every history). -/
theorem dequeue_answer_refines (h : Heap) (hwf : h.wf = true) (ops : List Op) (hok : OpsNN h.reqs.length ops) :
    let s := runQ (QState.init h) ops
    (match dequeueRes s with
     | .blocked => (abs s).deqOut = .blocked
     | .shutdown => (abs s).deqOut = .shutdown
     | .got c r => (abs s).deqOut = .got c (viewAt s.heap r)) := by
  have hok' : OpsOk h.reqs.length ops := by
    clear hwf
    induction ops with
    | nil => trivial
    | cons op ops ih =>
      cases op with
      | enq c r => obtain ⟨⟨i, rfl, hi⟩, hr⟩ := hok; exact ⟨by simp [okRef, hi], ih hr⟩
      | deq => exact ih hok
      | done c => exact ih hok
      | shut => exact ih hok
  have hinv : Inv (runQ (QState.init h) ops) := inv_run _ ops (inv_init h hwf) hok'
  have hnn : NN (runQ (QState.init h) ops) := by
    suffices H : ∀ (s : QState), Inv s → NN s → OpsNN s.heap.reqs.length ops → NN (runQ s ops) by
      exact H _ (inv_init h hwf) (by intro c; simp [QState.init]) hok
    clear hok hok' hinv
    induction ops with
    | nil => intro s _ hnn _; exact hnn
    | cons op ops ih =>
      intro s hi hnn hok
      have hl := (queue_never_writes s op).reqs.length_le
      cases op with
      | enq c r =>
        obtain ⟨⟨i, rfl, hi'⟩, hrest⟩ := hok
        have hR : s.heap.reqs[i]? = some s.heap.reqs[i] := List.getElem?_eq_getElem hi'
        exact ih _ (inv_step s _ hi (by simp [Op.ok, okRef, hi'])) (refines_enqueue s hi hnn c i _ hR).2
          (opsNN_mono hl ops hrest)
      | deq => exact ih _ (inv_step s .deq hi trivial) (refines_dequeue s hi hnn).2.1 (opsNN_mono hl ops hok)
      | done c => exact ih _ (inv_step s (.done c) hi trivial) (refines_markDone s hi hnn c).2 (opsNN_mono hl ops hok)
      | shut => exact ih _ (inv_step s .shut hi trivial) hnn (opsNN_mono hl ops hok)
  exact (refines_dequeue _ hinv hnn).2.2

/-! ## Non-vacuity: a concrete history -/

/-- Two connections get the same shared request `q0` (one push); connection 1 is handed out, a
    second request `q1` arrives for it during its push, `MarkDone` re-queues it. -/
def exOps : List Op := [.enq 0 (some 0), .enq 1 (some 0), .deq, .deq, .enq 1 (some 1), .done 1]

example : OpsNN exHeap.reqs.length exOps := by simp [OpsNN, exOps, exHeap]

example : (runQ (QState.init exHeap) exOps).queue = [1] := by decide
example : (runQ (QState.init exHeap) exOps).pending 1 = some (some 1) := by decide
example : (runQ (QState.init exHeap) exOps).processing 0 = some none := by decide
/-- the shared request is physically the same object, with the same content, afterwards -/
example : (runQ (QState.init exHeap) exOps).heap = exHeap := by decide

end IstioModel.C02
