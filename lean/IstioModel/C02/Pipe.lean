import IstioModel.C02.Facts
import IstioModel.C02.Debounce
import IstioModel.C02.Sender

/-
C02 - the whole path of a change notification, composed from the models of its stages:

  ConfigUpdate(req)            s.pushChannel <- req                      (discovery.go ConfigUpdate)
  debounce loop                r := <-ch ... go push(req) / bypass       (Debounce.lean)
  pushFn = s.Push              initPushContext; req.Push = push;
    -> AdsPushAll              ConfigsUpdated nil -> empty set
    -> StartPush               req.Start = now; for p in AllClients(): pushQueue.Enqueue(p, req)
  PushQueue / doSendPushes     (Queue.lean, Sender.lean)
  stream loop of connection c  pushEv := <-con.PushCh(): pushConnection(con, pushEv); pushEv.done()

`AllClients()` is every connection in `adsClients`: a connection is added (`addCon`) in the middle of
its initialisation, before it is marked initialised, and removed when its stream loop returns.

The `Pipe` state keeps the stage models side by side; an event of the pipe is an event of one stage,
plus the hand-overs: `recv` moves the head of the channel into the debounce loop, `startPush`
allocates the request object that `pushFn` was entered with and enqueues that **one shared object**
for every registered connection.

Histories are **logs since the last `mark`** (`accepted`, `recvS`, `pushS`, `enqLog`, `seenLog`,
`dropLog`): `mark` is a ghost event that empties them and changes nothing else.  A statement about
the logs therefore speaks about *what was accepted since any chosen moment* against *what was
delivered since that moment* - a notification repeating keys that were delivered before the mark has
to arrive again.
-/
namespace IstioModel.C02

/-- A log entry: connection, snapshot (push context version) of the request, what the request says. -/
abbrev LogE := Conn × Option Nat × List Fact

/-- Everything the log says about connection `c`. -/
def logOf (l : List LogE) (c : Conn) : List Fact := (l.filter (fun e => e.1 == c)).flatMap (·.2.2)

structure Pipe where
  opts      : DOpts := { after := 1, max := 10, eds := true }
  chan      : List View := []            -- content of `s.pushChannel` (capacity `chanCap`)
  db        : DB := {}                   -- the debounce loop
  toStart   : List View := []            -- `pushFn` calls that have been entered and not yet run `StartPush`
  snd       : Sender := {}               -- push queue (with the heap of request objects) + sender
  conns     : List Conn := []            -- `adsClients` / `AllClients()`
  version   : Nat := 0                   -- push context versions handed out by `s.Push`
  -- logs since the last `mark` (append-only in between)
  accepted  : List View := []            -- requests `ConfigUpdate` put into the channel
  recvS     : List Fact := []            -- facts of requests the debounce loop took from the channel
  pushS     : List Fact := []            -- facts of requests handed to `pushFn`
  enqLog    : List LogE := []            -- (c, snapshot, facts) of every request `StartPush` enqueued for c while the queue accepted
  seenLog   : List LogE := []            -- (c, snapshot, facts) of every `Event.pushRequest` received by c's stream loop
  dropLog   : List LogE := []            -- push events of c given up by a closed-stream / server-stop exit

def chanCap : Nat := 10

/-- Append the map object for a non-nil map field. -/
def pushO {α : Type} (st : List (List α)) (o : Option (List α)) : List (List α) :=
  match o with
  | some l => st ++ [l]
  | none => st

/-- Allocate the request object `pushFn` works on: a fresh request with fresh maps reading `v`. -/
def allocView (h : Heap) (v : View) : Heap :=
  { cfgs := pushO h.cfgs v.configs
    adrs := pushO h.adrs v.addrs
    wpss := pushO h.wpss v.wps
    rsns := pushO h.rsns v.reason
    reqs := h.reqs ++ [{ configs := v.configs.map (fun _ => h.cfgs.length)
                         addrs := v.addrs.map (fun _ => h.adrs.length)
                         wps := v.wps.map (fun _ => h.wpss.length)
                         reason := v.reason.map (fun _ => h.rsns.length)
                         push := v.push, start := v.start, delta := v.delta, forced := v.forced }] }

/-- What `Push` / `AdsPushAll` / `StartPush` do to the request before enqueueing it: the new
    snapshot, a non-nil `ConfigsUpdated` (the clock value of `Start` is not tracked). -/
def prepPush (version : Nat) (v : View) : View :=
  { v with push := some version, configs := some (keys v.configs) }

/-- `for _, p := range s.AllClients() { s.pushQueue.Enqueue(p, req) }`. -/
def enqueueAll (q : QState) (r : Ref) : List Conn → QState
  | [] => q
  | c :: cs => enqueueAll (enqueue q c (some r)) r cs

/-- Requests handed to `pushFn` by a debounce step (debounced path, then bypass). -/
def newPushes (old new : DB) : List View :=
  new.pushed.drop old.pushed.length ++ new.edsPushed.drop old.edsPushed.length

inductive PEv
  | configUpdate (v : View)     -- `ConfigUpdate(req)`: `s.pushChannel <- req`
  | recv                        -- debounce: `case r := <-ch`
  | deb (e : Ev)                -- any other event of the debounce loop and its goroutines
  | startPush                   -- the oldest entered `pushFn` reaches `StartPush`
  | snd (e : SEv)               -- sender, stream loops, clients closing, server stop (not `enq`)
  | proxyUpdate (c : Conn) (ver : Nat)   -- `ProxyUpdate`: the second caller of `Enqueue`: a forced request for one
                                -- connection carrying `globalPushContext()` (never older than the context of the last
                                -- `StartPush`; it is published a moment before `StartPush` enqueues)
  | register (c : Conn)         -- `addCon`
  | unregister (c : Conn)       -- `removeCon`
  | mark                        -- ghost: start the logs afresh (no effect on the system)

/-- The request `ProxyUpdate` enqueues. -/
def puView (ver : Nat) : View := { forced := true, push := some ver, reason := some [("proxy", 1)] }

def isRecv : Ev → Bool
  | .recv _ => true
  | _ => false

def isEnq : SEv → Bool
  | .enq _ _ => true
  | _ => false

/-- The flight `deliver c` moves to the stream loop (its request is what `pushConnection` sees). -/
def flightFacts (s : Sender) (c : Conn) : List Fact :=
  match takeFlight c s.parked with
  | some (f, _) => facts s.q.heap f.2
  | none => []

/-- ... and its snapshot. -/
def flightPush (s : Sender) (c : Conn) : Option Nat :=
  match takeFlight c s.parked with
  | some (f, _) => (viewAt s.q.heap f.2).bind (·.push)
  | none => none

def stepP (p : Pipe) : PEv → Option Pipe
  | .configUpdate v =>
    if p.chan.length < chanCap then some { p with chan := p.chan ++ [v], accepted := p.accepted ++ [v] } else none
  | .recv =>
    match p.chan with
    | v :: rest =>
      match stepD p.opts p.db (.recv v) with
      | some db' => some { p with chan := rest, db := db', toStart := p.toStart ++ newPushes p.db db'
                                  recvS := p.recvS ++ factsV v, pushS := p.pushS ++ (newPushes p.db db').flatMap factsV }
      | none => none
    | [] => none
  | .deb e =>
    if isRecv e then none
    else match stepD p.opts p.db e with
      | some db' => some { p with db := db', toStart := p.toStart ++ newPushes p.db db'
                                  pushS := p.pushS ++ (newPushes p.db db').flatMap factsV }
      | none => none
  | .startPush =>
    match p.toStart with
    | v :: rest =>
      some { p with toStart := rest, version := p.version + 1
                    enqLog := if p.snd.q.down then p.enqLog
                              else p.enqLog ++ p.conns.map (fun c => (c, some (p.version + 1), factsV v))
                    snd := { p.snd with q := enqueueAll { p.snd.q with heap := allocView p.snd.q.heap (prepPush (p.version + 1) v) }
                                                        p.snd.q.heap.reqs.length p.conns } }
    | [] => none
  | .snd e =>
    if isEnq e then none
    else match stepS p.snd e with
      | some s' =>
        match e with
        | .deliver c => some { p with snd := s', seenLog := p.seenLog ++ [(c, flightPush p.snd c, flightFacts p.snd c)] }
        | .closedExit c => some { p with snd := s', dropLog := p.dropLog ++ [(c, flightPush p.snd c, flightFacts p.snd c)] }
        | .stopExit c => some { p with snd := s', dropLog := p.dropLog ++ [(c, flightPush p.snd c, flightFacts p.snd c)] }
        | _ => some { p with snd := s' }
      | none => none
  | .proxyUpdate c ver =>
    if p.version ≤ ver ∧ p.conns.contains c = true then
      some { p with enqLog := if p.snd.q.down then p.enqLog else p.enqLog ++ [(c, some ver, factsV (puView ver))]
                    snd := { p.snd with q := enqueueAll { p.snd.q with heap := allocView p.snd.q.heap (puView ver) }
                                                        p.snd.q.heap.reqs.length [c] } }
    else none
  | .register c => some { p with conns := if p.conns.contains c then p.conns else p.conns ++ [c] }
  | .unregister c => some { p with conns := p.conns.filter (· ≠ c) }
  | .mark => some { p with accepted := [], recvS := [], pushS := [], enqLog := [], seenLog := [], dropLog := [] }

def runP (p : Pipe) : List PEv → Option Pipe
  | [] => some p
  | e :: es => (stepP p e).bind (fun p' => runP p' es)

end IstioModel.C02
