import IstioModel.C02.Model

/-
C02 - executable model of the `debounce` loop (pilot/pkg/xds/discovery.go) as a transition system
with an explicit clock.

The Go function is one goroutine running `for { select { freeCh | ch | timeChan | stopCh } }` plus
the goroutines it starts (`go push(...)`, and `go func(){ pushFn(req); updateSent.Inc() }` for the
EDS bypass).  `select` picks any ready case, goroutines run at any speed and timers fire at or
after their deadline: all of that is the choice of the next *event* here, and the theorems
quantify over every sequence of enabled events.

State = the loop's locals (`req`, `debouncedEvents`, `free`, `timeChan`, `startDebounce`,
`lastConfigUpdateTime`), the content of `freeCh`, the started-and-not-yet-returned `pushFn` calls,
the clock, and the observable history (what was received, what was handed to `pushFn`,
`updateSent`).  Requests are values (`View`): `req = req.Merge(r)` is `vMerge`, proved in
Theorems.lean to be what the in-place `Merge` computes.
-/
namespace IstioModel.C02

/-- `DebounceOptions`. Durations and times are natural numbers (any unit). -/
structure DOpts where
  after : Nat          -- DebounceAfter
  max   : Nat          -- debounceMax
  eds   : Bool         -- enableEDSDebounce
  deriving Repr

structure DB where
  now       : Nat := 0                      -- the clock (`time.Now()`)
  req       : Option View := none           -- `req`
  debounced : Nat := 0                      -- `debouncedEvents`
  free      : Bool := true                  -- `free`
  timerAt   : Option Nat := none            -- deadline of the `time.After` channel in `timeChan` not yet received from
  start     : Nat := 0                      -- `startDebounce`
  last      : Nat := 0                      -- `lastConfigUpdateTime`
  freeTok   : Bool := false                 -- a token is in `freeCh` (capacity 1)
  running   : List (View × Nat) := []       -- `go push(req, debouncedEvents, ..)` whose `pushFn` has not returned
  edsRunning : List View := []              -- bypass goroutines whose `pushFn` has not returned
  -- history
  recvd     : List View := []               -- everything taken from `ch`, in order (after the Reason default)
  pushed    : List View := []               -- arguments of `pushFn` on the debounced path, in order
  edsPushed : List View := []               -- arguments of `pushFn` on the bypass path
  sent      : Nat := 0                      -- `updateSent`
  batch     : List View := []               -- the events merged into `req` since it was last nil
  deriving Repr

/-- `if len(r.Reason) == 0 { r.Reason = NewReasonStats(UnknownTrigger) }`. -/
def fixReason (r : View) : View :=
  if (keys r.reason).isEmpty then { r with reason := some [("unknown", 1)] } else r

/-- Config keys are encoded `Kind/namespace/name`. -/
def isEndpointsKey (k : String) : Bool := k.startsWith "Endpoints/"

/-- `model.OnlyHasConfigsOfKind(r.ConfigsUpdated, kind.Endpoints)`. -/
def onlyEndpoints (r : View) : Bool :=
  !(keys r.configs).isEmpty && (keys r.configs).all isEndpointsKey

/-- The `pushWorker` closure. -/
def pushWorker (o : DOpts) (s : DB) : DB :=
  if o.max ≤ s.now - s.start ∨ o.after ≤ s.now - s.last then
    match s.req with
    | some v =>
      { s with free := false, running := s.running ++ [(v, s.debounced)], pushed := s.pushed ++ [v]
               req := none, debounced := 0, batch := [] }
    | none => s
  else
    { s with timerAt := some (s.now + (o.after - (s.now - s.last))) }

inductive Ev
  | tick (d : Nat)        -- time passes
  | recv (r : View)       -- `case r := <-ch`
  | timer                 -- `case <-timeChan`
  | pushReturn            -- the running `pushFn` returns: `updateSent.Add(n); freeCh <- struct{}{}`
  | freeRecv              -- `case <-freeCh`
  | edsReturn             -- a bypass `pushFn` returns: `updateSent.Inc()`
  deriving Repr

/-- `case r := <-ch`. -/
def onRecv (o : DOpts) (s : DB) (r0 : View) : DB :=
  let r := fixReason r0
  if !o.eds && onlyEndpoints r then
    { s with recvd := s.recvd ++ [r], edsRunning := s.edsRunning ++ [r], edsPushed := s.edsPushed ++ [r] }
  else
    { s with recvd := s.recvd ++ [r]
             last := s.now
             timerAt := if s.debounced = 0 then some (s.now + o.after) else s.timerAt
             start := if s.debounced = 0 then s.now else s.start
             debounced := s.debounced + 1
             req := liftO vMerge s.req (some r)
             batch := s.batch ++ [r] }

/-- One event; `none` when the event is not enabled in `s`. -/
def stepD (o : DOpts) (s : DB) : Ev → Option DB
  | .tick d => some { s with now := s.now + d }
  | .recv r => some (onRecv o s r)
  | .timer =>
    match s.timerAt with
    | some t =>
      if t ≤ s.now then
        some (if s.free then pushWorker o { s with timerAt := none } else { s with timerAt := none })
      else none
    | none => none
  | .pushReturn =>
    match s.running with
    | (_, n) :: rest => if s.freeTok then none else some { s with running := rest, sent := s.sent + n, freeTok := true }
    | [] => none
  | .freeRecv =>
    if s.freeTok then some (pushWorker o { s with freeTok := false, free := true }) else none
  | .edsReturn =>
    match s.edsRunning with
    | _ :: rest => some { s with edsRunning := rest, sent := s.sent + 1 }
    | [] => none

def runD (o : DOpts) (s : DB) : List Ev → Option DB
  | [] => some s
  | e :: es => (stepD o s e).bind (fun s' => runD o s' es)

end IstioModel.C02
