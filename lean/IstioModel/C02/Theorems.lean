import IstioModel.C02.Model

/-!
# C02 - the merge algebra (`PushRequest.Merge` / `CopyMerge`)

"... debouncing and per-proxy queueing may merge notifications but the merged request always covers
the union of changed keys, stays forced if any input was forced, and uses the newest snapshot ...
merging for one proxy never alters what another proxy is told".

Layout: (1) what the two functions do to the *heap* (`merge_view`, `merge_frame`,
`copyMerge_view`, `copyMerge_pure`, `copyMerge_fresh`), (2) the algebra of the value functions
`vMerge` / `vCopyMerge` they were shown to compute (union, or, newest, counts add, associativity),
(3) the headline statements combined, directly about `merge` / `copyMerge`.
Everything is for all heaps, all requests, all aliasing patterns.
-/
namespace IstioModel.C02

/-! ## Store lemmas -/

theorem getD_set_self {α : Type} (st : List (List α)) (d : Nat) (v : List α) (h : d < st.length) :
    (st.set d v).getD d [] = v := by
  simp [List.getD_eq_getElem?_getD, h]

theorem getD_set_other {α : Type} (st : List (List α)) (d e : Nat) (v : List α) (h : e ≠ d) :
    (st.set d v).getD e [] = st.getD e [] := by
  simp [List.getD_eq_getElem?_getD, Ne.symm h]

theorem getD_append_left {α : Type} (st ext : List (List α)) (d : Nat) (h : d < st.length) :
    (st ++ ext).getD d [] = st.getD d [] := by
  simp [List.getD_eq_getElem?_getD, List.getElem?_append_left h]

theorem getD_append_new {α : Type} (st : List (List α)) (v : List α) :
    (st ++ [v]).getD st.length [] = v := by
  simp [List.getD_eq_getElem?_getD]

theorem keys_rdO {α : Type} (st : List (List α)) (o : Option Ref) : keys (rdO st o) = rd st o := by
  cases o <;> simp [keys, rdO, rd]

theorem rdO_isSome {α : Type} (st : List (List α)) (o : Option Ref) : (rdO st o).isSome = o.isSome := by
  cases o <;> simp [rdO]

/-- Reading through a set field after `Merge` handled it. -/
theorem field_view (st : List (List String)) (p o : Option Ref) (hp : okRef st.length p = true) :
    rdO (fieldStore st p o) (fieldRef p o) =
      (match rdO st p with
       | none => rdO st o
       | some x => some (x ++ keys (rdO st o))) := by
  cases p with
  | none => simp [fieldStore, fieldRef, rdO]
  | some d =>
    have hd : d < st.length := by simpa [okRef] using hp
    simp only [fieldStore, fieldRef, rdO, Option.map_some, mergeInto]
    rw [getD_set_self _ _ _ hd, ← keys_rdO]
    simp [rdO]

theorem reason_view (h : Heap) (P O : ReqObj) (hp : okRef h.rsns.length P.reason = true) :
    rdO (reasonStore h P O) (reasonRef h P O) =
      (if (keys (rdO h.rsns O.reason)).isEmpty then rdO h.rsns P.reason
       else some (keys (rdO h.rsns P.reason) ++ keys (rdO h.rsns O.reason))) := by
  rw [keys_rdO, keys_rdO]
  unfold reasonStore reasonRef
  by_cases he : (rd h.rsns O.reason).isEmpty = true
  · simp [he]
  · simp only [he, Bool.false_eq_true, if_false]
    cases hr : P.reason with
    | none => simp [rdO, rd]
    | some r =>
      have hd : r < h.rsns.length := by simpa [okRef, hr] using hp
      simp only [rdO, Option.map_some, mergeInto, rd]
      rw [getD_set_self _ _ _ hd]

/-! ## `Merge` on the heap -/

theorem merge_nil_left (h : Heap) (o : Option Ref) : merge h none o = (h, o) := rfl

theorem merge_nil_right (h : Heap) (p : Ref) : merge h (some p) none = (h, some p) := rfl

/-- `Merge` returns its receiver (same object), updated in place. -/
theorem merge_eq (h : Heap) (p o : Ref) (P O : ReqObj)
    (hp : h.reqs[p]? = some P) (ho : h.reqs[o]? = some O) :
    merge h (some p) (some o) = (mergeHeap h p P O, some p) := by
  simp [merge, hp, ho]

/-- **What `Merge` computes**: the receiver object afterwards reads as `vMerge` of the two values
    before - for every aliasing pattern between the two requests (shared maps, `p = o`). -/
theorem merge_view (h : Heap) (p o : Ref) (P O : ReqObj)
    (hp : h.reqs[p]? = some P) (ho : h.reqs[o]? = some O) (hwf : P.wf h = true) :
    viewAt (merge h (some p) (some o)).1 (some p) = some (vMerge (view h P) (view h O)) := by
  have hlt : p < h.reqs.length := by
    rcases List.getElem?_eq_some_iff.mp hp with ⟨hl, _⟩; exact hl
  simp only [ReqObj.wf, Bool.and_eq_true] at hwf
  obtain ⟨⟨⟨h1, h2⟩, h3⟩, h4⟩ := hwf
  rw [merge_eq h p o P O hp ho]
  simp only [viewAt, mergeHeap, List.getElem?_set, hlt, if_true, Option.map_some]
  simp only [view, mergeObj, vMerge]
  rw [field_view _ _ _ h1, field_view _ _ _ h2, field_view _ _ _ h3]
  rw [reason_view h P O h4]
  rfl

/-- **What `Merge` may touch** (and nothing else): the receiver object, the receiver's own non-nil
    maps, and possibly one freshly allocated reason map. -/
theorem merge_frame (h : Heap) (p o : Ref) (P O : ReqObj)
    (hp : h.reqs[p]? = some P) (ho : h.reqs[o]? = some O) :
    let h' := (merge h (some p) (some o)).1
    (∀ q, q ≠ p → h'.reqs[q]? = h.reqs[q]?) ∧
    (∀ d, P.configs ≠ some d → h'.cfgs.getD d [] = h.cfgs.getD d []) ∧
    (∀ d, P.addrs ≠ some d → h'.adrs.getD d [] = h.adrs.getD d []) ∧
    (∀ d, P.wps ≠ some d → h'.wpss.getD d [] = h.wpss.getD d []) ∧
    (∀ d, P.reason ≠ some d → d < h.rsns.length → h'.rsns.getD d [] = h.rsns.getD d []) := by
  rw [merge_eq h p o P O hp ho]
  have fs : ∀ (st : List (List String)) (a b : Option Ref) (d : Nat), a ≠ some d →
      (fieldStore st a b).getD d [] = st.getD d [] := by
    intro st a b d hne
    cases a with
    | none => rfl
    | some e =>
      have : d ≠ e := fun x => hne (by rw [x])
      exact getD_set_other _ _ _ _ this
  refine ⟨?_, fs _ _ _, fs _ _ _, fs _ _ _, ?_⟩
  · intro q hq
    simp [mergeHeap, Ne.symm hq]
  · intro d hne hd
    simp only [mergeHeap, reasonStore]
    split
    · rfl
    · cases hr : P.reason with
      | none => exact getD_append_left _ _ _ hd
      | some e =>
        have : d ≠ e := fun x => hne (by rw [hr, x])
        exact getD_set_other _ _ _ _ this

/-- Two request objects share no (non-nil) map object. -/
def mapDisjoint (P Q : ReqObj) : Prop :=
  (∀ d, P.configs = some d → Q.configs ≠ some d) ∧ (∀ d, P.addrs = some d → Q.addrs ≠ some d) ∧
  (∀ d, P.wps = some d → Q.wps ≠ some d) ∧ (∀ d, P.reason = some d → Q.reason ≠ some d)

/-- Consequence of the frame: a request `q` other than the receiver that shares no map with the
    receiver reads exactly the same after `p.Merge(o)` - e.g. a request already handed to `pushFn`
    while debounce keeps merging into the next batch (requests of different `ConfigUpdate` calls are
    built from fresh maps). -/
theorem merge_other_unchanged (h : Heap) (p o q : Ref) (P O Q : ReqObj)
    (hp : h.reqs[p]? = some P) (ho : h.reqs[o]? = some O) (hq : h.reqs[q]? = some Q) (hne : q ≠ p)
    (hwf : Q.wf h = true) (hdis : mapDisjoint P Q) :
    viewAt (merge h (some p) (some o)).1 (some q) = viewAt h (some q) := by
  obtain ⟨f1, f2, f3, f4, f5⟩ := merge_frame h p o P O hp ho
  simp only [ReqObj.wf, Bool.and_eq_true] at hwf
  obtain ⟨⟨⟨w1, w2⟩, w3⟩, w4⟩ := hwf
  obtain ⟨d1, d2, d3, d4⟩ := hdis
  simp only [viewAt, f1 q hne, hq, Option.map_some]
  have key : ∀ (st st' : List (List String)) (pr qr : Option Ref),
      (∀ d, pr ≠ some d → st'.getD d [] = st.getD d []) → (∀ d, pr = some d → qr ≠ some d) →
      rdO st' qr = rdO st qr := by
    intro st st' pr qr hfr hd
    cases qr with
    | none => rfl
    | some e =>
      have : pr ≠ some e := fun hh => hd e hh rfl
      simp only [rdO, Option.map_some]
      rw [hfr e this]
  have kr : rdO (merge h (some p) (some o)).1.rsns Q.reason = rdO h.rsns Q.reason := by
    cases hr : Q.reason with
    | none => rfl
    | some e =>
      have hne' : P.reason ≠ some e := fun hh => d4 e hh hr
      have he : e < h.rsns.length := by simpa [okRef, hr] using w4
      simp only [rdO, Option.map_some]
      rw [f5 e hne' he]
  simp only [view, key _ _ _ _ f2 d1, key _ _ _ _ f3 d2, key _ _ _ _ f4 d3, kr]

/-- `Merge` keeps every reference valid. -/
theorem okRef_mono {n m : Nat} (hnm : n ≤ m) {o : Option Ref} (h : okRef n o = true) : okRef m o = true := by
  cases o with
  | none => rfl
  | some r =>
    simp only [okRef, decide_eq_true_eq] at h ⊢
    exact Nat.lt_of_lt_of_le h hnm

theorem fieldStore_length (st : List (List String)) (a b : Option Ref) :
    (fieldStore st a b).length = st.length := by
  cases a <;> simp [fieldStore, mergeInto]

theorem reasonStore_length_le (h : Heap) (P O : ReqObj) : h.rsns.length ≤ (reasonStore h P O).length := by
  unfold reasonStore
  split
  · exact Nat.le_refl _
  · cases P.reason <;> simp [mergeInto]

theorem fieldRef_ok (n : Nat) (a b : Option Ref) (ha : okRef n a = true) (hb : okRef n b = true) :
    okRef n (fieldRef a b) = true := by
  cases a <;> simp_all [fieldRef]

theorem merge_wf (h : Heap) (a b : Option Ref) (hwf : h.wf = true) : (merge h a b).1.wf = true := by
  unfold merge
  cases a with
  | none => exact hwf
  | some p =>
    cases b with
    | none => exact hwf
    | some o =>
      simp only []
      cases hp : h.reqs[p]? with
      | none => simpa using hwf
      | some P =>
        cases ho : h.reqs[o]? with
        | none => simpa using hwf
        | some O =>
          simp only [Heap.wf, List.all_eq_true] at hwf ⊢
          have hP := hwf P (List.mem_of_getElem? hp)
          have hO := hwf O (List.mem_of_getElem? ho)
          have lift : ∀ R : ReqObj, R.wf h = true → R.wf (mergeHeap h p P O) = true := by
            intro R hR
            simp only [ReqObj.wf, Bool.and_eq_true, mergeHeap, fieldStore_length] at hR ⊢
            exact ⟨⟨⟨hR.1.1.1, hR.1.1.2⟩, hR.1.2⟩, okRef_mono (reasonStore_length_le h P O) hR.2⟩
          intro R hR
          simp only [mergeHeap] at hR
          rcases List.mem_or_eq_of_mem_set hR with hm | he
          · exact lift R (hwf R hm)
          · subst he
            simp only [ReqObj.wf, Bool.and_eq_true] at hP hO
            simp only [ReqObj.wf, Bool.and_eq_true, mergeHeap, fieldStore_length, mergeObj]
            refine ⟨⟨⟨fieldRef_ok _ _ _ hP.1.1.1 hO.1.1.1, fieldRef_ok _ _ _ hP.1.1.2 hO.1.1.2⟩,
              fieldRef_ok _ _ _ hP.1.2 hO.1.2⟩, ?_⟩
            unfold reasonRef reasonStore
            split
            · exact hP.2
            · cases hr : P.reason with
              | none => simp [okRef]
              | some r =>
                have := hP.2
                simp only [hr, okRef, decide_eq_true_eq] at this
                simp [okRef, mergeInto, this]

/-- `req = req.Merge(o1); req = req.Merge(o2); ...` with the same receiver object `p` (what debounce
    does within one batch, whose receiver is the batch's first request). -/
def mergeMany (h : Heap) (p : Ref) : List Ref → Heap
  | [] => h
  | o :: os => mergeMany (merge h (some p) (some o)).1 p os

theorem mergeObj_disjoint (h : Heap) (P O Q : ReqObj) (hwf : Q.wf h = true)
    (hP : mapDisjoint P Q) (hO : mapDisjoint O Q) : mapDisjoint (mergeObj h P O) Q := by
  obtain ⟨p1, p2, p3, p4⟩ := hP
  obtain ⟨o1, o2, o3, o4⟩ := hO
  simp only [ReqObj.wf, Bool.and_eq_true] at hwf
  have fr : ∀ (a b : Option Ref) (qr : Option Ref), (∀ d, a = some d → qr ≠ some d) → (∀ d, b = some d → qr ≠ some d) →
      ∀ d, fieldRef a b = some d → qr ≠ some d := by
    intro a b qr ha hb d hd
    cases a with
    | none => exact hb d hd
    | some e => exact ha d hd
  refine ⟨fr _ _ _ p1 o1, fr _ _ _ p2 o2, fr _ _ _ p3 o3, ?_⟩
  intro d hd
  simp only [mergeObj, reasonRef] at hd
  split at hd
  · exact p4 d hd
  · cases hr : P.reason with
    | some r => rw [hr] at hd; exact p4 d (by rw [hr]; exact hd)
    | none =>
      rw [hr] at hd
      simp only [Option.some.injEq] at hd
      intro hq
      have := hwf.2
      rw [hq] at this
      simp only [okRef, decide_eq_true_eq] at this
      subst hd
      exact absurd this (Nat.lt_irrefl _)

/-- **Hand-off safety**: a request `q` (e.g. one already handed to `pushFn`) that shares no map with
    the receiver `p` of a later batch nor with any request merged into it reads the same after the
    whole batch has been merged - `Merge`'s in-place writes and aliasing stay inside the batch. -/
theorem handoff_safe (h : Heap) (p q : Ref) (os : List Ref) (Q : ReqObj)
    (hq : h.reqs[q]? = some Q) (hne : q ≠ p) (hwf : Q.wf h = true)
    (hp : ∀ P, h.reqs[p]? = some P → mapDisjoint P Q)
    (hos : ∀ o ∈ os, ∀ O, h.reqs[o]? = some O → mapDisjoint O Q) :
    viewAt (mergeMany h p os) (some q) = viewAt h (some q) := by
  induction os generalizing h with
  | nil => rfl
  | cons o os ih =>
    simp only [mergeMany]
    cases hP : h.reqs[p]? with
    | none =>
      have : merge h (some p) (some o) = (h, some p) := by simp [merge, hP]
      rw [this]
      exact ih h hq hwf hp (fun o' ho' => hos o' (List.mem_cons_of_mem _ ho'))
    | some P =>
      cases hO : h.reqs[o]? with
      | none =>
        have : merge h (some p) (some o) = (h, some p) := by simp [merge, hP, hO]
        rw [this]
        exact ih h hq hwf hp (fun o' ho' => hos o' (List.mem_cons_of_mem _ ho'))
      | some O =>
        have hPd := hp P hP
        have hOd := hos o (List.mem_cons_self) O hO
        have hstep := merge_other_unchanged h p o q P O Q hP hO hq hne hwf hPd
        have hfr := merge_frame h p o P O hP hO
        have heq := merge_eq h p o P O hP hO
        have hq1 : (merge h (some p) (some o)).1.reqs[q]? = some Q := by rw [hfr.1 q hne]; exact hq
        have hwf1 : Q.wf (merge h (some p) (some o)).1 = true := by
          rw [heq]
          simp only [ReqObj.wf, Bool.and_eq_true, mergeHeap, fieldStore_length] at hwf ⊢
          exact ⟨⟨⟨hwf.1.1.1, hwf.1.1.2⟩, hwf.1.2⟩, okRef_mono (reasonStore_length_le h P O) hwf.2⟩
        have hp1 : ∀ P', (merge h (some p) (some o)).1.reqs[p]? = some P' → mapDisjoint P' Q := by
          intro P' hP'
          have hlt : p < h.reqs.length := (List.getElem?_eq_some_iff.mp hP).1
          rw [heq] at hP'
          simp only [mergeHeap, List.getElem?_set, hlt, if_true, Option.some.injEq] at hP'
          rw [← hP']
          exact mergeObj_disjoint h P O Q hwf hPd hOd
        have hos1 : ∀ o' ∈ os, ∀ O', (merge h (some p) (some o)).1.reqs[o']? = some O' → mapDisjoint O' Q := by
          intro o' ho' O' hO'
          by_cases hop : o' = p
          · subst hop; exact hp1 O' hO'
          · rw [hfr.1 o' hop] at hO'
            exact hos o' (List.mem_cons_of_mem _ ho') O' hO'
        rw [ih _ hq1 hwf1 hp1 hos1, hstep]

/-! ## `CopyMerge` on the heap -/

/-- `h ≤ h'`: every object of `h` exists unchanged in `h'` (the heap only grew by allocation). -/
structure Heap.le (h h' : Heap) : Prop where
  cfgs : h.cfgs <+: h'.cfgs
  adrs : h.adrs <+: h'.adrs
  wpss : h.wpss <+: h'.wpss
  rsns : h.rsns <+: h'.rsns
  reqs : h.reqs <+: h'.reqs

theorem Heap.le_refl (h : Heap) : h.le h :=
  ⟨List.prefix_refl _, List.prefix_refl _, List.prefix_refl _, List.prefix_refl _, List.prefix_refl _⟩

theorem Heap.le_trans {a b c : Heap} (h1 : a.le b) (h2 : b.le c) : a.le c :=
  ⟨h1.cfgs.trans h2.cfgs, h1.adrs.trans h2.adrs, h1.wpss.trans h2.wpss, h1.rsns.trans h2.rsns,
   h1.reqs.trans h2.reqs⟩

theorem prefix_ite_append {α : Type} (c : Bool) (l : List α) (x : α) :
    l <+: (if c = true then l ++ [x] else l) := by
  cases c
  · exact List.prefix_refl _
  · exact List.prefix_append _ _

theorem copyMerge_nil_left (h : Heap) (o : Option Ref) : copyMerge h none o = (h, o) := rfl

theorem copyMerge_nil_right (h : Heap) (p : Ref) : copyMerge h (some p) none = (h, some p) := rfl

theorem copyMerge_eq (h : Heap) (p o : Ref) (P O : ReqObj)
    (hp : h.reqs[p]? = some P) (ho : h.reqs[o]? = some O) :
    copyMerge h (some p) (some o) = (copyHeap h P O, some h.reqs.length) := by
  simp [copyMerge, hp, ho]

/-- **`CopyMerge` never mutates anything that exists**: for all arguments (nil or not, aliased or
    not) every request object and every map object of the heap before the call is still there,
    unchanged, after it.  In particular both inputs - and every other request sharing maps with
    them - are untouched. -/
theorem copyMerge_pure (h : Heap) (a b : Option Ref) : h.le (copyMerge h a b).1 := by
  unfold copyMerge
  cases a with
  | none => exact Heap.le_refl h
  | some p =>
    cases b with
    | none => exact Heap.le_refl h
    | some o =>
      simp only []
      cases h.reqs[p]? with
      | none => exact Heap.le_refl h
      | some P =>
        cases h.reqs[o]? with
        | none => exact Heap.le_refl h
        | some O =>
          exact ⟨prefix_ite_append _ _ _, prefix_ite_append _ _ _, prefix_ite_append _ _ _,
                 prefix_ite_append _ _ _, List.prefix_append _ _⟩

/-- The result of a real merge is a **fresh** request object whose maps are nil or fresh: it shares
    nothing mutable with its inputs (so nothing done to it later can reach them). -/
theorem copyMerge_fresh (h : Heap) (p o : Ref) (P O : ReqObj)
    (hp : h.reqs[p]? = some P) (ho : h.reqs[o]? = some O) :
    let r := copyMerge h (some p) (some o)
    r.2 = some h.reqs.length ∧
    ∃ M, r.1.reqs[h.reqs.length]? = some M ∧
      (∀ d, M.configs = some d → d = h.cfgs.length) ∧ (∀ d, M.addrs = some d → d = h.adrs.length) ∧
      (∀ d, M.wps = some d → d = h.wpss.length) ∧ (∀ d, M.reason = some d → d = h.rsns.length) := by
  rw [copyMerge_eq h p o P O hp ho]
  refine ⟨rfl, copyObj h P O, by simp [copyHeap], ?_, ?_, ?_, ?_⟩
  all_goals
    intro d hd
    simp only [copyObj] at hd
    split at hd
    · exact (Option.some.inj hd).symm
    · cases hd

theorem ite_append_getD {α : Type} (c : Bool) (st : List (List α)) (v : List α) :
    rdO (if c = true then st ++ [v] else st) (if c = true then some st.length else none) =
      if c = true then some v else none := by
  cases c <;> simp [rdO]

/-- **What `CopyMerge` computes**: the returned object reads as `vCopyMerge` of the two values. -/
theorem copyMerge_view (h : Heap) (p o : Ref) (P O : ReqObj)
    (hp : h.reqs[p]? = some P) (ho : h.reqs[o]? = some O) :
    viewAt (copyMerge h (some p) (some o)).1 (copyMerge h (some p) (some o)).2 =
      some (vCopyMerge (view h P) (view h O)) := by
  rw [copyMerge_eq h p o P O hp ho]
  simp only [viewAt, copyHeap, List.getElem?_append_right (Nat.le_refl _), Nat.sub_self,
    List.getElem?_cons_zero, Option.map_some]
  simp only [view, copyObj, vCopyMerge, cmNewCfg, cmNewAdr, cmNewWp, cmNewReason]
  simp only [ite_append_getD]
  simp only [keys_rdO, rdO_isSome]

/-- Values of existing, well-formed objects are stable under heap growth. -/
theorem view_stable {h h' : Heap} (hle : h.le h') (R : ReqObj) (hwf : R.wf h = true) :
    view h' R = view h R := by
  simp only [ReqObj.wf, Bool.and_eq_true] at hwf
  obtain ⟨⟨⟨h1, h2⟩, h3⟩, h4⟩ := hwf
  have key : ∀ {α : Type} (st st' : List (List α)) (o : Option Ref), st <+: st' →
      okRef st.length o = true → rdO st' o = rdO st o := by
    intro α st st' o hpre hok
    cases o with
    | none => rfl
    | some d =>
      obtain ⟨ext, rfl⟩ := hpre
      have hd : d < st.length := by simpa [okRef] using hok
      show some ((st ++ ext).getD d []) = some (st.getD d [])
      rw [getD_append_left _ _ _ hd]
  simp only [view, key _ _ _ hle.cfgs h1, key _ _ _ hle.adrs h2, key _ _ _ hle.wpss h3,
    key _ _ _ hle.rsns h4]

theorem ReqObj.wf_mono {h h' : Heap} (hle : h.le h') (R : ReqObj) (hwf : R.wf h = true) : R.wf h' = true := by
  simp only [ReqObj.wf, Bool.and_eq_true] at hwf ⊢
  exact ⟨⟨⟨okRef_mono hle.cfgs.length_le hwf.1.1.1, okRef_mono hle.adrs.length_le hwf.1.1.2⟩,
    okRef_mono hle.wpss.length_le hwf.1.2⟩, okRef_mono hle.rsns.length_le hwf.2⟩

theorem viewAt_stable {h h' : Heap} (hle : h.le h') (hwf : h.wf = true) (r : Ref) (hr : r < h.reqs.length) :
    viewAt h' (some r) = viewAt h (some r) := by
  obtain ⟨ext, he⟩ := hle.reqs
  simp only [viewAt, ← he, List.getElem?_append_left hr]
  have hR : h.reqs[r]? = some h.reqs[r] := List.getElem?_eq_getElem hr
  rw [hR]
  simp only [Option.map_some]
  simp only [Heap.wf, List.all_eq_true] at hwf
  rw [view_stable hle _ (hwf _ (List.getElem_mem hr))]

theorem copyMerge_wf (h : Heap) (a b : Option Ref) (hwf : h.wf = true) : (copyMerge h a b).1.wf = true := by
  have hle := copyMerge_pure h a b
  unfold copyMerge at hle ⊢
  cases a with
  | none => exact hwf
  | some p =>
    cases b with
    | none => exact hwf
    | some o =>
      simp only [] at hle ⊢
      cases hp : h.reqs[p]? with
      | none => simpa using hwf
      | some P =>
        cases ho : h.reqs[o]? with
        | none => simpa using hwf
        | some O =>
          simp only [hp, ho] at hle
          simp only [Heap.wf, List.all_eq_true] at hwf ⊢
          intro R hR
          simp only [copyHeap, List.mem_append, List.mem_singleton] at hR
          rcases hR with hm | he
          · exact ReqObj.wf_mono hle R (hwf R hm)
          · subst he
            simp only [ReqObj.wf, copyObj, copyHeap, Bool.and_eq_true]
            refine ⟨⟨⟨?_, ?_⟩, ?_⟩, ?_⟩ <;> (split <;> simp [okRef])

/-- The result pointer of `CopyMerge` is a valid reference whenever its arguments are. -/
theorem copyMerge_ref_ok (h : Heap) (a b : Option Ref)
    (ha : okRef h.reqs.length a = true) (hb : okRef h.reqs.length b = true) :
    okRef (copyMerge h a b).1.reqs.length (copyMerge h a b).2 = true := by
  unfold copyMerge
  cases a with
  | none => exact hb
  | some p =>
    cases b with
    | none => exact ha
    | some o =>
      simp only []
      cases h.reqs[p]? with
      | none => exact ha
      | some P =>
        cases h.reqs[o]? with
        | none => exact ha
        | some O => simp [okRef, copyHeap]

/-- ... and it is nil only when both arguments are nil. -/
theorem copyMerge_ref_none (h : Heap) (a b : Option Ref) (hn : (copyMerge h a b).2 = none) :
    a = none ∧ b = none := by
  unfold copyMerge at hn
  cases a with
  | none => exact ⟨rfl, hn⟩
  | some p =>
    cases b with
    | none => cases hn
    | some o =>
      simp only [] at hn
      cases hp : h.reqs[p]? with
      | none => simp [hp] at hn
      | some P =>
        cases ho : h.reqs[o]? with
        | none => simp [hp, ho] at hn
        | some O => simp [hp, ho] at hn

/-- `CopyMerge` on possibly-nil pointers, as a value function (all nil cases included). -/
theorem copyMerge_viewO (h : Heap) (a b : Option Ref)
    (ha : okRef h.reqs.length a = true) (hb : okRef h.reqs.length b = true) :
    viewAt (copyMerge h a b).1 (copyMerge h a b).2 = liftO vCopyMerge (viewAt h a) (viewAt h b) := by
  cases a with
  | none => simp [copyMerge, liftO, viewAt]
  | some p =>
    have hp : p < h.reqs.length := by simpa [okRef] using ha
    have hP : h.reqs[p]? = some h.reqs[p] := List.getElem?_eq_getElem hp
    cases b with
    | none => simp [copyMerge, liftO, viewAt, hP]
    | some o =>
      have ho : o < h.reqs.length := by simpa [okRef] using hb
      have hO : h.reqs[o]? = some h.reqs[o] := List.getElem?_eq_getElem ho
      rw [copyMerge_view h p o _ _ hP hO]
      simp [liftO, viewAt, hP, hO]

/-! ## The algebra of the value functions -/

theorem keys_some {α : Type} (l : List α) : keys (some l) = l := rfl
theorem keys_none {α : Type} : keys (none : Option (List α)) = [] := rfl

/-- Key sets after `Merge` are unions (ConfigsUpdated, AddressesUpdated, WaypointsUpdated). -/
theorem vMerge_keys (a b : View) (x : String) :
    (x ∈ keys (vMerge a b).configs ↔ x ∈ keys a.configs ∨ x ∈ keys b.configs) ∧
    (x ∈ keys (vMerge a b).addrs ↔ x ∈ keys a.addrs ∨ x ∈ keys b.addrs) ∧
    (x ∈ keys (vMerge a b).wps ↔ x ∈ keys a.wps ∨ x ∈ keys b.wps) := by
  refine ⟨?_, ?_, ?_⟩
  · cases h : a.configs <;> simp [vMerge, h, keys]
  · cases h : a.addrs <;> simp [vMerge, h, keys]
  · cases h : a.wps <;> simp [vMerge, h, keys]

theorem vMerge_forced (a b : View) : (vMerge a b).forced = (a.forced || b.forced) := rfl

/-- `Merge` uses the newest snapshot: the argument's if it has one, else keeps the receiver's. -/
theorem vMerge_push_newest (a b : View) :
    (vMerge a b).push = (match b.push with | some x => some x | none => a.push) := rfl

theorem vMerge_start_oldest (a b : View) : (vMerge a b).start = a.start := rfl

theorem vMerge_delta_kept (a b : View) : (vMerge a b).delta = a.delta := rfl

theorem rcount_append (m n : List (String × Nat)) (k : String) :
    rcount (m ++ n) k = rcount m k + rcount n k := by
  induction m with
  | nil => simp [rcount]
  | cons e t ih =>
    obtain ⟨k', c⟩ := e
    simp only [List.cons_append, rcount, ih]
    omega

theorem rhas_append (m n : List (String × Nat)) (k : String) :
    rhas (m ++ n) k = (rhas m k || rhas n k) := by
  simp [rhas, List.any_append]

theorem isEmpty_nil_of {α : Type} {l : List α} (h : l.isEmpty = true) : l = [] := List.isEmpty_iff.mp h

/-- Reason counts add up under `Merge` - no de-duplication, no loss. -/
theorem vMerge_reason_counts (a b : View) (k : String) :
    rcount (keys (vMerge a b).reason) k = rcount (keys a.reason) k + rcount (keys b.reason) k ∧
    rhas (keys (vMerge a b).reason) k = (rhas (keys a.reason) k || rhas (keys b.reason) k) := by
  simp only [vMerge]
  by_cases he : (keys b.reason).isEmpty = true
  · have := isEmpty_nil_of he
    simp [this, rcount, rhas]
  · simp only [he, Bool.false_eq_true, if_false, keys_some]
    exact ⟨rcount_append _ _ _, rhas_append _ _ _⟩

theorem keys_ite {α : Type} (c : Bool) (l : List α) (hl : c = false → l = []) :
    keys (if c = true then some l else none) = l := by
  cases c
  · simp [keys, hl rfl]
  · simp [keys]

theorem append_nil_of_isEmpty {α : Type} (x y : List α)
    (h : (!x.isEmpty || !y.isEmpty) = false) : x ++ y = [] := by
  cases x <;> cases y <;> simp_all

/-- The three key sets of a `CopyMerge` result, whatever the nil-ness of the inputs. -/
theorem vCopyMerge_keys_eq (a b : View) :
    keys (vCopyMerge a b).configs = keys a.configs ++ keys b.configs ∧
    keys (vCopyMerge a b).addrs = keys a.addrs ++ keys b.addrs ∧
    keys (vCopyMerge a b).wps = keys a.wps ++ keys b.wps ∧
    keys (vCopyMerge a b).reason = keys a.reason ++ keys b.reason := by
  refine ⟨?_, keys_ite _ _ (append_nil_of_isEmpty _ _), keys_ite _ _ (append_nil_of_isEmpty _ _),
    keys_ite _ _ (append_nil_of_isEmpty _ _)⟩
  apply keys_ite
  intro h
  cases ha : a.configs <;> cases hb : b.configs <;> simp_all [keys]

/-- Key sets after `CopyMerge` are unions. -/
theorem vCopyMerge_keys (a b : View) (x : String) :
    (x ∈ keys (vCopyMerge a b).configs ↔ x ∈ keys a.configs ∨ x ∈ keys b.configs) ∧
    (x ∈ keys (vCopyMerge a b).addrs ↔ x ∈ keys a.addrs ∨ x ∈ keys b.addrs) ∧
    (x ∈ keys (vCopyMerge a b).wps ↔ x ∈ keys a.wps ∨ x ∈ keys b.wps) := by
  obtain ⟨h1, h2, h3, _⟩ := vCopyMerge_keys_eq a b
  rw [h1, h2, h3]
  simp

theorem vCopyMerge_forced (a b : View) : (vCopyMerge a b).forced = (a.forced || b.forced) := rfl

theorem vCopyMerge_start_oldest (a b : View) : (vCopyMerge a b).start = a.start := rfl

/-- `CopyMerge` takes the argument's snapshot unconditionally ... -/
theorem vCopyMerge_push (a b : View) : (vCopyMerge a b).push = b.push := rfl

/-- ... which is the newest one whenever the argument carries a snapshot (every request entering the
    push queue does: `Push`, `AdsPushAll` and `ProxyUpdate` set it before `Enqueue`). -/
theorem copyMerge_push_newest_partial (a b : View) (hb : b.push.isSome = true) :
    (vCopyMerge a b).push = (vMerge a b).push := by
  cases h : b.push <;> simp_all [vCopyMerge, vMerge, newestPush]

def CopyMergeKeepsSnapshot : Prop := ∀ a b : View, (vCopyMerge a b).push = (vMerge a b).push

/-- The asymmetry: with a snapshot-less argument `CopyMerge` forgets the receiver's snapshot while
    `Merge` keeps it (unreachable through the callers of `Enqueue`, see above). -/
theorem copyMerge_push_nil_witness : ¬ CopyMergeKeepsSnapshot := by
  intro h
  have := h { push := some 1 } { push := none }
  simp [vCopyMerge, vMerge, newestPush] at this

theorem vCopyMerge_reason_counts (a b : View) (k : String) :
    rcount (keys (vCopyMerge a b).reason) k = rcount (keys a.reason) k + rcount (keys b.reason) k ∧
    rhas (keys (vCopyMerge a b).reason) k = (rhas (keys a.reason) k || rhas (keys b.reason) k) := by
  rw [(vCopyMerge_keys_eq a b).2.2.2]
  exact ⟨rcount_append _ _ _, rhas_append _ _ _⟩

/-- `CopyMerge` does not carry `Delta` (only client-triggered requests have one and those never
    pass through the queue). -/
theorem vCopyMerge_delta_dropped (a b : View) : (vCopyMerge a b).delta = 0 := rfl

/-! ### Associativity: any bracketing of a batch gives the same request -/

theorem newestPush_assoc (a b c : Option Nat) :
    newestPush (newestPush a b) c = newestPush a (newestPush b c) := by
  cases c <;> cases b <;> rfl

theorem vMerge_keys_eq (a b : View) :
    keys (vMerge a b).configs = keys a.configs ++ keys b.configs ∧
    keys (vMerge a b).addrs = keys a.addrs ++ keys b.addrs ∧
    keys (vMerge a b).wps = keys a.wps ++ keys b.wps ∧
    keys (vMerge a b).reason = keys a.reason ++ keys b.reason := by
  refine ⟨?_, ?_, ?_, ?_⟩
  · cases h : a.configs <;> simp [vMerge, h, keys]
  · cases h : a.addrs <;> simp [vMerge, h, keys]
  · cases h : a.wps <;> simp [vMerge, h, keys]
  · simp only [vMerge]
    by_cases he : (keys b.reason).isEmpty = true
    · simp [isEmpty_nil_of he]
    · simp only [he, Bool.false_eq_true, if_false, keys_some]

theorem field_assoc (a b c : Option (List String)) :
    (match (match a with | none => b | some x => some (x ++ keys b)) with
     | none => c
     | some x => some (x ++ keys c)) =
    (match a with
     | none => (match b with | none => c | some x => some (x ++ keys c))
     | some x => some (x ++ keys (match b with | none => c | some y => some (y ++ keys c)))) := by
  cases a <;> cases b <;> simp [keys]

/-- `Merge` is associative - exactly, field by field (lists, nil-ness, snapshot, flags). -/
theorem vMerge_assoc (a b c : View) : vMerge (vMerge a b) c = vMerge a (vMerge b c) := by
  have hk := vMerge_keys_eq a b
  have hk' := vMerge_keys_eq b c
  have hr : (vMerge (vMerge a b) c).reason = (vMerge a (vMerge b c)).reason := by
    show (if (keys c.reason).isEmpty then (vMerge a b).reason else some (keys (vMerge a b).reason ++ keys c.reason)) =
      (if (keys (vMerge b c).reason).isEmpty then a.reason else some (keys a.reason ++ keys (vMerge b c).reason))
    rw [hk.2.2.2, hk'.2.2.2]
    by_cases hc : (keys c.reason).isEmpty = true
    · have hc' := isEmpty_nil_of hc
      simp only [hc', List.append_nil]
      rfl
    · have : (keys b.reason ++ keys c.reason).isEmpty = false := by
        cases h : keys c.reason with
        | nil => simp [h] at hc
        | cons x t => cases keys b.reason <;> simp
      simp [hc, this, List.append_assoc]
  have h1 : (vMerge (vMerge a b) c).configs = (vMerge a (vMerge b c)).configs := field_assoc _ _ _
  have h2 : (vMerge (vMerge a b) c).addrs = (vMerge a (vMerge b c)).addrs := field_assoc _ _ _
  have h3 : (vMerge (vMerge a b) c).wps = (vMerge a (vMerge b c)).wps := field_assoc _ _ _
  have h4 : (vMerge (vMerge a b) c).push = (vMerge a (vMerge b c)).push := newestPush_assoc _ _ _
  have h5 : (vMerge (vMerge a b) c).forced = (vMerge a (vMerge b c)).forced := Bool.or_assoc _ _ _
  cases hL : vMerge (vMerge a b) c
  cases hR : vMerge a (vMerge b c)
  simp only [hL, hR] at hr h1 h2 h3 h4 h5
  have h6 : (vMerge (vMerge a b) c).start = (vMerge a (vMerge b c)).start := rfl
  have h7 : (vMerge (vMerge a b) c).delta = (vMerge a (vMerge b c)).delta := rfl
  simp only [hL, hR] at h6 h7
  simp [hr, h1, h2, h3, h4, h5, h6, h7]

theorem nonempty_append_iff {α : Type} (x y : List α) :
    (!(x ++ y).isEmpty) = (!x.isEmpty || !y.isEmpty) := by
  cases x <;> cases y <;> simp

/-- `CopyMerge` is associative - exactly. -/
theorem vCopyMerge_assoc (a b c : View) : vCopyMerge (vCopyMerge a b) c = vCopyMerge a (vCopyMerge b c) := by
  obtain ⟨k1, k2, k3, k4⟩ := vCopyMerge_keys_eq a b
  obtain ⟨l1, l2, l3, l4⟩ := vCopyMerge_keys_eq b c
  have s1 : (vCopyMerge a b).configs.isSome = (a.configs.isSome || b.configs.isSome) := by
    simp only [vCopyMerge]; split <;> simp_all
  have s2 : (vCopyMerge b c).configs.isSome = (b.configs.isSome || c.configs.isSome) := by
    simp only [vCopyMerge]; split <;> simp_all
  show
    ({ configs := if (vCopyMerge a b).configs.isSome || c.configs.isSome then some (keys (vCopyMerge a b).configs ++ keys c.configs) else none
       addrs := if !(keys (vCopyMerge a b).addrs).isEmpty || !(keys c.addrs).isEmpty then some (keys (vCopyMerge a b).addrs ++ keys c.addrs) else none
       wps := if !(keys (vCopyMerge a b).wps).isEmpty || !(keys c.wps).isEmpty then some (keys (vCopyMerge a b).wps ++ keys c.wps) else none
       reason := if !(keys (vCopyMerge a b).reason).isEmpty || !(keys c.reason).isEmpty then some (keys (vCopyMerge a b).reason ++ keys c.reason) else none
       push := c.push, start := a.start, delta := 0, forced := (a.forced || b.forced) || c.forced } : View) =
    { configs := if a.configs.isSome || (vCopyMerge b c).configs.isSome then some (keys a.configs ++ keys (vCopyMerge b c).configs) else none
      addrs := if !(keys a.addrs).isEmpty || !(keys (vCopyMerge b c).addrs).isEmpty then some (keys a.addrs ++ keys (vCopyMerge b c).addrs) else none
      wps := if !(keys a.wps).isEmpty || !(keys (vCopyMerge b c).wps).isEmpty then some (keys a.wps ++ keys (vCopyMerge b c).wps) else none
      reason := if !(keys a.reason).isEmpty || !(keys (vCopyMerge b c).reason).isEmpty then some (keys a.reason ++ keys (vCopyMerge b c).reason) else none
      push := c.push, start := a.start, delta := 0, forced := a.forced || (b.forced || c.forced) }
  rw [k1, k2, k3, k4, l1, l2, l3, l4, s1, s2]
  simp only [nonempty_append_iff, List.append_assoc, Bool.or_assoc]

theorem liftO_assoc (f : View → View → View) (hf : ∀ a b c, f (f a b) c = f a (f b c))
    (a b c : Option View) : liftO f (liftO f a b) c = liftO f a (liftO f b c) := by
  cases a <;> cases b <;> cases c <;> simp [liftO, hf]

/-- Any bracketing of a batch of (possibly nil) requests yields the same request. -/
theorem merge_assoc_ext (a b c : Option View) :
    liftO vMerge (liftO vMerge a b) c = liftO vMerge a (liftO vMerge b c) ∧
    liftO vCopyMerge (liftO vCopyMerge a b) c = liftO vCopyMerge a (liftO vCopyMerge b c) :=
  ⟨liftO_assoc _ vMerge_assoc _ _ _, liftO_assoc _ vCopyMerge_assoc _ _ _⟩

/-- Both functions agree on everything the property speaks about (keys, forced, reason counts,
    start); they differ only in nil-ness of empty maps, `Delta`, and the snapshot when the argument
    has none. -/
theorem copyMerge_agrees_with_merge (a b : View) :
    keys (vCopyMerge a b).configs = keys (vMerge a b).configs ∧
    keys (vCopyMerge a b).addrs = keys (vMerge a b).addrs ∧
    keys (vCopyMerge a b).wps = keys (vMerge a b).wps ∧
    keys (vCopyMerge a b).reason = keys (vMerge a b).reason ∧
    (vCopyMerge a b).forced = (vMerge a b).forced ∧ (vCopyMerge a b).start = (vMerge a b).start := by
  obtain ⟨k1, k2, k3, k4⟩ := vCopyMerge_keys_eq a b
  obtain ⟨l1, l2, l3, l4⟩ := vMerge_keys_eq a b
  exact ⟨by rw [k1, l1], by rw [k2, l2], by rw [k3, l3], by rw [k4, l4], rfl, rfl⟩

/-! ### A whole batch -/

/-- The request a debounce window produces: `req = req.Merge(r)` over the batch, from nil. -/
def mergeAll (l : List View) : Option View := l.foldl (fun acc r => liftO vMerge acc (some r)) none

theorem mergeAll_from (acc : Option View) (l : List View) (x : String) :
    let res := l.foldl (fun acc r => liftO vMerge acc (some r)) acc
    (x ∈ keys (res.bind (·.configs)) ↔ x ∈ keys (acc.bind (·.configs)) ∨ ∃ r ∈ l, x ∈ keys r.configs) ∧
    (x ∈ keys (res.bind (·.addrs)) ↔ x ∈ keys (acc.bind (·.addrs)) ∨ ∃ r ∈ l, x ∈ keys r.addrs) ∧
    (x ∈ keys (res.bind (·.wps)) ↔ x ∈ keys (acc.bind (·.wps)) ∨ ∃ r ∈ l, x ∈ keys r.wps) ∧
    ((res.map (·.forced)).getD false = ((acc.map (·.forced)).getD false || l.any (·.forced))) := by
  induction l generalizing acc with
  | nil => simp
  | cons r t ih =>
    simp only [List.foldl_cons]
    obtain ⟨i1, i2, i3, i4⟩ := ih (liftO vMerge acc (some r))
    have step : ∀ (g : View → Option (List String)),
        (∀ a b : View, ∀ x, x ∈ keys (g (vMerge a b)) ↔ x ∈ keys (g a) ∨ x ∈ keys (g b)) →
        (x ∈ keys ((liftO vMerge acc (some r)).bind g) ↔ x ∈ keys (acc.bind g) ∨ x ∈ keys (g r)) := by
      intro g hg
      cases acc with
      | none => simp [liftO, keys]
      | some a => simpa [liftO] using hg a r x
    have s1 := step (·.configs) (fun a b x => (vMerge_keys a b x).1)
    have s2 := step (·.addrs) (fun a b x => (vMerge_keys a b x).2.1)
    have s3 := step (·.wps) (fun a b x => (vMerge_keys a b x).2.2)
    refine ⟨?_, ?_, ?_, ?_⟩
    · rw [i1, s1]; simp [or_assoc]
    · rw [i2, s2]; simp [or_assoc]
    · rw [i3, s3]; simp [or_assoc]
    · rw [i4]
      cases acc with
      | none => simp [liftO]
      | some a => simp [liftO, vMerge, Bool.or_assoc]

/-- A merged batch covers exactly the union of the changed keys of its members and is forced iff
    some member is. -/
theorem mergeAll_covers (l : List View) (x : String) :
    (x ∈ keys ((mergeAll l).bind (·.configs)) ↔ ∃ r ∈ l, x ∈ keys r.configs) ∧
    (x ∈ keys ((mergeAll l).bind (·.addrs)) ↔ ∃ r ∈ l, x ∈ keys r.addrs) ∧
    (x ∈ keys ((mergeAll l).bind (·.wps)) ↔ ∃ r ∈ l, x ∈ keys r.wps) ∧
    (((mergeAll l).map (·.forced)).getD false = l.any (·.forced)) := by
  have := mergeAll_from none l x
  simpa [mergeAll, keys] using this

/-! ## Headline statements, directly on the heap functions -/

/-- Keys of the three sets of the request object at `r` (empty for nil / no such object). -/
def cfgOf (h : Heap) (r : Option Ref) : List String := keys ((viewAt h r).bind (·.configs))
def adrOf (h : Heap) (r : Option Ref) : List String := keys ((viewAt h r).bind (·.addrs))
def wpOf (h : Heap) (r : Option Ref) : List String := keys ((viewAt h r).bind (·.wps))
def rsnOf (h : Heap) (r : Option Ref) : List (String × Nat) := keys ((viewAt h r).bind (·.reason))
def forcedOf (h : Heap) (r : Option Ref) : Bool := ((viewAt h r).map (·.forced)).getD false
def pushOf (h : Heap) (r : Option Ref) : Option Nat := (viewAt h r).bind (·.push)

/-- `merge_keys`, `merge_forced`, `merge_push_newest`, `merge_reason_counts` for the in-place `Merge`
    of two existing request objects (any aliasing). -/
theorem merge_covers (h : Heap) (p o : Ref) (P O : ReqObj)
    (hp : h.reqs[p]? = some P) (ho : h.reqs[o]? = some O) (hwf : P.wf h = true) :
    let h' := (merge h (some p) (some o)).1
    (∀ x, x ∈ cfgOf h' (some p) ↔ x ∈ cfgOf h (some p) ∨ x ∈ cfgOf h (some o)) ∧
    (∀ x, x ∈ adrOf h' (some p) ↔ x ∈ adrOf h (some p) ∨ x ∈ adrOf h (some o)) ∧
    (∀ x, x ∈ wpOf h' (some p) ↔ x ∈ wpOf h (some p) ∨ x ∈ wpOf h (some o)) ∧
    forcedOf h' (some p) = (forcedOf h (some p) || forcedOf h (some o)) ∧
    pushOf h' (some p) = (match pushOf h (some o) with | some v => some v | none => pushOf h (some p)) ∧
    (∀ k, rcount (rsnOf h' (some p)) k = rcount (rsnOf h (some p)) k + rcount (rsnOf h (some o)) k) := by
  have hv := merge_view h p o P O hp ho hwf
  simp only [cfgOf, adrOf, wpOf, forcedOf, pushOf, rsnOf, hv]
  simp only [viewAt, hp, ho, Option.map_some, Option.bind_some, Option.getD_some]
  refine ⟨fun x => (vMerge_keys _ _ x).1, fun x => (vMerge_keys _ _ x).2.1, fun x => (vMerge_keys _ _ x).2.2,
    rfl, rfl, fun k => (vMerge_reason_counts _ _ k).1⟩

/-- The same for `CopyMerge` (result = a new object), plus: the inputs read exactly as before. -/
theorem copyMerge_covers (h : Heap) (p o : Ref) (P O : ReqObj)
    (hp : h.reqs[p]? = some P) (ho : h.reqs[o]? = some O) (hwf : h.wf = true) :
    let h' := (copyMerge h (some p) (some o)).1
    let r := (copyMerge h (some p) (some o)).2
    (∀ x, x ∈ cfgOf h' r ↔ x ∈ cfgOf h (some p) ∨ x ∈ cfgOf h (some o)) ∧
    (∀ x, x ∈ adrOf h' r ↔ x ∈ adrOf h (some p) ∨ x ∈ adrOf h (some o)) ∧
    (∀ x, x ∈ wpOf h' r ↔ x ∈ wpOf h (some p) ∨ x ∈ wpOf h (some o)) ∧
    forcedOf h' r = (forcedOf h (some p) || forcedOf h (some o)) ∧
    pushOf h' r = pushOf h (some o) ∧
    (∀ k, rcount (rsnOf h' r) k = rcount (rsnOf h (some p)) k + rcount (rsnOf h (some o)) k) ∧
    (∀ q, q < h.reqs.length → viewAt h' (some q) = viewAt h (some q)) := by
  have hv := copyMerge_view h p o P O hp ho
  simp only [cfgOf, adrOf, wpOf, forcedOf, pushOf, rsnOf, hv]
  simp only [viewAt, hp, ho, Option.map_some, Option.bind_some, Option.getD_some]
  refine ⟨fun x => (vCopyMerge_keys _ _ x).1, fun x => (vCopyMerge_keys _ _ x).2.1,
    fun x => (vCopyMerge_keys _ _ x).2.2, rfl, rfl, fun k => (vCopyMerge_reason_counts _ _ k).1, ?_⟩
  intro q hq
  have := viewAt_stable (copyMerge_pure h (some p) (some o)) hwf q hq
  simpa [viewAt] using this

/-! ## Why `Enqueue` must not use `Merge`: the in-place merge leaks through shared maps -/

/-- Three requests; `a` has a nil ConfigsUpdated.  After `a.Merge(b)`, `a` *shares* `b`'s set, so
    `a.Merge(c)` changes what `b` says although `b` was only ever an argument. -/
def aliasHeap : Heap :=
  { cfgs := [["x"], ["y"]], reqs := [{}, { configs := some 0 }, { configs := some 1 }] }

theorem merge_alias_witness :
    let h1 := (merge aliasHeap (some 0) (some 1)).1
    let h2 := (merge h1 (some 0) (some 2)).1
    cfgOf aliasHeap (some 1) = ["x"] ∧ cfgOf h2 (some 1) = ["x", "y"] := by
  decide

/-- ... whereas the same two steps with `CopyMerge` leave `b` alone. -/
example :
    let r1 := copyMerge aliasHeap (some 0) (some 1)
    let r2 := copyMerge r1.1 r1.2 (some 2)
    cfgOf r2.1 (some 1) = ["x"] ∧ cfgOf r2.1 r2.2 = ["x", "y"] := by
  decide

/-! ## `ReasonStats.CopyMerge` -/

theorem rsCopyMerge_pure (st : List (List (String × Nat))) (r o : Option Ref) :
    st <+: (rsCopyMerge st r o).1 := by
  unfold rsCopyMerge
  split
  · exact List.prefix_refl _
  · split
    · exact List.prefix_refl _
    · exact List.prefix_append _ _

theorem rsCopyMerge_counts (st : List (List (String × Nat))) (r o : Option Ref) (k : String) :
    rcount (rd (rsCopyMerge st r o).1 (rsCopyMerge st r o).2) k = rcount (rd st r) k + rcount (rd st o) k := by
  unfold rsCopyMerge
  by_cases h1 : (rd st r).isEmpty = true
  · simp [isEmpty_nil_of h1, rcount]
  · by_cases h2 : (rd st o).isEmpty = true
    · simp [h1, isEmpty_nil_of h2, rcount]
    · simp only [h1, h2, Bool.false_eq_true, if_false]
      simp only [rd, getD_append_new]
      exact rcount_append _ _ _

/-! ## Non-vacuity -/

def exHeap : Heap :=
  { cfgs := [["vs/a"], ["dr/b", "vs/a"]], adrs := [["10.0.0.1"]], rsns := [[("config", 1)], [("config", 2), ("endpoint", 1)]]
    reqs := [{ configs := some 0, reason := some 0, push := some 1, start := 5 },
             { configs := some 1, addrs := some 0, reason := some 1, push := some 2, start := 7, forced := true }] }

example : exHeap.wf = true := by decide

example : viewAt (copyMerge exHeap (some 0) (some 1)).1 (copyMerge exHeap (some 0) (some 1)).2 =
    some { configs := some ["vs/a", "dr/b", "vs/a"], addrs := some ["10.0.0.1"], wps := none,
           reason := some [("config", 1), ("config", 2), ("endpoint", 1)], push := some 2, start := 5,
           delta := 0, forced := true } := by decide

example : viewAt (merge exHeap (some 0) (some 1)).1 (some 0) =
    some { configs := some ["vs/a", "dr/b", "vs/a"], addrs := some ["10.0.0.1"], wps := none,
           reason := some [("config", 1), ("config", 2), ("endpoint", 1)], push := some 2, start := 5,
           delta := 0, forced := true } := by decide

end IstioModel.C02
