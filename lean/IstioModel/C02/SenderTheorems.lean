import IstioModel.C02.Sender
import IstioModel.C02.QueueRefinement

/-!
# C02 - the push sender never wedges

"... and a client whose stream fails or closes at any moment releases everything it held, so later
updates still reach every other client."

For every sequence of events of the sender system (loop, per-push goroutines, stream loops calling
`done()`, producers, clients closing at any moment, server stop, queue shutdown):
the semaphore holds exactly one token per push in flight (+ the loop's own), every hand-out of the
queue is matched by exactly one `MarkDone`, a connection is marked `processing` exactly while one
flight for it exists, and every flight always has an exit that releases both.
-/
namespace IstioModel.C02

/-- Connections that have been dequeued and whose `done()` has not run yet. -/
def inflight (s : Sender) : List Conn := (s.parked ++ s.delivered).map (·.1)

structure InvS (s : Sender) : Prop where
  qinv : Inv s.q
  /-- `len(semaphore)` = pushes in flight + the loop's own token -/
  balance : s.tokens = s.parked.length + s.delivered.length + s.loop.holds
  bound : s.tokens ≤ s.cap
  /-- the queue's `processing` set is exactly the set of flights -/
  proc : ∀ c, (s.q.processing c).isSome = true ↔ c ∈ inflight s
  nodup : (inflight s).Nodup
  /-- hand-outs = MarkDone calls + flights, per connection -/
  once : ∀ c, s.deqs c = s.dones c + (inflight s).count c
  /-- no nil request is waiting in the queue, so `doSendPushes` never dereferences one -/
  nn : NN s.q
  alive : s.loop ≠ .crashed

/-- Admissible events: enqueued pointers point to existing requests and are **not nil** (nobody
    enqueues a nil request; `nil_enqueue_crashes_witness` shows what happens otherwise). -/
def SEv.ok (s : Sender) : SEv → Prop
  | .enq _ r => ∃ i, r = some i ∧ i < s.q.heap.reqs.length
  | _ => True

theorem SEv.ok_ref {s : Sender} {c : Conn} {r : Option Ref} (h : (SEv.enq c r).ok s) :
    okRef s.q.heap.reqs.length r = true := by
  obtain ⟨i, rfl, hi⟩ := h
  simp [okRef, hi]

theorem takeFlight_spec (c : Conn) (l : List Flight) (f : Flight) (rest : List Flight)
    (h : takeFlight c l = some (f, rest)) : f.1 = c ∧ l.Perm (f :: rest) := by
  induction l generalizing f rest with
  | nil => simp [takeFlight] at h
  | cons g t ih =>
    simp only [takeFlight] at h
    by_cases hg : g.1 = c
    · simp only [hg, if_true, Option.some.injEq, Prod.mk.injEq] at h
      obtain ⟨rfl, rfl⟩ := h
      exact ⟨hg, List.Perm.refl _⟩
    · simp only [hg, if_false] at h
      cases ht : takeFlight c t with
      | none => simp [ht] at h
      | some p =>
        obtain ⟨f', rest'⟩ := p
        simp only [ht, Option.some.injEq, Prod.mk.injEq] at h
        obtain ⟨rfl, rfl⟩ := h
        obtain ⟨h1, h2⟩ := ih f' rest' ht
        exact ⟨h1, (List.Perm.cons g h2).trans (List.Perm.swap f' g rest')⟩

theorem takeFlight_of_mem (c : Conn) (l : List Flight) (h : c ∈ l.map (·.1)) :
    ∃ f rest, takeFlight c l = some (f, rest) := by
  induction l with
  | nil => simp at h
  | cons g t ih =>
    simp only [takeFlight]
    by_cases hg : g.1 = c
    · exact ⟨g, t, by simp [hg]⟩
    · simp only [hg, if_false]
      have : c ∈ t.map (·.1) := by
        simp only [List.map_cons, List.mem_cons] at h
        rcases h with h | h
        · exact absurd h.symm hg
        · exact h
      obtain ⟨f, rest, hfr⟩ := ih this
      exact ⟨f, g :: rest, by simp [hfr]⟩

theorem invS_init (h : Heap) (hwf : h.wf = true) (cap : Nat) : InvS { q := QState.init h, cap := cap } :=
  { qinv := inv_init h hwf, balance := rfl, bound := Nat.zero_le _,
    proc := by intro c; simp [inflight, QState.init], nodup := by simp [inflight],
    once := by intro c; simp [inflight], nn := by intro c; simp [QState.init], alive := by simp }

/-- Any exit of a flight of `c` (`doneFunc` after removing it from wherever it was). -/
theorem inv_exit (s : Sender) (hi : InvS s) (p' d' : List Flight) (c : Conn)
    (hperm : (inflight s).Perm (c :: (p' ++ d').map (·.1))) :
    InvS (doneFunc { s with parked := p', delivered := d' } c) := by
  have hlen := hperm.length_eq
  simp only [inflight, List.length_map, List.length_append, List.length_cons] at hlen
  have hnd : (c :: (p' ++ d').map (·.1)).Nodup := hperm.nodup_iff.mp hi.nodup
  have hcn : c ∉ (p' ++ d').map (·.1) := (List.nodup_cons.mp hnd).1
  refine { qinv := inv_markDone s.q c hi.qinv, balance := ?_, bound := ?_, proc := ?_, nodup := ?_, once := ?_,
           nn := (refines_markDone s.q hi.qinv hi.nn c).2, alive := hi.alive }
  · have := hi.balance
    simp only [doneFunc]; omega
  · have := hi.bound
    simp only [doneFunc]; omega
  · intro c'
    simp only [doneFunc, inflight]
    by_cases hcc : c' = c
    · subst hcc
      have : (markDone s.q c').processing c' = none := by unfold markDone; split <;> simp
      rw [this]
      constructor
      · intro h; cases h
      · intro h; exact absurd h hcn
    · rw [(other_conn_entries s.q c c' hcc none).2.2.2, hi.proc c', hperm.mem_iff]
      simp [hcc]
  · exact (List.nodup_cons.mp hnd).2
  · intro c'
    have h1 := hi.once c'
    rw [hperm.count_eq c'] at h1
    simp only [doneFunc, inflight, bump]
    by_cases hcc : c' = c
    · subst hcc
      simp only [List.count_cons_self] at h1
      simp only [if_true]; omega
    · have : List.count c' (c :: (p' ++ d').map (·.1)) = List.count c' ((p' ++ d').map (·.1)) := by
        rw [List.count_cons]; simp [Ne.symm hcc]
      rw [this] at h1
      simp only [hcc, if_false]; exact h1

theorem enqueue_processing_isSome (s : QState) (c c' : Conn) (r : Option Ref) :
    ((enqueue s c r).processing c').isSome = (s.processing c').isSome := by
  unfold enqueue
  repeat' split
  all_goals (try rfl)
  rename_i req hp
  by_cases hcc : c' = c
  · subst hcc; simp [hp]
  · simp [hcc]

/-- With no nil pointer pending, `Dequeue` never hands out a nil request. -/
theorem got_nonnil (q : QState) (hi : Inv q) (hnn : NN q) (c : Conn) (r : Option Ref) (rest : List Conn)
    (hq : q.queue = c :: rest) (hres : dequeueRes q = .got c r) : ∃ i, r = some i := by
  rw [dequeue_head q c rest hq] at hres
  simp only [DeqRes.got.injEq, true_and] at hres
  have hm : c ∈ q.queue := by simp [hq]
  have hp := (hi.queued c).mp hm
  cases hpc : q.pending c with
  | none => rw [hpc] at hp; cases hp
  | some v =>
    cases v with
    | none => exact absurd hpc (hnn c)
    | some i => exact ⟨i, by rw [← hres]; simp [pendingOf, hpc]⟩

theorem invS_step (s s' : Sender) (e : SEv) (hi : InvS s) (hok : e.ok s) (h : stepS s e = some s') : InvS s' := by
  cases e with
  | enter =>
    simp only [stepS] at h
    split at h
    · rename_i hc
      simp only [Option.some.injEq] at h; subst h
      refine { qinv := hi.qinv, balance := ?_, bound := hi.bound, proc := hi.proc, nodup := hi.nodup, once := hi.once,
               nn := hi.nn, alive := by simp }
      have := hi.balance; rw [hc.1] at this; simpa [LoopPc.holds] using this
    · cases h
  | acquire =>
    simp only [stepS] at h
    split at h
    · rename_i hc
      simp only [Option.some.injEq] at h; subst h
      refine { qinv := hi.qinv, balance := ?_, bound := ?_, proc := hi.proc, nodup := hi.nodup, once := hi.once,
               nn := hi.nn, alive := by simp }
      · have := hi.balance; rw [hc.1] at this; simp only [LoopPc.holds] at this ⊢; omega
      · exact hc.2
    · cases h
  | loopStop =>
    simp only [stepS] at h
    split at h
    · rename_i hc
      simp only [Option.some.injEq] at h; subst h
      refine { qinv := hi.qinv, balance := ?_, bound := hi.bound, proc := hi.proc, nodup := hi.nodup, once := hi.once,
               nn := hi.nn, alive := by simp }
      have := hi.balance; rw [hc.1] at this; simpa [LoopPc.holds] using this
    · cases h
  | dequeue =>
    simp only [stepS] at h
    split at h
    · rename_i hl
      cases hres : dequeueRes s.q with
      | blocked => simp [hres] at h
      | shutdown =>
        simp only [hres, Option.some.injEq] at h; subst h
        refine { qinv := hi.qinv, balance := ?_, bound := hi.bound, proc := hi.proc, nodup := hi.nodup, once := hi.once,
                 nn := hi.nn, alive := by simp }
        have := hi.balance; rw [hl] at this; simpa [LoopPc.holds] using this
      | got c r =>
        have hq : ∃ rest, s.q.queue = c :: rest := by
          unfold dequeueRes at hres
          cases hq : s.q.queue with
          | nil => simp [hq] at hres; split at hres <;> cases hres
          | cons c' rest => simp only [hq, DeqRes.got.injEq] at hres; exact ⟨rest, by rw [hres.1]⟩
        obtain ⟨rest, hq⟩ := hq
        obtain ⟨i, hri⟩ := got_nonnil s.q hi.qinv hi.nn c r rest hq hres
        subst hri
        simp only [hres, Option.some.injEq] at h; subst h
        obtain ⟨hpn, hps, _⟩ := dequeue_not_in_flight s.q hi.qinv c (some i) hres
        have hcn : c ∉ inflight s := by
          intro hm; have := (hi.proc c).mpr hm; rw [hpn] at this; cases this
        have hinf : inflight { s with q := dequeueState s.q, parked := s.parked ++ [(c, some i)], loop := LoopPc.top,
                                      deqs := bump s.deqs c } = (s.parked.map (·.1) ++ [c]) ++ s.delivered.map (·.1) := by
          simp [inflight]
        have hperm : ((s.parked.map (·.1) ++ [c]) ++ s.delivered.map (·.1)).Perm (c :: inflight s) := by
          simp only [inflight, List.map_append, List.append_assoc, List.singleton_append]
          exact List.perm_middle
        refine { qinv := inv_dequeue s.q hi.qinv, balance := ?_, bound := hi.bound, proc := ?_, nodup := ?_, once := ?_,
                 nn := (refines_dequeue s.q hi.qinv hi.nn).2.1, alive := by simp }
        · have := hi.balance; rw [hl] at this
          simp only [LoopPc.holds, List.length_append, List.length_singleton] at this ⊢; omega
        · intro c'
          rw [hinf, hperm.mem_iff]
          by_cases hcc : c' = c
          · subst hcc; simp [hps]
          · simp only [(dequeue_other_conn s.q c rest hq c' hcc).2, hi.proc c', List.mem_cons, hcc, false_or]
        · rw [hinf, hperm.nodup_iff]
          exact List.nodup_cons.mpr ⟨hcn, hi.nodup⟩
        · intro c'
          rw [hinf, hperm.count_eq c']
          have h1 := hi.once c'
          simp only [bump]
          by_cases hcc : c' = c
          · subst hcc; simp only [if_true, List.count_cons_self]; omega
          · have : List.count c' (c :: inflight s) = List.count c' (inflight s) := by
              rw [List.count_cons]; simp [Ne.symm hcc]
            simp only [hcc, if_false, this]; exact h1
    · cases h
  | loopReturn c =>
    simp only [stepS] at h
    split at h
    · cases h
    · simp only [Option.some.injEq] at h; subst h
      exact { qinv := hi.qinv, balance := hi.balance, bound := hi.bound, proc := hi.proc, nodup := hi.nodup, once := hi.once,
              nn := hi.nn, alive := hi.alive }
  | deliver c =>
    simp only [stepS] at h
    split at h
    · cases h
    cases ht : takeFlight c s.parked with
    | none => simp [ht] at h
    | some p =>
      obtain ⟨f, rest⟩ := p
      simp only [ht, Option.some.injEq] at h; subst h
      obtain ⟨hf, hp⟩ := takeFlight_spec c s.parked f rest ht
      have hperm : (inflight { s with parked := rest, delivered := s.delivered ++ [f] }).Perm (inflight s) := by
        simp only [inflight]
        apply List.Perm.map
        have : (rest ++ (s.delivered ++ [f])).Perm (f :: rest ++ s.delivered) := by
          rw [← List.append_assoc]
          exact List.perm_append_comm.trans (by simp)
        exact this.trans (List.Perm.append hp.symm (List.Perm.refl _))
      refine { qinv := hi.qinv, balance := ?_, bound := hi.bound, proc := ?_, nodup := ?_, once := ?_,
               nn := hi.nn, alive := hi.alive }
      · have := hi.balance
        have hl := hp.length_eq
        simp only [List.length_cons] at hl
        simp only [List.length_append, List.length_singleton]; omega
      · intro c'; rw [hperm.mem_iff]; exact hi.proc c'
      · exact hperm.nodup_iff.mpr hi.nodup
      · intro c'; rw [hperm.count_eq c']; exact hi.once c'
  | pushDone c =>
    simp only [stepS] at h
    cases ht : takeFlight c s.delivered with
    | none => simp [ht] at h
    | some p =>
      obtain ⟨f, rest⟩ := p
      simp only [ht, Option.some.injEq] at h; subst h
      obtain ⟨hf, hp⟩ := takeFlight_spec c s.delivered f rest ht
      apply inv_exit s hi s.parked rest c
      simp only [inflight, List.map_append]
      have : (s.delivered.map (·.1)).Perm (c :: rest.map (·.1)) := by
        have := hp.map (·.1); simpa [hf] using this
      exact (List.Perm.append (List.Perm.refl _) this).trans List.perm_middle
  | closedExit c =>
    simp only [stepS] at h
    split at h
    · cases ht : takeFlight c s.parked with
      | none => simp [ht] at h
      | some p =>
        obtain ⟨f, rest⟩ := p
        simp only [ht, Option.some.injEq] at h; subst h
        obtain ⟨hf, hp⟩ := takeFlight_spec c s.parked f rest ht
        apply inv_exit s hi rest s.delivered c
        simp only [inflight, List.map_append]
        have : (s.parked.map (·.1)).Perm (c :: rest.map (·.1)) := by
          have := hp.map (·.1); simpa [hf] using this
        exact List.Perm.append this (List.Perm.refl _)
    · cases h
  | stopExit c =>
    simp only [stepS] at h
    split at h
    · cases ht : takeFlight c s.parked with
      | none => simp [ht] at h
      | some p =>
        obtain ⟨f, rest⟩ := p
        simp only [ht, Option.some.injEq] at h; subst h
        obtain ⟨hf, hp⟩ := takeFlight_spec c s.parked f rest ht
        apply inv_exit s hi rest s.delivered c
        simp only [inflight, List.map_append]
        have : (s.parked.map (·.1)).Perm (c :: rest.map (·.1)) := by
          have := hp.map (·.1); simpa [hf] using this
        exact List.Perm.append this (List.Perm.refl _)
    · cases h
  | enq c r =>
    simp only [stepS, Option.some.injEq] at h; subst h
    have hnn : NN (enqueue s.q c r) := by
      obtain ⟨i, rfl, hi'⟩ := hok
      exact (refines_enqueue s.q hi.qinv hi.nn c i _ (List.getElem?_eq_getElem hi')).2
    exact { qinv := inv_enqueue s.q c r hi.qinv (SEv.ok_ref hok), balance := hi.balance, bound := hi.bound,
            proc := by intro c'; rw [enqueue_processing_isSome]; exact hi.proc c', nodup := hi.nodup, once := hi.once,
            nn := hnn, alive := hi.alive }
  | close c =>
    simp only [stepS, Option.some.injEq] at h; subst h
    exact { qinv := hi.qinv, balance := hi.balance, bound := hi.bound, proc := hi.proc, nodup := hi.nodup, once := hi.once,
            nn := hi.nn, alive := hi.alive }
  | stop =>
    simp only [stepS, Option.some.injEq] at h; subst h
    exact { qinv := hi.qinv, balance := hi.balance, bound := hi.bound, proc := hi.proc, nodup := hi.nodup, once := hi.once,
            nn := hi.nn, alive := hi.alive }
  | shut =>
    simp only [stepS, Option.some.injEq] at h; subst h
    exact { qinv := inv_step s.q .shut hi.qinv trivial, balance := hi.balance, bound := hi.bound, proc := hi.proc,
            nodup := hi.nodup, once := hi.once, nn := hi.nn, alive := hi.alive }

/-- A history is admissible when every enqueued pointer is a (non-nil) object of the initial heap. -/
def EvsOk (n : Nat) : List SEv → Prop
  | [] => True
  | .enq _ r :: es => (∃ i, r = some i ∧ i < n) ∧ EvsOk n es
  | _ :: es => EvsOk n es

theorem evsOk_mono {n m : Nat} (h : n ≤ m) : ∀ es, EvsOk n es → EvsOk m es
  | [], _ => trivial
  | .enq _ _ :: es, ho =>
    ⟨by obtain ⟨i, h1, h2⟩ := ho.1; exact ⟨i, h1, Nat.lt_of_lt_of_le h2 h⟩, evsOk_mono h es ho.2⟩
  | .enter :: es, ho => evsOk_mono h es ho
  | .acquire :: es, ho => evsOk_mono h es ho
  | .loopStop :: es, ho => evsOk_mono h es ho
  | .dequeue :: es, ho => evsOk_mono h es ho
  | .deliver _ :: es, ho => evsOk_mono h es ho
  | .loopReturn _ :: es, ho => evsOk_mono h es ho
  | .pushDone _ :: es, ho => evsOk_mono h es ho
  | .closedExit _ :: es, ho => evsOk_mono h es ho
  | .stopExit _ :: es, ho => evsOk_mono h es ho
  | .close _ :: es, ho => evsOk_mono h es ho
  | .stop :: es, ho => evsOk_mono h es ho
  | .shut :: es, ho => evsOk_mono h es ho

theorem heap_mono_stepS (s s' : Sender) (e : SEv) (h : stepS s e = some s') :
    s.q.heap.reqs.length ≤ s'.q.heap.reqs.length := by
  have hq : ∀ op, s.q.heap.reqs.length ≤ (stepQ s.q op).heap.reqs.length :=
    fun op => (queue_never_writes s.q op).reqs.length_le
  cases e with
  | enter =>
    simp only [stepS] at h
    split at h
    · simp only [Option.some.injEq] at h; subst h; exact Nat.le_refl _
    · cases h
  | acquire =>
    simp only [stepS] at h
    split at h
    · simp only [Option.some.injEq] at h; subst h; exact Nat.le_refl _
    · cases h
  | loopStop =>
    simp only [stepS] at h
    split at h
    · simp only [Option.some.injEq] at h; subst h; exact Nat.le_refl _
    · cases h
  | dequeue =>
    simp only [stepS] at h
    split at h
    · cases hres : dequeueRes s.q with
      | blocked => simp [hres] at h
      | shutdown => simp only [hres, Option.some.injEq] at h; subst h; exact Nat.le_refl _
      | got c r =>
        cases r with
        | none => simp only [hres, Option.some.injEq] at h; subst h; exact hq .deq
        | some i => simp only [hres, Option.some.injEq] at h; subst h; exact hq .deq
    · cases h
  | loopReturn c =>
    simp only [stepS] at h
    split at h
    · cases h
    · simp only [Option.some.injEq] at h; subst h; exact Nat.le_refl _
  | deliver c =>
    simp only [stepS] at h
    split at h
    · cases h
    cases ht : takeFlight c s.parked with
    | none => simp [ht] at h
    | some p => simp only [ht, Option.some.injEq] at h; subst h; exact Nat.le_refl _
  | pushDone c =>
    simp only [stepS] at h
    cases ht : takeFlight c s.delivered with
    | none => simp [ht] at h
    | some p => simp only [ht, Option.some.injEq] at h; subst h; exact hq (.done c)
  | closedExit c =>
    simp only [stepS] at h
    split at h
    · cases ht : takeFlight c s.parked with
      | none => simp [ht] at h
      | some p => simp only [ht, Option.some.injEq] at h; subst h; exact hq (.done c)
    · cases h
  | stopExit c =>
    simp only [stepS] at h
    split at h
    · cases ht : takeFlight c s.parked with
      | none => simp [ht] at h
      | some p => simp only [ht, Option.some.injEq] at h; subst h; exact hq (.done c)
    · cases h
  | enq c r => simp only [stepS, Option.some.injEq] at h; subst h; exact hq (.enq c r)
  | close c => simp only [stepS, Option.some.injEq] at h; subst h; exact Nat.le_refl _
  | stop => simp only [stepS, Option.some.injEq] at h; subst h; exact Nat.le_refl _
  | shut => simp only [stepS, Option.some.injEq] at h; subst h; exact Nat.le_refl _

theorem invS_run (s s' : Sender) (es : List SEv) (hi : InvS s) (hok : EvsOk s.q.heap.reqs.length es)
    (h : runS s es = some s') : InvS s' := by
  induction es generalizing s with
  | nil => simp only [runS, Option.some.injEq] at h; subst h; exact hi
  | cons e es ih =>
    simp only [runS] at h
    cases hs : stepS s e with
    | none => simp [hs] at h
    | some s1 =>
      simp only [hs, Option.bind_some] at h
      have hl := heap_mono_stepS s s1 e hs
      have hok1 : e.ok s := by cases e <;> first | exact hok.1 | trivial
      have hrest : EvsOk s1.q.heap.reqs.length es := by
        cases e <;> first | exact evsOk_mono hl es hok.2 | exact evsOk_mono hl es hok
      exact ih s1 (invS_step s s1 e hi hok1 hs) hrest h

/-! ## The statements -/

/-- **semaphore_balanced**: in every reachable state the semaphore holds exactly one token per push
    in flight plus the loop's own, and never more than its capacity (so at most `cap` pushes run
    concurrently, and no exit path forgets to release). -/
theorem semaphore_balanced (h : Heap) (hwf : h.wf = true) (cap : Nat) (es : List SEv)
    (hok : EvsOk h.reqs.length es) (s : Sender) (hr : runS { q := QState.init h, cap := cap } es = some s) :
    s.tokens = s.parked.length + s.delivered.length + s.loop.holds ∧ s.tokens ≤ s.cap :=
  let hi := invS_run _ s es (invS_init h hwf cap) hok hr
  ⟨hi.balance, hi.bound⟩

/-- **MarkDone exactly once per hand-out**: for every connection, the number of times the queue
    handed it out equals the number of `MarkDone` calls made for it plus one if a flight for it is
    still on its way (and there is never more than one). -/
theorem markDone_exactly_once (h : Heap) (hwf : h.wf = true) (cap : Nat) (es : List SEv)
    (hok : EvsOk h.reqs.length es) (s : Sender) (hr : runS { q := QState.init h, cap := cap } es = some s)
    (c : Conn) :
    s.deqs c = s.dones c + (inflight s).count c ∧ (inflight s).count c ≤ 1 :=
  let hi := invS_run _ s es (invS_init h hwf cap) hok hr
  ⟨hi.once c, List.nodup_iff_count.mp hi.nodup c⟩

/-- **no_wedge**: a connection is marked `processing` in the queue exactly while a flight for it
    exists - there is no orphaned `processing` entry that nobody will ever `MarkDone`. -/
theorem no_wedge (h : Heap) (hwf : h.wf = true) (cap : Nat) (es : List SEv)
    (hok : EvsOk h.reqs.length es) (s : Sender) (hr : runS { q := QState.init h, cap := cap } es = some s)
    (c : Conn) : (s.q.processing c).isSome = true ↔ c ∈ inflight s :=
  (invS_run _ s es (invS_init h hwf cap) hok hr).proc c

/-- **Every flight has an exit that releases everything**: a delivered event's `done()` is always
    possible; a parked event of a closed client (or after server stop) can always take its exit;
    either way one token is released, the connection leaves `processing`, and mail that arrived
    meanwhile puts it back in the queue.  `hlive` leaves out, on purpose, a parked event of a client
    that is alive but not reading (its stream loop is inside a slow `Send`): that flight has no enabled
    exit until the loop comes back, the stream's context ends or the server stops - a liveness
    assumption about gRPC (a blocked send ends with its stream), not something the sender can repair. -/
theorem flight_exit_releases (s : Sender) (hi : InvS s) (c : Conn) (hc : c ∈ inflight s)
    (hlive : c ∈ s.parked.map (·.1) → s.closed c = true ∨ s.stopped = true) :
    ∃ e s', stepS s e = some s' ∧ s'.tokens + 1 = s.tokens ∧ c ∉ inflight s' ∧ s'.q.processing c = none ∧
      (∀ r, s.q.processing c = some (some r) → c ∈ s'.q.queue) := by
  -- `hlive` leaves out one case on purpose: a parked event of a client that is alive but not
  -- reading (its stream loop is inside a slow `Send`).  That flight has no *enabled* exit until the
  -- loop comes back, the client's context ends, or the server stops: a liveness assumption
  -- (a blocked gRPC send ends with the stream's context), not something the sender can repair.
  have hpos : 1 ≤ s.tokens := by
    have := hi.balance
    have : 1 ≤ s.parked.length + s.delivered.length := by
      have : 0 < (inflight s).length := List.length_pos_of_mem hc
      simp only [inflight, List.length_map, List.length_append] at this
      omega
    omega
  have after : ∀ (p' d' : List Flight), (inflight s).Perm (c :: (p' ++ d').map (·.1)) →
      let s' := doneFunc { s with parked := p', delivered := d' } c
      s'.tokens + 1 = s.tokens ∧ c ∉ inflight s' ∧ s'.q.processing c = none ∧
        (∀ r, s.q.processing c = some (some r) → c ∈ s'.q.queue) := by
    intro p' d' hperm
    have hi' := inv_exit s hi p' d' c hperm
    have hnd : (c :: (p' ++ d').map (·.1)).Nodup := hperm.nodup_iff.mp hi.nodup
    refine ⟨by simp only [doneFunc]; omega, (List.nodup_cons.mp hnd).1, ?_, ?_⟩
    · simp only [doneFunc]; unfold markDone; split <;> simp
    · intro r hr; simp [doneFunc, markDone, hr]
  simp only [inflight, List.map_append, List.mem_append] at hc
  rcases hc with hp | hd
  · obtain ⟨f, rest, ht⟩ := takeFlight_of_mem c s.parked hp
    obtain ⟨hf, hperm⟩ := takeFlight_spec c s.parked f rest ht
    have hperm' : (inflight s).Perm (c :: (rest ++ s.delivered).map (·.1)) := by
      simp only [inflight, List.map_append]
      have : (s.parked.map (·.1)).Perm (c :: rest.map (·.1)) := by
        have := hperm.map (·.1); simpa [hf] using this
      exact List.Perm.append this (List.Perm.refl _)
    rcases hlive hp with hcl | hst
    · exact ⟨.closedExit c, _, by simp [stepS, hcl, ht], after rest s.delivered hperm'⟩
    · exact ⟨.stopExit c, _, by simp [stepS, hst, ht], after rest s.delivered hperm'⟩
  · obtain ⟨f, rest, ht⟩ := takeFlight_of_mem c s.delivered hd
    obtain ⟨hf, hperm⟩ := takeFlight_spec c s.delivered f rest ht
    have hperm' : (inflight s).Perm (c :: (s.parked ++ rest).map (·.1)) := by
      simp only [inflight, List.map_append]
      have : (s.delivered.map (·.1)).Perm (c :: rest.map (·.1)) := by
        have := hperm.map (·.1); simpa [hf] using this
      exact (List.Perm.append (List.Perm.refl _) this).trans List.perm_middle
    exact ⟨.pushDone c, _, by simp [stepS, ht], after s.parked rest hperm'⟩

/-- A client may close at any moment: the `close` event is always enabled, and afterwards its
    flight (if any) has the releasing exit of `flight_exit_releases`. -/
theorem client_may_close_any_time (s : Sender) (c : Conn) :
    ∃ s', stepS s (.close c) = some s' ∧ s'.closed c = true ∧ s'.tokens = s.tokens ∧ s'.parked = s.parked := by
  exact ⟨_, rfl, by simp, rfl, rfl⟩

/-- **Later updates still reach every other client**: whenever fewer than `cap` pushes are in
    flight the loop (if it is at the top and the server is running) can take a token, and with a
    non-empty queue its `Dequeue` hands out the head connection. -/
theorem loop_can_proceed (s : Sender) (hi : InvS s) (hl : s.loop = .top) (hs : s.stopped = false)
    (hroom : (inflight s).length < s.cap) :
    ∃ s1, runS s [.enter, .acquire] = some s1 ∧ s1.loop = .holding ∧
      ∀ c rest, s.q.queue = c :: rest → ∃ s2, stepS s1 .dequeue = some s2 ∧ c ∈ inflight s2 := by
  have hb := hi.balance
  rw [hl] at hb
  simp only [LoopPc.holds, Nat.add_zero] at hb
  have hlt : s.tokens < s.cap := by simpa [inflight, hb] using hroom
  refine ⟨{ s with tokens := s.tokens + 1, loop := .holding }, by simp [runS, stepS, hl, hs, hlt], rfl, ?_⟩
  intro c rest hq
  have hres : dequeueRes s.q = .got c (pendingOf s.q c) := dequeue_head s.q c rest hq
  obtain ⟨i, hri⟩ := got_nonnil s.q hi.qinv hi.nn c _ rest hq hres
  rw [hri] at hres
  refine ⟨{ s with tokens := s.tokens + 1, q := dequeueState s.q, parked := s.parked ++ [(c, some i)],
                   loop := .top, deqs := bump s.deqs c }, by simp [stepS, hres], ?_⟩
  simp [inflight]

/-- **The sender never crashes** as long as nobody enqueues a nil request: `Dequeue` then never hands
    out nil, so `recordPushTriggers(push.Reason)` / `push.Start` are never a nil dereference. -/
theorem sender_never_crashes (h : Heap) (hwf : h.wf = true) (cap : Nat) (es : List SEv)
    (hok : EvsOk h.reqs.length es) (s : Sender) (hr : runS { q := QState.init h, cap := cap } es = some s) :
    s.loop ≠ .crashed :=
  (invS_run _ s es (invS_init h hwf cap) hok hr).alive

/-- ... and a nil enqueue does crash it (no caller does this: `StartPush` and `ProxyUpdate` pass
    the address of a request). -/
theorem nil_enqueue_crashes_witness :
    ((runS { q := QState.init exHeap, cap := 1 } [.enq 0 none, .enter, .acquire, .dequeue]).map (·.loop)) =
      some .crashed := by decide

/-! ## Non-vacuity: a client dies while its push event is parked -/

def exSender : Sender := { q := QState.init exHeap, cap := 1 }

/-- cap = 1; connection 0 is dequeued and parked, more mail arrives for it, its client closes: the
    closed-exit releases the token and re-queues it; the loop takes it again. -/
def exEvs : List SEv :=
  [.enq 0 (some 0), .enter, .acquire, .dequeue, .enq 0 (some 1), .close 0, .closedExit 0, .enter, .acquire, .dequeue,
   .closedExit 0]

example : ((runS exSender exEvs).map (fun s => (s.tokens, s.parked.length, s.q.queue, s.deqs 0, s.dones 0))) =
    some (0, 0, [], 2, 2) := by decide

end IstioModel.C02
