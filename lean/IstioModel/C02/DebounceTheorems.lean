import IstioModel.C02.Debounce
import IstioModel.C02.QueueTheorems

/-!
# C02 - debouncing loses nothing

"Every change notification accepted by the control plane is carried into a push ...: debouncing ...
may merge notifications but the merged request always covers the union of changed keys, stays
forced if any input was forced ...".

All theorems are about **every reachable state**: every finite sequence of enabled events (any
arrival times, any timer lateness, any `pushFn` duration, any `select` choice), every option
setting.
-/
namespace IstioModel.C02

def factsL (l : List View) : List Fact := l.flatMap factsV

def factsO (o : Option View) : List Fact :=
  match o with
  | some v => factsV v
  | none => []

theorem factsV_vMerge (a b : View) (x : Fact) : x ∈ factsV (vMerge a b) ↔ x ∈ factsV a ∨ x ∈ factsV b := by
  rw [mem_factsV, mem_factsV, mem_factsV]
  cases x with
  | cfg k => exact (vMerge_keys a b k).1
  | adr k => exact (vMerge_keys a b k).2.1
  | wp k => exact (vMerge_keys a b k).2.2
  | forced => simp [vMerge]

theorem factsO_liftO (a : Option View) (b : View) (x : Fact) :
    x ∈ factsO (liftO vMerge a (some b)) ↔ x ∈ factsO a ∨ x ∈ factsV b := by
  cases a with
  | none => simp [liftO, factsO]
  | some v => simp [liftO, factsO, factsV_vMerge]

theorem factsV_fixReason (r : View) : factsV (fixReason r) = factsV r := by
  unfold fixReason
  split <;> rfl

theorem factsL_append (l m : List View) : factsL (l ++ m) = factsL l ++ factsL m := by
  simp [factsL]

theorem factsL_single (v : View) : factsL [v] = factsV v := by simp [factsL]

/-! ## The invariant -/

/-- Everything except the wake-up clause (holds also in the middle of a `select` case). -/
structure InvB (o : DOpts) (s : DB) : Prop where
  /-- no loss, nothing invented: received = pushed ∪ pending -/
  cover : ∀ x, x ∈ factsL s.recvd ↔ (x ∈ factsL s.pushed ∨ x ∈ factsL s.edsPushed ∨ x ∈ factsO s.req)
  /-- exactly one of: loop is free / a debounced pushFn is running / its completion token is in freeCh -/
  single : s.running.length + s.freeTok.toNat + s.free.toNat = 1
  /-- `debouncedEvents` counts exactly the pending batch, `req` is its in-order merge -/
  count : s.debounced = s.batch.length
  pending : s.req = mergeAll s.batch
  nonempty : s.req.isSome = !s.batch.isEmpty
  /-- every received event is committed, in a running push, pending, or in a running bypass push -/
  events : s.sent + (s.running.map (·.2)).sum + s.debounced + s.edsRunning.length = s.recvd.length
  /-- an armed timer fires no later than one quiet period after the last event -/
  deadline : ∀ t, s.timerAt = some t → t ≤ s.last + o.after
  clock : s.start ≤ s.last ∧ s.last ≤ s.now

/-- The invariant of the loop between two `select` rounds. -/
structure InvD (o : DOpts) (s : DB) : Prop extends InvB o s where
  /-- a pending request always has a wake-up -/
  wake : s.req.isSome = true → (s.timerAt.isSome = true ∨ s.free = false)

theorem invD_init (o : DOpts) : InvD o {} :=
  { cover := by intro x; simp [factsL, factsO], single := rfl, wake := by simp, count := rfl, pending := rfl,
    nonempty := rfl, events := rfl, deadline := by simp, clock := ⟨Nat.le_refl _, Nat.le_refl _⟩ }

theorem mergeAll_snoc (l : List View) (r : View) : mergeAll (l ++ [r]) = liftO vMerge (mergeAll l) (some r) := by
  simp [mergeAll, List.foldl_append]

theorem liftO_some_isSome (a : Option View) (r : View) : (liftO vMerge a (some r)).isSome = true := by
  cases a <;> simp [liftO]

theorem free_alone (s : DB) (hs : s.running.length + s.freeTok.toNat + s.free.toNat = 1) (hf : s.free = true) :
    s.running = [] ∧ s.freeTok = false := by
  rw [hf] at hs
  cases hr : s.running with
  | nil => cases ht : s.freeTok <;> simp_all
  | cons a t => rw [hr] at hs; simp at hs <;> omega

/-- `pushWorker`, run with the loop free, re-establishes the full invariant (it hands the pending
    request over, or arms a timer). -/
theorem invD_pushWorker (o : DOpts) (s : DB) (hi : InvB o s) (hfree : s.free = true) :
    InvD o (pushWorker o s) := by
  obtain ⟨hrun, htok⟩ := free_alone s hi.single hfree
  unfold pushWorker
  split
  · cases hr : s.req with
    | none => exact { hi with wake := by simp [hr] }
    | some v =>
      refine { cover := ?_, single := ?_, wake := by simp, count := rfl, pending := rfl, nonempty := rfl,
               events := ?_, deadline := hi.deadline, clock := hi.clock }
      · intro x
        have := hi.cover x
        rw [hr] at this
        simp only [factsL_append, factsL_single, factsO, List.mem_append, List.not_mem_nil, or_false, this]
        constructor
        · rintro (h | h | h) <;> simp [h]
        · rintro ((h | h) | h) <;> simp [h]
      · simp [hrun, htok]
      · have := hi.events
        simp only [hrun, List.map_nil, List.sum_nil] at this
        simp only [hrun, List.nil_append, List.map_cons, List.map_nil, List.sum_cons, List.sum_nil]
        omega
  · rename_i hc
    refine { cover := hi.cover, single := hi.single, wake := by intro _; left; rfl, count := hi.count,
             pending := hi.pending, nonempty := hi.nonempty, events := hi.events, deadline := ?_, clock := hi.clock }
    intro t ht
    have h2 : ¬ o.after ≤ s.now - s.last := fun h => hc (Or.inr h)
    have h3 := hi.clock.2
    simp only [Option.some.injEq] at ht
    dsimp only
    omega

theorem invD_step (o : DOpts) (s s' : DB) (e : Ev) (hi : InvD o s) (h : stepD o s e = some s') : InvD o s' := by
  cases e with
  | tick d =>
    simp only [stepD, Option.some.injEq] at h; subst h
    exact { hi with clock := ⟨hi.clock.1, Nat.le_trans hi.clock.2 (Nat.le_add_right _ _)⟩ }
  | recv r =>
    simp only [stepD, Option.some.injEq] at h; subst h
    unfold onRecv
    simp only []
    split
    · refine { cover := ?_, single := hi.single, wake := hi.wake, count := hi.count, pending := hi.pending,
               nonempty := hi.nonempty, events := ?_, deadline := hi.deadline, clock := hi.clock }
      · intro x
        simp only [factsL_append, factsL_single, List.mem_append, hi.cover x]
        constructor
        · rintro ((h | h | h) | h) <;> simp [h]
        · rintro (h | (h | h) | h) <;> simp [h]
      · have := hi.events; simp only [List.length_append, List.length_singleton]; omega
    · refine { cover := ?_, single := hi.single, wake := ?_, count := ?_, pending := ?_, nonempty := ?_,
               events := ?_, deadline := ?_, clock := ⟨?_, Nat.le_refl _⟩ }
      · intro x
        simp only [factsL_append, factsL_single, List.mem_append, hi.cover x, factsO_liftO]
        constructor
        · rintro ((h | h | h) | h) <;> simp [h]
        · rintro (h | h | h | h) <;> simp [h]
      · simp [hi.count]
      · rw [mergeAll_snoc, hi.pending]
      · rw [liftO_some_isSome]; simp
      · have := hi.events; simp only [List.length_append, List.length_singleton]; omega
      · intro t ht
        dsimp only at ht ⊢
        by_cases hz : s.debounced = 0
        · simp only [hz, if_true, Option.some.injEq] at ht; omega
        · simp only [hz, if_false] at ht
          have := hi.deadline t ht
          have := hi.clock.2
          omega
      · dsimp only
        by_cases hz : s.debounced = 0
        · simp [hz]
        · simp only [hz, if_false]; exact Nat.le_trans hi.clock.1 hi.clock.2
      · intro _
        dsimp only
        by_cases hz : s.debounced = 0
        · left; simp [hz]
        · have hb : s.batch ≠ [] := by
            intro hb; rw [hi.count, hb] at hz; exact hz rfl
          have : s.req.isSome = true := by rw [hi.nonempty]; cases h : s.batch <;> simp_all
          simpa [hz] using hi.wake this
  | timer =>
    simp only [stepD] at h
    cases ht : s.timerAt with
    | none => simp [ht] at h
    | some t =>
      simp only [ht] at h
      split at h
      · simp only [Option.some.injEq] at h; subst h
        have hb : InvB o { s with timerAt := none } :=
          { cover := hi.cover, single := hi.single, count := hi.count, pending := hi.pending,
            nonempty := hi.nonempty, events := hi.events, deadline := by simp, clock := hi.clock }
        by_cases hf : s.free = true
        · rw [if_pos hf]
          exact invD_pushWorker o _ hb hf
        · have hf' : s.free = false := by simpa using hf
          rw [if_neg hf]
          exact { hb with wake := fun _ => Or.inr hf' }
      · cases h
  | pushReturn =>
    simp only [stepD] at h
    cases hr : s.running with
    | nil => simp [hr] at h
    | cons a rest =>
      obtain ⟨v, n⟩ := a
      simp only [hr] at h
      split at h
      · cases h
      · rename_i htok
        simp only [Option.some.injEq] at h; subst h
        have hsingle := hi.single
        have htok' : s.freeTok = false := by simpa using htok
        rw [hr, htok'] at hsingle
        simp at hsingle
        have hfree : s.free = false := by
          cases hf : s.free with
          | false => rfl
          | true => rw [hf] at hsingle; simp at hsingle <;> omega
        have hrest : rest = [] := by
          cases rest with
          | nil => rfl
          | cons b t => simp at hsingle <;> omega
        refine { cover := hi.cover, single := ?_, wake := fun _ => Or.inr hfree, count := hi.count,
                 pending := hi.pending, nonempty := hi.nonempty, events := ?_, deadline := hi.deadline, clock := hi.clock }
        · simp [hrest, hfree]
        · have := hi.events
          rw [hr] at this
          simp only [List.map_cons, List.sum_cons] at this
          dsimp only; omega
  | freeRecv =>
    simp only [stepD] at h
    split at h
    · rename_i htok
      simp only [Option.some.injEq] at h; subst h
      have hsingle := hi.single
      rw [htok] at hsingle
      simp at hsingle
      have hrun : s.running = [] := by
        cases h : s.running with
        | nil => rfl
        | cons a t => rw [h] at hsingle; simp at hsingle <;> omega
      have hb : InvB o { s with freeTok := false, free := true } :=
        { cover := hi.cover, single := by simp [hrun], count := hi.count, pending := hi.pending,
          nonempty := hi.nonempty, events := hi.events, deadline := hi.deadline, clock := hi.clock }
      exact invD_pushWorker o _ hb rfl
    · cases h
  | edsReturn =>
    simp only [stepD] at h
    cases hr : s.edsRunning with
    | nil => simp [hr] at h
    | cons a rest =>
      simp only [hr, Option.some.injEq] at h; subst h
      refine { cover := hi.cover, single := hi.single, wake := hi.wake, count := hi.count, pending := hi.pending,
               nonempty := hi.nonempty, events := ?_, deadline := hi.deadline, clock := hi.clock }
      have := hi.events
      rw [hr] at this
      simp only [List.length_cons] at this
      dsimp only; omega

theorem invD_run (o : DOpts) (s s' : DB) (es : List Ev) (hi : InvD o s) (h : runD o s es = some s') : InvD o s' := by
  induction es generalizing s with
  | nil => simp only [runD, Option.some.injEq] at h; subst h; exact hi
  | cons e es ih =>
    simp only [runD] at h
    cases hs : stepD o s e with
    | none => simp [hs] at h
    | some s1 =>
      simp only [hs, Option.bind_some] at h
      exact ih s1 (invD_step o s s1 e hi hs) h

/-! ## The statements -/

/-- **debounce_no_loss**: in every reachable state the changed keys (configs, addresses, waypoints)
    and the forced flag of everything received are exactly those of what was handed to `pushFn`
    plus those of the pending request. -/
theorem debounce_no_loss (o : DOpts) (es : List Ev) (s : DB) (h : runD o {} es = some s) (x : Fact) :
    x ∈ factsL s.recvd ↔ (x ∈ factsL s.pushed ∨ x ∈ factsL s.edsPushed ∨ x ∈ factsO s.req) :=
  (invD_run o {} s es (invD_init o) h).cover x

/-- **At most one `pushFn` in flight on the debounced path**, and `freeCh` (capacity 1) never
    overflows: loop-is-free, push-running and token-in-channel are mutually exclusive and exactly
    one holds. -/
theorem debounce_single_flight (o : DOpts) (es : List Ev) (s : DB) (h : runD o {} es = some s) :
    s.running.length ≤ 1 ∧ (s.running ≠ [] → s.freeTok = false ∧ s.free = false) ∧
    (s.free = true → s.running = [] ∧ s.freeTok = false) := by
  have hs := (invD_run o {} s es (invD_init o) h).single
  refine ⟨by omega, ?_, ?_⟩
  · intro hne
    cases hr : s.running with
    | nil => exact absurd hr hne
    | cons a t =>
      rw [hr] at hs; simp at hs
      cases hf : s.free <;> cases ht : s.freeTok <;> simp_all <;> omega
  · intro hf
    rw [hf] at hs; simp at hs
    cases hr : s.running with
    | nil => cases ht : s.freeTok <;> simp_all
    | cons a t => rw [hr] at hs; simp at hs <;> omega

/-- **A pending request always has a wake-up**: a timer is armed, or a push is in flight whose
    completion re-evaluates the pending request (`freeRecv` runs `pushWorker`). -/
theorem debounce_wakeup (o : DOpts) (es : List Ev) (s : DB) (h : runD o {} es = some s)
    (hp : s.req.isSome = true) :
    s.timerAt.isSome = true ∨ (s.free = false ∧ (s.running ≠ [] ∨ s.freeTok = true)) := by
  have hi := invD_run o {} s es (invD_init o) h
  rcases hi.wake hp with h1 | h1
  · exact Or.inl h1
  · right
    refine ⟨h1, ?_⟩
    have hs := hi.single
    rw [h1] at hs
    cases hr : s.running with
    | nil => right; rw [hr] at hs; cases ht : s.freeTok <;> simp_all
    | cons a t => left; simp

/-- The pending request is the in-order `Merge` of the events received since the last hand-off, and
    `debouncedEvents` is their number. -/
theorem debounce_pending_is_batch (o : DOpts) (es : List Ev) (s : DB) (h : runD o {} es = some s) :
    s.req = mergeAll s.batch ∧ s.debounced = s.batch.length :=
  ⟨(invD_run o {} s es (invD_init o) h).pending, (invD_run o {} s es (invD_init o) h).count⟩

/-- **debounce_committed**: `updateSent` + events in the running push + pending events + running
    bypass pushes = events received; so once everything has returned and nothing is pending,
    `updateSent` equals the number of events received. -/
theorem debounce_committed (o : DOpts) (es : List Ev) (s : DB) (h : runD o {} es = some s) :
    s.sent + (s.running.map (·.2)).sum + s.debounced + s.edsRunning.length = s.recvd.length :=
  (invD_run o {} s es (invD_init o) h).events

/-- An armed timer is due at most `DebounceAfter` after the last event. -/
theorem debounce_timer_deadline (o : DOpts) (es : List Ev) (s : DB) (h : runD o {} es = some s)
    (t : Nat) (ht : s.timerAt = some t) : t ≤ s.last + o.after :=
  (invD_run o {} s es (invD_init o) h).deadline t ht

/-! ## Debounced pushes are sequential; the EDS bypass is not -/

theorem pushWorker_running (o : DOpts) (s : DB) (h : s.pushed.length < (pushWorker o s).pushed.length) :
    (pushWorker o s).running.length = s.running.length + 1 := by
  unfold pushWorker at h ⊢
  by_cases hc : o.max ≤ s.now - s.start ∨ o.after ≤ s.now - s.last
  · simp only [hc, if_true] at h ⊢
    cases hr : s.req with
    | none => simp [hr] at h
    | some v => simp
  · simp [hc] at h

/-- **Debounced `pushFn` calls never overlap**: whenever a step hands a request to `pushFn` on the
    debounced path, no debounced `pushFn` is running and none has a completion token waiting - the
    previous call has returned *and* the loop has consumed its token.  Since `pushFn = s.Push` runs
    `StartPush` synchronously, the `StartPush` rounds of debounced pushes are totally ordered: every
    connection is offered their requests in the same order (what `enqueue_push_newest` needs to
    mean "newest"). -/
theorem debounced_pushes_sequential (o : DOpts) (es : List Ev) (s s' : DB) (e : Ev)
    (hr : runD o {} es = some s) (hs : stepD o s e = some s') (hp : s.pushed.length < s'.pushed.length) :
    s.running = [] ∧ s'.running.length = 1 := by
  have hi := invD_run o {} s es (invD_init o) hr
  have hi' := invD_step o s s' e hi hs
  have grow : s'.running.length = s.running.length + 1 := by
    cases e with
    | tick d => simp only [stepD, Option.some.injEq] at hs; subst hs; simp at hp
    | recv r =>
      simp only [stepD, Option.some.injEq] at hs; subst hs
      unfold onRecv at hp; simp only [] at hp; split at hp <;> simp at hp
    | timer =>
      simp only [stepD] at hs
      cases ht : s.timerAt with
      | none => simp [ht] at hs
      | some t =>
        simp only [ht] at hs
        split at hs
        · simp only [Option.some.injEq] at hs; subst hs
          by_cases hf : s.free = true
          · rw [if_pos hf] at hp ⊢
            exact pushWorker_running o _ hp
          · rw [if_neg hf] at hp; simp at hp
        · cases hs
    | pushReturn =>
      simp only [stepD] at hs
      cases hrn : s.running with
      | nil => simp [hrn] at hs
      | cons a rest =>
        simp only [hrn] at hs
        split at hs
        · cases hs
        · simp only [Option.some.injEq] at hs; subst hs; simp at hp
    | freeRecv =>
      simp only [stepD] at hs
      split at hs
      · simp only [Option.some.injEq] at hs; subst hs
        exact pushWorker_running o _ hp
      · cases hs
    | edsReturn =>
      simp only [stepD] at hs
      cases hrn : s.edsRunning with
      | nil => simp [hrn] at hs
      | cons a rest => simp only [hrn, Option.some.injEq] at hs; subst hs; simp at hp
  have h1 := hi'.single
  constructor
  · cases hrn : s.running with
    | nil => rfl
    | cons a t => rw [hrn] at grow; simp at grow; omega
  · omega

/-- With `enableEDSDebounce = false` an endpoints-only update is pushed at once, in its own
    goroutine, whatever else is running: here a debounced `pushFn` (request A) and a bypass `pushFn`
    (request E) are in progress at the same time.  Their two `StartPush` loops may then reach
    different connections in different orders, and "newest snapshot" degrades to "snapshot of the
    request enqueued last on that connection" (`PILOT_ENABLE_EDS_DEBOUNCE` is on by default). -/
theorem eds_bypass_overlap_witness :
    ((runD { after := 10, max := 100, eds := false } {}
        [.recv { configs := some ["VirtualService/ns1/a"] }, .tick 10, .timer,
         .recv { configs := some ["Endpoints/ns1/e1"] }]).map
      (fun s => (s.running.length, s.edsRunning.length))) = some (1, 1) := by decide +kernel

/-! ## Progress: from every reachable state there is a schedule that pushes the pending request -/

/-- When the loop is free, a timer due, and the quiet period over, the timer event pushes. -/
theorem timer_pushes (o : DOpts) (s : DB) (v : View) (t : Nat)
    (hf : s.free = true) (hr : s.req = some v) (ht : s.timerAt = some t) (hdue : t ≤ s.now)
    (hq : o.after ≤ s.now - s.last) :
    ∃ s', stepD o s .timer = some s' ∧ s'.req = none ∧ s'.pushed = s.pushed ++ [v] := by
  have e : stepD o s .timer = some (pushWorker o { s with timerAt := none }) := by
    simp only [stepD, ht, hdue, if_true]; rw [if_pos hf]
  refine ⟨_, e, ?_, ?_⟩ <;> simp [pushWorker, hq, hr]

/-- **No deadlock**: from every reachable state with a pending request there is a continuation
    (time passes, the running push returns, the loop takes the token, the timer fires) after which
    the pending request has been handed to `pushFn`. -/
theorem debounce_eventually (o : DOpts) (es : List Ev) (s : DB) (h : runD o {} es = some s)
    (v : View) (hp : s.req = some v) :
    ∃ es' s', runD o s es' = some s' ∧ v ∈ s'.pushed := by
  have hi := invD_run o {} s es (invD_init o) h
  have hsome : s.req.isSome = true := by simp [hp]
  -- Phase 1: make the loop free (finish the running push, take the token) - or get pushed on the way
  have phase2 : ∀ s1 : DB, InvD o s1 → s1.req = some v → s1.free = true → s1.timerAt.isSome = true →
      ∃ es' s', runD o s1 es' = some s' ∧ v ∈ s'.pushed := by
    intro s1 hi1 hp1 hf1 ht1
    cases htt : s1.timerAt with
    | none => rw [htt] at ht1; cases ht1
    | some t =>
      -- let enough time pass, then fire the timer
      let s2 : DB := { s1 with now := s1.now + (t + o.after + s1.last) }
      have hs2 : stepD o s1 (.tick (t + o.after + s1.last)) = some s2 := rfl
      have hdue : t ≤ s2.now := by simp [s2]; omega
      have hq : o.after ≤ s2.now - s2.last := by simp [s2]; omega
      obtain ⟨s3, h3, _, hpushed⟩ := timer_pushes o s2 v t hf1 hp1 htt hdue hq
      refine ⟨[.tick (t + o.after + s1.last), .timer], s3, ?_, ?_⟩
      · simp [runD, hs2, h3]
      · rw [hpushed]; simp
  have phase1 : ∀ s1 : DB, InvD o s1 → s1.req = some v → s1.free = true →
      ∃ es' s', runD o s1 es' = some s' ∧ v ∈ s'.pushed := by
    intro s1 hi1 hp1 hf1
    rcases hi1.wake (by simp [hp1]) with ht | hnf
    · exact phase2 s1 hi1 hp1 hf1 ht
    · rw [hf1] at hnf; cases hnf
  by_cases hf : s.free = true
  · exact phase1 s hi hp hf
  · have hf' : s.free = false := by simpa using hf
    -- after freeRecv the loop runs pushWorker: it pushes, or arms a timer (then phase 2)
    have afterTok : ∀ s1 : DB, InvD o s1 → s1.req = some v → s1.freeTok = true →
        ∃ es' s', runD o s1 es' = some s' ∧ v ∈ s'.pushed := by
      intro s1 hi1 hp1 htok
      cases hstep : stepD o s1 .freeRecv with
      | none => simp [stepD, htok] at hstep
      | some s2 =>
        have hi2 := invD_step o s1 s2 .freeRecv hi1 hstep
        simp only [stepD, htok, if_true, Option.some.injEq] at hstep
        by_cases hc : o.max ≤ s1.now - s1.start ∨ o.after ≤ s1.now - s1.last
        · refine ⟨[.freeRecv], s2, by simp [runD, stepD, htok, hstep], ?_⟩
          rw [← hstep]; simp [pushWorker, hc, hp1]
        · have hreq2 : s2.req = some v := by rw [← hstep]; simp [pushWorker, hc, hp1]
          have hfree2 : s2.free = true := by rw [← hstep]; simp [pushWorker, hc]
          have ht2 : s2.timerAt.isSome = true := by rw [← hstep]; simp [pushWorker, hc]
          obtain ⟨es', s', hrun, hv⟩ := phase2 s2 hi2 hreq2 hfree2 ht2
          exact ⟨.freeRecv :: es', s', by simp [runD, stepD, htok, hstep, hrun], hv⟩
    have hs := hi.single
    rw [hf'] at hs
    cases hr : s.running with
    | nil =>
      have htok : s.freeTok = true := by rw [hr] at hs; cases ht : s.freeTok <;> simp_all
      exact afterTok s hi hp htok
    | cons a rest =>
      obtain ⟨w, n⟩ := a
      have htok : s.freeTok = false := by rw [hr] at hs; cases ht : s.freeTok <;> simp_all <;> omega
      cases hstep : stepD o s .pushReturn with
      | none => simp [stepD, hr, htok] at hstep
      | some s1 =>
        have hi1 := invD_step o s s1 .pushReturn hi hstep
        simp only [stepD, hr, htok, Bool.false_eq_true, if_false, Option.some.injEq] at hstep
        have hp1 : s1.req = some v := by rw [← hstep]; exact hp
        have htok1 : s1.freeTok = true := by rw [← hstep]
        obtain ⟨es', s', hrun, hv⟩ := afterTok s1 hi1 hp1 htok1
        exact ⟨.pushReturn :: es', s', by simp [runD, stepD, hr, htok, hstep, hrun], hv⟩

/-! ## `debounceMax`: updates that keep coming cannot postpone a push for ever -/

def isRecvOrTick : Ev → Bool
  | .recv _ | .tick _ => true
  | _ => false

/-- While a batch is pending, further updates and the passing of time leave the armed timer, the
    start of the batch and the `free` flag alone (a `recv` re-arms only for the first event of a batch). -/
theorem recv_tick_keeps (o : DOpts) (s s' : DB) (e : Ev) (h : stepD o s e = some s') (he : isRecvOrTick e = true)
    (hr : s.req.isSome = true) (hdn : s.debounced ≠ 0) :
    s'.free = s.free ∧ s'.timerAt = s.timerAt ∧ s'.start = s.start ∧ s'.req.isSome = true ∧ s.now ≤ s'.now ∧
      s'.debounced ≠ 0 ∧ s'.pushed = s.pushed := by
  cases e with
  | tick d =>
    simp only [stepD, Option.some.injEq] at h; subst h
    exact ⟨rfl, rfl, rfl, hr, Nat.le_add_right _ _, hdn, rfl⟩
  | recv r =>
    simp only [stepD, Option.some.injEq] at h; subst h
    unfold onRecv; simp only []
    split
    · exact ⟨rfl, rfl, rfl, hr, Nat.le_refl _, hdn, rfl⟩
    · refine ⟨rfl, by simp [hdn], by simp [hdn], liftO_some_isSome _ _, Nat.le_refl _, ?_, rfl⟩
      exact Nat.succ_ne_zero _
  | timer => simp [isRecvOrTick] at he
  | pushReturn => simp [isRecvOrTick] at he
  | freeRecv => simp [isRecvOrTick] at he
  | edsReturn => simp [isRecvOrTick] at he

/-- **debounce_max_delay**: let a batch be pending with the loop free and `debounceMax` already over
    since its first event.  Then whatever updates arrive and however time passes in the meantime
    (`es`: any `recv`s and `tick`s - in particular updates closer together than the quiet period, for
    ever), the timer that is armed stays armed, and **its firing pushes** everything received up to
    then - the quiet period is not waited for.  Together with `debounce_timer_deadline` (an armed
    timer is due at most `DebounceAfter` after the last event) this bounds the wait of an accepted
    update by `debounceMax + DebounceAfter` plus the running push, under "a due timer fires". -/
theorem debounce_max_delay (o : DOpts) (es0 : List Ev) (s : DB) (hreach : runD o {} es0 = some s)
    (hf : s.free = true) (hr : s.req.isSome = true) (hm : o.max ≤ s.now - s.start)
    (es : List Ev) (hes : es.all isRecvOrTick = true) (s1 : DB) (h1 : runD o s es = some s1) :
    ∃ t v, s1.timerAt = some t ∧ s1.req = some v ∧
      (t ≤ s1.now → ∃ s2, stepD o s1 .timer = some s2 ∧ s2.req = none ∧ s2.pushed = s1.pushed ++ [v]) := by
  have hi := invD_run o {} s es0 (invD_init o) hreach
  have hdn : s.debounced ≠ 0 := by
    intro hz
    have hb : s.batch = [] := by have := hi.count; rw [hz] at this; exact List.length_eq_zero_iff.mp this.symm
    have := hi.nonempty; rw [hb] at this; rw [this] at hr; simp at hr
  have htm : s.timerAt.isSome = true := by
    rcases hi.wake hr with h | h
    · exact h
    · rw [hf] at h; cases h
  -- the facts that survive recvs and ticks
  suffices H : ∀ (es : List Ev) (s s1 : DB), es.all isRecvOrTick = true → runD o s es = some s1 →
      s.free = true → s.req.isSome = true → s.debounced ≠ 0 → s.timerAt.isSome = true → o.max ≤ s.now - s.start →
      s1.free = true ∧ s1.req.isSome = true ∧ s1.timerAt.isSome = true ∧ o.max ≤ s1.now - s1.start by
    obtain ⟨g1, g2, g3, g4⟩ := H es s s1 hes h1 hf hr hdn htm hm
    cases ht : s1.timerAt with
    | none => rw [ht] at g3; cases g3
    | some t =>
      cases hv : s1.req with
      | none => rw [hv] at g2; cases g2
      | some v =>
        refine ⟨t, v, rfl, rfl, fun hdue => ?_⟩
        have e : stepD o s1 .timer = some (pushWorker o { s1 with timerAt := none }) := by
          simp only [stepD, ht, hdue, if_true]; rw [if_pos g1]
        refine ⟨_, e, ?_, ?_⟩ <;> simp [pushWorker, g4, hv]
  intro es
  induction es with
  | nil => intro s s1 _ h1 a b _ d e; simp only [runD, Option.some.injEq] at h1; subst h1; exact ⟨a, b, d, e⟩
  | cons e es ih =>
    intro s s1 hall h1 a b c d m
    simp only [List.all_cons, Bool.and_eq_true] at hall
    simp only [runD] at h1
    cases hs : stepD o s e with
    | none => simp [hs] at h1
    | some s' =>
      simp only [hs, Option.bind_some] at h1
      obtain ⟨k1, k2, k3, k4, k5, k6, _⟩ := recv_tick_keeps o s s' e hs hall.1 b c
      refine ih s' s1 hall.2 h1 (by rw [k1]; exact a) k4 k6 (by rw [k2]; exact d) ?_
      rw [k3]; omega

/-- ... and when the push that was running returns with `debounceMax` over, the loop pushes at once. -/
theorem freeRecv_pushes_at_max (o : DOpts) (s : DB) (v : View) (htok : s.freeTok = true) (hr : s.req = some v)
    (hm : o.max ≤ s.now - s.start) :
    ∃ s', stepD o s .freeRecv = some s' ∧ s'.req = none ∧ s'.pushed = s.pushed ++ [v] := by
  have e : stepD o s .freeRecv = some (pushWorker o { s with freeTok := false, free := true }) := by
    simp [stepD, htok]
  refine ⟨_, e, ?_, ?_⟩ <;> simp [pushWorker, hm, hr]

/-! ## Non-vacuity: an event arrives while a push is running and is pushed afterwards -/

def exA : View := { configs := some ["VirtualService/ns1/a"] }
def exB : View := { configs := some ["DestinationRule/ns1/b"], forced := true }
def exOpts : DOpts := { after := 10, max := 100, eds := true }

/-- recv A, quiet period, timer -> push A (running); recv B during the push; push returns; loop takes
    the token, re-arms; quiet period; timer -> push B. -/
def exRun : List Ev :=
  [.recv exA, .tick 10, .timer, .recv exB, .tick 3, .pushReturn, .freeRecv, .tick 7, .timer]

example : ((runD exOpts {} exRun).map (fun s => (s.pushed.map (·.configs), s.req.isSome, s.running.length))) =
    some ([some ["VirtualService/ns1/a"], some ["DestinationRule/ns1/b"]], false, 1) := by decide

/-- Non-vacuity: updates every 9 time units (quiet period 10) - the quiet period never elapses, the
    push comes through `debounceMax` = 30. -/
example : ((runD { after := 10, max := 30, eds := true } {}
    [.recv exA, .tick 9, .recv exB, .tick 1, .timer, .tick 8, .recv exA, .tick 2, .timer, .tick 7, .recv exB, .tick 3, .timer,
     ]).map
    (fun s => (s.pushed.length, s.req.isSome, s.now - s.last, s.now - s.start))) = some (1, false, 3, 30) := by decide +kernel


end IstioModel.C02
