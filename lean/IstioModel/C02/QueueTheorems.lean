import IstioModel.C02.Queue
import IstioModel.C02.Facts
import IstioModel.C02.Theorems

/-!
# C02 - the per-proxy push queue

"A proxy has at most one push in flight, a notification arriving during that push is delivered
afterwards, merging for one proxy never alters what another proxy is told ..." and, for the queue
stage, "the merged request always covers the union of changed keys, stays forced if any input was
forced, and uses the newest snapshot".

All statements are for **every** sequence of `Enqueue` / `Dequeue` / `MarkDone` / `ShutDown`
operations (any number of producers and workers; every method holds the queue's mutex, so a
concurrent history is such a sequence), every set of connections and every initial heap of request
objects with any sharing between them.
-/
namespace IstioModel.C02

/-! ## What a request says (the part the property protects): see `Facts.lean` -/

theorem mem_factsV (v : View) (x : Fact) :
    x ∈ factsV v ↔ (match x with
      | .cfg k => k ∈ keys v.configs
      | .adr k => k ∈ keys v.addrs
      | .wp k => k ∈ keys v.wps
      | .forced => v.forced = true) := by
  cases x <;> simp [factsV]

theorem factsV_copyMerge (a b : View) (x : Fact) :
    x ∈ factsV (vCopyMerge a b) ↔ x ∈ factsV a ∨ x ∈ factsV b := by
  rw [mem_factsV, mem_factsV, mem_factsV]
  cases x with
  | cfg k => exact (vCopyMerge_keys a b k).1
  | adr k => exact (vCopyMerge_keys a b k).2.1
  | wp k => exact (vCopyMerge_keys a b k).2.2
  | forced => simp [vCopyMerge]

/-- `CopyMerge` on pointers (nil allowed): the result says exactly what the two inputs said. -/
theorem facts_copyMerge (h : Heap) (a b : Option Ref)
    (ha : okRef h.reqs.length a = true) (hb : okRef h.reqs.length b = true) (x : Fact) :
    x ∈ facts (copyMerge h a b).1 (copyMerge h a b).2 ↔ x ∈ facts h a ∨ x ∈ facts h b := by
  unfold facts
  rw [copyMerge_viewO h a b ha hb]
  cases viewAt h a <;> cases viewAt h b <;> simp [liftO, factsV_copyMerge]

theorem facts_stable {h h' : Heap} (hle : h.le h') (hwf : h.wf = true) (r : Option Ref)
    (hr : okRef h.reqs.length r = true) : facts h' r = facts h r := by
  cases r with
  | none => rfl
  | some i =>
    have hi : i < h.reqs.length := by simpa [okRef] using hr
    simp only [facts, viewAt_stable hle hwf i hi]

theorem facts_nil (h : Heap) : facts h none = [] := rfl

/-! ## Invariants -/

/-- The representation invariant of the queue. -/
structure Inv (s : QState) : Prop where
  nodup : s.queue.Nodup
  queued : ∀ c, c ∈ s.queue ↔ (s.pending c).isSome = true
  excl : ∀ c, (s.pending c).isSome = true → s.processing c = none
  wf : s.heap.wf = true
  pref : ∀ c r, s.pending c = some r → okRef s.heap.reqs.length r = true
  qref : ∀ c r, s.processing c = some r → okRef s.heap.reqs.length r = true

/-- An operation is admissible when the pointer it enqueues points to an existing request (or is nil). -/
def Op.ok (s : QState) : Op → Prop
  | .enq _ r => okRef s.heap.reqs.length r = true
  | _ => True

theorem inv_init (h : Heap) (hwf : h.wf = true) : Inv (QState.init h) :=
  { nodup := List.nodup_nil, queued := by intro c; simp [QState.init], excl := by intro c; simp [QState.init],
    wf := hwf, pref := by intro c r hc; simp [QState.init] at hc, qref := by intro c r hc; simp [QState.init] at hc }

theorem okRef_le {h h' : Heap} (hle : h.le h') {r : Option Ref} (hr : okRef h.reqs.length r = true) :
    okRef h'.reqs.length r = true := okRef_mono hle.reqs.length_le hr

/-- **The queue never writes to an existing object**: whatever the operation, every request and
    every map that existed before is unchanged after - in particular the request object shared by
    all connections of one push, and every other connection's pending request. -/
theorem queue_never_writes (s : QState) (op : Op) : s.heap.le (stepQ s op).heap := by
  cases op with
  | enq c r =>
    simp only [stepQ, enqueue]
    split
    · exact Heap.le_refl _
    · split
      · exact copyMerge_pure _ _ _
      · split
        · exact copyMerge_pure _ _ _
        · exact Heap.le_refl _
  | deq =>
    simp only [stepQ, dequeueState]
    split <;> exact Heap.le_refl _
  | done c =>
    simp only [stepQ, markDone]
    split <;> exact Heap.le_refl _
  | shut => exact Heap.le_refl _

theorem nodup_snoc {l : List Conn} {c : Conn} (h : l.Nodup) (hc : c ∉ l) : (l ++ [c]).Nodup := by
  rw [List.nodup_append]
  refine ⟨h, by simp, ?_⟩
  intro a ha b hb
  simp at hb; subst hb; intro e; subst e; exact hc ha

theorem inv_enqueue (s : QState) (c : Conn) (r : Option Ref) (hi : Inv s)
    (hr : okRef s.heap.reqs.length r = true) : Inv (enqueue s c r) := by
  unfold enqueue
  by_cases hd : s.down = true
  · simp [hd]; exact hi
  · simp only [hd, Bool.false_eq_true, if_false]
    cases hp : s.processing c with
    | some req =>
      simp only []
      have hle := copyMerge_pure s.heap req r
      have hreq := hi.qref c req hp
      refine { nodup := hi.nodup, queued := hi.queued, excl := ?_, wf := copyMerge_wf _ _ _ hi.wf, pref := ?_, qref := ?_ }
      · intro c' hc'
        by_cases hcc : c' = c
        · subst hcc; have := hi.excl c' hc'; rw [hp] at this; cases this
        · simp [hcc, hi.excl c' hc']
      · intro c' r' hc'; exact okRef_le hle (hi.pref c' r' hc')
      · intro c' r' hc'
        by_cases hcc : c' = c
        · subst hcc
          simp at hc'; subst hc'
          exact copyMerge_ref_ok _ _ _ hreq hr
        · simp [hcc] at hc'; exact okRef_le hle (hi.qref c' r' hc')
    | none =>
      simp only []
      cases hq : s.pending c with
      | some req =>
        simp only []
        have hle := copyMerge_pure s.heap req r
        have hreq := hi.pref c req hq
        refine { nodup := hi.nodup, queued := ?_, excl := ?_, wf := copyMerge_wf _ _ _ hi.wf, pref := ?_, qref := ?_ }
        · intro c'
          by_cases hcc : c' = c
          · subst hcc; simp [hi.queued c', hq]
          · simp [hcc, hi.queued c']
        · intro c' hc'
          by_cases hcc : c' = c
          · subst hcc; exact hp
          · simp [hcc] at hc'; exact hi.excl c' hc'
        · intro c' r' hc'
          by_cases hcc : c' = c
          · subst hcc
            simp at hc'; subst hc'
            exact copyMerge_ref_ok _ _ _ hreq hr
          · simp [hcc] at hc'; exact okRef_le hle (hi.pref c' r' hc')
        · intro c' r' hc'; exact okRef_le hle (hi.qref c' r' hc')
      | none =>
        simp only []
        have hnq : c ∉ s.queue := by
          intro hm; have := (hi.queued c).mp hm; simp [hq] at this
        refine { nodup := ?_, queued := ?_, excl := ?_, wf := hi.wf, pref := ?_, qref := hi.qref }
        · exact nodup_snoc hi.nodup hnq
        · intro c'
          by_cases hcc : c' = c
          · subst hcc; simp
          · simp [hcc, hi.queued c']
        · intro c' hc'
          by_cases hcc : c' = c
          · subst hcc; exact hp
          · simp [hcc] at hc'; exact hi.excl c' hc'
        · intro c' r' hc'
          by_cases hcc : c' = c
          · subst hcc; simp at hc'; subst hc'; exact hr
          · simp [hcc] at hc'; exact hi.pref c' r' hc'

theorem inv_dequeue (s : QState) (hi : Inv s) : Inv (dequeueState s) := by
  unfold dequeueState
  cases hq : s.queue with
  | nil => simp only []; exact hi
  | cons c rest =>
    simp only []
    have hnd : (c :: rest).Nodup := hq ▸ hi.nodup
    have hc : c ∉ rest := (List.nodup_cons.mp hnd).1
    refine { nodup := (List.nodup_cons.mp hnd).2, queued := ?_, excl := ?_, wf := hi.wf, pref := ?_, qref := ?_ }
    · intro c'
      by_cases hcc : c' = c
      · subst hcc; simp [hc]
      · have := hi.queued c'; rw [hq] at this; simp [hcc] at this ⊢; exact this
    · intro c' hc'
      by_cases hcc : c' = c
      · subst hcc; simp at hc'
      · simp [hcc] at hc' ⊢; exact hi.excl c' hc'
    · intro c' r' hc'
      by_cases hcc : c' = c
      · subst hcc; simp at hc'
      · simp [hcc] at hc'; exact hi.pref c' r' hc'
    · intro c' r' hc'
      by_cases hcc : c' = c
      · subst hcc; simp at hc'; subst hc'; rfl
      · simp [hcc] at hc'; exact hi.qref c' r' hc'

theorem inv_markDone (s : QState) (c : Conn) (hi : Inv s) : Inv (markDone s c) := by
  unfold markDone
  split
  · rename_i r hp
    have hnp : (s.pending c).isSome = false := by
      cases h : (s.pending c).isSome
      · rfl
      · have := hi.excl c h; rw [hp] at this; cases this
    have hnq : c ∉ s.queue := by
      intro hm; have := (hi.queued c).mp hm; rw [hnp] at this; cases this
    refine { nodup := ?_, queued := ?_, excl := ?_, wf := hi.wf, pref := ?_, qref := ?_ }
    · exact nodup_snoc hi.nodup hnq
    · intro c'
      by_cases hcc : c' = c
      · subst hcc; simp
      · simp [hcc, hi.queued c']
    · intro c' hc'
      by_cases hcc : c' = c
      · subst hcc; simp
      · simp [hcc] at hc' ⊢; exact hi.excl c' hc'
    · intro c' r' hc'
      by_cases hcc : c' = c
      · subst hcc; simp at hc'; subst hc'; exact hi.qref c' _ hp
      · simp [hcc] at hc'; exact hi.pref c' r' hc'
    · intro c' r' hc'
      by_cases hcc : c' = c
      · subst hcc; simp at hc'
      · simp [hcc] at hc'; exact hi.qref c' r' hc'
  · refine { nodup := hi.nodup, queued := hi.queued, excl := ?_, wf := hi.wf, pref := hi.pref, qref := ?_ }
    · intro c' hc'
      by_cases hcc : c' = c
      · subst hcc; simp
      · simp [hcc]; exact hi.excl c' hc'
    · intro c' r' hc'
      by_cases hcc : c' = c
      · subst hcc; simp at hc'
      · simp [hcc] at hc'; exact hi.qref c' r' hc'

/-- The invariant is preserved by every admissible operation ... -/
theorem inv_step (s : QState) (op : Op) (hi : Inv s) (hok : op.ok s) : Inv (stepQ s op) := by
  cases op with
  | enq c r => exact inv_enqueue s c r hi hok
  | deq => exact inv_dequeue s hi
  | done c => exact inv_markDone s c hi
  | shut => exact { hi with }

/-- A history is admissible for `s` when every enqueued pointer is nil or an object of `s`'s heap
    (objects are never freed or moved, so it stays valid). -/
def OpsOk (n : Nat) : List Op → Prop
  | [] => True
  | .enq _ r :: ops => okRef n r = true ∧ OpsOk n ops
  | _ :: ops => OpsOk n ops

theorem opsOk_mono {n m : Nat} (h : n ≤ m) : ∀ ops, OpsOk n ops → OpsOk m ops
  | [], _ => trivial
  | .enq _ _ :: ops, ho => ⟨okRef_mono h ho.1, opsOk_mono h ops ho.2⟩
  | .deq :: ops, ho => opsOk_mono h ops ho
  | .done _ :: ops, ho => opsOk_mono h ops ho
  | .shut :: ops, ho => opsOk_mono h ops ho

/-- ... hence holds after every history. -/
theorem inv_run (s : QState) (ops : List Op) (hi : Inv s) (hok : OpsOk s.heap.reqs.length ops) :
    Inv (runQ s ops) := by
  induction ops generalizing s with
  | nil => exact hi
  | cons op ops ih =>
    have hle := (queue_never_writes s op).reqs.length_le
    cases op with
    | enq c r => exact ih _ (inv_step s _ hi hok.1) (opsOk_mono hle ops hok.2)
    | deq => exact ih _ (inv_step s _ hi trivial) (opsOk_mono hle ops hok)
    | done c => exact ih _ (inv_step s _ hi trivial) (opsOk_mono hle ops hok)
    | shut => exact ih _ (inv_step s _ hi trivial) (opsOk_mono hle ops hok)

/-! ## Structure: one push in flight per connection, FIFO -/

/-- The request remembered for a connection that is being pushed (`processing[con]`, nil if none). -/
def procOf (s : QState) (c : Conn) : Option Ref := (s.processing c).getD none

/-- **At most one push in flight per proxy**: `Dequeue` only ever hands out a connection that is not
    currently handed out, and marks it as handed out. -/
theorem dequeue_not_in_flight (s : QState) (hi : Inv s) (c : Conn) (r : Option Ref)
    (h : dequeueRes s = .got c r) :
    s.processing c = none ∧ (dequeueState s).processing c = some none ∧ c ∉ (dequeueState s).queue := by
  unfold dequeueRes at h
  cases hq : s.queue with
  | nil => simp [hq] at h; split at h <;> cases h
  | cons c' rest =>
    simp only [hq, DeqRes.got.injEq] at h
    obtain ⟨rfl, _⟩ := h
    have hm : c' ∈ s.queue := by simp [hq]
    have hnd : (c' :: rest).Nodup := hq ▸ hi.nodup
    refine ⟨hi.excl c' ((hi.queued c').mp hm), ?_, ?_⟩
    · simp [dequeueState, hq]
    · simp [dequeueState, hq, (List.nodup_cons.mp hnd).1]

/-- While a connection is handed out it is not in the queue, so no second worker can get it. -/
theorem not_queued_while_processing (s : QState) (hi : Inv s) (c : Conn)
    (h : (s.processing c).isSome = true) : c ∉ s.queue := by
  intro hm
  have := hi.excl c ((hi.queued c).mp hm)
  rw [this] at h; cases h

/-- Only `Dequeue` removes from the queue, and it removes the head; everything else appends. -/
theorem queue_grows_at_end (s : QState) (op : Op) (hop : op ≠ .deq) :
    ∃ t, (stepQ s op).queue = s.queue ++ t := by
  cases op with
  | enq c r =>
    simp only [stepQ, enqueue]
    split
    · exact ⟨[], by simp⟩
    · split
      · exact ⟨[], by simp⟩
      · split
        · exact ⟨[], by simp⟩
        · exact ⟨[c], rfl⟩
  | deq => exact absurd rfl hop
  | done c =>
    simp only [stepQ, markDone]
    split
    · exact ⟨[c], rfl⟩
    · exact ⟨[], by simp⟩
  | shut => exact ⟨[], by simp [stepQ, shutDown]⟩

def countDeq : List Op → Nat
  | [] => 0
  | .deq :: ops => countDeq ops + 1
  | _ :: ops => countDeq ops

/-- **FIFO fairness**: a connection with `n` connections before it in the queue is at the head
    after any history containing exactly `n` `Dequeue`s, whatever else happens in between. -/
theorem fifo_fair (s : QState) (pre post : List Conn) (c : Conn) (hq : s.queue = pre ++ c :: post)
    (ops : List Op) (hn : countDeq ops = pre.length) :
    ∃ post', (runQ s ops).queue = c :: post' := by
  induction ops generalizing s pre post with
  | nil =>
    cases pre with
    | nil => exact ⟨post, by simpa [runQ] using hq⟩
    | cons a t => simp [countDeq] at hn
  | cons op ops ih =>
    by_cases hop : op = .deq
    · subst hop
      cases pre with
      | nil => simp [countDeq] at hn
      | cons a t =>
        simp only [countDeq, List.length_cons, Nat.add_right_cancel_iff] at hn
        refine ih (stepQ s .deq) t post ?_ hn
        simp [stepQ, dequeueState, hq]
    · obtain ⟨t, ht⟩ := queue_grows_at_end s op hop
      have hn' : countDeq ops = pre.length := by
        cases op <;> simp_all [countDeq]
      exact ih (stepQ s op) pre (post ++ t) (by rw [ht, hq]; simp) hn'

/-- ... and the next `Dequeue` hands out exactly that connection with its pending request. -/
theorem dequeue_head (s : QState) (c : Conn) (rest : List Conn) (hq : s.queue = c :: rest) :
    dequeueRes s = .got c (pendingOf s c) := by
  simp [dequeueRes, hq]

/-! ## Isolation -/

/-- What is waiting for connection `c`: its pending request, or the one parked while it is pushed. -/
def mail (s : QState) (c : Conn) : List Fact :=
  facts s.heap (pendingOf s c) ++ facts s.heap (procOf s c)

theorem pendingOf_ok (s : QState) (hi : Inv s) (c : Conn) : okRef s.heap.reqs.length (pendingOf s c) = true := by
  unfold pendingOf
  cases h : s.pending c with
  | none => rfl
  | some r => exact hi.pref c r h

theorem procOf_ok (s : QState) (hi : Inv s) (c : Conn) : okRef s.heap.reqs.length (procOf s c) = true := by
  unfold procOf
  cases h : s.processing c with
  | none => rfl
  | some r => exact hi.qref c r h

/-- Operations of connection `c1` do not touch the table entries of another connection `c2` ... -/
theorem other_conn_entries (s : QState) (c1 c2 : Conn) (hne : c2 ≠ c1) (r : Option Ref) :
    (enqueue s c1 r).pending c2 = s.pending c2 ∧ (enqueue s c1 r).processing c2 = s.processing c2 ∧
    (markDone s c1).pending c2 = s.pending c2 ∧ (markDone s c1).processing c2 = s.processing c2 := by
  refine ⟨?_, ?_, ?_, ?_⟩
  · unfold enqueue; repeat' split
    all_goals simp [hne]
  · unfold enqueue; repeat' split
    all_goals simp [hne]
  · unfold markDone; repeat' split
    all_goals simp [hne]
  · unfold markDone; repeat' split
    all_goals simp [hne]

/-- ... and `Dequeue` touches only the connection it hands out. -/
theorem dequeue_other_conn (s : QState) (c : Conn) (rest : List Conn) (hq : s.queue = c :: rest)
    (c2 : Conn) (hne : c2 ≠ c) :
    (dequeueState s).pending c2 = s.pending c2 ∧ (dequeueState s).processing c2 = s.processing c2 := by
  simp [dequeueState, hq, hne]

/-- **Isolation**: merging for one proxy never alters what another proxy is told: after any
    operation of connection `c1`, connection `c2` has the same pointers waiting and they read the
    same (together with `queue_never_writes`: the objects behind them are physically unchanged). -/
theorem isolation (s : QState) (hi : Inv s) (c1 c2 : Conn) (hne : c2 ≠ c1) (r : Option Ref) :
    mail (enqueue s c1 r) c2 = mail s c2 ∧ mail (markDone s c1) c2 = mail s c2 := by
  obtain ⟨e1, e2, e3, e4⟩ := other_conn_entries s c1 c2 hne r
  have hle := queue_never_writes s (.enq c1 r)
  have hle' := queue_never_writes s (.done c1)
  simp only [stepQ] at hle hle'
  have p1 : pendingOf (enqueue s c1 r) c2 = pendingOf s c2 := by simp [pendingOf, e1]
  have p2 : procOf (enqueue s c1 r) c2 = procOf s c2 := by simp [procOf, e2]
  have p3 : pendingOf (markDone s c1) c2 = pendingOf s c2 := by simp [pendingOf, e3]
  have p4 : procOf (markDone s c1) c2 = procOf s c2 := by simp [procOf, e4]
  constructor
  · simp only [mail, p1, p2]
    rw [facts_stable hle hi.wf _ (pendingOf_ok s hi c2), facts_stable hle hi.wf _ (procOf_ok s hi c2)]
  · simp only [mail, p3, p4]
    rw [facts_stable hle' hi.wf _ (pendingOf_ok s hi c2), facts_stable hle' hi.wf _ (procOf_ok s hi c2)]

/-! ## No loss, no weakening: accounting over whole histories -/

/-- Ghost history: what was accepted for each connection, what was handed to its pushes, how many
    hand-outs are not yet marked done. -/
structure Ghost where
  s : QState
  enqd : Conn → List Fact := fun _ => []
  outd : Conn → List Fact := fun _ => []
  infl : Conn → Nat := fun _ => 0

def upd (f : Conn → List Fact) (c : Conn) (l : List Fact) : Conn → List Fact :=
  fun c' => if c' = c then f c ++ l else f c'

def gEnqd (g : Ghost) : Op → (Conn → List Fact)
  | .enq c r => if g.s.down then g.enqd else upd g.enqd c (facts g.s.heap r)
  | _ => g.enqd

def outAfterDeq (g : Ghost) : DeqRes → (Conn → List Fact)
  | .got c r => upd g.outd c (facts g.s.heap r)
  | _ => g.outd

def gOutd (g : Ghost) : Op → (Conn → List Fact)
  | .deq => outAfterDeq g (dequeueRes g.s)
  | _ => g.outd

def inflAfterDeq (g : Ghost) : DeqRes → (Conn → Nat)
  | .got c _ => fun c' => if c' = c then g.infl c + 1 else g.infl c'
  | _ => g.infl

def gInfl (g : Ghost) : Op → (Conn → Nat)
  | .deq => inflAfterDeq g (dequeueRes g.s)
  | .done c => fun c' => if c' = c then g.infl c - 1 else g.infl c'   -- independent of the model's tables
  | _ => g.infl

def gstep (g : Ghost) (op : Op) : Ghost :=
  { s := stepQ g.s op, enqd := gEnqd g op, outd := gOutd g op, infl := gInfl g op }

def grun (g : Ghost) : List Op → Ghost
  | [] => g
  | op :: ops => grun (gstep g op) ops

theorem grun_s (g : Ghost) (ops : List Op) : (grun g ops).s = runQ g.s ops := by
  induction ops generalizing g with
  | nil => rfl
  | cons op ops ih => simp [grun, runQ, ih, gstep]

/-- Everything accepted for `c` has been handed to one of `c`'s pushes or is still waiting for `c`,
    and nothing else is (no loss, no weakening of the forced flag, no foreign keys). -/
def NoLoss (g : Ghost) : Prop :=
  ∀ c x, x ∈ g.enqd c ↔ x ∈ g.outd c ∨ x ∈ mail g.s c

/-- Number of un-finished hand-outs of `c` = 1 if `c` is marked processing, else 0. -/
def OneInFlight (g : Ghost) : Prop :=
  ∀ c, g.infl c = (g.s.processing c).isSome.toNat

theorem mem_upd (f : Conn → List Fact) (c c' : Conn) (l : List Fact) (x : Fact) :
    x ∈ upd f c l c' ↔ (x ∈ f c' ∨ (c' = c ∧ x ∈ l)) := by
  unfold upd
  by_cases h : c' = c
  · subst h; simp
  · simp [h]

theorem no_loss_enqueue (g : Ghost) (c : Conn) (r : Option Ref) (hi : Inv g.s)
    (hr : okRef g.s.heap.reqs.length r = true) (hn : NoLoss g) : NoLoss (gstep g (.enq c r)) := by
  intro c' x
  have hiso := isolation g.s hi c c'
  simp only [gstep, stepQ, gEnqd, gOutd]
  by_cases hd : g.s.down = true
  · have : enqueue g.s c r = g.s := by simp [enqueue, hd]
    simp only [hd, if_true, this]; exact hn c' x
  · simp only [hd, Bool.false_eq_true, if_false, mem_upd]
    by_cases hcc : c' = c
    · subst hcc
      rw [hn c' x]
      have hpo := pendingOf_ok g.s hi c'
      have hqo := procOf_ok g.s hi c'
      -- the three branches of Enqueue
      cases hp : g.s.processing c' with
      | some req =>
        have hle := copyMerge_pure g.s.heap req r
        have hreq := hi.qref c' req hp
        have e : mail (enqueue g.s c' r) c' =
            facts (copyMerge g.s.heap req r).1 (pendingOf g.s c') ++
              facts (copyMerge g.s.heap req r).1 (copyMerge g.s.heap req r).2 := by
          simp [mail, enqueue, hd, hp, pendingOf, procOf]
        rw [e, List.mem_append, facts_copyMerge _ _ _ hreq hr, facts_stable hle hi.wf _ hpo]
        simp only [mail, List.mem_append, procOf, hp, Option.getD_some]
        constructor
        · rintro ((h | h | h) | ⟨_, h⟩) <;> simp [h]
        · rintro (h | h | h | h) <;> simp [h]
      | none =>
        cases hq : g.s.pending c' with
        | some req =>
          have hle := copyMerge_pure g.s.heap req r
          have hreq := hi.pref c' req hq
          have e : mail (enqueue g.s c' r) c' =
              facts (copyMerge g.s.heap req r).1 (copyMerge g.s.heap req r).2 ++
                facts (copyMerge g.s.heap req r).1 none := by
            simp [mail, enqueue, hd, hp, hq, pendingOf, procOf]
          rw [e, List.mem_append, facts_copyMerge _ _ _ hreq hr]
          simp only [mail, List.mem_append, procOf, pendingOf, hp, hq, Option.getD_some, Option.getD_none, facts_nil]
          constructor
          · rintro ((h | h | h) | ⟨_, h⟩) <;> simp [h]
          · rintro (h | (h | h) | h) <;> simp_all
        | none =>
          have e : mail (enqueue g.s c' r) c' = facts g.s.heap r ++ facts g.s.heap none := by
            simp [mail, enqueue, hd, hp, hq, pendingOf, procOf]
          rw [e]
          simp only [mail, List.mem_append, procOf, pendingOf, hp, hq, Option.getD_none, facts_nil]
          constructor
          · rintro ((h | h | h) | ⟨_, h⟩) <;> simp_all
          · rintro (h | h | h) <;> simp_all
    · rw [(hiso hcc r).1, hn c' x]
      simp [hcc]

theorem no_loss_dequeue (g : Ghost) (hi : Inv g.s) (hn : NoLoss g) : NoLoss (gstep g .deq) := by
  intro c' x
  simp only [gstep, stepQ, gEnqd, gOutd]
  cases hq : g.s.queue with
  | nil =>
    have e1 : dequeueState g.s = g.s := by simp [dequeueState, hq]
    have e2 : ∀ c r, dequeueRes g.s ≠ .got c r := by
      intro c r; simp only [dequeueRes, hq]; split <;> simp
    rw [e1]
    cases hres : dequeueRes g.s with
    | got c r => exact absurd hres (e2 c r)
    | blocked => exact hn c' x
    | shutdown => exact hn c' x
  | cons c rest =>
    have hres : dequeueRes g.s = .got c (pendingOf g.s c) := dequeue_head g.s c rest hq
    simp only [hres, outAfterDeq, mem_upd]
    by_cases hcc : c' = c
    · subst hcc
      have hm : c' ∈ g.s.queue := by simp [hq]
      have hproc : g.s.processing c' = none := hi.excl c' ((hi.queued c').mp hm)
      have e : mail (dequeueState g.s) c' = [] := by
        simp [mail, dequeueState, hq, pendingOf, procOf, facts_nil]
      rw [e, hn c' x]
      simp only [mail, procOf, hproc, Option.getD_none, facts_nil, List.append_nil, List.not_mem_nil, or_false]
      constructor
      · rintro (h | h) <;> simp [h]
      · rintro (h | ⟨_, h⟩) <;> simp [h]
    · obtain ⟨e1, e2⟩ := dequeue_other_conn g.s c rest hq c' hcc
      have e : mail (dequeueState g.s) c' = mail g.s c' := by
        simp only [mail, pendingOf, procOf, e1, e2]
        simp [dequeueState, hq]
      rw [e, hn c' x]
      simp [hcc]

theorem no_loss_markDone (g : Ghost) (c : Conn) (hi : Inv g.s) (hn : NoLoss g) :
    NoLoss (gstep g (.done c)) := by
  intro c' x
  simp only [gstep, stepQ, gEnqd, gOutd]
  by_cases hcc : c' = c
  · subst hcc
    rw [hn c' x]
    have e : mail (markDone g.s c') c' = mail g.s c' := by
      unfold markDone
      split
      · rename_i r hp
        have hnp : g.s.pending c' = none := by
          cases h : g.s.pending c' with
          | none => rfl
          | some v => have := hi.excl c' (by simp [h]); rw [hp] at this; cases this
        simp [mail, pendingOf, procOf, hp, hnp, facts_nil]
      · rename_i hp
        cases h : g.s.processing c' with
        | none => simp [mail, pendingOf, procOf, h]
        | some v =>
          cases v with
          | none => simp [mail, pendingOf, procOf, h]
          | some r => exact absurd h (hp r)
    rw [e]
  · rw [(isolation g.s hi c c' hcc none).2]
    exact hn c' x

theorem no_loss_step (g : Ghost) (op : Op) (hi : Inv g.s) (hok : op.ok g.s) (hn : NoLoss g) :
    NoLoss (gstep g op) := by
  cases op with
  | enq c r => exact no_loss_enqueue g c r hi hok hn
  | deq => exact no_loss_dequeue g hi hn
  | done c => exact no_loss_markDone g c hi hn
  | shut => intro c x; simpa [gstep, stepQ, gEnqd, gOutd, shutDown, mail, pendingOf, procOf] using hn c x

/-- **No loss / no weakening, for every history**: start from an empty queue over any heap of
    request objects; after any sequence of operations, for every connection, the facts (changed
    config keys, addresses, waypoints, forced flag) of all requests accepted for it are exactly
    those handed to its pushes so far plus those still waiting for it. -/
theorem no_loss (h : Heap) (hwf : h.wf = true) (ops : List Op) (hok : OpsOk h.reqs.length ops) :
    NoLoss (grun { s := QState.init h } ops) := by
  suffices H : ∀ (g : Ghost), Inv g.s → OpsOk g.s.heap.reqs.length ops → NoLoss g → NoLoss (grun g ops) by
    exact H _ (inv_init h hwf) hok (by intro c x; simp [mail, pendingOf, procOf, QState.init, facts_nil])
  clear hok
  induction ops with
  | nil => intro g _ _ hn; exact hn
  | cons op ops ih =>
    intro g hi hok hn
    have hle := (queue_never_writes g.s op).reqs.length_le
    have hopok : op.ok g.s := by
      cases op with
      | enq c r => exact hok.1
      | _ => trivial
    have hrest : OpsOk (stepQ g.s op).heap.reqs.length ops := by
      cases op with
      | enq c r => exact opsOk_mono hle ops hok.2
      | deq => exact opsOk_mono hle ops hok
      | done c => exact opsOk_mono hle ops hok
      | shut => exact opsOk_mono hle ops hok
    exact ih (gstep g op) (inv_step g.s op hi hopok) hrest (no_loss_step g op hi hopok hn)

/-- Forced is preserved (a corollary spelled out): if some accepted request for `c` was forced, a
    request handed to `c` was forced or the one waiting for `c` is. -/
theorem forced_preserved (h : Heap) (hwf : h.wf = true) (ops : List Op) (hok : OpsOk h.reqs.length ops)
    (c : Conn) :
    let g := grun { s := QState.init h } ops
    Fact.forced ∈ g.enqd c ↔ Fact.forced ∈ g.outd c ∨ Fact.forced ∈ mail g.s c :=
  no_loss h hwf ops hok c .forced

/-- **One push in flight, for every history**: the number of hand-outs of a connection that have not
    been marked done is always 0 or 1, and is 1 exactly while the queue has it in `processing`. -/
theorem one_in_flight (h : Heap) (hwf : h.wf = true) (ops : List Op) (hok : OpsOk h.reqs.length ops) :
    OneInFlight (grun { s := QState.init h } ops) := by
  suffices H : ∀ (g : Ghost), Inv g.s → OpsOk g.s.heap.reqs.length ops → OneInFlight g → OneInFlight (grun g ops) by
    exact H _ (inv_init h hwf) hok (by intro c; simp [QState.init])
  clear hok
  induction ops with
  | nil => intro g _ _ hn; exact hn
  | cons op ops ih =>
    intro g hi hok hn
    have hle := (queue_never_writes g.s op).reqs.length_le
    have hopok : op.ok g.s := by
      cases op with
      | enq c r => exact hok.1
      | _ => trivial
    have hrest : OpsOk (stepQ g.s op).heap.reqs.length ops := by
      cases op with
      | enq c r => exact opsOk_mono hle ops hok.2
      | deq => exact opsOk_mono hle ops hok
      | done c => exact opsOk_mono hle ops hok
      | shut => exact opsOk_mono hle ops hok
    refine ih (gstep g op) (inv_step g.s op hi hopok) hrest ?_
    intro c'
    cases op with
    | enq c r =>
      have : ((enqueue g.s c r).processing c').isSome = (g.s.processing c').isSome := by
        unfold enqueue
        repeat' split
        all_goals (try rfl)
        rename_i req hp
        by_cases hcc : c' = c
        · subst hcc; simp [hp]
        · simp [hcc]
      show g.infl c' = ((enqueue g.s c r).processing c').isSome.toNat
      rw [this]; exact hn c'
    | deq =>
      show inflAfterDeq g (dequeueRes g.s) c' = ((dequeueState g.s).processing c').isSome.toNat
      cases hq : g.s.queue with
      | nil =>
        have e1 : dequeueState g.s = g.s := by simp [dequeueState, hq]
        have e2 : ∀ c r, dequeueRes g.s ≠ .got c r := by
          intro c r; simp only [dequeueRes, hq]; split <;> simp
        rw [e1]
        cases hres : dequeueRes g.s with
        | got c r => exact absurd hres (e2 c r)
        | blocked => exact hn c'
        | shutdown => exact hn c'
      | cons c rest =>
        have hres : dequeueRes g.s = .got c (pendingOf g.s c) := dequeue_head g.s c rest hq
        simp only [hres, inflAfterDeq]
        by_cases hcc : c' = c
        · subst hcc
          have hm : c' ∈ g.s.queue := by simp [hq]
          have hproc : g.s.processing c' = none := hi.excl c' ((hi.queued c').mp hm)
          have := hn c'
          simp [hproc] at this
          simp [dequeueState, hq, this]
        · simp [hcc, dequeueState, hq, hn c']
    | done c =>
      show (if c' = c then g.infl c - 1 else g.infl c') =
        ((markDone g.s c).processing c').isSome.toNat
      by_cases hcc : c' = c
      · subst hcc
        have hp' : (markDone g.s c').processing c' = none := by
          unfold markDone; split <;> simp
        simp only [if_true, hp', Option.isSome_none, Bool.toNat_false, hn c']
        cases (g.s.processing c').isSome <;> simp
      · simp only [hcc, if_false, (other_conn_entries g.s c c' hcc none).2.2.2]
        exact hn c'
    | shut => exact hn c'

/-! ## A notification arriving during a push is delivered afterwards -/

/-- While `c` is being pushed (`processing`), an accepted `Enqueue(c, r)` is parked; the `MarkDone`
    that ends the push puts `c` back into the queue with a request that says everything `r` said. -/
theorem enqueue_during_push_requeued (s : QState) (hi : Inv s) (c : Conn) (r : Ref)
    (hd : s.down = false) (hp : (s.processing c).isSome = true) (hr : r < s.heap.reqs.length) :
    let s2 := markDone (enqueue s c (some r)) c
    c ∈ s2.queue ∧ (s2.processing c = none) ∧
    ∀ x, x ∈ facts s.heap (some r) → x ∈ facts s2.heap (pendingOf s2 c) := by
  cases hpc : s.processing c with
  | none => rw [hpc] at hp; cases hp
  | some req =>
    have hreq := hi.qref c req hpc
    have hrr : okRef s.heap.reqs.length (some r) = true := by simp [okRef, hr]
    have hne : (copyMerge s.heap req (some r)).2 ≠ none := by
      intro h; have := (copyMerge_ref_none _ _ _ h).2; cases this
    cases hres : (copyMerge s.heap req (some r)).2 with
    | none => exact absurd hres hne
    | some m =>
      have e : enqueue s c (some r) =
          { s with heap := (copyMerge s.heap req (some r)).1, processing := s.processing.set c (some (some m)) } := by
        simp [enqueue, hd, hpc, hres]
      simp only [e, markDone, CMap.set_same]
      refine ⟨by simp, by simp, ?_⟩
      intro x hx
      simp only [pendingOf, CMap.set_same, Option.getD_some]
      rw [← hres]
      exact (facts_copyMerge s.heap req (some r) hreq hrr x).mpr (Or.inr hx)

/-- After `ShutDown` nothing more is accepted (and nothing already accepted is dropped: `no_loss`
    holds across it). -/
theorem enqueue_after_shutdown (s : QState) (c : Conn) (r : Option Ref) (hd : s.down = true) :
    enqueue s c r = s := by
  simp [enqueue, hd]

/-! ## The newest snapshot -/

/-- `Enqueue` makes the waiting request of `c` carry the snapshot of the request just accepted
    (so, over a history, always the snapshot of the *latest* accepted request: snapshots only move
    forward provided producers hand them over in order). -/
theorem enqueue_push_newest (s : QState) (hi : Inv s) (c : Conn) (r : Ref)
    (hd : s.down = false) (hr : r < s.heap.reqs.length) :
    let s1 := enqueue s c (some r)
    pushOf s1.heap (if (s.processing c).isSome then procOf s1 c else pendingOf s1 c) = pushOf s.heap (some r) := by
  have hrr : okRef s.heap.reqs.length (some r) = true := by simp [okRef, hr]
  have hR : s.heap.reqs[r]? = some s.heap.reqs[r] := List.getElem?_eq_getElem hr
  have key : ∀ req, okRef s.heap.reqs.length req = true →
      pushOf (copyMerge s.heap req (some r)).1 (copyMerge s.heap req (some r)).2 = pushOf s.heap (some r) := by
    intro req hreq
    unfold pushOf
    rw [copyMerge_viewO s.heap req (some r) hreq hrr]
    cases hv : viewAt s.heap req with
    | none => simp [liftO]
    | some v => simp [liftO, viewAt, hR, vCopyMerge]
  cases hp : s.processing c with
  | some req =>
    have := key req (hi.qref c req hp)
    simpa [enqueue, hd, hp, procOf] using this
  | none =>
    cases hq : s.pending c with
    | some req =>
      have := key req (hi.pref c req hq)
      simpa [enqueue, hd, hp, hq, pendingOf] using this
    | none => simp [enqueue, hd, hp, hq, pendingOf]

end IstioModel.C02
