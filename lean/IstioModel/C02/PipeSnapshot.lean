import IstioModel.C02.PipeTheorems

/-!
# C02 - "uses the newest snapshot", end to end

Every `Push` builds a new push context (version `p.version`, strictly increasing) and `StartPush`
enqueues the request carrying it for every registered connection; the queue merges with `CopyMerge`,
which takes the snapshot of the request enqueued last.  `pipeline_newest_snapshot`: in every
reachable state of the composed system, for every registered connection, the request that will be
handed to its next push - the one waiting in the queue (pending, or parked while the connection is
being pushed), or, if nothing is waiting, the one in its parked push event - carries a snapshot that is
**not older than the newest one `StartPush` has used**, `p.version` (it is exactly that one unless a
`ProxyUpdate` read the next context in the moment between its publication and its `StartPush`).  (So a connection can only ever be pushed with an older snapshot if a newer
request is already waiting behind it; at rest the last push of every connection used the newest.)

Assumes what the composition assumes: `Push` calls do not overlap (`debounced_pushes_sequential`;
not the EDS bypass), connections registered from the start.
-/
namespace IstioModel.C02

/-- The request that holds the newest information for `c`: its mail if it has any, else its parked
    push event. -/
def holderRefL (q : QState) (parked : List Flight) (c : Conn) : Option Ref :=
  match mailRef q c with
  | some r => some r
  | none => (flightRef parked c).bind id

def holderRef (s : Sender) (c : Conn) : Option Ref := holderRefL s.q s.parked c

theorem holderRef_L (s : Sender) (c : Conn) : holderRef s c = holderRefL s.q s.parked c := rfl

theorem holderRefL_congr (q q' : QState) (l l' : List Flight) (c : Conn) (h1 : mailRef q' c = mailRef q c)
    (h2 : flightRef l' c = flightRef l c) : holderRefL q' l' c = holderRefL q l c := by
  simp only [holderRefL, h1, h2]

def NS (p : Pipe) : Prop :=
  p.snd.q.down = false → ∀ c, c ∈ p.conns → ∀ r, holderRef p.snd c = some r →
    ∃ n, pushOf p.snd.q.heap (some r) = some n ∧ p.version ≤ n

theorem pushOf_stable {h h' : Heap} (hle : h.le h') (hwf : h.wf = true) (r : Option Ref)
    (hr : okRef h.reqs.length r = true) : pushOf h' r = pushOf h r := by
  unfold pushOf
  rw [viewAt_stableO hle hwf r hr]

theorem pushOf_nil (h : Heap) : pushOf h none = none := rfl

/-- After an accepted `Enqueue(c, r)` the mail of `c` carries `r`'s snapshot. -/
theorem mailRef_enqueue_push (q : QState) (hi : Inv q) (c : Conn) (r : Ref) (hd : q.down = false)
    (hr : r < q.heap.reqs.length) :
    pushOf (enqueue q c (some r)).heap (mailRef (enqueue q c (some r)) c) = pushOf q.heap (some r) := by
  have key := enqueue_push_newest q hi c r hd hr
  simp only [] at key
  have : mailRef (enqueue q c (some r)) c =
      (if (q.processing c).isSome then procOf (enqueue q c (some r)) c else pendingOf (enqueue q c (some r)) c) := by
    cases hp : q.processing c with
    | some req =>
      have hpn := pending_none_of_processing q hi c req hp
      have : (enqueue q c (some r)).pending c = none := by simp [enqueue, hd, hp, hpn]
      simp [mailRef, this]
    | none =>
      cases hq : q.pending c with
      | some req => simp [mailRef, enqueue, hd, hp, hq, pendingOf]
      | none => simp [mailRef, enqueue, hd, hp, hq, pendingOf]
  rw [this]; exact key

theorem mailRef_enqueue_other (q : QState) (c c' : Conn) (hne : c' ≠ c) (r : Option Ref) :
    mailRef (enqueue q c r) c' = mailRef q c' := by
  obtain ⟨e1, e2, _, _⟩ := other_conn_entries q c c' hne r
  simp [mailRef, procOf, e1, e2]

theorem mailRef_markDone (q : QState) (hi : Inv q) (c c' : Conn) : mailRef (markDone q c) c' = mailRef q c' := by
  by_cases hcc : c' = c
  · subst hcc
    cases hp : q.processing c' with
    | none => simp [mailRef, markDone, hp, procOf]
    | some v =>
      have hpn := pending_none_of_processing q hi c' v hp
      cases v with
      | none => simp [mailRef, markDone, hp, hpn, procOf]
      | some r => simp [mailRef, markDone, hp, hpn, procOf]
  · obtain ⟨_, _, e3, e4⟩ := other_conn_entries q c c' hcc none
    simp [mailRef, procOf, e3, e4]

theorem enqueueAll_push (q : QState) (hi : Inv q) (hnn : NN q) (hd : q.down = false) (r : Ref)
    (hr : r < q.heap.reqs.length) (cs : List Conn) :
    (∀ c, c ∈ cs → pushOf (enqueueAll q r cs).heap (mailRef (enqueueAll q r cs) c) = pushOf q.heap (some r)) ∧
    (∀ c, c ∉ cs → mailRef (enqueueAll q r cs) c = mailRef q c) := by
  induction cs generalizing q with
  | nil => exact ⟨fun c hc => absurd hc List.not_mem_nil, fun c _ => rfl⟩
  | cons c0 cs ih =>
    have hrr : okRef q.heap.reqs.length (some r) = true := by simp [okRef, hr]
    have hR : q.heap.reqs[r]? = some q.heap.reqs[r] := List.getElem?_eq_getElem hr
    have hi1 := inv_enqueue q c0 (some r) hi hrr
    have hle1 := queue_never_writes q (.enq c0 (some r))
    simp only [stepQ] at hle1
    have hnn1 := (refines_enqueue q hi hnn c0 r _ hR).2
    have hd1 : (enqueue q c0 (some r)).down = false := by rw [enqueue_down]; exact hd
    have hr1 : r < (enqueue q c0 (some r)).heap.reqs.length := Nat.lt_of_lt_of_le hr hle1.reqs.length_le
    obtain ⟨ih1, ih2⟩ := ih (enqueue q c0 (some r)) hi1 hnn1 hd1 hr1
    have e := enqueueAll_spec (enqueue q c0 (some r)) hi1 hnn1 hd1 r hr1 cs
    have hst : pushOf (enqueue q c0 (some r)).heap (some r) = pushOf q.heap (some r) := pushOf_stable hle1 hi.wf _ hrr
    constructor
    · intro c hc
      simp only [enqueueAll]
      by_cases hcs : c ∈ cs
      · rw [ih1 c hcs, hst]
      · have hc0 : c = c0 := by
          simp only [List.mem_cons] at hc; rcases hc with h | h
          · exact h
          · exact absurd h hcs
        subst hc0
        rw [ih2 c hcs, pushOf_stable e.le hi1.wf _ (mailRef_ok _ hi1 c)]
        exact mailRef_enqueue_push q hi c r hd hr
    · intro c hc
      simp only [enqueueAll]
      have h1 : c ≠ c0 := fun e => hc (by simp [e])
      have h2 : c ∉ cs := fun e => hc (by simp [e])
      rw [ih2 c h2, mailRef_enqueue_other q c0 c h1]

theorem ns_init (o : DOpts) (h : Heap) (cap : Nat) (cs : List Conn) : NS (Pipe.init o h cap cs) := by
  intro _ c _ r hr
  simp [holderRef, holderRefL, Pipe.init, mailRef, QState.init, procOf, flightRef, takeFlight] at hr

theorem holderRef_congr (s s' : Sender) (c : Conn) (h1 : mailRef s'.q c = mailRef s.q c)
    (h2 : flightRef s'.parked c = flightRef s.parked c) : holderRef s' c = holderRef s c := by
  simp only [holderRef, holderRefL, h1, h2]

theorem ns_step (p p' : Pipe) (e : PEv) (hi : PInv p) (hn : NS p) (hok : e.ok) (h : stepP p e = some p') : NS p' := by
  cases e with
  | register c => exact absurd hok id
  | mark => simp only [stepP, Option.some.injEq] at h; subst h; exact hn
  | unregister c =>
    simp only [stepP, Option.some.injEq] at h; subst h
    intro hd c' hc'; exact hn hd c' (List.mem_filter.mp hc').1
  | configUpdate v =>
    simp only [stepP] at h
    split at h
    · simp only [Option.some.injEq] at h; subst h; exact hn
    · cases h
  | recv =>
    simp only [stepP] at h
    cases hc : p.chan with
    | nil => simp [hc] at h
    | cons v rest =>
      simp only [hc] at h
      cases hs : stepD p.opts p.db (.recv v) with
      | none => simp [hs] at h
      | some db' => simp only [hs, Option.some.injEq] at h; subst h; exact hn
  | deb e =>
    simp only [stepP] at h
    split at h
    · cases h
    · cases hs : stepD p.opts p.db e with
      | none => simp [hs] at h
      | some db' => simp only [hs, Option.some.injEq] at h; subst h; exact hn
  | proxyUpdate c ver =>
    simp only [stepP] at h
    split at h
    · rename_i hg
      simp only [Option.some.injEq] at h; subst h
      intro hd c' hcm r hr
      have e := startPush_spec p.snd.q hi.sI.qinv hi.sI.nn (puView ver) [c]
      have hd' : p.snd.q.down = false := by rw [← e.down]; exact hd
      have hle1 : p.snd.q.heap.le (allocView p.snd.q.heap (puView ver)) := alloc_le _ _
      have hi1 : Inv { p.snd.q with heap := allocView p.snd.q.heap (puView ver) } :=
        inv_heap_grow p.snd.q _ hi.sI.qinv hle1 (alloc_wf _ _ hi.sI.qinv.wf)
      have hr1 : p.snd.q.heap.reqs.length <
          ({ p.snd.q with heap := allocView p.snd.q.heap (puView ver) } : QState).heap.reqs.length := by
        simp [alloc_len]
      obtain ⟨hp1, hp2⟩ := enqueueAll_push { p.snd.q with heap := allocView p.snd.q.heap (puView ver) }
        hi1 hi.sI.nn hd' p.snd.q.heap.reqs.length hr1 [c]
      by_cases hcc : c' = c
      · subst hcc
        have hpush := hp1 c' (by simp)
        have hnew : pushOf (allocView p.snd.q.heap (puView ver)) (some p.snd.q.heap.reqs.length) = some ver := by
          simp [pushOf, alloc_view, puView]
        rw [hnew] at hpush
        simp only [holderRef, holderRefL] at hr
        cases hm : mailRef (enqueueAll { p.snd.q with heap := allocView p.snd.q.heap (puView ver) }
            p.snd.q.heap.reqs.length [c']) c' with
        | none => rw [hm, pushOf_nil] at hpush; cases hpush
        | some r' =>
          rw [hm] at hr hpush
          simp only [Option.some.injEq] at hr
          subst hr
          exact ⟨ver, hpush, hg.1⟩
      · have hm : mailRef (enqueueAll { p.snd.q with heap := allocView p.snd.q.heap (puView ver) }
            p.snd.q.heap.reqs.length [c]) c' = mailRef p.snd.q c' := by
          rw [hp2 c' (by simp [hcc])]; rfl
        have hh : holderRef p.snd c' = some r := by
          simp only [holderRef, holderRefL, hm] at hr ⊢; exact hr
        obtain ⟨n, hn1, hn2⟩ := hn hd' c' hcm r hh
        refine ⟨n, ?_, hn2⟩
        have hok : okRef p.snd.q.heap.reqs.length (some r) = true := by
          simp only [holderRef, holderRefL] at hh
          cases hmm : mailRef p.snd.q c' with
          | some m =>
            rw [hmm] at hh; simp only [Option.some.injEq] at hh; subst hh
            have := mailRef_ok p.snd.q hi.sI.qinv c'; rw [hmm] at this; exact this
          | none =>
            rw [hmm] at hh
            cases hfr : flightRef p.snd.parked c' with
            | none => simp [hfr] at hh
            | some fr =>
              simp only [hfr, Option.bind_some, id] at hh
              unfold flightRef at hfr
              cases htk : takeFlight c' p.snd.parked with
              | none => simp [htk] at hfr
              | some pr =>
                have hfm : pr.1 ∈ p.snd.parked := (takeFlight_spec c' _ pr.1 pr.2 htk).2.mem_iff.mpr (by simp)
                have : fr = pr.1.2 := by simp [htk] at hfr; exact hfr.symm
                have hv := hi.fl pr.1 hfm
                rw [← this, hh] at hv; exact hv
        rw [pushOf_stable e.le hi.sI.qinv.wf _ hok]; exact hn1
    · cases h
  | startPush =>
    simp only [stepP] at h
    cases ht : p.toStart with
    | nil => simp [ht] at h
    | cons v rest =>
      simp only [ht, Option.some.injEq] at h; subst h
      intro hd c hcm r hr
      have e := startPush_spec p.snd.q hi.sI.qinv hi.sI.nn (prepPush (p.version + 1) v) p.conns
      have hd' : p.snd.q.down = false := by rw [← e.down]; exact hd
      have hle1 : p.snd.q.heap.le (allocView p.snd.q.heap (prepPush (p.version + 1) v)) := alloc_le _ _
      have hi1 : Inv { p.snd.q with heap := allocView p.snd.q.heap (prepPush (p.version + 1) v) } :=
        inv_heap_grow p.snd.q _ hi.sI.qinv hle1 (alloc_wf _ _ hi.sI.qinv.wf)
      have hr1 : p.snd.q.heap.reqs.length <
          ({ p.snd.q with heap := allocView p.snd.q.heap (prepPush (p.version + 1) v) } : QState).heap.reqs.length := by
        simp [alloc_len]
      obtain ⟨hp1, _⟩ := enqueueAll_push { p.snd.q with heap := allocView p.snd.q.heap (prepPush (p.version + 1) v) }
        hi1 hi.sI.nn hd' p.snd.q.heap.reqs.length hr1 p.conns
      have hpush := hp1 c hcm
      have hnew : pushOf (allocView p.snd.q.heap (prepPush (p.version + 1) v)) (some p.snd.q.heap.reqs.length) =
          some (p.version + 1) := by
        simp [pushOf, alloc_view, prepPush]
      rw [hnew] at hpush
      -- the holder of c is its mail (non-nil, since its snapshot is not none)
      simp only [holderRef, holderRefL] at hr
      cases hm : mailRef (enqueueAll { p.snd.q with heap := allocView p.snd.q.heap (prepPush (p.version + 1) v) }
          p.snd.q.heap.reqs.length p.conns) c with
      | none => rw [hm, pushOf_nil] at hpush; cases hpush
      | some r' =>
        rw [hm] at hr hpush
        simp only [Option.some.injEq] at hr
        subst hr
        exact ⟨p.version + 1, hpush, Nat.le_refl _⟩
  | snd e =>
    simp only [stepP] at h
    split at h
    · cases h
    · rename_i hne
      cases hs : stepS p.snd e with
      | none => simp [hs] at h
      | some s' =>
        -- events that change neither the tables, the heap, the flights nor `down` to false
        have neutral : s'.q.pending = p.snd.q.pending → s'.q.processing = p.snd.q.processing →
            s'.q.heap = p.snd.q.heap → s'.parked = p.snd.parked → (s'.q.down = false → p.snd.q.down = false) →
            NS { p with snd := s' } := by
          intro h1 h2 h3 h4 h5 hd c hc r hr
          have : holderRef s' c = holderRef p.snd c := by
            apply holderRef_congr
            · simp [mailRef, procOf, h1, h2]
            · rw [h4]
          rw [this] at hr
          have := hn (h5 hd) c hc r hr
          simpa [h3] using this
        cases e with
        | enq c r => simp [isEnq] at hne
        | enter =>
          simp only [hs, Option.some.injEq] at h; subst h
          simp only [stepS] at hs; split at hs
          · simp only [Option.some.injEq] at hs; subst hs; exact neutral rfl rfl rfl rfl id
          · cases hs
        | acquire =>
          simp only [hs, Option.some.injEq] at h; subst h
          simp only [stepS] at hs; split at hs
          · simp only [Option.some.injEq] at hs; subst hs; exact neutral rfl rfl rfl rfl id
          · cases hs
        | loopStop =>
          simp only [hs, Option.some.injEq] at h; subst h
          simp only [stepS] at hs; split at hs
          · simp only [Option.some.injEq] at hs; subst hs; exact neutral rfl rfl rfl rfl id
          · cases hs
        | close c =>
          simp only [hs, Option.some.injEq] at h; subst h
          simp only [stepS, Option.some.injEq] at hs; subst hs; exact neutral rfl rfl rfl rfl id
        | stop =>
          simp only [hs, Option.some.injEq] at h; subst h
          simp only [stepS, Option.some.injEq] at hs; subst hs; exact neutral rfl rfl rfl rfl id
        | shut =>
          simp only [hs, Option.some.injEq] at h; subst h
          simp only [stepS, Option.some.injEq] at hs; subst hs
          exact neutral rfl rfl rfl rfl (fun hd => by simp [shutDown] at hd)
        | dequeue =>
          simp only [hs, Option.some.injEq] at h; subst h
          simp only [stepS] at hs
          split at hs
          · cases hres : dequeueRes p.snd.q with
            | blocked => simp [hres] at hs
            | shutdown =>
              simp only [hres, Option.some.injEq] at hs; subst hs; exact neutral rfl rfl rfl rfl id
            | got c r =>
              have hq : ∃ rest, p.snd.q.queue = c :: rest := by
                unfold dequeueRes at hres
                cases hq : p.snd.q.queue with
                | nil => simp [hq] at hres; split at hres <;> cases hres
                | cons c' rest => simp only [hq, DeqRes.got.injEq] at hres; exact ⟨rest, by rw [hres.1]⟩
              obtain ⟨rest, hq⟩ := hq
              obtain ⟨i, hri⟩ := got_nonnil p.snd.q hi.sI.qinv hi.sI.nn c r rest hq hres
              subst hri
              have hpo : pendingOf p.snd.q c = some i := by
                have := dequeue_head p.snd.q c rest hq
                rw [hres] at this; simp only [DeqRes.got.injEq, true_and] at this; exact this.symm
              simp only [hres, Option.some.injEq] at hs; subst hs
              obtain ⟨hpn, _, _⟩ := dequeue_not_in_flight p.snd.q hi.sI.qinv c (some i) hres
              have hcn : c ∉ p.snd.parked.map (·.1) := by
                intro hm
                have : c ∈ inflight p.snd := by simp only [inflight, List.map_append, List.mem_append]; exact Or.inl hm
                have := (hi.sI.proc c).mpr this; rw [hpn] at this; cases this
              have hheap : (dequeueState p.snd.q).heap = p.snd.q.heap := by simp [dequeueState, hq]
              have hdown : (dequeueState p.snd.q).down = p.snd.q.down := by simp [dequeueState, hq]
              have hpend : p.snd.q.pending c = some (some i) := by
                cases hpc : p.snd.q.pending c with
                | none => simp [pendingOf, hpc] at hpo
                | some v => simp [pendingOf, hpc] at hpo; rw [hpo]
              intro hd c' hc' r' hr'
              rw [hdown] at hd
              simp only [hheap]
              by_cases hcc : c' = c
              · subst hcc
                -- before: the holder was the pending request i; after: the parked event carries i
                have hbefore : holderRef p.snd c' = some i := by simp [holderRef, holderRefL, mailRef, hpend]
                have hm : mailRef (dequeueState p.snd.q) c' = none := by
                  simp [mailRef, dequeueState, hq, procOf]
                simp only [holderRef_L, holderRefL, hm, flightRef_snoc_self _ _ _ hcn, Option.bind_some, id] at hr'
                simp only [Option.some.injEq] at hr'
                subst hr'
                exact hn hd c' hc' _ hbefore
              · obtain ⟨e1, e2⟩ := dequeue_other_conn p.snd.q c rest hq c' hcc
                simp only [holderRef_L] at hr'
                rw [holderRefL_congr p.snd.q (dequeueState p.snd.q) p.snd.parked _ c'
                  (by simp [mailRef, procOf, e1, e2]) (flightRef_snoc_other _ _ _ _ hcc)] at hr'
                exact hn hd c' hc' r' hr'
          · cases hs
        | loopReturn c =>
          simp only [hs, Option.some.injEq] at h; subst h
          simp only [stepS] at hs; split at hs
          · cases hs
          · simp only [Option.some.injEq] at hs; subst hs; exact neutral rfl rfl rfl rfl id
        | deliver c =>
          simp only [hs, Option.some.injEq] at h; subst h
          simp only [stepS] at hs
          split at hs
          · cases hs
          cases htk : takeFlight c p.snd.parked with
          | none => simp [htk] at hs
          | some pr =>
            obtain ⟨f, rest⟩ := pr
            simp only [htk, Option.some.injEq] at hs; subst hs
            have hnd := parked_nodup p.snd hi.sI
            intro hd c' hc' r' hr'
            by_cases hcc : c' = c
            · subst hcc
              simp only [holderRef_L, holderRefL, flightRef_take_self _ _ _ _ htk hnd] at hr'
              cases hm : mailRef p.snd.q c' with
              | none => simp [hm] at hr'
              | some m =>
                simp only [hm, Option.some.injEq] at hr'
                subst hr'
                exact hn hd c' hc' _ (by simp [holderRef, holderRefL, hm])
            · simp only [holderRef_L] at hr'
              rw [holderRefL_congr p.snd.q p.snd.q p.snd.parked rest c' rfl (flightRef_take_other _ _ _ _ _ htk hcc)] at hr'
              exact hn hd c' hc' r' hr'
        | pushDone c =>
          simp only [hs, Option.some.injEq] at h; subst h
          simp only [stepS] at hs
          cases htk : takeFlight c p.snd.delivered with
          | none => simp [htk] at hs
          | some pr =>
            obtain ⟨f, rest⟩ := pr
            simp only [htk, Option.some.injEq] at hs; subst hs
            intro hd c' hc' r' hr'
            simp only [doneFunc, markDone_down] at hd
            simp only [holderRef_L, doneFunc] at hr'
            rw [holderRefL_congr p.snd.q (markDone p.snd.q c) p.snd.parked p.snd.parked c'
              (mailRef_markDone p.snd.q hi.sI.qinv c c') rfl] at hr'
            simpa [doneFunc, markDone_heap] using hn hd c' hc' r' hr'
        | closedExit c =>
          simp only [hs, Option.some.injEq] at h; subst h
          simp only [stepS] at hs
          split at hs
          · cases htk : takeFlight c p.snd.parked with
            | none => simp [htk] at hs
            | some pr =>
              obtain ⟨f, rest⟩ := pr
              simp only [htk, Option.some.injEq] at hs; subst hs
              have hnd := parked_nodup p.snd hi.sI
              intro hd c' hc' r' hr'
              simp only [doneFunc, markDone_down] at hd
              simp only [doneFunc, markDone_heap]
              by_cases hcc : c' = c
              · subst hcc
                simp only [holderRef_L, holderRefL, doneFunc, mailRef_markDone p.snd.q hi.sI.qinv c' c',
                  flightRef_take_self _ _ _ _ htk hnd] at hr'
                cases hm : mailRef p.snd.q c' with
                | none => simp [hm] at hr'
                | some m =>
                  simp only [hm, Option.some.injEq] at hr'
                  subst hr'
                  exact hn hd c' hc' _ (by simp [holderRef, holderRefL, hm])
              · simp only [holderRef_L, doneFunc] at hr'
                rw [holderRefL_congr p.snd.q (markDone p.snd.q c) p.snd.parked rest c'
                  (mailRef_markDone p.snd.q hi.sI.qinv c c') (flightRef_take_other _ _ _ _ _ htk hcc)] at hr'
                exact hn hd c' hc' r' hr'
          · cases hs
        | stopExit c =>
          simp only [hs, Option.some.injEq] at h; subst h
          simp only [stepS] at hs
          split at hs
          · cases htk : takeFlight c p.snd.parked with
            | none => simp [htk] at hs
            | some pr =>
              obtain ⟨f, rest⟩ := pr
              simp only [htk, Option.some.injEq] at hs; subst hs
              have hnd := parked_nodup p.snd hi.sI
              intro hd c' hc' r' hr'
              simp only [doneFunc, markDone_down] at hd
              simp only [doneFunc, markDone_heap]
              by_cases hcc : c' = c
              · subst hcc
                simp only [holderRef_L, holderRefL, doneFunc, mailRef_markDone p.snd.q hi.sI.qinv c' c',
                  flightRef_take_self _ _ _ _ htk hnd] at hr'
                cases hm : mailRef p.snd.q c' with
                | none => simp [hm] at hr'
                | some m =>
                  simp only [hm, Option.some.injEq] at hr'
                  subst hr'
                  exact hn hd c' hc' _ (by simp [holderRef, holderRefL, hm])
              · simp only [holderRef_L, doneFunc] at hr'
                rw [holderRefL_congr p.snd.q (markDone p.snd.q c) p.snd.parked rest c'
                  (mailRef_markDone p.snd.q hi.sI.qinv c c') (flightRef_take_other _ _ _ _ _ htk hcc)] at hr'
                exact hn hd c' hc' r' hr'
          · cases hs

theorem ns_run (p p' : Pipe) (es : List PEv) (hi : PInv p) (hn : NS p) (hok : PEvsOk es) (h : runP p es = some p') :
    NS p' := by
  induction es generalizing p with
  | nil => simp only [runP, Option.some.injEq] at h; subst h; exact hn
  | cons e es ih =>
    simp only [runP] at h
    cases hs : stepP p e with
    | none => simp [hs] at h
    | some p1 =>
      simp only [hs, Option.bind_some] at h
      exact ih p1 (pinv_step p p1 e hi hok.1 hs) (ns_step p p1 e hi hn hok.1 hs) hok.2 h

/-- **pipeline_newest_snapshot** (see the header). -/
theorem pipeline_newest_snapshot (o : DOpts) (h : Heap) (hwf : h.wf = true) (cap : Nat) (cs : List Conn)
    (es : List PEv) (hok : PEvsOk es) (p : Pipe) (hr : runP (Pipe.init o h cap cs) es = some p)
    (hd : p.snd.q.down = false) (c : Conn) (hc : c ∈ p.conns) (r : Ref) (hh : holderRef p.snd c = some r) :
    ∃ n, pushOf p.snd.q.heap (some r) = some n ∧ p.version ≤ n :=
  ns_run _ p es (pinv_init o h hwf cap cs) (ns_init o h cap cs) hok hr hd c hc r hh

/-! ## Non-vacuity: after the second push round of `exPipeEvs` connection 1 (not yet pushed) has the
    merge of both rounds waiting, and it carries version 2 = `p.version`. -/
example : ((runP (Pipe.init { after := 10, max := 100, eds := true } {} 2 [0, 1]) exPipeEvs).map
    (fun p => (p.version, (holderRef p.snd 1).isSome, pushOf p.snd.q.heap (holderRef p.snd 1)))) =
    some (2, true, some 2) := by decide +kernel

end IstioModel.C02
