import IstioModel.C02.Pipe
import IstioModel.C02.SenderTheorems
import IstioModel.C02.DebounceTheorems

/-! Helper lemmas for the composed pipeline theorem (`PipeTheorems.lean`): allocation of the shared
    request, how each queue operation moves facts between a connection's mail and the caller. -/
namespace IstioModel.C02

/-! ## Allocation of the request `pushFn` enqueues -/

theorem prefix_match_append {α : Type} (o : Option (List α)) (st : List (List α)) :
    st <+: pushO st o := by
  cases o
  · exact List.prefix_refl _
  · exact List.prefix_append _ _

theorem alloc_le (h : Heap) (v : View) : h.le (allocView h v) :=
  ⟨prefix_match_append _ _, prefix_match_append _ _, prefix_match_append _ _, prefix_match_append _ _,
   List.prefix_append _ _⟩

theorem alloc_len (h : Heap) (v : View) : (allocView h v).reqs.length = h.reqs.length + 1 := by
  simp [allocView]

theorem rdO_alloc {α : Type} (o : Option (List α)) (st : List (List α)) :
    rdO (pushO st o) (o.map (fun _ => st.length)) = o := by
  cases o with
  | none => rfl
  | some l => simp [rdO, pushO]

/-- The allocated object reads exactly `v`. -/
theorem alloc_view (h : Heap) (v : View) : viewAt (allocView h v) (some h.reqs.length) = some v := by
  simp only [viewAt, allocView, List.getElem?_append_right (Nat.le_refl _), Nat.sub_self,
    List.getElem?_cons_zero, Option.map_some, view, rdO_alloc]

theorem okRef_alloc {α : Type} (o : Option (List α)) (st : List (List α)) :
    okRef (pushO st o).length (o.map (fun _ => st.length)) = true := by
  cases o <;> simp [okRef, pushO]

theorem alloc_wf (h : Heap) (v : View) (hwf : h.wf = true) : (allocView h v).wf = true := by
  have hle := alloc_le h v
  simp only [Heap.wf, List.all_eq_true] at hwf ⊢
  intro R hR
  simp only [allocView, List.mem_append, List.mem_singleton] at hR
  rcases hR with hm | he
  · exact ReqObj.wf_mono hle R (hwf R hm)
  · subst he
    simp only [ReqObj.wf, allocView, Bool.and_eq_true]
    exact ⟨⟨⟨okRef_alloc _ _, okRef_alloc _ _⟩, okRef_alloc _ _⟩, okRef_alloc _ _⟩

/-- Growing the heap (allocation elsewhere) keeps the queue invariant. -/
theorem inv_heap_grow (q : QState) (h' : Heap) (hi : Inv q) (hle : q.heap.le h') (hwf : h'.wf = true) :
    Inv { q with heap := h' } :=
  { nodup := hi.nodup, queued := hi.queued, excl := hi.excl, wf := hwf,
    pref := fun c r hc => okRef_le hle (hi.pref c r hc), qref := fun c r hc => okRef_le hle (hi.qref c r hc) }

theorem mail_heap_grow (q : QState) (h' : Heap) (hi : Inv q) (hle : q.heap.le h') (c : Conn) :
    mail { q with heap := h' } c = mail q c := by
  simp only [mail]
  have e1 : pendingOf { q with heap := h' } c = pendingOf q c := rfl
  have e2 : procOf { q with heap := h' } c = procOf q c := rfl
  rw [e1, e2, facts_stable hle hi.wf _ (pendingOf_ok q hi c), facts_stable hle hi.wf _ (procOf_ok q hi c)]

/-! ## How queue operations move facts (derived from `no_loss_*` with the mail itself as ledger) -/

/-- The ledger in which everything waiting counts as accepted and nothing has been handed out. -/
def mailGhost (q : QState) : Ghost := { s := q, enqd := fun c => mail q c, outd := fun _ => [] }

theorem mailGhost_noLoss (q : QState) : NoLoss (mailGhost q) := by
  intro c x; simp [mailGhost]

/-- `Enqueue(c, r)` on an accepting queue adds exactly what `r` says to `c`'s mail ... -/
theorem mail_enqueue (q : QState) (hi : Inv q) (hd : q.down = false) (c : Conn) (r : Option Ref)
    (hr : okRef q.heap.reqs.length r = true) (x : Fact) :
    x ∈ mail (enqueue q c r) c ↔ x ∈ mail q c ∨ x ∈ facts q.heap r := by
  have := no_loss_enqueue (mailGhost q) c r hi hr (mailGhost_noLoss q) c x
  simp only [gstep, stepQ, gEnqd, gOutd, mailGhost, hd, Bool.false_eq_true, if_false, mem_upd, List.not_mem_nil,
    false_or, true_and] at this
  exact this.symm

/-- ... and leaves every other connection's mail alone. -/
theorem mail_enqueue_other (q : QState) (hi : Inv q) (c c' : Conn) (hne : c' ≠ c) (r : Option Ref) :
    mail (enqueue q c r) c' = mail q c' :=
  (isolation q hi c c' hne r).1

/-- `Dequeue` moves the pending request of the head connection out of its mail. -/
theorem mail_dequeue (q : QState) (hi : Inv q) (c : Conn) (rest : List Conn) (hq : q.queue = c :: rest) (x : Fact) :
    x ∈ mail q c ↔ x ∈ facts q.heap (pendingOf q c) ∨ x ∈ mail (dequeueState q) c := by
  have := no_loss_dequeue (mailGhost q) hi (mailGhost_noLoss q) c x
  have hres : dequeueRes q = .got c (pendingOf q c) := dequeue_head q c rest hq
  simp only [gstep, stepQ, gEnqd, gOutd, mailGhost, hres, outAfterDeq, mem_upd, List.not_mem_nil, false_or,
    true_and] at this
  exact this

theorem mail_dequeue_other (q : QState) (c : Conn) (rest : List Conn) (hq : q.queue = c :: rest)
    (c' : Conn) (hne : c' ≠ c) : mail (dequeueState q) c' = mail q c' := by
  obtain ⟨e1, e2⟩ := dequeue_other_conn q c rest hq c' hne
  simp only [mail, pendingOf, procOf, e1, e2]
  simp [dequeueState, hq]

/-- `MarkDone` changes nobody's mail (it only moves a parked request back to pending). -/
theorem mail_markDone (q : QState) (hi : Inv q) (c c' : Conn) (x : Fact) :
    x ∈ mail (markDone q c) c' ↔ x ∈ mail q c' := by
  have := no_loss_markDone (mailGhost q) c hi (mailGhost_noLoss q) c' x
  simp only [gstep, stepQ, gEnqd, gOutd, mailGhost, List.not_mem_nil, false_or] at this
  exact this.symm

theorem markDone_heap (q : QState) (c : Conn) : (markDone q c).heap = q.heap := by
  unfold markDone; split <;> rfl

theorem markDone_down (q : QState) (c : Conn) : (markDone q c).down = q.down := by
  unfold markDone; split <;> rfl

theorem enqueue_down (q : QState) (c : Conn) (r : Option Ref) : (enqueue q c r).down = q.down := by
  unfold enqueue; repeat' split
  all_goals rfl

end IstioModel.C02

namespace IstioModel.C02

/-! ## `StartPush`: one shared request enqueued for every registered connection -/

structure EAll (q q' : QState) (r : Ref) (cs : List Conn) : Prop where
  inv : Inv q'
  le : q.heap.le q'.heap
  nn : NN q'
  down : q'.down = q.down
  proc : ∀ c, (q'.processing c).isSome = (q.processing c).isSome
  mail : ∀ c x, x ∈ mail q' c ↔ x ∈ mail q c ∨ (c ∈ cs ∧ x ∈ facts q.heap (some r))

theorem enqueueAll_spec (q : QState) (hi : Inv q) (hnn : NN q) (hd : q.down = false) (r : Ref)
    (hr : r < q.heap.reqs.length) (cs : List Conn) : EAll q (enqueueAll q r cs) r cs := by
  induction cs generalizing q with
  | nil =>
    exact { inv := hi, le := Heap.le_refl _, nn := hnn, down := rfl, proc := fun _ => rfl,
            mail := by intro c x; simp [enqueueAll] }
  | cons c cs ih =>
    have hrr : okRef q.heap.reqs.length (some r) = true := by simp [okRef, hr]
    have hR : q.heap.reqs[r]? = some q.heap.reqs[r] := List.getElem?_eq_getElem hr
    have hi1 := inv_enqueue q c (some r) hi hrr
    have hle1 := queue_never_writes q (.enq c (some r))
    simp only [stepQ] at hle1
    have hnn1 := (refines_enqueue q hi hnn c r _ hR).2
    have hd1 : (enqueue q c (some r)).down = false := by rw [enqueue_down]; exact hd
    have hr1 : r < (enqueue q c (some r)).heap.reqs.length := Nat.lt_of_lt_of_le hr hle1.reqs.length_le
    have e := ih (enqueue q c (some r)) hi1 hnn1 hd1 hr1
    have hf : facts (enqueue q c (some r)).heap (some r) = facts q.heap (some r) := facts_stable hle1 hi.wf _ hrr
    refine { inv := e.inv, le := Heap.le_trans hle1 e.le, nn := e.nn
             down := by show (enqueueAll (enqueue q c (some r)) r cs).down = q.down; rw [e.down, enqueue_down]
             proc := fun c' => by
               show ((enqueueAll (enqueue q c (some r)) r cs).processing c').isSome = _
               rw [e.proc c', enqueue_processing_isSome]
             mail := ?_ }
    intro c' x
    simp only [enqueueAll]
    rw [e.mail c' x, hf]
    by_cases hcc : c' = c
    · subst hcc
      rw [mail_enqueue q hi hd c' (some r) hrr x]
      simp only [List.mem_cons, true_or, true_and]
      constructor
      · rintro ((h | h) | ⟨_, h⟩) <;> simp [h]
      · rintro (h | h) <;> simp [h]
    · rw [mail_enqueue_other q hi c c' hcc]
      simp [hcc]

theorem enqueueAll_down (q : QState) (hd : q.down = true) (r : Ref) (cs : List Conn) : enqueueAll q r cs = q := by
  induction cs generalizing q with
  | nil => rfl
  | cons c cs ih =>
    have : enqueue q c (some r) = q := by simp [enqueue, hd]
    simp only [enqueueAll, this]; exact ih q hd

/-! ## Flights -/

/-- The request of connection `c`'s parked push event, if it has one. -/
def flightRef (l : List Flight) (c : Conn) : Option (Option Ref) := (takeFlight c l).map (·.1.2)

theorem flightFacts_eq (s : Sender) (c : Conn) :
    flightFacts s c = (match flightRef s.parked c with
      | some r => facts s.q.heap r
      | none => []) := by
  unfold flightFacts flightRef
  cases takeFlight c s.parked with
  | none => rfl
  | some p => rfl

theorem flightRef_none (l : List Flight) (c : Conn) (h : c ∉ l.map (·.1)) : flightRef l c = none := by
  unfold flightRef
  cases ht : takeFlight c l with
  | none => rfl
  | some p =>
    obtain ⟨f, rest⟩ := p
    obtain ⟨hf, hp⟩ := takeFlight_spec c l f rest ht
    exfalso; apply h
    have : f ∈ l := hp.mem_iff.mpr (by simp)
    exact List.mem_map.mpr ⟨f, this, hf⟩

theorem flightRef_snoc_other (l : List Flight) (c c' : Conn) (r : Option Ref) (hne : c' ≠ c) :
    flightRef (l ++ [(c, r)]) c' = flightRef l c' := by
  unfold flightRef
  induction l with
  | nil => simp [takeFlight, Ne.symm hne]
  | cons g t ih =>
    simp only [List.cons_append, takeFlight]
    by_cases hg : g.1 = c'
    · simp [hg]
    · simp only [hg, if_false]
      cases h1 : takeFlight c' (t ++ [(c, r)]) <;> cases h2 : takeFlight c' t <;> simp_all

theorem flightRef_snoc_self (l : List Flight) (c : Conn) (r : Option Ref) (h : c ∉ l.map (·.1)) :
    flightRef (l ++ [(c, r)]) c = some r := by
  unfold flightRef
  induction l with
  | nil => simp [takeFlight]
  | cons g t ih =>
    have hg : g.1 ≠ c := fun e => h (by simp [e])
    have ht : c ∉ t.map (·.1) := fun e => h (by simp [e])
    simp only [List.cons_append, takeFlight, hg, if_false]
    have := ih ht
    cases h1 : takeFlight c (t ++ [(c, r)]) with
    | none => simp [h1] at this
    | some p => simp [h1] at this ⊢; exact this

/-- Taking `c`'s flight away does not change which flight another connection has ... -/
theorem flightRef_take_other (l : List Flight) (c c' : Conn) (f : Flight) (rest : List Flight)
    (ht : takeFlight c l = some (f, rest)) (hne : c' ≠ c) : flightRef rest c' = flightRef l c' := by
  unfold flightRef
  induction l generalizing f rest with
  | nil => simp [takeFlight] at ht
  | cons g t ih =>
    simp only [takeFlight] at ht
    by_cases hg : g.1 = c
    · simp only [hg, if_true, Option.some.injEq, Prod.mk.injEq] at ht
      obtain ⟨rfl, rfl⟩ := ht
      have : g.1 ≠ c' := fun e => hne (by rw [← e, hg])
      simp only [takeFlight, this, if_false]
      cases takeFlight c' t <;> rfl
    · simp only [hg, if_false] at ht
      cases h1 : takeFlight c t with
      | none => simp [h1] at ht
      | some p =>
        obtain ⟨f', rest'⟩ := p
        simp only [h1, Option.some.injEq, Prod.mk.injEq] at ht
        obtain ⟨rfl, rfl⟩ := ht
        have := ih f' rest' h1
        simp only [takeFlight]
        by_cases hg' : g.1 = c'
        · simp [hg']
        · simp only [hg', if_false]
          cases h2 : takeFlight c' rest' <;> cases h3 : takeFlight c' t <;> simp_all

/-- ... and, connections having at most one flight, leaves `c` without one. -/
theorem flightRef_take_self (l : List Flight) (c : Conn) (f : Flight) (rest : List Flight)
    (ht : takeFlight c l = some (f, rest)) (hnd : (l.map (·.1)).Nodup) : flightRef rest c = none := by
  obtain ⟨hf, hp⟩ := takeFlight_spec c l f rest ht
  apply flightRef_none
  have hnd' : ((f :: rest).map (·.1)).Nodup := (hp.map (·.1)).nodup_iff.mp hnd
  simp only [List.map_cons, hf] at hnd'
  exact (List.nodup_cons.mp hnd').1

end IstioModel.C02

namespace IstioModel.C02

/-- `flightFacts` depends only on the heap and the parked list. -/
def flightFactsL (h : Heap) (l : List Flight) (c : Conn) : List Fact :=
  match flightRef l c with
  | some r => facts h r
  | none => []

theorem flightFacts_L (s : Sender) (c : Conn) : flightFacts s c = flightFactsL s.q.heap s.parked c :=
  flightFacts_eq s c

theorem flightFactsL_grow (h h' : Heap) (l : List Flight) (c : Conn) (hle : h.le h') (hwf : h.wf = true)
    (hfl : ∀ f, f ∈ l → okRef h.reqs.length f.2 = true) : flightFactsL h' l c = flightFactsL h l c := by
  unfold flightFactsL
  cases hfr : flightRef l c with
  | none => rfl
  | some r' =>
    simp only []
    unfold flightRef at hfr
    cases htk : takeFlight c l with
    | none => simp [htk] at hfr
    | some pr =>
      obtain ⟨f, rest⟩ := pr
      have hfm : f ∈ l := (takeFlight_spec c l f rest htk).2.mem_iff.mpr (by simp)
      have : r' = f.2 := by simp [htk] at hfr; exact hfr.symm
      rw [this]
      exact facts_stable hle hwf _ (hfl f hfm)

theorem factsV_prepPush (n : Nat) (v : View) : factsV (prepPush n v) = factsV v := by
  unfold factsV prepPush keys
  cases v.configs <;> rfl

/-- `StartPush` as a whole: allocate the request, enqueue it for every connection in `cs`. -/
structure SPush (q q' : QState) (v : View) (cs : List Conn) : Prop where
  inv : Inv q'
  le : q.heap.le q'.heap
  nn : NN q'
  down : q'.down = q.down
  proc : ∀ c, (q'.processing c).isSome = (q.processing c).isSome
  mail : ∀ c x, x ∈ mail q' c ↔ x ∈ mail q c ∨ (q.down = false ∧ c ∈ cs ∧ x ∈ factsV v)

theorem startPush_spec (q : QState) (hi : Inv q) (hnn : NN q) (v : View) (cs : List Conn) :
    SPush q (enqueueAll { q with heap := allocView q.heap v } q.heap.reqs.length cs) v cs := by
  have hle1 : q.heap.le (allocView q.heap v) := alloc_le _ _
  have hi1 : Inv { q with heap := allocView q.heap v } := inv_heap_grow q _ hi hle1 (alloc_wf _ _ hi.wf)
  have hmail1 : ∀ c, mail { q with heap := allocView q.heap v } c = mail q c := fun c => mail_heap_grow q _ hi hle1 c
  have hfr : facts (allocView q.heap v) (some q.heap.reqs.length) = factsV v := by
    simp only [facts, alloc_view]
  by_cases hd : q.down = true
  · have hd1 : ({ q with heap := allocView q.heap v } : QState).down = true := hd
    rw [enqueueAll_down _ hd1]
    exact { inv := hi1, le := hle1, nn := hnn, down := rfl, proc := fun _ => rfl,
            mail := by intro c x; rw [hmail1 c]; simp [hd] }
  · have hd' : q.down = false := by simpa using hd
    have hr1 : q.heap.reqs.length < ({ q with heap := allocView q.heap v } : QState).heap.reqs.length := by
      simp [alloc_len]
    have e := enqueueAll_spec { q with heap := allocView q.heap v } hi1 hnn hd' q.heap.reqs.length hr1 cs
    exact { inv := e.inv, le := Heap.le_trans hle1 e.le, nn := e.nn, down := e.down, proc := e.proc,
            mail := by intro c x; rw [e.mail c x, hmail1 c, hfr]; simp [hd'] }

end IstioModel.C02

namespace IstioModel.C02

/-! ## Logs -/

theorem mem_logOf_snoc (l : List LogE) (c c' : Conn) (v : Option Nat) (fs : List Fact) (x : Fact) :
    x ∈ logOf (l ++ [(c, v, fs)]) c' ↔ (x ∈ logOf l c' ∨ (c' = c ∧ x ∈ fs)) := by
  unfold logOf
  by_cases h : c = c'
  · subst h; simp [List.filter_append]
  · have h' : c' ≠ c := fun e => h e.symm
    simp [List.filter_append, h, h']

theorem mem_logOf_append_map (l : List LogE) (cs : List Conn) (c' : Conn) (v : Option Nat) (fs : List Fact) (x : Fact) :
    x ∈ logOf (l ++ cs.map (fun c => (c, v, fs))) c' ↔ (x ∈ logOf l c' ∨ (c' ∈ cs ∧ x ∈ fs)) := by
  induction cs generalizing l with
  | nil => simp
  | cons c cs ih =>
    have : l ++ (c :: cs).map (fun c => (c, v, fs)) = (l ++ [(c, v, fs)]) ++ cs.map (fun c => (c, v, fs)) := by simp
    rw [this, ih, mem_logOf_snoc]
    simp only [List.mem_cons]
    constructor
    · rintro ((h | ⟨h1, h2⟩) | ⟨h1, h2⟩)
      · exact Or.inl h
      · exact Or.inr ⟨Or.inl h1, h2⟩
      · exact Or.inr ⟨Or.inr h1, h2⟩
    · rintro (h | ⟨h1 | h1, h2⟩)
      · exact Or.inl (Or.inl h)
      · exact Or.inl (Or.inr ⟨h1, h2⟩)
      · exact Or.inr ⟨h1, h2⟩

theorem logOf_nil (c : Conn) : logOf [] c = [] := rfl

/-! ## Where the debounce loop's pending facts go -/

theorem pushWorker_flow (o : DOpts) (t : DB) (x : Fact) (hx : x ∈ factsO t.req) :
    x ∈ factsO (pushWorker o t).req ∨ x ∈ factsL (newPushes t (pushWorker o t)) := by
  unfold pushWorker
  split
  · cases hr : t.req with
    | none => rw [hr] at hx; simp [factsO] at hx
    | some v =>
      right
      rw [hr] at hx
      simp only [newPushes, List.drop_left', List.drop_length, List.append_nil, factsL_single]
      exact hx
  · exact Or.inl hx

theorem pushWorker_eds (o : DOpts) (t : DB) : (pushWorker o t).edsPushed = t.edsPushed := by
  unfold pushWorker; split
  · cases t.req <;> rfl
  · rfl

/-- Facts pending in the debounce loop stay pending or go to `pushFn`; a received request's facts
    become pending or go to `pushFn` (bypass). -/
theorem stepD_req_flow (o : DOpts) (s s' : DB) (e : Ev) (h : stepD o s e = some s') (x : Fact) :
    (x ∈ factsO s.req → x ∈ factsO s'.req ∨ x ∈ factsL (newPushes s s')) ∧
    (∀ r, e = .recv r → x ∈ factsV r → x ∈ factsO s'.req ∨ x ∈ factsL (newPushes s s')) := by
  cases e with
  | tick d =>
    simp only [stepD, Option.some.injEq] at h; subst h
    exact ⟨fun hx => Or.inl hx, fun r hr => by cases hr⟩
  | recv r =>
    simp only [stepD, Option.some.injEq] at h; subst h
    unfold onRecv; simp only []
    split
    · refine ⟨fun hx => Or.inl hx, fun r' hr hx => ?_⟩
      cases hr
      right
      simp only [newPushes, List.drop_length, List.drop_left', List.nil_append, factsL_single, factsV_fixReason]
      exact hx
    · refine ⟨fun hx => Or.inl ((factsO_liftO _ _ x).mpr (Or.inl hx)), fun r' hr hx => ?_⟩
      cases hr
      exact Or.inl ((factsO_liftO _ _ x).mpr (Or.inr (by rw [factsV_fixReason]; exact hx)))
  | timer =>
    refine ⟨fun hx => ?_, fun r hr => by cases hr⟩
    simp only [stepD] at h
    cases ht : s.timerAt with
    | none => simp [ht] at h
    | some t =>
      simp only [ht] at h
      split at h
      · simp only [Option.some.injEq] at h; subst h
        split
        · exact pushWorker_flow o { s with timerAt := none } x hx
        · exact Or.inl hx
      · cases h
  | pushReturn =>
    refine ⟨fun hx => ?_, fun r hr => by cases hr⟩
    simp only [stepD] at h
    cases hr : s.running with
    | nil => simp [hr] at h
    | cons a rest =>
      simp only [hr] at h
      split at h
      · cases h
      · simp only [Option.some.injEq] at h; subst h; exact Or.inl hx
  | freeRecv =>
    refine ⟨fun hx => ?_, fun r hr => by cases hr⟩
    simp only [stepD] at h
    split at h
    · simp only [Option.some.injEq] at h; subst h
      exact pushWorker_flow o { s with freeTok := false, free := true } x hx
    · cases h
  | edsReturn =>
    refine ⟨fun hx => ?_, fun r hr => by cases hr⟩
    simp only [stepD] at h
    cases hr : s.edsRunning with
    | nil => simp [hr] at h
    | cons a rest => simp only [hr, Option.some.injEq] at h; subst h; exact Or.inl hx

end IstioModel.C02
