/-
C02 - executable model of the push-request merge algebra.

Go sources modelled (istio/istio):
  pilot/pkg/model/push_context.go   PushRequest.Merge, PushRequest.CopyMerge,
                                    ReasonStats.Merge, ReasonStats.CopyMerge
  pkg/util/sets/set.go              Set.Merge

`Merge` mutates its receiver in place and may make the receiver *share* a map object with its
argument; `CopyMerge` must not touch either input.  To be able to state that, the model carries
object identities: a `Heap` of request objects and of map objects (one store per Go map type, so
that only type-correct aliasing can be expressed); a Go pointer / map value is a reference
(`Option Ref`, `none` = nil).  Allocation appends to a store, so "nothing that existed was
touched" is "the old store is a prefix of the new one".

Conventions: a `sets.Set[T]` object is a `List String` read as a set (keys are encoded as strings by
the harness; union = append; the driver prints sorted and de-duplicated); a `ReasonStats` object is
a `List (String × Nat)` read as a map whose count for a key is the *sum* over its entries and whose
key set is the set of first components (so `r[k] += n` over all entries of another map = append,
and a key with count 0 is representable); `len(m) > 0` is `m ≠ []` under both readings.
-/
namespace IstioModel.C02

abbrev Ref := Nat

/-- `model.PushRequest` (a heap object).  `push` is the identity of the `*PushContext` (snapshot),
    `start` the `Start` time, `delta` an opaque tag for the `Delta` struct (0 = zero value), which
    neither merge function looks into. -/
structure ReqObj where
  configs : Option Ref := none
  addrs   : Option Ref := none
  wps     : Option Ref := none
  reason  : Option Ref := none
  push    : Option Nat := none
  start   : Nat := 0
  delta   : Nat := 0
  forced  : Bool := false
  deriving DecidableEq, Repr, Inhabited

/-- The Go heap as far as push requests are concerned: one store per object type. -/
structure Heap where
  cfgs : List (List String) := []            -- sets.Set[ConfigKey] objects
  adrs : List (List String) := []            -- sets.Set[string] objects
  wpss : List (List String) := []            -- sets.Set[WaypointReference] objects
  rsns : List (List (String × Nat)) := []    -- ReasonStats objects
  reqs : List ReqObj := []                   -- PushRequest objects
  deriving DecidableEq, Repr, Inhabited

/-- Content of a possibly-nil map reference (a nil map reads as empty). -/
def rd {α : Type} (st : List (List α)) (o : Option Ref) : List α :=
  match o with
  | none => []
  | some r => st.getD r []

/-- `dst.Merge(src)` / `for k, v := range src { dst[k] += v }` on map objects: in place on the
    object `dst`; `src` may be nil and may be the same object as `dst`. -/
def mergeInto {α : Type} (st : List (List α)) (dst : Ref) (src : Option Ref) : List (List α) :=
  st.set dst (st.getD dst [] ++ rd st src)

/-! ### `PushRequest.Merge` (in place) -/

/-- One of the three set fields of `Merge`:
    `if pr.X == nil { pr.X = other.X } else { pr.X.Merge(other.X) }` - the new reference ... -/
def fieldRef (p o : Option Ref) : Option Ref :=
  match p with
  | none => o
  | some d => some d

/-- ... and the new store. -/
def fieldStore (st : List (List String)) (p o : Option Ref) : List (List String) :=
  match p with
  | none => st
  | some d => mergeInto st d o

/-- `if len(other.Reason) > 0 { if pr.Reason == nil { pr.Reason = make(..) }; pr.Reason.Merge(other.Reason) }`
    - the new reference ... -/
def reasonRef (h : Heap) (P O : ReqObj) : Option Ref :=
  if (rd h.rsns O.reason).isEmpty then P.reason
  else match P.reason with
    | none => some h.rsns.length
    | some r => some r

/-- ... and the new store. -/
def reasonStore (h : Heap) (P O : ReqObj) : List (List (String × Nat)) :=
  if (rd h.rsns O.reason).isEmpty then h.rsns
  else match P.reason with
    | none => h.rsns ++ [rd h.rsns O.reason]
    | some r => mergeInto h.rsns r O.reason

/-- `if other.Push != nil { pr.Push = other.Push }`. -/
def newestPush (p o : Option Nat) : Option Nat :=
  match o with
  | some x => some x
  | none => p

/-- The receiver object after `Merge` (Start and Delta are kept). -/
def mergeObj (h : Heap) (P O : ReqObj) : ReqObj :=
  { P with
    reason := reasonRef h P O
    forced := P.forced || O.forced
    push := newestPush P.push O.push
    configs := fieldRef P.configs O.configs
    addrs := fieldRef P.addrs O.addrs
    wps := fieldRef P.wps O.wps }

/-- The heap after `P.Merge(O)` for the request objects at `p` and `o`. -/
def mergeHeap (h : Heap) (p : Ref) (P O : ReqObj) : Heap :=
  { cfgs := fieldStore h.cfgs P.configs O.configs
    adrs := fieldStore h.adrs P.addrs O.addrs
    wpss := fieldStore h.wpss P.wps O.wps
    rsns := reasonStore h P O
    reqs := h.reqs.set p (mergeObj h P O) }

/-- `pr.Merge(other)`: returns the new heap and the returned pointer.  (A reference outside the
    heap cannot occur for Go pointers; such a call is the identity here.) -/
def merge (h : Heap) (pr other : Option Ref) : Heap × Option Ref :=
  match pr with
  | none => (h, other)
  | some p =>
    match other with
    | none => (h, some p)
    | some o =>
      match h.reqs[p]?, h.reqs[o]? with
      | some P, some O => (mergeHeap h p P O, some p)
      | _, _ => (h, some p)

/-! ### `PushRequest.CopyMerge` (allocating) -/

/-- `len(pr.Reason)+len(other.Reason) > 0`. -/
abbrev cmNewReason (h : Heap) (P O : ReqObj) : Bool :=
  !(rd h.rsns P.reason).isEmpty || !(rd h.rsns O.reason).isEmpty

/-- `!(pr.ConfigsUpdated == nil && other.ConfigsUpdated == nil)` - nil-ness, not emptiness. -/
abbrev cmNewCfg (P O : ReqObj) : Bool := P.configs.isSome || O.configs.isSome

/-- `len(pr.AddressesUpdated) > 0 || len(other.AddressesUpdated) > 0`. -/
abbrev cmNewAdr (h : Heap) (P O : ReqObj) : Bool :=
  !(rd h.adrs P.addrs).isEmpty || !(rd h.adrs O.addrs).isEmpty

/-- `len(pr.WaypointsUpdated) > 0 || len(other.WaypointsUpdated) > 0`. -/
abbrev cmNewWp (h : Heap) (P O : ReqObj) : Bool :=
  !(rd h.wpss P.wps).isEmpty || !(rd h.wpss O.wps).isEmpty

/-- The freshly allocated result object of `CopyMerge` (`Push: other.Push` even when nil; `Delta`
    is not copied). -/
def copyObj (h : Heap) (P O : ReqObj) : ReqObj :=
  { start := P.start
    forced := P.forced || O.forced
    push := O.push
    reason := if cmNewReason h P O then some h.rsns.length else none
    configs := if cmNewCfg P O then some h.cfgs.length else none
    addrs := if cmNewAdr h P O then some h.adrs.length else none
    wps := if cmNewWp h P O then some h.wpss.length else none
    delta := 0 }

def copyHeap (h : Heap) (P O : ReqObj) : Heap :=
  { cfgs := if cmNewCfg P O then h.cfgs ++ [rd h.cfgs P.configs ++ rd h.cfgs O.configs] else h.cfgs
    adrs := if cmNewAdr h P O then h.adrs ++ [rd h.adrs P.addrs ++ rd h.adrs O.addrs] else h.adrs
    wpss := if cmNewWp h P O then h.wpss ++ [rd h.wpss P.wps ++ rd h.wpss O.wps] else h.wpss
    rsns := if cmNewReason h P O then h.rsns ++ [rd h.rsns P.reason ++ rd h.rsns O.reason] else h.rsns
    reqs := h.reqs ++ [copyObj h P O] }

/-- `pr.CopyMerge(other)`. -/
def copyMerge (h : Heap) (pr other : Option Ref) : Heap × Option Ref :=
  match pr with
  | none => (h, other)
  | some p =>
    match other with
    | none => (h, some p)
    | some o =>
      match h.reqs[p]?, h.reqs[o]? with
      | some P, some O => (copyHeap h P O, some h.reqs.length)
      | _, _ => (h, some p)

/-! ### `ReasonStats.CopyMerge` (on bare map values; not used by the two functions above) -/

/-- Returns the new reasons store and the returned map reference: `other` itself when the receiver is
    empty, the receiver itself when `other` is empty, else a fresh map. -/
def rsCopyMerge (st : List (List (String × Nat))) (r o : Option Ref) :
    List (List (String × Nat)) × Option Ref :=
  if (rd st r).isEmpty then (st, o)
  else if (rd st o).isEmpty then (st, r)
  else (st ++ [rd st r ++ rd st o], some st.length)

/-! ### Reading a request as a value -/

/-- A request with its maps read out (`none` = nil map). -/
structure View where
  configs : Option (List String) := none
  addrs   : Option (List String) := none
  wps     : Option (List String) := none
  reason  : Option (List (String × Nat)) := none
  push    : Option Nat := none
  start   : Nat := 0
  delta   : Nat := 0
  forced  : Bool := false
  deriving DecidableEq, Repr, Inhabited

def rdO {α : Type} (st : List (List α)) (o : Option Ref) : Option (List α) :=
  o.map (fun r => st.getD r [])

def view (h : Heap) (R : ReqObj) : View :=
  { configs := rdO h.cfgs R.configs
    addrs := rdO h.adrs R.addrs
    wps := rdO h.wpss R.wps
    reason := rdO h.rsns R.reason
    push := R.push, start := R.start, delta := R.delta, forced := R.forced }

/-- The value behind a request pointer (`none` for nil). -/
def viewAt (h : Heap) (r : Option Ref) : Option View :=
  match r with
  | none => none
  | some i => (h.reqs[i]?).map (view h)

/-- Count recorded for reason `k` in a `ReasonStats` value. -/
def rcount (m : List (String × Nat)) (k : String) : Nat :=
  match m with
  | [] => 0
  | (k', n) :: t => (if k' = k then n else 0) + rcount t k

/-- Is `k` a key of the `ReasonStats` value. -/
def rhas (m : List (String × Nat)) (k : String) : Bool := m.any (fun e => e.1 == k)

/-! ### The same two functions on values (the algebra the property speaks about) -/

def keys {α : Type} (o : Option (List α)) : List α := o.getD []

/-- Value of the receiver after `a.Merge(b)`. -/
def vMerge (a b : View) : View :=
  { a with
    configs := match a.configs with
      | none => b.configs
      | some x => some (x ++ keys b.configs)
    addrs := match a.addrs with
      | none => b.addrs
      | some x => some (x ++ keys b.addrs)
    wps := match a.wps with
      | none => b.wps
      | some x => some (x ++ keys b.wps)
    reason := if (keys b.reason).isEmpty then a.reason else some (keys a.reason ++ keys b.reason)
    push := newestPush a.push b.push
    forced := a.forced || b.forced }

/-- Value of `a.CopyMerge(b)`. -/
def vCopyMerge (a b : View) : View :=
  { configs := if a.configs.isSome || b.configs.isSome then some (keys a.configs ++ keys b.configs) else none
    addrs := if !(keys a.addrs).isEmpty || !(keys b.addrs).isEmpty then some (keys a.addrs ++ keys b.addrs) else none
    wps := if !(keys a.wps).isEmpty || !(keys b.wps).isEmpty then some (keys a.wps ++ keys b.wps) else none
    reason := if !(keys a.reason).isEmpty || !(keys b.reason).isEmpty then some (keys a.reason ++ keys b.reason) else none
    push := b.push
    start := a.start
    delta := 0
    forced := a.forced || b.forced }

/-- Lift to possibly-nil requests (`pr == nil -> other`, `other == nil -> pr`). -/
def liftO (f : View → View → View) (a b : Option View) : Option View :=
  match a, b with
  | none, _ => b
  | some x, none => some x
  | some x, some y => some (f x y)

/-! ### Well-formedness (every reference points into its store) -/

def okRef (n : Nat) (o : Option Ref) : Bool :=
  match o with
  | none => true
  | some r => r < n

def ReqObj.wf (h : Heap) (R : ReqObj) : Bool :=
  okRef h.cfgs.length R.configs && okRef h.adrs.length R.addrs && okRef h.wpss.length R.wps &&
  okRef h.rsns.length R.reason

def Heap.wf (h : Heap) : Bool := h.reqs.all (ReqObj.wf h)

end IstioModel.C02
