import IstioModel.C07.Validate
import IstioModel.C07.VisTheorems
/-
  C07: what an `exportTo` list accepted by the real validator looks like, and that such lists meet the
  well-formedness assumption of the visibility theorems.
-/
namespace IstioModel.C07

/-- invariant of the validation loop: while no error was raised, every entry read so far sits in the
    set (`.` under the namespace's name) -/
theorem exportStep_inv (ns : String) (isSE : Bool) (l : List String) (acc : List String × Bool)
    (seen : List String)
    (hinv : acc.2 = true → ∀ x ∈ seen, exportKey ns x ∈ acc.1)
    (hok : (l.foldl (exportStep ns isSE) acc).2 = true) :
    ∀ x ∈ seen ++ l, exportKey ns x ∈ (l.foldl (exportStep ns isSE) acc).1 := by
  induction l generalizing acc seen with
  | nil => simpa using hinv hok
  | cons a t ih =>
    simp only [List.foldl_cons] at hok ⊢
    have := ih (exportStep ns isSE acc a) (seen ++ [a]) ?_ hok
    · simpa [List.append_assoc] using this
    · intro h2 x hx
      unfold exportStep at h2 ⊢
      by_cases hc : acc.1.contains (exportKey ns a) = true
      · rw [if_pos hc] at h2; cases h2
      · rw [if_neg hc] at h2 ⊢
        by_cases hse : (isSE && a == "~") = true
        · rw [if_pos hse] at h2 ⊢
          rcases List.mem_append.mp hx with hx | hx
          · exact List.mem_cons_of_mem _ (hinv h2 x hx)
          · simp only [List.mem_singleton] at hx; subst hx; exact List.mem_cons_self
        · rw [if_neg hse] at h2 ⊢
          by_cases hv : visibilityValid (exportKey ns a) = true
          · rw [if_pos hv] at h2 ⊢
            rcases List.mem_append.mp hx with hx | hx
            · exact List.mem_cons_of_mem _ (hinv h2 x hx)
            · simp only [List.mem_singleton] at hx; subst hx; exact List.mem_cons_self
          · rw [if_neg hv] at h2; cases h2

/-- An accepted list that names `~` is exactly `["~"]`: "no one" never stands next to a namespace. -/
theorem validated_none_alone (ns : String) (e : List String) (isSE drSel : Bool)
    (h : validateExportTo ns e isSE drSel = true) (hm : "~" ∈ e) : e = ["~"] := by
  unfold validateExportTo at h
  by_cases he : e.isEmpty = true
  · simp [List.isEmpty_iff.mp he] at hm
  · simp only [he, Bool.false_eq_true, if_false] at h
    generalize hf : e.foldl (exportStep ns isSE) ([], true) = r at h
    obtain ⟨set, ok⟩ := r
    simp only [Bool.and_eq_true, Bool.not_eq_true', Bool.and_eq_false_iff] at h
    obtain ⟨⟨⟨hok, _⟩, _⟩, hnone⟩ := h
    have hall := exportStep_inv ns isSE e ([], true) [] (by simp) (by rw [hf]; exact hok)
    have hin := hall "~" (by simpa using hm)
    rw [hf] at hin
    simp only [exportKey, show ("~" == ".") = false by decide, Bool.false_eq_true, if_false] at hin
    rcases hnone with hn | hn
    · simp [hin] at hn
    · simp only [decide_eq_false_iff_not, Nat.not_lt] at hn
      match e, hm, hn with
      | [x], hm, _ => simp only [List.mem_singleton] at hm; rw [← hm]
      | _ :: _ :: _, _, hn => simp at hn

/-- An accepted list that names `*` is exactly `["*"]`. -/
theorem validated_star_alone (ns : String) (e : List String) (isSE drSel : Bool)
    (h : validateExportTo ns e isSE drSel = true) (hm : "*" ∈ e) : e = ["*"] := by
  unfold validateExportTo at h
  by_cases he : e.isEmpty = true
  · simp [List.isEmpty_iff.mp he] at hm
  · simp only [he, Bool.false_eq_true, if_false] at h
    generalize hf : e.foldl (exportStep ns isSE) ([], true) = r at h
    obtain ⟨set, ok⟩ := r
    simp only [Bool.and_eq_true, Bool.not_eq_true', Bool.and_eq_false_iff] at h
    obtain ⟨⟨⟨hok, _⟩, hstar⟩, _⟩ := h
    have hall := exportStep_inv ns isSE e ([], true) [] (by simp) (by rw [hf]; exact hok)
    have hin := hall "*" (by simpa using hm)
    rw [hf] at hin
    simp only [exportKey, show ("*" == ".") = false by decide, Bool.false_eq_true, if_false] at hin
    rcases hstar with hn | hn
    · simp [hin] at hn
    · simp only [decide_eq_false_iff_not, Nat.not_lt] at hn
      match e, hm, hn with
      | [x], hm, _ => simp only [List.mem_singleton] at hm; rw [← hm]
      | _ :: _ :: _, _, hn => simp at hn

/-- Completeness of the namespace index without the `ExportWF` assumption, for a service whose own
    `exportTo` passed the ServiceEntry validation: every namespace the service is visible to gets it. -/
theorem exported_complete_validated (m : Mesh) (svcs : List Svc) (ns : String) (s : Svc)
    (hs : s ∈ svcs) (hexp : s.exportTo ≠ [])
    (hval : validateExportTo s.ns s.exportTo true false = true)
    (hv : isServiceVisible m s ns = true) (hns : ValidNs ns) :
    s ∈ servicesExportedToNamespace m svcs ns := by
  by_cases hwf : ExportWF (serviceExportTo m s)
  · exact exported_complete m svcs ns s hs hv hwf hns
  · exfalso
    unfold ExportWF at hwf
    have hnone : "~" ∈ serviceExportTo m s := by
      by_cases h : "~" ∈ serviceExportTo m s
      · exact h
      · exact absurd (fun h' => absurd h' h) hwf
    have hstar : "*" ∉ serviceExportTo m s := fun h => hwf (fun _ => h)
    -- the effective set is `["~"]`-like in every branch, so the service is visible to no namespace
    have hall : ∀ x ∈ serviceExportTo m s, x = "~" := by
      unfold serviceExportTo at hnone hstar ⊢
      have he : (if s.exportTo.isEmpty then defaultExport m.defSvc else s.exportTo) = s.exportTo := by
        simp [List.isEmpty_iff, hexp]
      simp only [he] at hnone hstar ⊢
      by_cases h1 : isSingletonOf s.exportTo "~" = true
      · simp only [h1, if_true] at hnone ⊢
        exact ((isSingletonOf_iff _ _).mp h1).2
      · simp only [h1, Bool.false_eq_true, if_false] at hnone hstar ⊢
        have hplain : "~" ∈ s.exportTo → False := by
          intro h
          have := validated_none_alone s.ns s.exportTo true false hval h
          rw [this] at h1
          exact h1 (by decide)
        by_cases ha : m.applyToSidecars = true
        · simp only [ha, if_true] at hnone ⊢
          cases hvis : s.vis with
          | ns =>
            simp only [hvis] at hnone ⊢
            split at hnone
            · simp at hnone
            · rename_i hc
              rw [if_neg hc]
              intro x hx; simpa using hx
          | none => intro x hx; simpa using hx
          | pub => simp only [hvis] at hnone; exact absurd hnone hplain
        · simp only [ha, Bool.false_eq_true, if_false] at hnone
          exact absurd hnone hplain
    unfold isServiceVisible at hv
    simp only [Bool.or_eq_true, Bool.and_eq_true, List.contains_iff_mem, beq_iff_eq] at hv
    rcases hv with (h | ⟨h, _⟩) | h
    · exact absurd (hall _ h) (by decide)
    · exact absurd (hall _ h) (by decide)
    · exact hns.2 (hall _ h)

example : validateExportTo "ns1" ["ns1", "~"] true false = false := by decide
example : validateExportTo "ns1" ["~"] true false = true := by decide
example : validateExportTo "ns1" ["~"] false false = false := by decide
example : validateExportTo "ns1" [".", "ns1"] false false = false := by decide
example : validateExportTo "ns1" ["*", "ns2"] false false = false := by decide
example : validateExportTo "ns1" ["ns2", "ns_3"] false false = false := by decide
example : validateExportTo "ns1" ["."] false true = true := by decide
example : validateExportTo "ns1" ["ns2"] false true = false := by decide

end IstioModel.C07
