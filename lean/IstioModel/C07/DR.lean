import IstioModel.C07.Scope

/-!
C07 - DestinationRule visibility: exact model of `push_context.go` `setDestinationRules`,
`destinationRule`, `getExportedDestinationRuleFromNamespace`, of `destination_rule.go`
`mergeDestinationRule` (the bookkeeping: which rules are consolidated, with which exportTo), and of
`config.go` `MostSpecificHostMatch`.  Traffic-policy/subset merging inside a consolidated rule is
not modelled; the subset names of a consolidated rule are (they become subset clusters), as are
`from`, `exportTo`, the namespace and the workload selector of the first rule, and the per-proxy choice
`SidecarScope.DestinationRule` (first consolidated rule of the proxy's namespace whose selector
matches the proxy labels, else the last selector-less one).
-/
namespace IstioModel.C07

/-- one field of a traffic policy: the value and the rule (namespace, name) it was written in.
    The owner is bookkeeping of the model (the harness makes values identify their rule). -/
structure PField where
  val : Nat
  owner : String × String
deriving Repr, Inhabited, DecidableEq

/-- a port-level entry of a traffic policy -/
structure PortTP where
  port : Nat
  pool : Option PField     -- connectionPool.tcp.maxConnections
  lb : Option PField       -- loadBalancer.simple
deriving Repr, Inhabited

/-- the part of `networking.TrafficPolicy` the model follows -/
structure TP where
  pool : Option PField := none
  lb : Option PField := none
  portLevel : List PortTP := []
deriving Repr, Inhabited

/-- a subset: its name, the rule that declared it, its own connection pool (if any) -/
structure Subset where
  name : String
  owner : String × String
  pool : Option PField := none
deriving Repr, Inhabited

structure DR where
  name : String
  ns : String
  ctime : Nat
  host : String
  exportTo : List String
  selector : Bool
  selLabels : List (String × String) := []   -- workloadSelector.matchLabels (when `selector`)
  subsets : List Subset := []                -- subsets (name, own policy)
  tp : Option TP := none                     -- top-level trafficPolicy
  backend : Bool := false                    -- synthesized from a Gateway API backend policy (internal parents annotation)
deriving Repr, Inhabited

/-- `ConsolidatedDestRule` -/
structure CDR where
  exportTo : List String
  frm : List (String × String)   -- (namespace, name) of the merged rules, `from`
  ns : String                    -- namespace of the first rule
  sel : Bool                     -- the first rule has a workloadSelector
  selLabels : List (String × String) := []
  subsets : List Subset := []    -- subsets of the merged rule
  tp : Option TP := none         -- top-level trafficPolicy of the merged rule
  backend : Bool := false        -- the first rule is a backend-policy rule (`isBackendPolicyDestinationRule(&copied)`)
deriving Repr, Inhabited

abbrev Pool := List (String × List CDR)   -- host -> consolidated rules (specific and wildcard hosts)

/-- `sortConfigBySelectorAndCreationTime` -/
def sortDRs (l : List DR) : List DR :=
  isort (fun a b =>
    if a.selector && !b.selector then true
    else if !a.selector && b.selector then false
    else cfgLe a.ctime a.name a.ns b.ctime b.name b.ns) l

def setEq (a b : List String) : Bool := a.all (b.contains ·) && b.all (a.contains ·)
def setSuperset (a b : List String) : Bool := b.all (a.contains ·)

/-- `labels.Instance.Equals` -/
def labelsEq (a b : List (String × String)) : Bool :=
  a.all (fun kv => b.any fun kv' => kv'.1 == kv.1 && kv'.2 == kv.2) &&
  b.all (fun kv => a.any fun kv' => kv'.1 == kv.1 && kv'.2 == kv.2)

/-- `mergeBackendPolicyPortLevelSettings`: user entries win field by field, the backend fills the gaps,
    ports only the backend sets are appended -/
def mergeBackendPL (user backend : List PortTP) : List PortTP :=
  if backend.isEmpty then user
  else
    let filled := user.map fun up =>
      -- `byPort[...]` keeps the LAST user entry of a port; the harness never repeats a port
      match backend.find? (·.port == up.port) with
      | some bp => { up with pool := up.pool.orElse fun _ => bp.pool, lb := up.lb.orElse fun _ => bp.lb }
      | none => up
    filled ++ backend.filter fun bp => !user.any (·.port == bp.port)

/-- `mergeBackendPolicyTrafficPolicy(user, backend)` -/
def mergeBackendTP (user backend : Option TP) : Option TP :=
  match user, backend with
  | none, b => b
  | u, none => u
  | some u, some b =>
    some { pool := u.pool.orElse fun _ => b.pool, lb := u.lb.orElse fun _ => b.lb,
           portLevel := mergeBackendPL u.portLevel b.portLevel }

/-- the top-level policy of the merged rule after `d` joined (`mergeDestinationRule`, the switch on
    the origins of the two rules) -/
def mergedTP (mdr : CDR) (d : DR) : Option TP :=
  if mdr.backend == d.backend then (match mdr.tp with | none => d.tp | some t => some t)
  else if d.backend then mergeBackendTP mdr.tp d.tp
  else mergeBackendTP d.tp mdr.tp

/-- the rule `d` merged into the consolidated rule `mdr`: `from` grows, unknown subset names are added
    (with their own policy), the top-level policy follows `mergedTP` -/
def mergeInto (mdr : CDR) (d : DR) : CDR :=
  { mdr with frm := mdr.frm ++ [(d.ns, d.name)],
             subsets := mdr.subsets ++ d.subsets.filter (fun x => !mdr.subsets.any (·.name == x.name)),
             tp := mergedTP mdr d }

/-- the loop of `mergeDestinationRule` over the consolidated rules of one host;
    state = (appendSeparately, rules rewritten so far). -/
def mergeLoop (enhanced : Bool) (d : DR) (ex : List String) :
    List CDR → Bool → List CDR → Bool × List CDR
  | [], app, done => (app, done)
  | mdr :: rest, app, done =>
    -- `cont` = the `continue` statements (no merge into this mdr)
    let (skip, app1) :=
      if enhanced then
        if setEq ex mdr.exportTo then (false, false)
        else if !mdr.exportTo.isEmpty && setSuperset ex mdr.exportTo then (false, true)
        else (true, true)
      else (false, app)
    if skip then mergeLoop enhanced d ex rest app1 (done ++ [mdr])
    else
      let bothWithout := !d.selector && !mdr.sel
      let bothWith := mdr.sel && d.selector
      let selMatch := labelsEq mdr.selLabels d.selLabels
      -- both with a selector, selectors differ: not merged, appended separately
      if bothWith && !selMatch then mergeLoop enhanced d ex rest true (done ++ [mdr])
      else
        let app2 := if bothWithout || (bothWith && selMatch) then false else app1
        mergeLoop enhanced d ex rest app2 (done ++ [mergeInto mdr d])

def newCDR (d : DR) (ex : List String) : CDR :=
  { exportTo := ex, frm := [(d.ns, d.name)], ns := d.ns, sel := d.selector, selLabels := d.selLabels,
    subsets := d.subsets, tp := d.tp, backend := d.backend }

/-- `PushContext.mergeDestinationRule` -/
def mergeDR (enhanced : Bool) (p : Pool) (d : DR) (ex : List String) : Pool :=
  match alookup d.host p with
  | some l =>
    let (app, l') := mergeLoop enhanced d ex l true []
    ainsert d.host (if app then l' ++ [newCDR d ex] else l') p
  | none => ainsert d.host [newCDR d ex] p

structure DRIndex where
  namespaceLocal : List (String × Pool) := []
  exportedByNamespace : List (String × Pool) := []
  rootNamespaceLocal : Pool := []
deriving Repr, Inhabited

def poolOf (k : String) (l : List (String × Pool)) : Pool :=
  match alookup k l with
  | some p => p
  | none => []

/-- the exportTo set `setDestinationRules` attaches to a rule -/
def drExportSet (guard : Bool) (m : Mesh) (d : DR) : List String :=
  if d.selector then ["."]
  -- repaired code (`guard`): no exportTo -> the mesh default, `.` standing for the rule's namespace
  else if guard && d.exportTo.isEmpty then (defaultExport m.defDR).map fun e => if e == "." then d.ns else e
  else d.exportTo

/-- one rule in `setDestinationRules` -/
def drStep (enhanced guard : Bool) (m : Mesh) (idx : DRIndex) (d : DR) : DRIndex :=
  let ex := drExportSet guard m d
  let idx1 :=
    if ex.isEmpty || ex.contains "*" || ex.contains "." || ex.contains d.ns then
      { idx with namespaceLocal := ainsert d.ns (mergeDR enhanced (poolOf d.ns idx.namespaceLocal) d ex) idx.namespaceLocal }
    else idx
  let isPrivateOnly :=
    if ex.isEmpty && (defaultExport m.defDR).contains "." then true
    else if isSingletonSet ex && (ex.contains "." || ex.contains d.ns) then true
    else false
  if !isPrivateOnly then
    { idx1 with exportedByNamespace := ainsert d.ns (mergeDR enhanced (poolOf d.ns idx1.exportedByNamespace) d ex) idx1.exportedByNamespace }
  else if d.ns == m.rootNs then
    { idx1 with rootNamespaceLocal := mergeDR enhanced idx1.rootNamespaceLocal d ex }
  else idx1
where
  /-- `exportToSet.Len() == 1` for a list read as a set -/
  isSingletonSet (l : List String) : Bool :=
    match l with
    | [] => false
    | a :: t => t.all (· == a)

/-- `PushContext.setDestinationRules` -/
def setDestinationRules (enhanced guard : Bool) (m : Mesh) (drs : List DR) : DRIndex :=
  (sortDRs drs).foldl (drStep enhanced guard m) {}

/-- `rule.Host = ResolveShortnameToFQDN(rule.Host, meta)` (first statement of the loop of
    `setDestinationRules`) -/
def resolveDRHost (d : DR) : DR := { d with host := resolveShort d.ns d.host }

/-- `host.MoreSpecific` restricted to two wildcard names -/
def moreSpecificW (a b : String) : Bool :=
  if a.toList.length == b.toList.length then a < b else a.toList.length > b.toList.length

/-- `mostSpecificHostWildcardMatch` -/
def wildcardMatch {α : Type} (needle : List Char) (p : List (String × α)) : Option (String × α) :=
  p.foldl (fun best e =>
    if isWild e.1 && hasSuffixL needle e.1.toList.tail then
      match best with
      | none => some e
      | some b => if moreSpecificW e.1 b.1 then some e else some b
    else best) none

/-- `MostSpecificHostMatch` over one pool (specific = non-wildcard keys, wildcard = wildcard keys) -/
def mostSpecific {α : Type} (needle : String) (p : List (String × α)) : Option α :=
  if isWild needle then
    match alookup needle p with
    | some v => some v
    | none => (wildcardMatch needle.toList.tail p).map (·.2)
  else
    match alookup needle p with
    | some v => some v
    | none => (wildcardMatch needle.toList p).map (·.2)

/-- `getExportedDestinationRuleFromNamespace` -/
def exportedDRFrom (idx : DRIndex) (owner : String) (hostname : String) (client : String) : List CDR :=
  match alookup owner idx.exportedByNamespace with
  | none => []
  | some p =>
    match mostSpecific hostname p with
    | none => []
    | some drs => drs.filter fun c =>
        c.exportTo.isEmpty || c.exportTo.contains "*" || c.exportTo.contains client

/-- `PushContext.destinationRule(proxyNameSpace, service)` for a service with a namespace -/
def destinationRule (m : Mesh) (idx : DRIndex) (proxyNs : String) (s : Svc) : List CDR :=
  let step1 : Option (List CDR) :=
    if proxyNs != m.rootNs then
      match alookup proxyNs idx.namespaceLocal with
      | some p => mostSpecific s.hostname p
      | none => none
    else mostSpecific s.hostname idx.rootNamespaceLocal
  match step1 with
  | some drs => drs
  | none =>
    let fromSvc := if s.ns != "" then exportedDRFrom idx s.ns s.hostname proxyNs else []
    if !fromSvc.isEmpty then fromSvc
    else exportedDRFrom idx m.rootNs s.hostname proxyNs

/-- `PushContext.destinationRule` for a service object without attributes (only a hostname): the service
    namespace is that of the first service of that hostname exported to the proxy's namespace -/
def destinationRuleForHost (m : Mesh) (svcs : List Svc) (idx : DRIndex) (proxyNs h : String) : List CDR :=
  let svcNs := match (servicesExportedToNamespace m svcs proxyNs).find? (fun s => s.hostname == h && s.ns != "") with
    | some s => s.ns
    | none => ""
  destinationRule m idx proxyNs { (default : Svc) with hostname := h, ns := svcNs }

/-- `SidecarScope.selectDestinationRules`: hostname -> consolidated rules (non-empty only) -/
def selectDestinationRules (m : Mesh) (idx : DRIndex) (cfgNs : String) (services : List Svc) : List (String × List CDR) :=
  services.foldl (fun acc s =>
    let l := destinationRule m idx cfgNs s
    if l.isEmpty then acc else ainsert s.hostname l acc) []

/-- `SidecarScope.DestinationRule(outbound, proxy, host)`: the first consolidated rule of the proxy's
    namespace whose workloadSelector matches the proxy labels, else the last selector-less one. -/
def pickDR (cfgNs : String) (lbl : List (String × String)) : List CDR → Option CDR → Option CDR
  | [], catchAll => catchAll
  | c :: t, catchAll =>
    let catchAll' := if !c.sel then some c else catchAll
    if cfgNs == c.ns && c.sel && labelsSubset c.selLabels lbl then some c
    else pickDR cfgNs lbl t catchAll'

/-! ### what a cluster gets from the picked rule (`util.GetPortLevelTrafficPolicy`, `MergeSubsetTrafficPolicy`) -/

/-- `GetPortLevelTrafficPolicy`: a port-level entry replaces the destination-level policy wholesale -/
def portPolicy (tp : Option TP) (port : Nat) : Option TP :=
  match tp with
  | none => none
  | some t =>
    match t.portLevel.find? (·.port == port) with
    | some pl => some { pool := pl.pool, lb := pl.lb, portLevel := [] }
    | none => some t

/-- the connection pool of the default cluster of `port` -/
def clusterPool (c : CDR) (port : Nat) : Option PField := (portPolicy c.tp port).bind (·.pool)

/-- the connection pool of the subset cluster (`MergeSubsetTrafficPolicy`; subsets carry a pool only) -/
def subsetClusterPool (c : CDR) (sub : Subset) (port : Nat) : Option PField :=
  match sub.pool with
  | some p => some p
  | none => clusterPool c port

end IstioModel.C07
