import IstioModel.C07.Scope
import IstioModel.C07.ScopeLemmas
/-
  C07: `SidecarScope.servicesByHostname` (the map EDS and the cluster builder look a hostname up in)
  is maintained by `appendSidecarServices` next to the service slice.  Modelled here with the two maps
  of the real function (`servicesAdded`, local to one scope build, and the published
  `servicesByHostname`), and proved to stay the index of the slice: a lookup by hostname returns the
  service the scope lists for that hostname, after any sequence of additions, Kubernetes replacements and
  port merges.  Together with the soundness of the slice (`scope_sound`) this is what makes the
  endpoints of a hostname come from an imported, visible service only.
-/
namespace IstioModel.C07

structure ScopeIdx where
  services : List Svc := []
  added : List (String × Svc) := []        -- `servicesAdded` (hostname -> service, index)
  byHost : List (String × Svc) := []       -- `sc.servicesByHostname`

/-- `SidecarScope.appendSidecarServices`, maps included -/
def appendSvcIdx (st : ScopeIdx) (s : Svc) : ScopeIdx :=
  match alookup s.hostname st.added with
  | none =>
    { services := st.services ++ [s], added := ainsert s.hostname s st.added,
      byHost := ainsert s.hostname s st.byHost }
  | some ex =>
    if ex.k8s && !s.k8s then st
    else if !ex.k8s && s.k8s then
      { services := replaceHost st.services s, added := ainsert s.hostname s st.added,
        byHost := ainsert s.hostname s st.byHost }
    else if ex.ports == s.ports then st
    else if !canMerge ex s then st
    else
      let c := { ex with ports := mergePorts ex.ports s.ports }
      { services := replaceHost st.services c, added := ainsert s.hostname c st.added,
        byHost := ainsert s.hostname c st.byHost }

/-- both maps are the hostname index of the slice -/
def IdxOK (st : ScopeIdx) : Prop :=
  ∀ h, alookup h st.added = st.services.find? (·.hostname == h) ∧
       alookup h st.byHost = st.services.find? (·.hostname == h)

theorem find_append_single (acc : List Svc) (s : Svc) (h : String) :
    (acc ++ [s]).find? (·.hostname == h) =
      match acc.find? (·.hostname == h) with
      | some x => some x
      | none => if s.hostname == h then some s else none := by
  induction acc with
  | nil => simp [List.find?]
  | cons a t ih =>
    simp only [List.cons_append, List.find?]
    by_cases ha : (a.hostname == h) = true
    · simp [ha]
    · simp only [ha]; exact ih

theorem find_replaceHost (acc : List Svc) (c : Svc) (h : String) :
    (replaceHost acc c).find? (·.hostname == h) =
      if c.hostname = h then (acc.find? (·.hostname == h)).map (fun _ => c)
      else acc.find? (·.hostname == h) := by
  unfold replaceHost
  induction acc with
  | nil => simp
  | cons a t ih =>
    simp only [List.map_cons, List.find?_cons]
    by_cases ha : (a.hostname == c.hostname) = true
    · simp only [ha, if_true]
      by_cases hc : c.hostname = h
      · subst hc
        have e1 : (c.hostname == c.hostname) = true := by simp
        simp only [e1, ha, if_true, Option.map_some]
      · have e1 : (c.hostname == h) = false := by simpa using hc
        have e2 : (a.hostname == h) = false := by
          have := beq_iff_eq.mp ha
          simpa [this] using hc
        simp only [e1, e2, hc, if_false]
        simpa [hc] using ih
    · simp only [ha, Bool.false_eq_true, if_false]
      by_cases hah : (a.hostname == h) = true
      · have hne : ¬ c.hostname = h := by
          intro e
          apply ha
          have := beq_iff_eq.mp hah
          simp [this, e]
        simp only [hah, hne, if_false]
      · simp only [hah]
        exact ih

/-- the slice of the map-carrying function is the slice of `appendSvc` -/
theorem appendSvcIdx_services (st : ScopeIdx) (s : Svc) (hok : IdxOK st) :
    (appendSvcIdx st s).services = appendSvc st.services s := by
  unfold appendSvcIdx appendSvc
  rw [(hok s.hostname).1]
  cases st.services.find? (·.hostname == s.hostname) with
  | none => rfl
  | some ex =>
    simp only
    split
    · rfl
    · split
      · rfl
      · split
        · rfl
        · split <;> rfl

/-- `servicesByHostname` stays the index of the slice -/
theorem appendSvcIdx_ok (st : ScopeIdx) (s : Svc) (hok : IdxOK st) : IdxOK (appendSvcIdx st s) := by
  have upd : ∀ (c : Svc), c.hostname = s.hostname →
      (∃ ex, st.services.find? (·.hostname == s.hostname) = some ex) →
      IdxOK { services := replaceHost st.services c, added := ainsert s.hostname c st.added,
              byHost := ainsert s.hostname c st.byHost } := by
    intro c hc ⟨ex, hex⟩ h
    simp only [alookup_ainsert, find_replaceHost, hc]
    by_cases hh : h = s.hostname
    · subst hh; simp [hex]
    · have : ¬ s.hostname = h := fun e => hh e.symm
      simp only [hh, this, if_false]
      exact hok h
  unfold appendSvcIdx
  cases hl : alookup s.hostname st.added with
  | none =>
    simp only
    intro h
    have hnone : st.services.find? (·.hostname == s.hostname) = none := by
      rw [← (hok s.hostname).1]; exact hl
    simp only [alookup_ainsert, find_append_single]
    by_cases hh : h = s.hostname
    · subst hh; simp [hnone]
    · have h2 : (s.hostname == h) = false := by simpa using fun e => hh (Eq.symm e)
      simp only [hh, if_false, h2, Bool.false_eq_true]
      have := hok h
      cases hf : st.services.find? (·.hostname == h) with
      | none => simpa [hf] using this
      | some x => simpa [hf] using this
  | some ex =>
    have hex : st.services.find? (·.hostname == s.hostname) = some ex := by
      rw [← (hok s.hostname).1]; exact hl
    simp only
    split
    · exact hok
    · split
      · exact upd s rfl ⟨ex, hex⟩
      · split
        · exact hok
        · split
          · exact hok
          · exact upd _ (by
              have := List.find?_some hex
              simpa using this) ⟨ex, hex⟩

/-- After any sequence of `appendSidecarServices` calls on a fresh scope, `servicesByHostname[h]` is the
    service the scope's slice holds for `h` (and the slice is what `appendSvc` builds). -/
theorem servicesByHostname_is_index (l : List Svc) :
    let st := l.foldl appendSvcIdx {}
    st.services = l.foldl appendSvc [] ∧
    ∀ h, alookup h st.byHost = (l.foldl appendSvc []).find? (·.hostname == h) := by
  have gen : ∀ (l : List Svc) (st : ScopeIdx), IdxOK st →
      IdxOK (l.foldl appendSvcIdx st) ∧ (l.foldl appendSvcIdx st).services = l.foldl appendSvc st.services := by
    intro l
    induction l with
    | nil => intro st h; exact ⟨h, rfl⟩
    | cons a t ih =>
      intro st h
      simp only [List.foldl_cons]
      have := ih (appendSvcIdx st a) (appendSvcIdx_ok st a h)
      rw [appendSvcIdx_services st a h] at this
      exact this
  have h0 : IdxOK {} := by intro h; simp [alookup]
  obtain ⟨hok, hs⟩ := gen l {} h0
  refine ⟨hs, fun h => ?_⟩
  rw [(hok h).2, hs]

/-- a hostname the scope does not list has no entry in `servicesByHostname` -/
theorem servicesByHostname_none (l : List Svc) (h : String)
    (hn : ∀ x ∈ l.foldl appendSvc [], x.hostname ≠ h) :
    alookup h (l.foldl appendSvcIdx {}).byHost = none := by
  rw [(servicesByHostname_is_index l).2 h]
  apply List.find?_eq_none.mpr
  intro x hx
  simpa using hn x hx

end IstioModel.C07
