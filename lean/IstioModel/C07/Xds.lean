import IstioModel.C07.Scope
import IstioModel.C07.DR
/-
  C07: the names the sidecar LDS / RDS generators derive from a SidecarScope
  (`buildSidecarOutboundListeners`: one listener per (bind, port) key;
   `BuildSidecarOutboundVirtualHosts` + `BuildSidecarVirtualHostWrapper` + `separateVSHostsAndServices`:
   one virtual host per service / VirtualService host of the egress listener the route belongs to).
  Only names are modelled (which hosts a proxy is told about), not filter chains or route actions.
-/
namespace IstioModel.C07

/-- the harness names TCP ports `tcp-*`, TLS ports `tls-*`, everything else is HTTP -/
def Port.isHttp (p : Port) : Bool := !(p.name.startsWith "tcp" || p.name.startsWith "tls")

/-- `Resolution == Alias` (a Kubernetes ExternalName service) -/
def Svc.isAlias (s : Svc) : Bool := s.extName.isSome

/-- the service VIP the harness assigns (declaration index) -/
def vipOf (raw : List Svc) (s : Svc) : String :=
  match raw.findIdx? (·.id == s.id) with
  | some i => "10.1." ++ toString (i / 200) ++ "." ++ toString (i % 200 + 1)
  | none => ""

def protoIsHttp (proto : String) : Bool := !(proto == "TCP" || proto == "TLS")

/-- the listener keys one egress listener contributes (`buildSidecarOutboundListener`: HTTP binds the
    wildcard address, TCP/TLS the service VIP; no listener for an ExternalName service) -/
def listenerKeys (raw : List Svc) (l : Option Listener) (ilw : ILW) : List String :=
  let svcs := ilw.services.filter (!·.isAlias)
  match l with
  | some l =>
    if l.port != 0 || l.proto != "" then
      -- a listener with a port (or a unix domain socket bind)
      let bind := if l.bind != "" then l.bind else "0.0.0.0"
      if protoIsHttp l.proto then
        (if svcs.isEmpty then [] else [bind ++ "_" ++ toString l.port])
      else svcs.map fun s => (if l.bind != "" then l.bind else vipOf raw s) ++ "_" ++ toString l.port
    else
      svcs.flatMap fun s => s.ports.map fun p =>
        (if p.isHttp then "0.0.0.0" else vipOf raw s) ++ "_" ++ toString p.num
  | none =>
    svcs.flatMap fun s => s.ports.map fun p =>
      (if p.isHttp then "0.0.0.0" else vipOf raw s) ++ "_" ++ toString p.num

/-- `SidecarScope.GetEgressListenerForRDS(port, _)` for a port > 0 -/
def egressForRDS (ls : List (Option Listener × ILW)) (port : Nat) : Option (Option Listener × ILW) :=
  ls.find? fun (l, _) =>
    match l with
    | none => true
    | some l => (l.port == 0 && l.proto == "") || l.port == port

/-- `servicesByName` of `BuildSidecarOutboundVirtualHosts`: hostname -> service cut down to the listener port -/
def rdsRegistry (services : List Svc) (port : Nat) : List (String × Svc) :=
  services.foldl (fun acc s =>
    match s.ports.find? (·.num == port) with
    | some p => ainsert s.hostname { s with ports := [p] } acc
    | none => acc) []

/-- VirtualService host -> the first VirtualService (in listener order) that names it -/
def vsHostIndex (vss : List VS) : List (String × (String × String)) :=
  vss.foldl (fun acc v => v.hosts.foldl (fun a h =>
    if (alookup h a).isSome then a else a ++ [(h, (v.ns, v.name))]) acc) []

/-- `computeWildcardHostVirtualServiceIndex`: service hostname -> the VirtualService whose host is its
    most specific match -/
def wildcardVSIndex (vss : List VS) (services : List Svc) : List (String × (String × String)) :=
  let idx := vsHostIndex vss
  services.foldl (fun acc s =>
    match mostSpecific s.hostname idx with
    | some k => ainsert s.hostname k acc
    | none => acc) []

/-- `separateVSHostsAndServices`: (hosts without a service, services of the registry) -/
def separateVS (v : VS) (reg : List (String × Svc)) (idx : List (String × (String × String))) :
    List String × List Svc :=
  let plainFixed := v.hosts.filter fun h => !isWild h && (alookup h reg).isNone
  let svcFixed := (v.hosts.filter fun h => !isWild h).filterMap fun h => alookup h reg
  let wild := v.hosts.filter isWild
  let plainWild := wild.filter fun h => v.gwSem || !(reg.any fun e => hostMatches e.1 h)
  let svcWild := if v.gwSem then [] else wild.flatMap fun h =>
    (reg.filter fun e => hostMatches e.1 h && alookup e.1 idx == some (v.ns, v.name)).map (·.2)
  (plainFixed ++ plainWild, svcFixed ++ svcWild)

/-- some http route of the VirtualService applies to a sidecar of namespace `cfgNs`
    (`BuildHTTPRoutesForVirtualService` returns a route) -/
def vsHasRouteFor (v : VS) (cfgNs : String) : Bool :=
  v.http.any fun r => r.srcNs.isEmpty || r.srcNs.any fun sn => sn == "" || sn == cfgNs

/-- the host-shaped domains of a service's virtual host (`generateVirtualHostDomains`; the short
    alternatives and the VIP can never equal a VirtualService host and are left out) -/
def vhostDomains (s : Svc) : List String :=
  let base := s.hostname :: s.aliases.map (·.2)
  if s.resolution != 0 && !s.isAlias && s.k8s then base ++ base.map ("*." ++ ·) else base

/-- the virtual host names (`host:port`) of the route configuration of `port` -/
def rdsVhostNames (cfgNs : String) (ilw : ILW) (port : Nat) : List String :=
  let reg := rdsRegistry ilw.services port
  let vss := if port != 80 then ilw.vss.filter (fun v => v.hosts.any fun h => reg.any fun e => hostMatches h e.1) else ilw.vss
  let idx := wildcardVSIndex ilw.vss ilw.services
  let wrappers : List (List String × List Svc) := vss.filterMap fun v =>
    if !vsHasRouteFor v cfgNs then none
    else
      let (hosts, svcs) := separateVS v reg idx
      if v.gwSem && (svcs.filter fun s => s.ns == v.ns || cfgNs == v.ns).isEmpty then none
      else
        let httpSvcs := svcs.filter fun s => s.ports.any (·.isHttp)
        if !httpSvcs.isEmpty then some (hosts, httpSvcs)
        else if port == 80 then some (hosts, [])
        else none
  let taken := wrappers.flatMap fun w => w.2.map (·.hostname)
  let defaults := (reg.filter fun e => !taken.contains e.1 && !e.2.isAlias && e.2.ports.any (·.isHttp)).map (·.2)
  let defaults := isort (fun a b => !(b.hostname < a.hostname)) defaults
  -- virtual hosts are emitted wrapper by wrapper; a name is used once, and a VirtualService host whose
  -- only domain was already claimed (by a service hostname, one of its aliases, or the `*.` form a
  -- Kubernetes passthrough service adds) yields no virtual host
  let all := wrappers ++ defaults.map fun sv => ([], [sv])
  let st := all.foldl (fun (st : List String × List String × List String) w =>
    let st1 := w.1.foldl (fun (st : List String × List String × List String) h =>
      if st.1.contains h then st
      else if st.2.2.contains h then (st.1 ++ [h], st.2.1, st.2.2)
      else (st.1 ++ [h], st.2.1 ++ [h], st.2.2 ++ [h])) st
    w.2.foldl (fun (st : List String × List String × List String) sv =>
      if st.1.contains sv.hostname then st
      else (st.1 ++ [sv.hostname], st.2.1 ++ [sv.hostname], st.2.2 ++ vhostDomains sv)) st1) ([], [], [])
  st.2.1.map fun h => h ++ ":" ++ toString port

end IstioModel.C07
