import IstioModel.C07.Host

/-!
C07 - theorems of the hostname algebra (`host.Name.Matches` / `SubsetOf`).

`denote n` is the set of concrete (= not wildcarded) hostnames a name covers:
a concrete name covers itself, a wildcard `*suf` covers every concrete name that ends in `suf`.
`SubsetOf` is exactly inclusion of denotations, `Matches` is comparability under inclusion.
Corners (all proved below as examples):
* `*.foo.com` does not cover `foo.com` (the suffix is `.foo.com`), `*foo.com` does;
* the bare `*` covers every concrete name, including the empty string;
* a name such as `a*b` (star not in front) is concrete;
* `Matches` is symmetric, equals "covered one way or the other" and equals "the two denotations
  intersect" (two suffixes of one string are nested); it is not transitive (witness below).
-/
namespace IstioModel.C07

/-- the set of concrete hostnames covered by `n` -/
def denote (n : List Char) (h : List Char) : Prop :=
  isWildL h = false ∧ (if isWildL n then n.tail <:+ h else h = n)

theorem hasSuffixL_iff (s suf : List Char) : hasSuffixL s suf = true ↔ suf <:+ s := by
  unfold hasSuffixL; exact List.isSuffixOf_iff_suffix

/-- membership in the denotation is what the code computes for a concrete left operand -/
theorem mem_denote_iff (n h : List Char) :
    denote n h ↔ (isWildL h = false ∧ subsetOfL h n = true) := by
  unfold denote subsetOfL
  constructor
  · rintro ⟨hw, hm⟩
    refine ⟨hw, ?_⟩
    simp only [hw]
    cases hn : isWildL n <;> simp_all [hasSuffixL_iff]
  · rintro ⟨hw, hs⟩
    refine ⟨hw, ?_⟩
    simp only [hw] at hs
    cases hn : isWildL n <;> simp_all [hasSuffixL_iff]

theorem subsetOf_refl (n : List Char) : subsetOfL n n = true := by
  unfold subsetOfL
  cases hn : isWildL n <;> simp [hasSuffixL_iff]

/-- two different concrete names that end in a given suffix -/
private theorem two_points (t : List Char) :
    isWildL ('a' :: t) = false ∧ isWildL ('b' :: t) = false := by
  constructor <;> simp [isWildL]

private theorem suffix_of_two {o t : List Char}
    (ha : o <:+ 'a' :: t) (hb : o <:+ 'b' :: t) : o <:+ t := by
  rcases List.suffix_cons_iff.mp ha with h1 | h1
  · rcases List.suffix_cons_iff.mp hb with h2 | h2
    · rw [h1] at h2; simp at h2
    · exact h2
  · exact h1

/-- **Denotational reading of `SubsetOf`**: `n.SubsetOf(o)` iff every concrete hostname covered by
    `n` is covered by `o`.  No side condition: holds for the empty name, the bare `*`, `*.foo.com`
    vs `foo.com`, names with inner stars. -/
theorem subsetOf_iff_denote_subset (n o : List Char) :
    subsetOfL n o = true ↔ ∀ h, denote n h → denote o h := by
  unfold subsetOfL denote
  cases hn : isWildL n <;> cases ho : isWildL o <;> simp only [if_true, if_false, Bool.false_eq_true]
  · -- both concrete
    constructor
    · intro h x ⟨hx, hxe⟩; simp at h; subst h; exact ⟨hx, hxe⟩
    · intro h; have := h n ⟨hn, rfl⟩; simp [this.2]
  · -- n concrete, o wildcard
    rw [hasSuffixL_iff]
    constructor
    · intro h x ⟨hx, hxe⟩; subst hxe; exact ⟨hx, h⟩
    · intro h; exact (h n ⟨hn, rfl⟩).2
  · -- n wildcard, o concrete: never a subset; the wildcard covers two different names
    constructor
    · intro h; exact absurd h (by simp)
    · intro h
      have pa := h ('a' :: n.tail) ⟨(two_points _).1, List.suffix_cons _ _⟩
      have pb := h ('b' :: n.tail) ⟨(two_points _).2, List.suffix_cons _ _⟩
      have := pa.2.trans pb.2.symm
      simp at this
  · -- both wildcards
    constructor
    · intro h
      split at h
      · exact absurd h (by simp)
      · rw [hasSuffixL_iff] at h
        intro x ⟨hx, hxs⟩; exact ⟨hx, h.trans hxs⟩
    · intro h
      have pa := (h ('a' :: n.tail) ⟨(two_points _).1, List.suffix_cons _ _⟩).2
      have pb := (h ('b' :: n.tail) ⟨(two_points _).2, List.suffix_cons _ _⟩).2
      have hs : o.tail <:+ n.tail := suffix_of_two pa pb
      have hl := hs.length_le
      have : ¬ n.length < o.length := by
        cases n <;> cases o <;> simp_all [isWildL] <;> omega
      simp [this, hasSuffixL_iff, hs]

theorem subsetOf_trans (a b c : List Char)
    (h1 : subsetOfL a b = true) (h2 : subsetOfL b c = true) : subsetOfL a c = true := by
  rw [subsetOf_iff_denote_subset] at *
  intro h hh; exact h2 h (h1 h hh)

/-- `Matches` is symmetric. -/
theorem matches_symm (n o : List Char) : matchesL n o = matchesL o n := by
  unfold matchesL
  cases hn : isWildL n <;> cases ho : isWildL o <;> simp only [if_true, if_false, Bool.false_eq_true]
  · exact decide_eq_decide.mpr eq_comm
  · by_cases h1 : n.length < o.length
    · have : ¬ o.length < n.length := by omega
      simp [h1, this]
    · by_cases h2 : o.length < n.length
      · simp [h1, h2]
      · simp only [h1, h2, if_false]
        have hl : n.tail.length = o.tail.length := by
          simp [List.length_tail]; omega
        apply Bool.eq_iff_iff.mpr
        rw [hasSuffixL_iff, hasSuffixL_iff]
        constructor
        · intro h; rw [h.eq_of_length hl.symm]; exact List.suffix_refl _
        · intro h; rw [h.eq_of_length hl]; exact List.suffix_refl _

/-- `Matches` = covered in one direction or the other. -/
theorem matches_iff_subset_or_superset (n o : List Char) :
    matchesL n o = true ↔ (subsetOfL n o = true ∨ subsetOfL o n = true) := by
  unfold matchesL subsetOfL
  cases hn : isWildL n <;> cases ho : isWildL o <;> simp only [if_true, if_false, Bool.false_eq_true]
  · simp [eq_comm]
  · simp
  · simp
  · by_cases h1 : n.length < o.length
    · have : ¬ o.length < n.length := by omega
      simp [h1, this]
    · by_cases h2 : o.length < n.length
      · simp [h1, h2]
      · simp only [h1, h2, if_false]
        have hl : n.tail.length = o.tail.length := by
          simp [List.length_tail]; omega
        rw [hasSuffixL_iff, hasSuffixL_iff]
        constructor
        · intro h; exact Or.inl h
        · rintro (h | h)
          · exact h
          · rw [h.eq_of_length hl]; exact List.suffix_refl _

/-- `SubsetOf` implies `Matches` (used by the scope proofs: an excluded or imported host matches). -/
theorem subsetOf_matches (n o : List Char) (h : subsetOfL n o = true) : matchesL n o = true :=
  (matches_iff_subset_or_superset n o).mpr (Or.inl h)

/-- `SubsetOf` is antisymmetric: mutual coverage means the same name. -/
theorem subsetOf_antisymm (n o : List Char)
    (h1 : subsetOfL n o = true) (h2 : subsetOfL o n = true) : n = o := by
  unfold subsetOfL at h1 h2
  cases hn : isWildL n <;> cases ho : isWildL o <;> simp_all [hasSuffixL_iff]
  obtain ⟨l1, s1⟩ := h1
  obtain ⟨l2, s2⟩ := h2
  have hl : n.tail.length = o.tail.length := by simp [List.length_tail]; omega
  have ht := s2.eq_of_length hl
  cases n <;> cases o <;> simp_all [isWildL]

/-- a wildcard is never covered by a concrete name -/
theorem wildcard_not_subset_concrete (n o : List Char) (hn : isWildL n = true) (ho : isWildL o = false) :
    subsetOfL n o = false := by
  unfold subsetOfL; simp [hn, ho]

/-- everything is covered by the bare `*` -/
theorem subsetOf_star (n : List Char) : subsetOfL n ['*'] = true := by
  unfold subsetOfL
  cases hn : isWildL n <;> simp [isWildL, hasSuffixL_iff, List.nil_suffix]
  cases n <;> simp_all [isWildL]

/-! ### Corners, as checked facts -/

example : subsetOfL "foo.com".toList "*.foo.com".toList = false := by decide
example : matchesL "*.foo.com".toList "foo.com".toList = false := by decide
example : subsetOfL "foo.com".toList "*foo.com".toList = true := by decide
example : subsetOfL "a.foo.com".toList "*.foo.com".toList = true := by decide
example : subsetOfL "*.a.foo.com".toList "*.foo.com".toList = true := by decide
example : subsetOfL "*.foo.com".toList "*.a.foo.com".toList = false := by decide
example : subsetOfL "".toList "*".toList = true := by decide
example : subsetOfL "*".toList "*".toList = true := by decide
example : subsetOfL "*".toList "*.com".toList = false := by decide
example : matchesL "*".toList "*.com".toList = true := by decide
example : isWildL "a*b".toList = false := by decide

/-- `Matches` is not transitive (it is an overlap relation, not an equivalence). -/
theorem matches_not_transitive_witness :
    matchesL "a.com".toList "*.com".toList = true ∧ matchesL "*.com".toList "b.com".toList = true ∧
    matchesL "a.com".toList "b.com".toList = false := by decide

/-- two wildcards match iff they are nested: `*a.b` / `*.b` match, `*a` / `*b` do not. -/
theorem matches_wildcards_examples :
    matchesL "*a.b".toList "*.b".toList = true ∧ matchesL "*a".toList "*b".toList = false := by decide

/-- **Denotational reading of `Matches`**: the two names cover a common concrete hostname. -/
theorem matches_iff_denote_intersect (n o : List Char) :
    matchesL n o = true ↔ ∃ h, denote n h ∧ denote o h := by
  rw [matches_iff_subset_or_superset]
  constructor
  · rintro (h | h)
    · -- pick a point of n
      rw [subsetOf_iff_denote_subset] at h
      cases hn : isWildL n
      · exact ⟨n, ⟨hn, by simp [hn]⟩, h n ⟨hn, by simp [hn]⟩⟩
      · have p : denote n ('a' :: n.tail) := ⟨(two_points _).1, by simp [hn]⟩
        exact ⟨_, p, h _ p⟩
    · rw [subsetOf_iff_denote_subset] at h
      cases ho : isWildL o
      · exact ⟨o, h o ⟨ho, by simp [ho]⟩, ⟨ho, by simp [ho]⟩⟩
      · have p : denote o ('a' :: o.tail) := ⟨(two_points _).1, by simp [ho]⟩
        exact ⟨_, h _ p, p⟩
  · rintro ⟨h, ⟨hw, hn⟩, ⟨_, ho⟩⟩
    unfold subsetOfL
    cases hnw : isWildL n <;> cases how : isWildL o <;> simp_all [hasSuffixL_iff]
    -- both wildcards: two suffixes of the same string are nested
    rcases Nat.lt_or_ge n.length o.length with hl | hl
    · right
      refine ⟨by omega, ?_⟩
      rcases List.suffix_or_suffix_of_suffix hn ho with hs | hs
      · exact hs
      · have hl2 : n.tail.length ≤ o.tail.length := by simp [List.length_tail]; omega
        rw [hs.eq_of_length_le hl2]; exact List.suffix_refl _
    · left
      refine ⟨by omega, ?_⟩
      rcases List.suffix_or_suffix_of_suffix hn ho with hs | hs
      · have hl2 : o.tail.length ≤ n.tail.length := by simp [List.length_tail]; omega
        rw [hs.eq_of_length_le hl2]; exact List.suffix_refl _
      · exact hs

/-! ### the same laws for the `String` functions the rest of the model uses -/

theorem subsetOf_refl_str (n : String) : subsetOf n n = true := subsetOf_refl _

theorem subsetOf_trans_str (a b c : String) (h1 : subsetOf a b = true) (h2 : subsetOf b c = true) :
    subsetOf a c = true := subsetOf_trans _ _ _ h1 h2

theorem matches_symm_str (n o : String) : hostMatches n o = hostMatches o n := matches_symm _ _

theorem matches_iff_subset_or_superset_str (n o : String) :
    hostMatches n o = true ↔ (subsetOf n o = true ∨ subsetOf o n = true) :=
  matches_iff_subset_or_superset _ _

theorem subsetOf_antisymm_str (n o : String) (h1 : subsetOf n o = true) (h2 : subsetOf o n = true) : n = o :=
  String.toList_inj.mp (subsetOf_antisymm _ _ h1 h2)

end IstioModel.C07
