import IstioModel.C07.Host

/-!
C07 - service visibility: exact model of `pilot/pkg/model/push_context.go`
`initDefaultExportMaps`, `serviceExportTo`, `IsServiceVisible`, the three indexes of
`initServiceRegistry` (`public`, `exportedToNamespace`, `HostnameAndNamespace`) and
`servicesExportedToNamespace`.

Go sets (`sets.Set[visibility.Instance]`) are lists read as sets; every function below only asks
membership / "is the set the singleton {x}" so duplicates and order do not matter.
The indexes are given in closed form (a `filter` of the creation-ordered service list): the Go loop
appends each service at most once to `public` or to `exportedToNamespace[k]` for each key `k`, in
service order, so each index list is the sub-list of the services satisfying the key condition.
-/
namespace IstioModel.C07

structure Port where
  num : Nat
  name : String
deriving DecidableEq, Repr, Inhabited

/-- `ServiceVisibility` (serviceentry_visibility.go). -/
inductive SEVis | pub | ns | none
deriving DecidableEq, Repr, Inhabited

structure Svc where
  id : String          -- harness tag only (K8sAttributes.ObjectName); never read by the logic
  hostname : String
  ns : String
  name : String        -- Attributes.Name (only a sort key)
  k8s : Bool           -- Attributes.ServiceRegistry == provider.Kubernetes
  ctime : Nat
  ports : List Port
  exportTo : List String
  vis : SEVis          -- Attributes.Visibility
  resolution : Nat
  attr : String        -- Attributes.Labels / LabelSelectors (compared by canMergeServices only)
  aliases : List (String × String)   -- Attributes.Aliases as (namespace, hostname)
  extName : Option String := none    -- Kubernetes ExternalName service (Resolution == Alias): the name it points to
deriving DecidableEq, Repr, Inhabited

structure Mesh where
  rootNs : String := "istio-system"
  defSvc : Option (List String) := none     -- MeshConfig.DefaultServiceExportTo (nil / list)
  defVS : Option (List String) := none
  defDR : Option (List String) := none
  applyToSidecars : Bool := false           -- serviceEntryVisibility.applyToSidecars
deriving Repr, Inhabited

/-! ### `serviceentry_visibility.go`: the visibility MeshConfig.serviceEntryVisibility resolves for a namespace -/

/-- a matchExpressions requirement: key, operator, values -/
inductive SelOp | isIn | notIn | ex | nex
deriving Repr, Inhabited, DecidableEq

structure SelExpr where
  key : String
  op : SelOp
  values : List String
deriving Repr, Inhabited

/-- a namespace label selector: matchLabels and matchExpressions, all ANDed -/
structure NsSelector where
  labels : List (String × String) := []
  exprs : List SelExpr := []
deriving Repr, Inhabited

/-- one matcher: `none` = unset matcher or a namespace selector without a label selector (never
    matches), `some sel` = a label selector (empty: matches every namespace) -/
abbrev SevRule := Option NsSelector

structure SevPolicy where
  vis : SEVis
  rules : List SevRule
deriving Repr, Inhabited

/-- the compiled `ServiceEntryVisibilityMatcher` (UNSPECIFIED already read as Public) -/
structure Sev where
  dflt : SEVis
  policies : List SevPolicy
deriving Repr, Inhabited

def labelOf (nsl : List (String × String)) (k : String) : Option String := (nsl.find? (·.1 == k)).map (·.2)

/-- a Kubernetes label selector requirement -/
def selExprMatches (nsl : List (String × String)) (e : SelExpr) : Bool :=
  match e.op, labelOf nsl e.key with
  | .isIn, some v => e.values.contains v
  | .isIn, none => false
  | .notIn, some v => !e.values.contains v
  | .notIn, none => true
  | .ex, o => o.isSome
  | .nex, o => o.isNone

/-- `visibilityRule` match: every matchLabels pair is a label of the namespace and every
    matchExpressions requirement holds -/
def sevRuleMatches (nsl : List (String × String)) : SevRule → Bool
  | none => false
  | some sel => (sel.labels.all fun kv => labelOf nsl kv.1 == some kv.2) && sel.exprs.all (selExprMatches nsl)

/-- `visibilityPolicy.matches`: all rules match (an empty rule list is a catch-all) -/
def sevPolicyMatches (nsl : List (String × String)) (p : SevPolicy) : Bool := p.rules.all (sevRuleMatches nsl)

/-- `ServiceEntryVisibilityMatcher.VisibilityFor` (nil matcher / unset config: Public) -/
def visibilityFor (sev : Option Sev) (nsl : List (String × String)) : SEVis :=
  match sev with
  | none => .pub
  | some s =>
    match s.policies.find? (sevPolicyMatches nsl) with
    | some p => p.vis
    | none => s.dflt

/-- `initDefaultExportMaps`: nil -> {*}, else the listed entries. -/
def defaultExport : Option (List String) → List String
  | none => ["*"]
  | some l => l

/-- `set.Len() == 1 && set.Contains(x)` for a list read as a set. -/
def isSingletonOf (s : List String) (x : String) : Bool :=
  !s.isEmpty && s.all (· == x)

/-- `PushContext.serviceExportTo`. -/
def serviceExportTo (m : Mesh) (s : Svc) : List String :=
  let e := if s.exportTo.isEmpty then defaultExport m.defSvc else s.exportTo
  if isSingletonOf e "~" then e
  else if m.applyToSidecars then
    match s.vis with
    | .ns => if e.contains "*" || e.contains "." || e.contains s.ns then ["."] else ["~"]
    | .none => ["~"]
    | .pub => e
  else e

/-- `PushContext.IsServiceVisible` (non-nil service). -/
def isServiceVisible (m : Mesh) (s : Svc) (ns : String) : Bool :=
  let e := serviceExportTo m s
  e.contains "*" || (e.contains "." && s.ns == ns) || e.contains ns

/-- stable insertion sort (structural, so that the kernel can evaluate it on concrete witnesses);
    for a total preorder `le` it returns what Go's stable sort returns. -/
def insertBy {α : Type} (le : α → α → Bool) (a : α) : List α → List α
  | [] => [a]
  | y :: ys => if le a y then a :: y :: ys else y :: insertBy le a ys

def isort {α : Type} (le : α → α → Bool) : List α → List α
  | [] => []
  | a :: t => insertBy le a (isort le t)

theorem mem_insertBy {α : Type} (le : α → α → Bool) (a x : α) (l : List α) :
    x ∈ insertBy le a l ↔ x = a ∨ x ∈ l := by
  induction l with
  | nil => simp [insertBy]
  | cons y ys ih =>
    unfold insertBy
    split
    · simp
    · simp [ih]; constructor
      · rintro (h | h | h)
        · exact Or.inr (Or.inl h)
        · exact Or.inl h
        · exact Or.inr (Or.inr h)
      · rintro (h | h | h)
        · exact Or.inr (Or.inl h)
        · exact Or.inl h
        · exact Or.inr (Or.inr h)

theorem mem_isort {α : Type} (le : α → α → Bool) (x : α) (l : List α) : x ∈ isort le l ↔ x ∈ l := by
  induction l with
  | nil => simp [isort]
  | cons a t ih => simp [isort, mem_insertBy, ih]

/-- `SortServicesByCreationTime` comparator: (creation time, name, namespace, object name, hostname). -/
def svcLe (a b : Svc) : Bool :=
  if a.ctime != b.ctime then a.ctime < b.ctime
  else if a.name != b.name then a.name < b.name
  else if a.ns != b.ns then a.ns < b.ns
  -- /repo 38ac9fa: then the object name (the harness tag) and the hostname
  else if a.id != b.id then a.id < b.id
  else !(b.hostname < a.hostname)

/-- `SortServicesByCreationTime` (stable). -/
def sortServices (l : List Svc) : List Svc := isort svcLe l

/-- `ServiceIndex.public`: services whose effective exportTo contains `*`. -/
def publicServices (m : Mesh) (svcs : List Svc) : List Svc :=
  svcs.filter fun s => (serviceExportTo m s).contains "*"

/-- the keys under which `initServiceRegistry` files a non-public, non-hidden service:
    `.` and the own namespace become the own namespace. -/
def exportKeys (m : Mesh) (s : Svc) : List String :=
  (serviceExportTo m s).map fun e => if e == "." then s.ns else e

/-- `ServiceIndex.exportedToNamespace[ns]`. -/
def exportedToNamespace (m : Mesh) (svcs : List Svc) (ns : String) : List Svc :=
  svcs.filter fun s =>
    let e := serviceExportTo m s
    !e.contains "*" && !e.contains "~" && (exportKeys m s).contains ns

/-- `PushContext.servicesExportedToNamespace`. -/
def servicesExportedToNamespace (m : Mesh) (svcs : List Svc) (ns : String) : List Svc :=
  exportedToNamespace m svcs ns ++ publicServices m svcs

/-- one step of the `HostnameAndNamespace[h][ns]` update: the first service wins unless a
    Kubernetes service replaces a non-Kubernetes one. -/
def hnStep (acc : Option Svc) (s : Svc) : Option Svc :=
  match acc with
  | none => some s
  | some e => if !e.k8s && s.k8s then some s else some e

/-- `ServiceIndex.HostnameAndNamespace[h][ns]`. -/
def lookupHN (svcs : List Svc) (h ns : String) : Option Svc :=
  (svcs.filter fun s => s.hostname == h && s.ns == ns).foldl hnStep none

/-- the namespaces that have an entry under `HostnameAndNamespace[h]` (first-appearance order). -/
def nssOfHost (svcs : List Svc) (h : String) : List String :=
  ((svcs.filter fun s => s.hostname == h).map (·.ns)).eraseDups

/-- `ServiceIndex.HostnameAndNamespace[h]` as an association list. -/
def byNamespace (svcs : List Svc) (h : String) : List (String × Svc) :=
  (nssOfHost svcs h).filterMap fun ns => (lookupHN svcs h ns).map fun s => (ns, s)

/-! ### `resolveServiceAliases`

An ExternalName service (`Resolution == Alias`) is an alias for the hostname it names; the function
attaches to every concrete service the list of its aliases.  `rawAlias` is keyed by (hostname,
namespace), `unnamespacedRawAlias` by hostname: with two alias services on one hostname the Go maps
keep an arbitrary one ("behavior is undefined"); the model keeps the first, the generator never
produces that.  -/

/-- `unnamespacedRawAlias[h]` -/
def aliasTarget (svcs : List Svc) (h : String) : Option String :=
  match svcs.find? fun s => s.extName.isSome && s.hostname == h with
  | some s => s.extName
  | none => none

/-- the chain walk of `resolveServiceAliases` (`seen` detects loops; `fuel` bounds the walk, every
    step adds a new alias hostname to `seen`) -/
def resolveChain (svcs : List Svc) : Nat → List String → String → Option String
  | 0, _, _ => none
  | fuel + 1, seen, ref =>
    match aliasTarget svcs ref with
    | none => some ref
    | some n => if seen.contains n then none else resolveChain svcs fuel (n :: seen) n

/-- `resolvedAliases[alias]` for an alias service -/
def resolvedAlias (svcs : List Svc) (a : Svc) : Option String :=
  match a.extName with
  | none => none
  | some ref => resolveChain svcs (svcs.length + 1) [ref, a.hostname] ref

def aliasLe (a b : String × String) : Bool :=
  if a.1 != b.1 then a.1 < b.1 else !(b.2 < a.2)

/-- `aliasesForService[h]`, sorted by (namespace, hostname); one entry per (hostname, namespace) key -/
def aliasesFor (svcs : List Svc) (h : String) : List (String × String) :=
  isort aliasLe (((svcs.filter fun a => resolvedAlias svcs a == some h).map fun a => (a.ns, a.hostname)).eraseDups)

/-- `resolveServiceAliases` -/
def resolveAliases (svcs : List Svc) : List Svc :=
  svcs.map fun s =>
    let l := aliasesFor svcs s.hostname
    if l.isEmpty then s else { s with aliases := l }

end IstioModel.C07
