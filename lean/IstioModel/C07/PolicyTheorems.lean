import IstioModel.C07.RuleTheorems

/-!
C07 - "a rule not exported to the proxy's namespace never SHAPES its configuration": everything a
consolidated DestinationRule carries - every subset, every subset policy, every field of the
top-level and port-level traffic policy, whatever the backend-policy precedence did - was written
in a rule that is listed in its `from`, and (RuleTheorems) every rule in `from` is exported to the
proxy's namespace.
-/
namespace IstioModel.C07

def pfOwners (f : Option PField) : List (String × String) :=
  match f with
  | some x => [x.owner]
  | none => []

def plOwners (l : List PortTP) : List (String × String) := l.flatMap fun p => pfOwners p.pool ++ pfOwners p.lb

def tpOwners (t : Option TP) : List (String × String) :=
  match t with
  | none => []
  | some t => pfOwners t.pool ++ pfOwners t.lb ++ plOwners t.portLevel

def subsetOwners (l : List Subset) : List (String × String) := l.flatMap fun s => s.owner :: pfOwners s.pool

/-- the rules whose text is somewhere in the consolidated rule -/
def cdrOwners (c : CDR) : List (String × String) := tpOwners c.tp ++ subsetOwners c.subsets

/-- input well-formedness: what a rule carries is owned by that rule (the driver sets the owners so) -/
def DROwned (d : DR) : Prop := (∀ o ∈ tpOwners d.tp, o = drKey d) ∧ (∀ o ∈ subsetOwners d.subsets, o = drKey d)

/-- the invariant: nothing in the consolidated rule comes from a rule outside `from` -/
def Owned (c : CDR) : Prop := ∀ o ∈ cdrOwners c, o ∈ c.frm

theorem pfOwners_orElse (a b : Option PField) :
    ∀ o ∈ pfOwners (a.orElse fun _ => b), o ∈ pfOwners a ∨ o ∈ pfOwners b := by
  intro o ho
  cases a with
  | none => exact Or.inr (by simpa using ho)
  | some x => exact Or.inl (by simpa using ho)

theorem plOwners_mergeBackend (u b : List PortTP) :
    ∀ o ∈ plOwners (mergeBackendPL u b), o ∈ plOwners u ∨ o ∈ plOwners b := by
  intro o ho
  unfold mergeBackendPL at ho
  split at ho
  · exact Or.inl ho
  · simp only [plOwners, List.mem_flatMap, List.mem_append, List.mem_map, List.mem_filter] at ho ⊢
    obtain ⟨p, hp, hop⟩ := ho
    rcases hp with ⟨up, hup, rfl⟩ | ⟨hpb, _⟩
    · cases hf : b.find? (·.port == up.port) with
      | none => simp only [hf] at hop; exact Or.inl ⟨up, hup, hop⟩
      | some bp =>
        have hbp := List.mem_of_find?_eq_some hf
        simp only [hf] at hop
        rcases hop with h | h
        · rcases pfOwners_orElse _ _ o h with h1 | h1
          · exact Or.inl ⟨up, hup, Or.inl h1⟩
          · exact Or.inr ⟨bp, hbp, Or.inl h1⟩
        · rcases pfOwners_orElse _ _ o h with h1 | h1
          · exact Or.inl ⟨up, hup, Or.inr h1⟩
          · exact Or.inr ⟨bp, hbp, Or.inr h1⟩
    · exact Or.inr ⟨p, hpb, hop⟩

theorem tpOwners_mergeBackend (u b : Option TP) :
    ∀ o ∈ tpOwners (mergeBackendTP u b), o ∈ tpOwners u ∨ o ∈ tpOwners b := by
  intro o ho
  unfold mergeBackendTP at ho
  cases u with
  | none => exact Or.inr (by simpa using ho)
  | some ut =>
    cases b with
    | none => exact Or.inl (by simpa using ho)
    | some bt =>
      simp only [tpOwners, List.mem_append] at ho ⊢
      rcases ho with (h | h) | h
      · rcases pfOwners_orElse _ _ o h with h1 | h1
        · exact Or.inl (Or.inl (Or.inl h1))
        · exact Or.inr (Or.inl (Or.inl h1))
      · rcases pfOwners_orElse _ _ o h with h1 | h1
        · exact Or.inl (Or.inl (Or.inr h1))
        · exact Or.inr (Or.inl (Or.inr h1))
      · rcases plOwners_mergeBackend _ _ o h with h1 | h1
        · exact Or.inl (Or.inr h1)
        · exact Or.inr (Or.inr h1)

theorem tpOwners_mergedTP (c : CDR) (d : DR) :
    ∀ o ∈ tpOwners (mergedTP c d), o ∈ tpOwners c.tp ∨ o ∈ tpOwners d.tp := by
  intro o ho
  unfold mergedTP at ho
  split at ho
  · cases hc : c.tp with
    | none => simp only [hc] at ho; exact Or.inr ho
    | some t => simp only [hc] at ho; exact Or.inl (by rw [hc] at *; exact ho)
  · split at ho
    · exact tpOwners_mergeBackend _ _ o ho
    · exact (tpOwners_mergeBackend _ _ o ho).symm

/-- merging a well-owned rule keeps the invariant -/
theorem owned_mergeInto {c : CDR} {d : DR} (hc : Owned c) (hd : DROwned d) : Owned (mergeInto c d) := by
  intro o ho
  simp only [cdrOwners, mergeInto, List.mem_append] at ho ⊢
  rcases ho with h | h
  · rcases tpOwners_mergedTP c d o h with h1 | h1
    · exact Or.inl (hc o (List.mem_append_left _ h1))
    · exact Or.inr (by rw [hd.1 o h1]; simp [drKey])
  · simp only [subsetOwners, List.mem_flatMap, List.mem_append, List.mem_filter] at h
    obtain ⟨s, hs, hos⟩ := h
    rcases hs with hs | ⟨hs, _⟩
    · exact Or.inl (hc o (List.mem_append_right _ (List.mem_flatMap.mpr ⟨s, hs, hos⟩)))
    · exact Or.inr (by rw [hd.2 o (List.mem_flatMap.mpr ⟨s, hs, hos⟩)]; simp [drKey])

theorem owned_newCDR {d : DR} (ex : List String) (hd : DROwned d) : Owned (newCDR d ex) := by
  intro o ho
  simp only [cdrOwners, newCDR, List.mem_append] at ho ⊢
  rcases ho with h | h
  · rw [hd.1 o h]; simp [drKey]
  · rw [hd.2 o h]; simp [drKey]

/-- every consolidated rule of every index is well owned -/
structure AllOwned (idx : DRIndex) : Prop where
  loc : ∀ np ∈ idx.namespaceLocal, ∀ e ∈ np.2, ∀ c ∈ e.2, Owned c
  exp : ∀ np ∈ idx.exportedByNamespace, ∀ e ∈ np.2, ∀ c ∈ e.2, Owned c
  root : ∀ e ∈ idx.rootNamespaceLocal, ∀ c ∈ e.2, Owned c

theorem drStep_owned (enh g : Bool) (m : Mesh) (idx : DRIndex) (d : DR) (hd : DROwned d) (h : AllOwned idx) :
    AllOwned (drStep enh g m idx d) := by
  have mergeOK : ∀ (p : Pool) (ex : List String), (∀ e ∈ p, ∀ c ∈ e.2, Owned c) →
      ∀ e ∈ mergeDR enh p d ex, ∀ c ∈ e.2, Owned c := by
    intro p ex hp
    exact mergeDR_inv Owned enh p d ex (fun c hc _ => owned_mergeInto hc hd) (owned_newCDR ex hd) hp
  have insOK : ∀ (l : List (String × Pool)) (ex : List String), (∀ np ∈ l, ∀ e ∈ np.2, ∀ c ∈ e.2, Owned c) →
      ∀ np ∈ ainsert d.ns (mergeDR enh (poolOf d.ns l) d ex) l, ∀ e ∈ np.2, ∀ c ∈ e.2, Owned c := by
    intro l ex hl np hnp
    rcases mem_ainsert hnp with h1 | h1
    · subst h1
      exact mergeOK _ ex (poolOf_inv (J := fun _ => Owned) hl)
    · exact hl np h1
  simp only [drStep]
  by_cases hloc : ((drExportSet g m d).isEmpty || (drExportSet g m d).contains "*" || (drExportSet g m d).contains "." ||
      (drExportSet g m d).contains d.ns) = true
  · simp only [hloc, if_true]
    generalize (if (drExportSet g m d).isEmpty && (defaultExport m.defDR).contains "." then true
      else if drStep.isSingletonSet (drExportSet g m d) && ((drExportSet g m d).contains "." || (drExportSet g m d).contains d.ns) then true
      else false) = pv
    cases pv
    · simp only [Bool.not_false, if_true]
      exact ⟨insOK _ _ h.loc, insOK _ _ h.exp, h.root⟩
    · simp only [Bool.not_true, Bool.false_eq_true, if_false]
      split
      · exact ⟨insOK _ _ h.loc, h.exp, mergeOK _ _ h.root⟩
      · exact ⟨insOK _ _ h.loc, h.exp, h.root⟩
  · simp only [hloc, if_false, Bool.false_eq_true]
    generalize (if (drExportSet g m d).isEmpty && (defaultExport m.defDR).contains "." then true
      else if drStep.isSingletonSet (drExportSet g m d) && ((drExportSet g m d).contains "." || (drExportSet g m d).contains d.ns) then true
      else false) = pv
    cases pv
    · simp only [Bool.not_false, if_true]
      exact ⟨h.loc, insOK _ _ h.exp, h.root⟩
    · simp only [Bool.not_true, Bool.false_eq_true, if_false]
      split
      · exact ⟨h.loc, h.exp, mergeOK _ _ h.root⟩
      · exact ⟨h.loc, h.exp, h.root⟩

theorem setDestinationRules_owned (enh g : Bool) (m : Mesh) (drs : List DR) (hd : ∀ d ∈ drs, DROwned d) :
    AllOwned (setDestinationRules enh g m drs) := by
  unfold setDestinationRules
  apply foldl_inv (P := AllOwned)
  · exact ⟨by simp, by simp, by simp⟩
  · intro idx d hdm hidx
    exact drStep_owned enh g m idx d (hd d ((mem_isort _ _ _).mp hdm)) hidx

theorem exportedDRFrom_owned {idx : DRIndex} (h : AllOwned idx) {owner hostname client : String} {c : CDR}
    (hc : c ∈ exportedDRFrom idx owner hostname client) : Owned c := by
  unfold exportedDRFrom at hc
  cases hp : alookup owner idx.exportedByNamespace with
  | none => simp [hp] at hc
  | some p =>
    simp only [hp] at hc
    cases hm : mostSpecific hostname p with
    | none => simp [hm] at hc
    | some l =>
      simp only [hm, List.mem_filter] at hc
      obtain ⟨k, hk⟩ := mostSpecific_mem hm
      exact h.exp (owner, p) (alookup_mem hp) (k, l) hk c hc.1

/-- **dr_policy_provenance**: every subset, subset policy and traffic-policy field of a consolidated
    rule that `destinationRule` returns was written in a rule listed in its `from` - with and without the
    enhanced merge, whatever the backend-policy precedence. -/
theorem dr_policy_provenance (enh g : Bool) (m : Mesh) (drs : List DR) (hd : ∀ d ∈ drs, DROwned d)
    (proxyNs : String) (s : Svc) :
    ∀ c ∈ destinationRule m (setDestinationRules enh g m drs) proxyNs s, ∀ o ∈ cdrOwners c, o ∈ c.frm := by
  have hinv := setDestinationRules_owned enh g m drs hd
  generalize setDestinationRules enh g m drs = idx at hinv
  intro c hc
  simp only [destinationRule] at hc
  have tail : c ∈ (let fromSvc := if s.ns != "" then exportedDRFrom idx s.ns s.hostname proxyNs else []
                   if !fromSvc.isEmpty then fromSvc else exportedDRFrom idx m.rootNs s.hostname proxyNs) → Owned c := by
    intro hc
    by_cases hq : (!(if s.ns != "" then exportedDRFrom idx s.ns s.hostname proxyNs else []).isEmpty) = true
    · simp only [hq, if_true] at hc
      split at hc
      · exact exportedDRFrom_owned hinv hc
      · simp at hc
    · simp only [hq, if_false, Bool.false_eq_true] at hc
      exact exportedDRFrom_owned hinv hc
  by_cases hroot : (proxyNs != m.rootNs) = true
  · simp only [hroot, if_true] at hc
    cases hl : alookup proxyNs idx.namespaceLocal with
    | none => simp only [hl] at hc; exact tail hc
    | some p =>
      simp only [hl] at hc
      cases hm : mostSpecific s.hostname p with
      | none => simp only [hm] at hc; exact tail hc
      | some l =>
        simp only [hm] at hc
        obtain ⟨k, hk⟩ := mostSpecific_mem hm
        exact hinv.loc (proxyNs, p) (alookup_mem hl) (k, l) hk c hc
  · simp only [hroot, if_false, Bool.false_eq_true] at hc
    cases hm : mostSpecific s.hostname idx.rootNamespaceLocal with
    | none => simp only [hm] at hc; exact tail hc
    | some l =>
      simp only [hm] at hc
      obtain ⟨k, hk⟩ := mostSpecific_mem hm
      exact hinv.root (k, l) hk c hc

/-- **dr_policy_export_sound**: on the repaired code with the enhanced merge, every rule whose text is
    anywhere in a consolidated DestinationRule returned for a proxy namespace (subsets, subset policies,
    traffic-policy fields) is a rule of the store that is exported to that namespace. -/
theorem dr_policy_export_sound (m : Mesh) (drs : List DR) (hd : ∀ d ∈ drs, DROwned d) (hstar : ∀ d ∈ drs, d.ns ≠ "*")
    (proxyNs : String) (hns : ValidNs proxyNs) (s : Svc) :
    ∀ c ∈ destinationRule m (setDestinationRules true true m drs) proxyNs s,
      ∀ o ∈ cdrOwners c, ∃ d ∈ drs, o = drKey d ∧ DRVisible m d proxyNs := by
  intro c hc o ho
  exact dr_export_sound m drs hstar proxyNs hns s c hc o (dr_policy_provenance true true m drs hd proxyNs s c hc o ho)

/-- what a cluster gets comes from the consolidated rule's owners -/
theorem clusterPool_owner (c : CDR) (port : Nat) (f : PField) (h : clusterPool c port = some f) : f.owner ∈ cdrOwners c := by
  unfold clusterPool portPolicy at h
  cases ht : c.tp with
  | none => simp [ht] at h
  | some t =>
    simp only [ht] at h
    have base : f.owner ∈ tpOwners (some t) → f.owner ∈ cdrOwners c := by
      intro hh; unfold cdrOwners; rw [ht]; exact List.mem_append_left _ hh
    apply base
    simp only [tpOwners, List.mem_append]
    cases hf : t.portLevel.find? (·.port == port) with
    | none =>
      simp only [hf, Option.bind_some] at h
      exact Or.inl (Or.inl (by simp [pfOwners, h]))
    | some pl =>
      simp only [hf, Option.bind_some] at h
      refine Or.inr ?_
      simp only [plOwners, List.mem_flatMap, List.mem_append]
      exact ⟨pl, List.mem_of_find?_eq_some hf, Or.inl (by simp [pfOwners, h])⟩

theorem subsetClusterPool_owner (c : CDR) (sub : Subset) (hs : sub ∈ c.subsets) (port : Nat) (f : PField)
    (h : subsetClusterPool c sub port = some f) : f.owner ∈ cdrOwners c := by
  unfold subsetClusterPool at h
  cases hp : sub.pool with
  | some p =>
    simp only [hp] at h; cases h
    unfold cdrOwners
    refine List.mem_append_right _ ?_
    simp only [subsetOwners, List.mem_flatMap]
    exact ⟨sub, hs, by simp [pfOwners, hp]⟩
  | none => simp only [hp] at h; exact clusterPool_owner c port f h

end IstioModel.C07
