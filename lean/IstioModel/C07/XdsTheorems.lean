import IstioModel.C07.Xds
import IstioModel.C07.ScopeLemmas
/-
  C07: the names LDS / RDS hand to a sidecar are derived from the egress listener's own services and
  VirtualServices only (which `listener_services_sound` / `vs_select_sound` tie to the visibility and
  import rules): no virtual host and no listener for a host the listener does not hold.
-/
namespace IstioModel.C07

/-- every entry of the RDS service registry is a service of the listener (cut down to one port) -/
theorem rdsRegistry_sound (services : List Svc) (port : Nat) :
    ∀ e ∈ rdsRegistry services port, ∃ s ∈ services, e.1 = s.hostname ∧ e.2.hostname = s.hostname := by
  unfold rdsRegistry
  apply foldl_inv (P := fun (acc : List (String × Svc)) => ∀ e ∈ acc, ∃ s ∈ services, e.1 = s.hostname ∧ e.2.hostname = s.hostname)
  · intro e he; simp at he
  · intro acc s hs hacc
    split
    · rename_i p _
      intro e he
      have : e ∈ acc ∨ e = (s.hostname, { s with ports := [p] }) := by
        clear hacc
        induction acc with
        | nil => simp [ainsert] at he; exact Or.inr he
        | cons a t ih =>
          obtain ⟨k, v⟩ := a
          unfold ainsert at he
          by_cases hk : k = s.hostname
          · simp only [hk, if_true] at he
            rcases List.mem_cons.mp he with h | h
            · exact Or.inr h
            · exact Or.inl (List.mem_cons_of_mem _ h)
          · simp only [hk, if_false] at he
            rcases List.mem_cons.mp he with h | h
            · exact Or.inl (h ▸ List.mem_cons_self)
            · rcases ih h with h' | h'
              · exact Or.inl (List.mem_cons_of_mem _ h')
              · exact Or.inr h'
      rcases this with h | h
      · exact hacc e h
      · subst h; exact ⟨s, hs, rfl, rfl⟩
    · exact hacc

theorem alookup_mem_pair {α : Type} {k : String} {v : α} {l : List (String × α)} (h : alookup k l = some v) :
    (k, v) ∈ l := alookup_mem h

/-- the hosts and services `separateVSHostsAndServices` returns are hosts of the VirtualService and
    entries of the registry -/
theorem separateVS_sound (v : VS) (reg : List (String × Svc)) (idx : List (String × (String × String))) :
    (∀ h ∈ (separateVS v reg idx).1, h ∈ v.hosts) ∧
    (∀ s ∈ (separateVS v reg idx).2, ∃ e ∈ reg, e.2 = s) := by
  unfold separateVS
  constructor
  · intro h hh
    simp only [List.mem_append, List.mem_filter] at hh
    rcases hh with hh | hh
    · exact hh.1
    · exact hh.1.1
  · intro s hs
    simp only [List.mem_append] at hs
    rcases hs with hs | hs
    · obtain ⟨h, _, hl⟩ := List.mem_filterMap.mp hs
      exact ⟨(h, s), alookup_mem_pair hl, rfl⟩
    · split at hs
      · simp at hs
      · obtain ⟨h, _, hm⟩ := List.mem_flatMap.mp hs
        obtain ⟨e, he, rfl⟩ := List.mem_map.mp hm
        exact ⟨e, (List.mem_filter.mp he).1, rfl⟩

/-- the host behind a virtual host name is held by the egress listener -/
def HeldBy (ilw : ILW) (h : String) : Prop :=
  (∃ s ∈ ilw.services, s.hostname = h) ∨ (∃ v ∈ ilw.vss, h ∈ v.hosts)

/-- RDS: every virtual host of a port-named route configuration is named after a service of the route's
    egress listener or after a host of one of that listener's VirtualServices. -/
theorem rds_names_sound (cfgNs : String) (ilw : ILW) (port : Nat) :
    ∀ n ∈ rdsVhostNames cfgNs ilw port, ∃ h, n = h ++ ":" ++ toString port ∧ HeldBy ilw h := by
  intro n hn
  unfold rdsVhostNames at hn
  simp only at hn
  obtain ⟨h, hh, rfl⟩ := List.mem_map.mp hn
  refine ⟨h, rfl, ?_⟩
  clear hn
  -- the wrappers and the default entries only carry held hosts
  generalize hW : (List.filterMap _ _ : List (List String × List Svc)) = wrappers at hh
  have hreg := rdsRegistry_sound ilw.services port
  have hwr : ∀ w ∈ wrappers, (∀ x ∈ w.1, HeldBy ilw x) ∧ (∀ s ∈ w.2, HeldBy ilw s.hostname) := by
    intro w hw
    rw [← hW] at hw
    obtain ⟨v, hv, hsome⟩ := List.mem_filterMap.mp hw
    have hvin : v ∈ ilw.vss := by
      split at hv
      · exact (List.mem_filter.mp hv).1
      · exact hv
    have hsep := separateVS_sound v (rdsRegistry ilw.services port) (wildcardVSIndex ilw.vss ilw.services)
    have svcHeld : ∀ s ∈ (separateVS v (rdsRegistry ilw.services port) (wildcardVSIndex ilw.vss ilw.services)).2,
        HeldBy ilw s.hostname := by
      intro s hs
      obtain ⟨e, he, rfl⟩ := hsep.2 s hs
      obtain ⟨s0, hs0, _, h2⟩ := hreg e he
      exact Or.inl ⟨s0, hs0, h2.symm⟩
    have hostHeld : ∀ x ∈ (separateVS v (rdsRegistry ilw.services port) (wildcardVSIndex ilw.vss ilw.services)).1,
        HeldBy ilw x := fun x hx => Or.inr ⟨v, hvin, hsep.1 x hx⟩
    split at hsome
    · cases hsome
    · split at hsome
      · cases hsome
      · split at hsome
        · simp only [Option.some.injEq] at hsome
          subst hsome
          exact ⟨hostHeld, fun s hs => svcHeld s (List.mem_filter.mp hs).1⟩
        · split at hsome
          · simp only [Option.some.injEq] at hsome
            subst hsome
            exact ⟨hostHeld, fun s hs => by simp at hs⟩
          · cases hsome
  generalize hD : (isort _ _ : List Svc) = defaults at hh
  have hdef : ∀ s ∈ defaults, HeldBy ilw s.hostname := by
    intro s hs
    rw [← hD] at hs
    have hs := (mem_isort _ _ _).mp hs
    obtain ⟨e, he, rfl⟩ := List.mem_map.mp hs
    obtain ⟨s0, hs0, _, h2⟩ := hreg e (List.mem_filter.mp he).1
    exact Or.inl ⟨s0, hs0, h2.symm⟩
  have hall : ∀ w ∈ wrappers ++ defaults.map (fun sv => (([] : List String), [sv])),
      (∀ x ∈ w.1, HeldBy ilw x) ∧ (∀ s ∈ w.2, HeldBy ilw s.hostname) := by
    intro w hw
    rcases List.mem_append.mp hw with hw | hw
    · exact hwr w hw
    · obtain ⟨sv, hsv, rfl⟩ := List.mem_map.mp hw
      exact ⟨fun x hx => by simp at hx, fun s hs => by
        simp only [List.mem_singleton] at hs; subst hs; exact hdef _ hsv⟩
  revert hh
  generalize (wrappers ++ defaults.map (fun sv => (([] : List String), [sv]))) = all at hall
  intro hh
  have inv : ∀ x ∈ (all.foldl (fun (st : List String × List String × List String) w =>
      let st1 := w.1.foldl (fun (st : List String × List String × List String) h =>
        if st.1.contains h then st
        else if st.2.2.contains h then (st.1 ++ [h], st.2.1, st.2.2)
        else (st.1 ++ [h], st.2.1 ++ [h], st.2.2 ++ [h])) st
      w.2.foldl (fun (st : List String × List String × List String) sv =>
        if st.1.contains sv.hostname then st
        else (st.1 ++ [sv.hostname], st.2.1 ++ [sv.hostname], st.2.2 ++ vhostDomains sv)) st1)
      (([] : List String), ([] : List String), ([] : List String))).2.1, HeldBy ilw x := by
    apply foldl_inv (P := fun (st : List String × List String × List String) => ∀ x ∈ st.2.1, HeldBy ilw x)
    · intro x hx; simp at hx
    · intro st w hw hst
      simp only
      apply foldl_inv (P := fun (st : List String × List String × List String) => ∀ x ∈ st.2.1, HeldBy ilw x)
      · apply foldl_inv (P := fun (st : List String × List String × List String) => ∀ x ∈ st.2.1, HeldBy ilw x)
        · exact hst
        · intro st2 h hh2 hst2
          split
          · exact hst2
          · split
            · exact hst2
            · intro x hx
              rcases List.mem_append.mp hx with hx | hx
              · exact hst2 x hx
              · simp only [List.mem_singleton] at hx; subst hx; exact (hall w hw).1 _ hh2
      · intro st2 sv hsv hst2
        split
        · exact hst2
        · intro x hx
          rcases List.mem_append.mp hx with hx | hx
          · exact hst2 x hx
          · simp only [List.mem_singleton] at hx; subst hx; exact (hall w hw).2 _ hsv
  exact inv h hh

/-- LDS: every outbound listener key of an egress listener stands for a (non-alias) service of that
    listener: its address is the service's VIP, the wildcard address or the listener's own bind, and its
    port is the listener's port or a port of the service. -/
theorem lds_keys_sound (raw : List Svc) (l : Listener) (ilw : ILW) :
    ∀ k ∈ listenerKeys raw (some l) ilw, ∃ s ∈ ilw.services, ∃ addr port,
      k = addr ++ "_" ++ toString port ∧
      (addr = vipOf raw s ∨ addr = "0.0.0.0" ∨ addr = l.bind) ∧
      (port = l.port ∨ ∃ p ∈ s.ports, p.num = port) := by
  intro k hk
  unfold listenerKeys at hk
  simp only at hk
  split at hk
  · split at hk
    · split at hk
      · simp at hk
      · rename_i hne
        simp only [List.mem_singleton] at hk
        have : ∃ s, s ∈ ilw.services.filter (!·.isAlias) := by
          cases hf : ilw.services.filter (!·.isAlias) with
          | nil => simp [hf] at hne
          | cons a t => exact ⟨a, List.mem_cons_self⟩
        obtain ⟨s, hs⟩ := this
        refine ⟨s, (List.mem_filter.mp hs).1, _, l.port, hk, ?_, Or.inl rfl⟩
        split
        · exact Or.inr (Or.inr rfl)
        · exact Or.inr (Or.inl rfl)
    · obtain ⟨s, hs, rfl⟩ := List.mem_map.mp hk
      refine ⟨s, (List.mem_filter.mp hs).1, _, l.port, rfl, ?_, Or.inl rfl⟩
      split
      · exact Or.inr (Or.inr rfl)
      · exact Or.inl rfl
  · obtain ⟨s, hs, hk⟩ := List.mem_flatMap.mp hk
    obtain ⟨p, hp, rfl⟩ := List.mem_map.mp hk
    refine ⟨s, (List.mem_filter.mp hs).1, _, p.num, rfl, ?_, Or.inr ⟨p, hp, rfl⟩⟩
    split
    · exact Or.inr (Or.inl rfl)
    · exact Or.inl rfl

end IstioModel.C07
