import IstioModel.C07.Vis

/-!
C07 - sidecar scope: exact model of `pilot/pkg/model/sidecar.go`
(`convertIstioListenerToWrapper` host parsing, `hostClassification.{Matches,Excluded,VSMatches}`,
`selectServices` (both `UnifiedSidecarScoping` branches), `matchingService`, `matchingAliasService`,
`serviceMatchingListenerPort`, `serviceMatchingVirtualServicePorts`, `servicesForExactHosts`,
`collectImportedServices`, `pickFirstVisibleNamespace`, `pickBestVisibleNamespace`,
`appendSidecarServices`, `canMergeServices`, `convertToSidecarScope`, `DefaultSidecarScopeForGateway`),
of `virtualservice.go` `SelectVirtualServices`, of `push_context.go`
`virtualServiceDestinationsFilteredBySourceNamespace`, `initVirtualServices` (mesh gateway part),
`initSidecarScopes` / `getSidecarScope` (which Sidecar applies).

Go maps are association lists in first-insertion order; where Go iterates a map the model iterates
that list (the harness canonicalises the order-dependent outputs; `pickBest` is order independent
under the generator's invariants, see ScopeTheorems).
-/
namespace IstioModel.C07

/-! ### association lists -/

def alookup {α : Type} (k : String) : List (String × α) → Option α
  | [] => none
  | (k', v) :: t => if k' = k then some v else alookup k t

def ainsert {α : Type} (k : String) (v : α) : List (String × α) → List (String × α)
  | [] => [(k, v)]
  | (k', v') :: t => if k' = k then (k, v) :: t else (k', v') :: ainsert k v t

/-! ### egress host parsing (`convertIstioListenerToWrapper`) -/

structure PHost where
  excluded : Bool
  ns : String
  name : String
deriving DecidableEq, Repr, Inhabited

/-- one entry of `IstioEgressListener.Hosts`; `none` = "Illegal host in sidecar resource". -/
def parseHost (cfgNs : String) (h : String) : Option PHost :=
  let cs := h.toList
  if (cs.filter (· == '/')).length != 1 then none
  else
    let nsL := cs.takeWhile (· != '/')
    let nameL := (cs.dropWhile (· != '/')).drop 1
    let excluded := nsL.head? == some '~'
    let ns1 := if excluded then (if (nsL.drop 1).isEmpty then ['*'] else nsL.drop 1) else nsL
    let ns2 := if ns1 == ['.'] then cfgNs else String.ofList ns1
    some { excluded := excluded, ns := ns2, name := String.ofList nameL }

def parseHosts (cfgNs : String) (hosts : List String) : List PHost :=
  hosts.filterMap (parseHost cfgNs)

/-- `hostClassification` (`exactHosts` is the set of non-wildcard members of `allHosts`). -/
structure HostClass where
  all : List String
  excluded : List String
deriving Repr, Inhabited

def HostClass.exact (hc : HostClass) : List String := hc.all.filter fun h => !isWild h

/-- `hostsByNamespace[k]` -/
def hcFor (ps : List PHost) (k : String) : Option HostClass :=
  let mine := ps.filter (·.ns == k)
  if mine.isEmpty then none
  else some { all := (mine.filter (!·.excluded)).map (·.name),
              excluded := (mine.filter (·.excluded)).map (·.name) }

/-- the keys of `hostsByNamespace` (first-insertion order) -/
def hostKeys (ps : List PHost) : List String := (ps.map (·.ns)).eraseDups

/-- `allExactHosts` -/
def allExact (ps : List PHost) : Bool :=
  ps.all fun p => p.excluded || (!isWild p.name && p.ns != "*")

/-- `hostClassification.Excluded` -/
def HostClass.isExcluded (hc : HostClass) (h : String) : Bool :=
  hc.excluded.any fun e => subsetOf h e

/-- `hostClassification.Matches` -/
def HostClass.matchesHost (hc : HostClass) (h : String) : Bool :=
  hc.exact.contains h ||
  hc.all.any fun imp => !(!isWild h && !isWild imp) && subsetOf h imp

/-- `hostClassification.VSMatches` -/
def HostClass.vsMatches (hc : HostClass) (h : String) (gw : Bool) : Bool :=
  hc.exact.contains h ||
  hc.all.any fun imp => !(!isWild h && !isWild imp) &&
    (if gw then subsetOf h imp else hostMatches h imp)

def exclBy (o : Option HostClass) (h : String) : Bool :=
  match o with
  | some hc => hc.isExcluded h
  | none => false

/-! ### port / alias trimming -/

/-- `serviceMatchingListenerPort` -/
def svcMatchingListenerPort (s : Svc) (p : Nat) : Option Svc :=
  match s.ports.find? (·.num == p) with
  | some port => if s.ports.length == 1 then some s else some { s with ports := [port] }
  | none => none

/-- `serviceMatchingVirtualServicePorts` -/
def svcMatchingVSPorts (s : Svc) (ports : List Nat) : Option Svc :=
  if ports.isEmpty || ports.contains 0 then some s
  else
    let found := s.ports.filter fun p => ports.contains p.num
    if found.length == s.ports.length then some s
    else if found.length > 0 then some { s with ports := found }
    else none

/-- `matchingService` (`mp` = the listener port when `ilw.matchPort`) -/
def matchingService (hc : HostClass) (s : Svc) (mp : Option Nat) : Option Svc :=
  if hc.matchesHost s.hostname then
    match mp with
    | some p => svcMatchingListenerPort s p
    | none => some s
  else none

/-- `matchingAliasService` -/
def matchingAliasService (hc : HostClass) (o : Option Svc) : Option Svc :=
  match o with
  | none => none
  | some s =>
    let matched := s.aliases.filter fun a => hc.matchesHost a.2
    if matched.length == s.aliases.length then some s else some { s with aliases := matched }

/-! ### `selectServices` -/

/-- body of the first loop of `selectServices` for one candidate -/
def importOne (ps : List PHost) (mp : Option Nat) (s : Svc) : Option Svc :=
  let nsH := hcFor ps s.ns
  let wH := hcFor ps "*"
  if exclBy nsH s.hostname || exclBy wH s.hostname then none
  else
    match (match nsH with
           | some hc => matchingAliasService hc (matchingService hc s mp)
           | none => none) with
    | some r => some r
    | none =>
      match wH with
      | some hc => matchingAliasService hc (matchingService hc s mp)
      | none => none

structure NP where
  ns : String
  k8s : Bool
deriving Repr, Inhabited

/-- one step of the unified tie-break map `validServices` -/
def validStepU (cfgNs : String) (acc : List (String × NP)) (svc : Svc) : List (String × NP) :=
  let np : NP := { ns := svc.ns, k8s := svc.k8s }
  match alookup svc.hostname acc with
  | none => ainsert svc.hostname np acc
  | some ex =>
    if svc.ns == cfgNs then ainsert svc.hostname np acc
    else if !ex.k8s && np.k8s && (np.ns == cfgNs || ex.ns != cfgNs) then ainsert svc.hostname np acc
    else acc

/-- one step of the legacy tie-break map -/
def validStepL (cfgNs : String) (acc : List (String × String)) (svc : Svc) : List (String × String) :=
  match alookup svc.hostname acc with
  | none => ainsert svc.hostname svc.ns acc
  | some _ => if svc.ns == cfgNs then ainsert svc.hostname svc.ns acc else acc

/-- `IstioEgressListenerWrapper.selectServices` -/
def selectServices (unified : Bool) (cfgNs : String) (ps : List PHost) (mp : Option Nat)
    (cands : List Svc) : List Svc :=
  let imported := cands.filterMap (importOne ps mp)
  if unified then
    let valid := imported.foldl (validStepU cfgNs) []
    imported.filter fun svc =>
      match alookup svc.hostname valid with
      | some np => np.ns == svc.ns
      | none => "" == svc.ns
  else
    let valid := imported.foldl (validStepL cfgNs) []
    imported.filter fun svc =>
      match alookup svc.hostname valid with
      | some ns => ns == svc.ns
      | none => "" == svc.ns

/-! ### exact-host fast path -/

/-- the `HostnameAndNamespace` entries the exact hosts name (all of them, visible or not) -/
def exactLookups (svcs : List Svc) (ps : List PHost) : List Svc :=
  (hostKeys ps).flatMap fun ns =>
    match hcFor ps ns with
    | none => []
    | some hc => hc.exact.eraseDups.filterMap fun h => lookupHN svcs h ns

/-- `PushContext.servicesForExactHosts`.  `exactGuard` = the repaired behaviour: when an indexed
    service is hidden from `cfgNs` the index cannot answer (it keeps one service per (hostname,
    namespace)) and the scan list is returned; `false` = before the fix (hidden entries skipped). -/
def servicesForExactHosts (exactGuard : Bool) (m : Mesh) (svcs : List Svc) (cfgNs : String) (ps : List PHost) : List Svc :=
  let looked := exactLookups svcs ps
  if exactGuard && looked.any (fun s => !isServiceVisible m s cfgNs) then
    servicesExportedToNamespace m svcs cfgNs
  else sortServices (looked.filter fun s => isServiceVisible m s cfgNs)

/-! ### VirtualServices -/

structure Dest where
  host : String
  port : Nat
deriving DecidableEq, Repr, Inhabited

structure HttpRoute where
  srcNs : List String     -- `sourceNamespace` of each HTTPMatchRequest
  dests : List Dest       -- route / mirror destinations
  delegate : Option (String × String) := none   -- (namespace or "", name) of a delegate VirtualService
deriving Repr, Inhabited

structure VS where
  name : String
  ns : String
  ctime : Nat
  hosts : List String
  exportTo : List String
  gateways : List String
  gwSem : Bool            -- `UseGatewaySemantics`
  http : List HttpRoute
  tcp : List Dest         -- tcp and tls route destinations
deriving Repr, Inhabited

def cfgLe (c1 : Nat) (n1 s1 : String) (c2 : Nat) (n2 s2 : String) : Bool :=
  if c1 != c2 then c1 < c2
  else if n1 != n2 then n1 < n2
  else !(s2 < s1)

/-- `sortMergedVirtualServicesByCreationTime` -/
def sortVS (l : List VS) : List VS := isort (fun a b => cfgLe a.ctime a.name a.ns b.ctime b.name b.ns) l

/-- exportTo of a merged VirtualService: `convertExportToSet` / `copyDefaultExportToSet`
    (`.` becomes the namespace), the mesh default when unset. -/
def vsExport (m : Mesh) (v : VS) : List String :=
  let conv := fun (l : List String) => l.map fun e => if e == "." then v.ns else e
  let e := if v.exportTo.isEmpty then conv (defaultExport m.defVS) else conv v.exportTo
  if e.isEmpty then defaultExport m.defVS else e

/-- `getGatewayNames` contains `mesh` -/
def vsOnMesh (v : VS) : Bool := v.gateways.isEmpty || v.gateways.contains "mesh"

/-- `ResolveShortnameToFQDN` (config domain `cluster.local`): a name without a dot gets the config's
    namespace and the Kubernetes service domain appended; `*`, the empty name and names with a dot are
    left alone (IP addresses are not generated) -/
def resolveShort (ns h : String) : String :=
  if h == "" || h == "*" || h.contains '.' then h else h ++ "." ++ ns ++ ".svc.cluster.local"

/-- `ResolveVirtualServiceShortnames`: hosts and every route destination -/
def resolveVSNames (v : VS) : VS :=
  let rd := fun (d : Dest) => { d with host := resolveShort v.ns d.host }
  { v with hosts := v.hosts.map (resolveShort v.ns),
           http := v.http.map (fun r => { r with dests := r.dests.map rd }),
           tcp := v.tcp.map rd }

/-- `resolveGatewayName` for the forms `mesh`, short name, `./name`, `ns/name` (a gateway-semantics
    VirtualService is not resolved) -/
def resolveGw (v : VS) (g : String) : String :=
  if g == "mesh" || v.gwSem then g
  else match g.splitOn "/" with
    | [short] => v.ns ++ "/" ++ short
    | ["." , name] => v.ns ++ "/" ++ name
    | _ => g

/-- `getGatewayNames` after resolution -/
def gwNamesOf (v : VS) : List String :=
  if v.gateways.isEmpty then ["mesh"] else v.gateways.map (resolveGw v)

/-- the VirtualService is bound to gateway `gw` -/
def vsOnGw (v : VS) (gw : String) : Bool := (gwNamesOf v).contains gw

/-- `virtualServiceIndex.publicByGateway[gw]` -/
def vsPublicGw (m : Mesh) (vss : List VS) (gw : String) : List VS :=
  vss.filter fun v => vsOnGw v gw && (vsExport m v).contains "*"

/-- `virtualServiceIndex.privateByNamespaceAndGateway[(ns, gw)]` -/
def vsPrivateGw (m : Mesh) (vss : List VS) (ns gw : String) : List VS :=
  vss.filter fun v =>
    let e := vsExport m v
    vsOnGw v gw && !e.contains "*" && !e.contains "~" && v.ns == ns && e.contains ns

/-- `virtualServiceIndex.exportedToNamespaceByGateway[(ns, gw)]` -/
def vsExportedGw (m : Mesh) (vss : List VS) (ns gw : String) : List VS :=
  vss.filter fun v =>
    let e := vsExport m v
    vsOnGw v gw && !e.contains "*" && !e.contains "~" && v.ns != ns && e.contains ns

/-- `virtualServiceIndex.publicByGateway[mesh]` -/
def vsPublic (m : Mesh) (vss : List VS) : List VS :=
  vss.filter fun v => vsOnMesh v && (vsExport m v).contains "*"

/-- `virtualServiceIndex.privateByNamespaceAndGateway[(ns, mesh)]` -/
def vsPrivate (m : Mesh) (vss : List VS) (ns : String) : List VS :=
  vss.filter fun v =>
    let e := vsExport m v
    vsOnMesh v && !e.contains "*" && !e.contains "~" && v.ns == ns && e.contains ns

/-- `virtualServiceIndex.exportedToNamespaceByGateway[(ns, mesh)]` -/
def vsExported (m : Mesh) (vss : List VS) (ns : String) : List VS :=
  vss.filter fun v =>
    let e := vsExport m v
    vsOnMesh v && !e.contains "*" && !e.contains "~" && v.ns != ns && e.contains ns

/-- `addVirtualService` closure of `SelectVirtualServices` -/
def addVS (ps : List PHost) (acc : List VS) (c : VS) (hc : HostClass) : List VS :=
  if acc.any (fun x => x.ns == c.ns && x.name == c.name) then acc
  else
    let nsExcl := hcFor ps c.ns
    let wExcl := hcFor ps "*"
    if c.hosts.any (fun h => hc.vsMatches h c.gwSem && !(exclBy nsExcl h || exclBy wExcl h))
    then acc ++ [c] else acc

/-- loop body of `loopAndAdd` -/
def visitVS (ps : List PHost) (acc : List VS) (c : VS) : List VS :=
  let acc1 := match hcFor ps c.ns with
    | some hc => addVS ps acc c hc
    | none => acc
  match hcFor ps "*" with
  | some hc => addVS ps acc1 c hc
  | none => acc1

def loopAndAdd (unified : Bool) (cfgNs : String) (ps : List PHost) (acc : List VS) (vses : List VS) : List VS :=
  if unified then
    let first := vses.filter fun c => c.gwSem && c.ns == cfgNs
    let second := vses.filter fun c => !(c.gwSem && c.ns == cfgNs)
    (first ++ second).foldl (visitVS ps) acc
  else vses.foldl (visitVS ps) acc

/-- `SelectVirtualServices` -/
def selectVirtualServices (unified : Bool) (m : Mesh) (vss : List VS) (cfgNs : String) (ps : List PHost) : List VS :=
  let a := loopAndAdd unified cfgNs ps [] (vsPrivate m vss cfgNs)
  let b := loopAndAdd unified cfgNs ps a (vsExported m vss cfgNs)
  loopAndAdd unified cfgNs ps b (vsPublic m vss)

/-- the `sourceNamespace` filter of `virtualServiceDestinationsFilteredBySourceNamespace` -/
def nsMatchedGo (cfgNs : String) (cur : Bool) : List String → Bool
  | [] => cur
  | s :: t => if s != "" then (if s == cfgNs then true else nsMatchedGo cfgNs false t) else nsMatchedGo cfgNs cur t

/-- `virtualServiceDestinationsFilteredBySourceNamespace`: host -> set of ports (0 = no port). -/
def vsDestinations (v : VS) (cfgNs : String) : List (String × List Nat) :=
  let ds := (v.http.filter fun r => cfgNs == "" || nsMatchedGo cfgNs true r.srcNs).flatMap (·.dests) ++ v.tcp
  -- `collectImportedServices` visits the destinations in hostname order
  (isort (fun a b => !(b < a)) ((ds.map (·.host)).eraseDups)).map fun h => (h, (ds.filter (·.host == h)).map (·.port))

/-! ### `appendSidecarServices` -/

/-- `canMergeServices` -/
def canMerge (a b : Svc) : Bool :=
  a.ns == b.ns && a.resolution == b.resolution && a.k8s == b.k8s && a.attr == b.attr &&
  (a.exportTo.all (b.exportTo.contains ·) && b.exportTo.all (a.exportTo.contains ·))

def mergePorts (ex : List Port) (new : List Port) : List Port :=
  new.foldl (fun acc p => if acc.any (·.num == p.num) then acc else acc ++ [p]) ex

def replaceHost (acc : List Svc) (s : Svc) : List Svc :=
  acc.map fun x => if x.hostname == s.hostname then s else x

/-- `SidecarScope.appendSidecarServices` (the pointer-equality shortcut is subsumed by the equal
    ports test: the same object has equal registry and equal ports). -/
def appendSvc (acc : List Svc) (s : Svc) : List Svc :=
  match acc.find? (·.hostname == s.hostname) with
  | none => acc ++ [s]
  | some ex =>
    if ex.k8s && !s.k8s then acc
    else if !ex.k8s && s.k8s then replaceHost acc s
    else if ex.ports == s.ports then acc
    else if !canMerge ex s then acc
    else replaceHost acc { ex with ports := mergePorts ex.ports s.ports }

/-! ### namespace choice for VirtualService destinations -/

def minStr : List String → Option String
  | [] => none
  | a :: t => match minStr t with
    | none => some a
    | some b => if b < a then some b else some a

/-- `pickFirstVisibleNamespace` -/
def pickFirst (m : Mesh) (byNs : List (String × Svc)) (cfgNs : String) : String :=
  match minStr ((byNs.filter fun p => isServiceVisible m p.2 cfgNs).map (·.1)) with
  | some ns => ns
  | none => ""

/-- `betterVisibleService`: a Kubernetes service beats any other, an older non-Kubernetes service
    beats a newer one, what remains equal goes to the alphabetically first namespace. -/
def betterVisible (a b : Svc) : Bool :=
  if a.k8s != b.k8s then a.k8s
  else if !a.k8s && a.ctime != b.ctime then a.ctime < b.ctime
  else a.ns < b.ns

/-- loop body of `pickBestVisibleNamespace` (`currentBestService`) -/
def bestStep (cur : Option Svc) (p : String × Svc) : Option Svc :=
  match cur with
  | none => some p.2
  | some c => if betterVisible p.2 c then some p.2 else some c

/-- `pickBestVisibleNamespace` -/
def pickBest (m : Mesh) (byNs : List (String × Svc)) (cfgNs : String) : String :=
  match (byNs.filter fun p => isServiceVisible m p.2 cfgNs).foldl bestStep none with
  | some s => s.ns
  | none => ""

/-! ### aliases must obey the exportTo of the ExternalName service they stand for -/

/-- the alias names an indexed service that is visible to `ns` -/
def aliasKept (m : Mesh) (svcs : List Svc) (ns : String) (a : String × String) : Bool :=
  match lookupHN svcs a.2 a.1 with
  | some t => isServiceVisible m t ns
  | none => false

/-- `PushContext.trimHiddenAlias` (`guard = false`: behaviour before the repair, aliases untouched) -/
def trimHiddenAlias (guard : Bool) (m : Mesh) (svcs : List Svc) (ns : String) (s : Svc) : Svc :=
  if !guard then s else
  let visible := s.aliases.filter (aliasKept m svcs ns)
  if visible.length == s.aliases.length then s else { s with aliases := visible }

/-! ### the scope -/

structure Listener where
  port : Nat := 0            -- IstioEgressListener.Port.Number
  httpProxy : Bool := false  -- Port.Protocol parses to HTTP_PROXY
  proto : String := ""       -- Port.Protocol as written ("" = no Port at all: a catch-all listener)
  bind : String := ""        -- IstioEgressListener.Bind (a unix domain socket path in the harness)
  hosts : List String
deriving Repr, Inhabited

/-- `needsPortMatch` + the port to match -/
def Listener.matchPort (l : Listener) : Option Nat :=
  if l.port != 0 && !l.httpProxy then some l.port else none

structure Flags where
  exclGuard : Bool := true    -- F14 repaired: a `~` entry also keeps a VirtualService destination out
  unified : Bool := true      -- PILOT_UNIFIED_SIDECAR_SCOPE
  pickBest : Bool := true     -- PILOT_SIDECAR_PICK_BEST_SERVICE_NAMESPACE
  enhanced : Bool := true     -- ENABLE_ENHANCED_DESTINATIONRULE_MERGE
  visGuard : Bool := true     -- the repaired `collectImportedServices` (false: behaviour before the fix)
  exactGuard : Bool := true   -- the repaired `servicesForExactHosts` (false: behaviour before the fix)
  aliasGuard : Bool := true   -- aliases hidden from the proxy namespace are dropped (false: before the fix)
deriving Repr, Inhabited

structure ILW where
  matchPort : Option Nat
  hosts : List PHost
  services : List Svc
  vss : List VS
deriving Repr, Inhabited

/-- `convertIstioListenerToWrapper` -/
def convertListener (f : Flags) (m : Mesh) (svcs : List Svc) (vss : List VS) (cfgNs : String) (l : Listener) : ILW :=
  let ps := parseHosts cfgNs l.hosts
  let cands := if allExact ps then servicesForExactHosts f.exactGuard m svcs cfgNs ps
               else servicesExportedToNamespace m svcs cfgNs
  { matchPort := l.matchPort, hosts := ps,
    vss := selectVirtualServices f.unified m vss cfgNs ps,
    services := selectServices f.unified cfgNs ps l.matchPort (cands.map (trimHiddenAlias f.aliasGuard m svcs cfgNs)) }

/-- the service a VirtualService destination host resolves to in `collectImportedServices`
    (before port trimming). -/
def resolveDest (f : Flags) (m : Mesh) (svcs : List Svc) (cfgNs : String) (h : String) : Option Svc :=
  let byNs := byNamespace svcs h
  match (alookup cfgNs byNs).filter (fun s => !f.visGuard || isServiceVisible m s cfgNs) with
  | some s => some s
  | none =>
    if byNs.isEmpty then none
    else
      let ns := if f.pickBest then pickBest m byNs cfgNs else pickFirst m byNs cfgNs
      if ns == "" then none else alookup ns byNs

/-- one VirtualService destination in `collectImportedServices` -/
def addVSDest (f : Flags) (m : Mesh) (svcs : List Svc) (cfgNs : String) (mp : Option Nat)
    (acc : List Svc) (d : String × List Nat) : List Svc :=
  match (resolveDest f m svcs cfgNs d.1).map (trimHiddenAlias f.aliasGuard m svcs cfgNs) with
  | none => acc
  | some s =>
    match (match mp with
           | some p => svcMatchingListenerPort s p
           | none => svcMatchingVSPorts s d.2) with
    | some x => appendSvc acc x
    | none => acc

/-- the service a VirtualService destination resolves to is covered by a `~` entry of the listener's hosts
    (scoped to the service's namespace or to every namespace): `IstioEgressListenerWrapper.excludes` -/
def destExcluded (f : Flags) (m : Mesh) (svcs : List Svc) (cfgNs : String) (ps : List PHost) (h : String) : Bool :=
  match resolveDest f m svcs cfgNs h with
  | some s => exclBy (hcFor ps s.ns) s.hostname || exclBy (hcFor ps "*") s.hostname
  | none => false

/-- one VirtualService destination, with the exclusion entries of the listener honoured (F14 repair) -/
def addVSDestX (f : Flags) (m : Mesh) (svcs : List Svc) (cfgNs : String) (ps : List PHost) (mp : Option Nat)
    (acc : List Svc) (d : String × List Nat) : List Svc :=
  if f.exclGuard && destExcluded f m svcs cfgNs ps d.1 then acc else addVSDest f m svcs cfgNs mp acc d

/-- one egress listener in `collectImportedServices` -/
def collectListener (f : Flags) (m : Mesh) (svcs : List Svc) (cfgNs : String) (acc : List Svc) (ilw : ILW) : List Svc :=
  let acc1 := ilw.services.foldl appendSvc acc
  ilw.vss.foldl (fun a v => (vsDestinations v cfgNs).foldl (addVSDestX f m svcs cfgNs ilw.hosts ilw.matchPort) a) acc1

/-- `SidecarScope.collectImportedServices` -/
def collectImportedServices (f : Flags) (m : Mesh) (svcs : List Svc) (cfgNs : String) (ls : List ILW) : List Svc :=
  ls.foldl (collectListener f m svcs cfgNs) []

structure Sidecar where
  name : String
  ns : String
  ctime : Nat
  selector : Option (List (String × String))   -- workloadSelector labels
  egress : List Listener
deriving Repr, Inhabited

def defaultListener : Listener := { hosts := ["*/*"] }

/-- the egress listeners of `initSidecarScopeInternalIndexes` -/
def egressOf (sc : Option Sidecar) : List Listener :=
  match sc with
  | some c => if c.egress.isEmpty then [defaultListener] else c.egress
  | none => [defaultListener]

def scopeListeners (f : Flags) (m : Mesh) (svcs : List Svc) (vss : List VS) (sc : Option Sidecar) (cfgNs : String) : List ILW :=
  (egressOf sc).map (convertListener f m svcs vss cfgNs)

/-- `SidecarScope.services` of `convertToSidecarScope(ps, sidecarConfig, configNamespace)` -/
def scopeServices (f : Flags) (m : Mesh) (svcs : List Svc) (vss : List VS) (sc : Option Sidecar) (cfgNs : String) : List Svc :=
  collectImportedServices f m svcs cfgNs (scopeListeners f m svcs vss sc cfgNs)

/-- `SidecarScope.services` of `DefaultSidecarScopeForGateway` -/
def gatewayScopeServices (aliasGuard : Bool) (m : Mesh) (svcs : List Svc) (cfgNs : String) : List Svc :=
  ((servicesExportedToNamespace m svcs cfgNs).map (trimHiddenAlias aliasGuard m svcs cfgNs)).foldl appendSvc []

/-- `PushContext.VirtualServicesForGateway(ns, gw)`: the VirtualService selection of a gateway
    (`gw` = `mesh` for the default scope's listener, `<ns>/<name>` for the servers of a Router) -/
def gatewayVirtualServices (m : Mesh) (vss : List VS) (ns gw : String) : List VS :=
  let pub := vsPublicGw m vss gw
  vsPrivateGw m vss ns gw ++ vsExportedGw m vss ns gw ++
    pub.filter (fun v => v.gwSem && v.ns == ns) ++ pub.filter (fun v => !(v.gwSem && v.ns == ns))

/-- `PushContext.GatewayServices` (PILOT_FILTER_GATEWAY_CLUSTER_CONFIG): of the services of the Router's
    scope, those that are a destination of a VirtualService bound to one of the Gateways the Router serves
    (`virtualServiceIndex.destinationsByGateway`; with PILOT_SCOPE_GATEWAY_TO_NAMESPACE only the routes
    that apply to the Gateway's namespace count).  `gateways` = `MergedGateway.GatewayNameForServer`. -/
def gatewayFilteredServices (nsScoped : Bool) (vss : List VS) (gateways : List String) (services : List Svc) : List Svc :=
  let hosts := vss.flatMap fun v => (gwNamesOf v).flatMap fun g =>
    if g == "mesh" || !gateways.contains g then []
    else
      let gwNs := match g.splitOn "/" with
        | [_] => v.ns
        | n :: _ => n
        | [] => v.ns
      (vsDestinations v (if nsScoped then gwNs else "")).map (·.1)
  services.filter fun s => hosts.contains s.hostname

/-! ### delegate VirtualServices (`mergeVirtualServices`) -/

/-- the delegate `(ns, name)` a route of `root` refers to (namespace defaults to the root's) -/
def findDelegate (all : List VS) (root : VS) (ref : String × String) : Option VS :=
  let dns := if ref.1 == "" then root.ns else ref.1
  all.find? fun d => d.hosts.isEmpty && d.ns == dns && d.name == ref.2

/-- the delegate is visible to the root VirtualService's namespace -/
def delegateVisible (m : Mesh) (d : VS) (rootNs : String) : Bool :=
  let e := vsExport m d
  e.contains "*" || e.contains rootNs

/-- `mergeHTTPMatchRequests` for matches that only carry `sourceNamespace` (`hasConflict`: a root match
    with a source namespace only admits delegate matches with the same one; `mergeHTTPMatchRequest`: the
    delegate match, its empty source namespace filled from the root).  `none` = conflict (the delegate
    route is ignored). -/
def mergeSrcNs (root dlg : List String) : Option (List String) :=
  if root.isEmpty then some dlg
  else if dlg.isEmpty then some root
  else
    let per := dlg.map fun d => (root.filter fun r => r == "" || d == r).map fun _ => d
    if per.any (·.isEmpty) then none
    else
      let out := per.flatMap id
      if out.isEmpty then none else some out

/-- `MergeHTTPRoutes`: every route of the delegate merged with the delegating route of the root -/
def mergeDelegateRoutes (rootRoute : HttpRoute) (dlg : List HttpRoute) : List HttpRoute :=
  dlg.filterMap fun r =>
    match mergeSrcNs rootRoute.srcNs r.srcNs with
    | none => none
    | some srcs => some { r with srcNs := srcs }

/-- the http routes of a root VirtualService after `mergeVirtualServices`: a delegating route is
    replaced by the (match-merged) routes of its delegate when that exists and is exported to the root's
    namespace, and dropped otherwise -/
def mergedHttp (m : Mesh) (all : List VS) (root : VS) : List HttpRoute :=
  root.http.flatMap fun r =>
    match r.delegate with
    | none => [r]
    | some ref =>
      match findDelegate all root ref with
      | none => []
      | some d => if delegateVisible m d root.ns then mergeDelegateRoutes r (resolveVSNames d).http else []

/-- `mergeVirtualServices`: delegates (no hosts) are not VirtualServices of their own; roots carry the
    merged routes (an Ingress/Gateway-semantics VirtualService is not merged) -/
def mergeVSs (m : Mesh) (all : List VS) : List VS :=
  (all.filter fun v => !v.hosts.isEmpty).map fun v =>
    if v.gwSem then v else let r := resolveVSNames v; { r with http := mergedHttp m all r }

/-! ### which Sidecar applies (`initSidecarScopes`, `getSidecarScope`) -/

def sortSidecars (l : List Sidecar) : List Sidecar :=
  let s := isort (fun a b => cfgLe a.ctime a.name a.ns b.ctime b.name b.ns) l
  s.filter (·.selector.isSome) ++ s.filter (·.selector.isNone)

/-- `labels.Instance.SubsetOf` -/
def labelsSubset (sel lbl : List (String × String)) : Bool :=
  sel.all fun kv => lbl.any fun kv' => kv'.1 == kv.1 && kv'.2 == kv.2

def rootSidecar (m : Mesh) (scs : List Sidecar) : Option Sidecar :=
  (sortSidecars scs).find? fun c => c.ns == m.rootNs && c.selector.isNone

/-- the Sidecar resource `getSidecarScope` uses for a sidecar proxy (none: the default scope) -/
def pickSidecar (m : Mesh) (scs : List Sidecar) (ns : String) (lbl : List (String × String)) : Option Sidecar :=
  match ((sortSidecars scs).filter (·.ns == ns)).find? (fun c =>
      match c.selector with
      | none => true
      | some sel => labelsSubset sel lbl) with
  | some c => some c
  | none => rootSidecar m scs

end IstioModel.C07
