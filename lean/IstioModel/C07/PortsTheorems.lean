import IstioModel.C07.ScopeTheorems

/-!
C07 - completeness including ports: when no other visible service carries the hostname, the
delivered service carries every port (number) of the mesh service, whatever other egress listeners
(port-bound ones that contribute a single port first) and VirtualService destinations contribute.
Also: the ports of a delivered service are ports of visible mesh services with the same hostname and
namespace (no invented ports).
-/
namespace IstioModel.C07

/-- `x` is the scope entry for `o`'s hostname and has all of `o`'s port numbers -/
def PortCover (o x : Svc) : Prop := x.hostname = o.hostname ∧ ∀ p ∈ o.ports, ∃ q ∈ x.ports, q.num = p.num

/-- every service under `o`'s hostname is a copy of `o` -/
def SameAs (o x : Svc) : Prop := x.hostname = o.hostname → x.core = o.core

structure CInv (o : Svc) (acc : List Svc) : Prop where
  nodup : (acc.map (·.hostname)).Nodup
  same : ∀ x ∈ acc, SameAs o x

theorem cinv_appendSvc {o : Svc} {acc : List Svc} {s : Svc} (h : CInv o acc) (hs : SameAs o s) :
    CInv o (appendSvc acc s) := by
  refine ⟨appendSvc_nodup_hostnames acc s h.nodup, ?_⟩
  intro x hx
  rcases mem_appendSvc hx with ⟨y, hy, hxy, _⟩ | rfl
  · intro hh
    exact hxy.trans (h.same y hy ((core_hostname hxy).symm.trans hh))
  · exact hs

/-- a covering entry survives `appendSidecarServices`, and a covering newcomer establishes one -/
theorem cover_appendSvc {o : Svc} {acc : List Svc} {s : Svc} (h : CInv o acc) (hs : SameAs o s)
    (hc : (∃ e ∈ acc, PortCover o e) ∨ PortCover o s) : ∃ e ∈ appendSvc acc s, PortCover o e := by
  unfold appendSvc
  cases hf : acc.find? (·.hostname == s.hostname) with
  | none =>
    simp only
    rcases hc with ⟨e, he, hce⟩ | hcs
    · exact ⟨e, List.mem_append_left _ he, hce⟩
    · exact ⟨s, by simp, hcs⟩
  | some ex =>
    have hex := List.mem_of_find?_eq_some hf
    have hexh : ex.hostname = s.hostname := by simpa using List.find?_some hf
    simp only
    by_cases hso : s.hostname = o.hostname
    · -- the newcomer is under o's hostname: ex and s are copies of o
      have hsc := hs hso
      have hexc := h.same ex hex (hexh.trans hso)
      have hk : ex.k8s = s.k8s := (core_k8s hexc).trans (core_k8s hsc).symm
      have hcm : canMerge ex s = true := canMerge_of_core (hexc.trans hsc.symm)
      -- the covering entry, if it is in acc, is ex itself
      have eIsEx : ∀ e ∈ acc, PortCover o e → e = ex := fun e he hce =>
        nodup_hostname_eq h.nodup he hex (hce.1.trans (hexh.trans hso).symm)
      have b1 : (ex.k8s && !s.k8s) = false := by rw [hk]; cases s.k8s <;> rfl
      have b2 : (!ex.k8s && s.k8s) = false := by rw [hk]; cases s.k8s <;> rfl
      simp only [b1, b2, Bool.false_eq_true, if_false, hcm, Bool.not_true]
      by_cases hp : ex.ports = s.ports
      · simp only [hp, beq_self_eq_true, if_true]
        rcases hc with ⟨e, he, hce⟩ | hcs
        · exact ⟨e, he, hce⟩
        · exact ⟨ex, hex, hexh.trans hso, by rw [hp]; exact hcs.2⟩
      · have : (ex.ports == s.ports) = false := by simpa using hp
        simp only [this, Bool.false_eq_true, if_false]
        refine ⟨{ ex with ports := mergePorts ex.ports s.ports },
          mem_replaceHost_new (n := { ex with ports := mergePorts ex.ports s.ports }) hex rfl, hexh.trans hso, ?_⟩
        intro p hp'
        rcases hc with ⟨e, he, hce⟩ | hcs
        · have := eIsEx e he hce; subst this
          obtain ⟨q, hq, hqn⟩ := hce.2 p hp'
          exact ⟨q, mergePorts_sub _ _ q hq, hqn⟩
        · obtain ⟨q, hq, hqn⟩ := hcs.2 p hp'
          obtain ⟨q', hq', hqn'⟩ := mergePorts_cover ex.ports s.ports q hq
          exact ⟨q', hq', hqn'.trans hqn⟩
    · -- the newcomer is under another hostname: entries under o's hostname are untouched
      have hcov : ∃ e ∈ acc, PortCover o e := by
        rcases hc with h1 | h1
        · exact h1
        · exact absurd h1.1 hso
      obtain ⟨e, he, hce⟩ := hcov
      have hne : e.hostname ≠ s.hostname := by rw [hce.1]; exact fun h => hso h.symm
      have inRep : ∀ n : Svc, n.hostname = s.hostname → e ∈ replaceHost acc n :=
        fun n hn => mem_replaceHost_other he (by rw [hn]; exact hne)
      split
      · exact ⟨e, he, hce⟩
      · split
        · exact ⟨e, inRep s rfl, hce⟩
        · split
          · exact ⟨e, he, hce⟩
          · split
            · exact ⟨e, he, hce⟩
            · exact ⟨e, inRep _ hexh, hce⟩

/-- invariant + cover along a fold whose steps either leave the list alone or append a copy-respecting service -/
theorem cover_foldl {α : Type} {o : Svc} (g : List Svc → α → List Svc) (l : List α)
    (hg : ∀ acc a, a ∈ l → g acc a = acc ∨ ∃ s, SameAs o s ∧ g acc a = appendSvc acc s)
    (acc : List Svc) (h : CInv o acc) :
    CInv o (l.foldl g acc) ∧ ((∃ e ∈ acc, PortCover o e) → ∃ e ∈ l.foldl g acc, PortCover o e) := by
  induction l generalizing acc with
  | nil => exact ⟨h, fun hc => hc⟩
  | cons a t ih =>
    rw [List.foldl_cons]
    have hstep : CInv o (g acc a) ∧ ((∃ e ∈ acc, PortCover o e) → ∃ e ∈ g acc a, PortCover o e) := by
      rcases hg acc a List.mem_cons_self with he | ⟨s, hs, he⟩
      · rw [he]; exact ⟨h, fun hc => hc⟩
      · rw [he]; exact ⟨cinv_appendSvc h hs, fun hc => cover_appendSvc h hs (Or.inl hc)⟩
    obtain ⟨i1, i2⟩ := ih (fun acc a ha => hg acc a (List.mem_cons_of_mem _ ha)) (g acc a) hstep.1
    exact ⟨i1, fun hc => i2 (hstep.2 hc)⟩

/-- the same fold, with one element that appends a covering service -/
theorem cover_foldl_establish {α : Type} {o : Svc} (g : List Svc → α → List Svc) (l : List α)
    (hg : ∀ acc a, a ∈ l → g acc a = acc ∨ ∃ s, SameAs o s ∧ g acc a = appendSvc acc s)
    (a0 : α) (ha0 : a0 ∈ l) (hest : ∀ acc, ∃ s, SameAs o s ∧ PortCover o s ∧ g acc a0 = appendSvc acc s)
    (acc : List Svc) (h : CInv o acc) :
    CInv o (l.foldl g acc) ∧ ∃ e ∈ l.foldl g acc, PortCover o e := by
  induction l generalizing acc with
  | nil => simp at ha0
  | cons a t ih =>
    rw [List.foldl_cons]
    rcases List.mem_cons.mp ha0 with h0 | h0
    · subst h0
      obtain ⟨s, hs, hcs, he⟩ := hest acc
      have hc : CInv o (g acc a0) := by rw [he]; exact cinv_appendSvc h hs
      have hcov : ∃ e ∈ g acc a0, PortCover o e := by rw [he]; exact cover_appendSvc h hs (Or.inr hcs)
      obtain ⟨i1, i2⟩ := cover_foldl g t (fun acc a ha => hg acc a (List.mem_cons_of_mem _ ha)) (g acc a0) hc
      exact ⟨i1, i2 hcov⟩
    · have hc : CInv o (g acc a) := by
        rcases hg acc a List.mem_cons_self with he | ⟨s, hs, he⟩
        · rw [he]; exact h
        · rw [he]; exact cinv_appendSvc h hs
      exact ih (fun acc a ha => hg acc a (List.mem_cons_of_mem _ ha)) h0 (g acc a) hc

/-- **scope_complete_unique_ports**: on the repaired code, a visible mesh service (well-formed export
    set) imported by a host entry of a port-unrestricted egress listener, whose hostname no other
    visible service carries, is delivered with every one of its port numbers. -/
theorem scope_complete_unique_ports (f : Flags) (hfix : f.visGuard = true)
    (m : Mesh) (svcs : List Svc) (vss : List VS) (sc : Option Sidecar) (cfgNs : String)
    (o : Svc) (ho : o ∈ svcs) (hv : isServiceVisible m o cfgNs = true)
    (l : Listener) (hl : l ∈ egressOf sc) (hmp : l.matchPort = none)
    (huniq : ∀ o' ∈ svcs, o'.hostname = o.hostname → isServiceVisible m o' cfgNs = true → o' = o)
    (hw0 : ∃ w0 ∈ (convertListener f m svcs vss cfgNs l).services, w0.hostname = o.hostname) :
    ∃ w ∈ scopeServices f m svcs vss sc cfgNs, w.core = o.core ∧ ∀ p ∈ o.ports, ∃ q ∈ w.ports, q.num = p.num := by
  -- every service a listener contributes is a copy of o if it is under o's hostname
  have sameListener : ∀ l' : Listener, ∀ x ∈ (convertListener f m svcs vss cfgNs l').services, SameAs o x := by
    intro l' x hx hh
    obtain ⟨o', ho', hc, hv', _⟩ := listener_services_sound f m svcs vss cfgNs l' x hx
    have := huniq o' ho' ((core_hostname hc).symm.trans hh) hv'
    exact this ▸ hc
  have sameDest : ∀ s, ∀ h, resolveDest f m svcs cfgNs h = some s → ∀ x, x.core = s.core → SameAs o x := by
    intro s h hr x hxs hh
    obtain ⟨h1, _, h3⟩ := resolveDest_some hr
    have := huniq s h1 ((core_hostname hxs).symm.trans hh) (h3 hfix)
    exact this ▸ hxs
  -- steps of the inner folds
  have stepDest : ∀ (mp : Option Nat) (acc : List Svc) (d : String × List Nat),
      addVSDest f m svcs cfgNs mp acc d = acc ∨ ∃ s, SameAs o s ∧ addVSDest f m svcs cfgNs mp acc d = appendSvc acc s := by
    intro mp acc d
    unfold addVSDest
    cases hr : resolveDest f m svcs cfgNs d.1 with
    | none => exact Or.inl rfl
    | some s =>
      simp only [Option.map_some]
      cases mp with
      | some p =>
        simp only
        cases hq : svcMatchingListenerPort (trimHiddenAlias f.aliasGuard m svcs cfgNs s) p with
        | none => exact Or.inl rfl
        | some x' =>
          exact Or.inr ⟨x', sameDest s _ hr x' ((listenerPort_some hq).1.trans (trim_core _ _ _ _ _).1), rfl⟩
      | none =>
        simp only
        cases hq : svcMatchingVSPorts (trimHiddenAlias f.aliasGuard m svcs cfgNs s) d.2 with
        | none => exact Or.inl rfl
        | some x' =>
          exact Or.inr ⟨x', sameDest s _ hr x' ((vsPorts_some hq).1.trans (trim_core _ _ _ _ _).1), rfl⟩
  -- the VirtualService part of a listener keeps the invariant and a cover
  have vsPart : ∀ (ilw : ILW) (acc : List Svc), CInv o acc →
      CInv o (ilw.vss.foldl (fun a v => (vsDestinations v cfgNs).foldl (addVSDestX f m svcs cfgNs ilw.hosts ilw.matchPort) a) acc) ∧
      ((∃ e ∈ acc, PortCover o e) →
        ∃ e ∈ ilw.vss.foldl (fun a v => (vsDestinations v cfgNs).foldl (addVSDestX f m svcs cfgNs ilw.hosts ilw.matchPort) a) acc, PortCover o e) := by
    intro ilw acc hacc
    -- flatten: a fold of folds is a fold over steps each of which is a destination step
    induction ilw.vss generalizing acc with
    | nil => exact ⟨hacc, fun hc => hc⟩
    | cons v t ih =>
      rw [List.foldl_cons]
      obtain ⟨j1, j2⟩ := cover_foldl (o := o) (addVSDestX f m svcs cfgNs ilw.hosts ilw.matchPort) (vsDestinations v cfgNs)
        (fun acc d _ => by
          unfold addVSDestX
          split
          · exact Or.inl rfl
          · exact stepDest ilw.matchPort acc d) acc hacc
      obtain ⟨i1, i2⟩ := ih _ j1
      exact ⟨i1, fun hc => i2 (j2 hc)⟩
  -- a whole listener keeps the invariant and a cover
  have listenerKeep : ∀ (l' : Listener) (acc : List Svc), CInv o acc →
      CInv o (collectListener f m svcs cfgNs acc (convertListener f m svcs vss cfgNs l')) ∧
      ((∃ e ∈ acc, PortCover o e) → ∃ e ∈ collectListener f m svcs cfgNs acc (convertListener f m svcs vss cfgNs l'), PortCover o e) := by
    intro l' acc hacc
    unfold collectListener
    obtain ⟨j1, j2⟩ := cover_foldl (o := o) appendSvc (convertListener f m svcs vss cfgNs l').services
      (fun acc a ha => Or.inr ⟨a, sameListener l' a ha, rfl⟩) acc hacc
    obtain ⟨i1, i2⟩ := vsPart (convertListener f m svcs vss cfgNs l') _ j1
    exact ⟨i1, fun hc => i2 (j2 hc)⟩
  -- the listener l establishes the cover
  obtain ⟨w0, hw0m, hw0h⟩ := hw0
  have w0cover : PortCover o w0 := by
    refine ⟨hw0h, ?_⟩
    have hx := hw0m
    simp only [convertListener, hmp] at hx
    obtain ⟨c, hc, hio⟩ := mem_selectServices hx
    obtain ⟨c0, hc0, rfl, hv0⟩ := mem_listener_cands hc
    have hp : w0.ports = c0.ports := (importOne_none_ports hio).trans (trim_core _ _ _ _ _).2
    have hcore := (importOne_some hio).1.trans (trim_core f.aliasGuard m svcs cfgNs c0).1
    have : c0 = o := huniq c0 hc0 ((core_hostname hcore).symm.trans hw0h) hv0
    subst this
    intro p hp'
    exact ⟨p, by rw [hp]; exact hp', rfl⟩
  have listenerEst : ∀ acc : List Svc, CInv o acc →
      CInv o (collectListener f m svcs cfgNs acc (convertListener f m svcs vss cfgNs l)) ∧
      ∃ e ∈ collectListener f m svcs cfgNs acc (convertListener f m svcs vss cfgNs l), PortCover o e := by
    intro acc hacc
    unfold collectListener
    obtain ⟨j1, j2⟩ := cover_foldl_establish (o := o) appendSvc (convertListener f m svcs vss cfgNs l).services
      (fun acc a ha => Or.inr ⟨a, sameListener l a ha, rfl⟩) w0 hw0m
      (fun acc => ⟨w0, sameListener l w0 hw0m, w0cover, rfl⟩) acc hacc
    obtain ⟨i1, i2⟩ := vsPart (convertListener f m svcs vss cfgNs l) _ j1
    exact ⟨i1, i2 j2⟩
  -- the fold over the listeners
  have outer : ∀ (ls : List Listener), l ∈ ls → ∀ acc : List Svc, CInv o acc →
      ∃ e ∈ (ls.map (convertListener f m svcs vss cfgNs)).foldl (collectListener f m svcs cfgNs) acc, PortCover o e := by
    intro ls
    induction ls with
    | nil => intro h; simp at h
    | cons a t ih =>
      intro hmem acc hacc
      simp only [List.map_cons, List.foldl_cons]
      rcases List.mem_cons.mp hmem with h0 | h0
      · subst h0
        obtain ⟨j1, j2⟩ := listenerEst acc hacc
        -- the remaining listeners keep it
        have rest : ∀ (t : List Listener) (acc : List Svc), CInv o acc → (∃ e ∈ acc, PortCover o e) →
            ∃ e ∈ (t.map (convertListener f m svcs vss cfgNs)).foldl (collectListener f m svcs cfgNs) acc, PortCover o e := by
          intro t
          induction t with
          | nil => intro acc _ hc; exact hc
          | cons b t' ih' =>
            intro acc hacc hc
            simp only [List.map_cons, List.foldl_cons]
            obtain ⟨k1, k2⟩ := listenerKeep b acc hacc
            exact ih' _ k1 (k2 hc)
        exact rest t _ j1 j2
      · obtain ⟨k1, _⟩ := listenerKeep a acc hacc
        exact ih h0 _ k1
  obtain ⟨e, he, hce⟩ := outer (egressOf sc) hl [] ⟨by simp, by simp⟩
  have heS : e ∈ scopeServices f m svcs vss sc cfgNs := he
  obtain ⟨o', ho', hc', hv'⟩ := scope_visible_sound f hfix m svcs vss sc cfgNs e heS
  have := huniq o' ho' ((core_hostname hc').symm.trans hce.1) hv'
  exact ⟨e, heS, this ▸ hc', hce.2⟩

/-- the statement with the hypotheses of `scope_complete_unique` -/
theorem scope_complete_unique_with_ports (f : Flags) (hfix : f.visGuard = true) (hx : f.exactGuard = true)
    (m : Mesh) (svcs : List Svc) (vss : List VS) (sc : Option Sidecar) (cfgNs : String) (hns : ValidNs cfgNs)
    (o : Svc) (ho : o ∈ svcs) (hv : isServiceVisible m o cfgNs = true) (hwf : ExportWF (serviceExportTo m o))
    (l : Listener) (hl : l ∈ egressOf sc) (hmp : l.matchPort = none)
    (himp : HostImports (parseHosts cfgNs l.hosts) o.ns o.hostname)
    (huniq : ∀ o' ∈ svcs, o'.hostname = o.hostname → isServiceVisible m o' cfgNs = true → o' = o) :
    ∃ w ∈ scopeServices f m svcs vss sc cfgNs, w.core = o.core ∧ ∀ p ∈ o.ports, ∃ q ∈ w.ports, q.num = p.num :=
  scope_complete_unique_ports f hfix m svcs vss sc cfgNs o ho hv l hl hmp huniq
    (listener_complete f hx m svcs vss cfgNs hns o ho hv hwf l hmp himp)

/-! ### no invented ports -/

theorem mem_mergePorts (ex new : List Port) : ∀ p ∈ mergePorts ex new, p ∈ ex ∨ p ∈ new := by
  unfold mergePorts
  induction new generalizing ex with
  | nil => intro p hp; exact Or.inl hp
  | cons a t ih =>
    intro p hp
    rw [List.foldl_cons] at hp
    rcases ih _ p hp with h | h
    · split at h
      · exact Or.inl h
      · rcases List.mem_append.mp h with h | h
        · exact Or.inl h
        · simp at h; exact Or.inr (h ▸ List.mem_cons_self)
    · exact Or.inr (List.mem_cons_of_mem _ h)

/-- every port of `x` is a port of a visible mesh service with `x`'s hostname and namespace -/
def PortsFrom (m : Mesh) (svcs : List Svc) (cfgNs : String) (x : Svc) : Prop :=
  ∀ p ∈ x.ports, ∃ o ∈ svcs, isServiceVisible m o cfgNs = true ∧ o.hostname = x.hostname ∧ o.ns = x.ns ∧ p ∈ o.ports

theorem canMerge_ns {a b : Svc} (h : canMerge a b = true) : a.ns = b.ns := by
  unfold canMerge at h
  simp only [Bool.and_eq_true, beq_iff_eq] at h
  exact h.1.1.1.1

theorem portsFrom_appendSvc {m : Mesh} {svcs : List Svc} {cfgNs : String} {acc : List Svc} {s : Svc}
    (hacc : ∀ x ∈ acc, PortsFrom m svcs cfgNs x) (hs : PortsFrom m svcs cfgNs s) :
    ∀ x ∈ appendSvc acc s, PortsFrom m svcs cfgNs x := by
  intro x hx
  unfold appendSvc at hx
  cases hf : acc.find? (·.hostname == s.hostname) with
  | none =>
    simp only [hf] at hx
    rcases List.mem_append.mp hx with h | h
    · exact hacc x h
    · simp at h; exact h ▸ hs
  | some ex =>
    have hex := List.mem_of_find?_eq_some hf
    have hexh : ex.hostname = s.hostname := by simpa using List.find?_some hf
    simp only [hf] at hx
    have rep : ∀ n : Svc, PortsFrom m svcs cfgNs n → x ∈ replaceHost acc n → PortsFrom m svcs cfgNs x := by
      intro n hn hxr
      rcases mem_replaceHost hxr with h | h
      · exact hacc x h
      · exact h ▸ hn
    split at hx
    · exact hacc x hx
    · split at hx
      · exact rep s hs hx
      · split at hx
        · exact hacc x hx
        · split at hx
          · exact hacc x hx
          · rename_i hcm
            refine rep _ ?_ hx
            have hns : ex.ns = s.ns := canMerge_ns (by simpa using hcm)
            intro p hp
            rcases mem_mergePorts ex.ports s.ports p hp with h | h
            · exact hacc ex hex p h
            · obtain ⟨o, ho, hv, hh, hn, hpo⟩ := hs p h
              exact ⟨o, ho, hv, hh.trans hexh.symm, hn.trans hns.symm, hpo⟩

/-- **scope_ports_sound**: on the repaired code no port of a delivered service is invented: it is a
    port of a visible mesh service with the same hostname and namespace (the service itself, or one it
    was merged with). -/
theorem scope_ports_sound (f : Flags) (hfix : f.visGuard = true) (m : Mesh) (svcs : List Svc) (vss : List VS)
    (sc : Option Sidecar) (cfgNs : String) :
    ∀ x ∈ scopeServices f m svcs vss sc cfgNs, PortsFrom m svcs cfgNs x := by
  have ofCopy : ∀ (o : Svc), o ∈ svcs → isServiceVisible m o cfgNs = true → ∀ x : Svc, x.core = o.core →
      (∀ p ∈ x.ports, p ∈ o.ports) → PortsFrom m svcs cfgNs x := by
    intro o ho hv x hc hp p hpx
    exact ⟨o, ho, hv, (core_hostname hc).symm, (core_ns hc).symm, hp p hpx⟩
  unfold scopeServices collectImportedServices scopeListeners
  apply foldl_inv (P := fun a => ∀ x ∈ a, PortsFrom m svcs cfgNs x)
  · intro x hx; simp at hx
  · intro acc ilw hilw hacc
    obtain ⟨l, _, rfl⟩ := List.mem_map.mp hilw
    unfold collectListener
    apply foldl_inv (P := fun a => ∀ x ∈ a, PortsFrom m svcs cfgNs x)
    · apply foldl_inv (P := fun a => ∀ x ∈ a, PortsFrom m svcs cfgNs x)
      · exact hacc
      · intro b a ha hb
        obtain ⟨o, ho, hc, hv, _, hp, _⟩ := listener_services_sound f m svcs vss cfgNs l a ha
        exact portsFrom_appendSvc hb (ofCopy o ho hv a hc hp)
    · intro b v _ hb
      apply foldl_inv (P := fun a => ∀ x ∈ a, PortsFrom m svcs cfgNs x)
      · exact hb
      · intro b' d _ hb'
        unfold addVSDestX
        split
        · exact hb'
        unfold addVSDest
        cases hr : resolveDest f m svcs cfgNs d.1 with
        | none => exact hb'
        | some s =>
          obtain ⟨h1, _, h3⟩ := resolveDest_some hr
          obtain ⟨tc, tp⟩ := trim_core f.aliasGuard m svcs cfgNs s
          simp only [Option.map_some]
          cases (convertListener f m svcs vss cfgNs l).matchPort with
          | some p =>
            simp only
            cases hq : svcMatchingListenerPort (trimHiddenAlias f.aliasGuard m svcs cfgNs s) p with
            | none => exact hb'
            | some x' =>
              obtain ⟨c1, c2, _, _⟩ := listenerPort_some hq
              exact portsFrom_appendSvc hb' (ofCopy s h1 (h3 hfix) x' (c1.trans tc) (fun q hq => tp ▸ c2 q hq))
          | none =>
            simp only
            cases hq : svcMatchingVSPorts (trimHiddenAlias f.aliasGuard m svcs cfgNs s) d.2 with
            | none => exact hb'
            | some x' =>
              obtain ⟨c1, c2, _⟩ := vsPorts_some hq
              exact portsFrom_appendSvc hb' (ofCopy s h1 (h3 hfix) x' (c1.trans tc) (fun q hq => tp ▸ c2 q hq))

end IstioModel.C07
