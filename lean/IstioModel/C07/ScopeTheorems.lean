import IstioModel.C07.ScopeLemmas

/-!
C07 - sidecar scope theorems.

`Imported` is the specification of "the Sidecar egress scope imports the service": some egress
listener of the applicable Sidecar (the single `*/*` listener when none applies) has a host entry
that imports it (`HostImports`: a non-excluded `ns/host`, `./host` or `*/host` entry covering the
hostname, no `~` entry covering it), or imports a VirtualService that routes to its hostname.
`Visible` (VisTheorems) is the specification of "exported to the namespace".
-/
namespace IstioModel.C07

/-- **spec**: the scope of `sc` (none = default scope) in namespace `cfgNs` imports service `o` -/
def Imported (f : Flags) (m : Mesh) (vss : List VS) (sc : Option Sidecar) (cfgNs : String) (o : Svc) : Prop :=
  ∃ l ∈ egressOf sc,
    HostImports (parseHosts cfgNs l.hosts) o.ns o.hostname ∨
    ∃ v ∈ selectVirtualServices f.unified m vss cfgNs (parseHosts cfgNs l.hosts),
      ∃ d ∈ vsDestinations v cfgNs, d.1 = o.hostname

theorem foldl_inv {β α : Type} (g : β → α → β) (P : β → Prop) (l : List α) (b : β) (hb : P b)
    (hstep : ∀ b a, a ∈ l → P b → P (g b a)) : P (l.foldl g b) := by
  induction l generalizing b with
  | nil => exact hb
  | cons a t ih =>
    rw [List.foldl_cons]
    exact ih (g b a) (hstep b a List.mem_cons_self hb) (fun b' a' ha' => hstep b' a' (List.mem_cons_of_mem _ ha'))

/-- invariant of `collectImportedServices` for one listener, for any predicate that only reads the
    core of a service -/
theorem collectListener_inv (Q : Svc → Prop) (hQ : ∀ x y : Svc, x.core = y.core → Q y → Q x)
    (f : Flags) (m : Mesh) (svcs : List Svc) (cfgNs : String) (acc : List Svc) (ilw : ILW)
    (hacc : ∀ x ∈ acc, Q x) (hsv : ∀ x ∈ ilw.services, Q x)
    (hvs : ∀ v ∈ ilw.vss, ∀ d ∈ vsDestinations v cfgNs, ∀ s, resolveDest f m svcs cfgNs d.1 = some s → Q s) :
    ∀ x ∈ collectListener f m svcs cfgNs acc ilw, Q x := by
  unfold collectListener
  have happ : ∀ (a : List Svc) (s : Svc), (∀ x ∈ a, Q x) → Q s → ∀ x ∈ appendSvc a s, Q x := by
    intro a s ha hs x hx
    rcases mem_appendSvc hx with ⟨y, hy, hxy⟩ | rfl
    · exact hQ x y hxy (ha y hy)
    · exact hs
  apply foldl_inv (P := fun a => ∀ x ∈ a, Q x)
  · apply foldl_inv (P := fun a => ∀ x ∈ a, Q x)
    · exact hacc
    · intro b a ha hb; exact happ b a hb (hsv a ha)
  · intro b v hv hb
    apply foldl_inv (P := fun a => ∀ x ∈ a, Q x)
    · exact hb
    · intro b' d hd hb'
      unfold addVSDest
      cases hr : resolveDest f m svcs cfgNs d.1 with
      | none => exact hb'
      | some s =>
        have hqs := hvs v hv d hd s hr
        simp only
        cases hmp : ilw.matchPort with
        | some p =>
          simp only
          cases hq : svcMatchingListenerPort s p with
          | none => exact hb'
          | some x' => exact happ b' x' hb' (hQ x' s (listenerPort_some hq).1 hqs)
        | none =>
          simp only
          cases hq : svcMatchingVSPorts s d.2 with
          | none => exact hb'
          | some x' => exact happ b' x' hb' (hQ x' s (vsPorts_some hq).1 hqs)

/-- **scope_sound**: on the repaired code every service of `SidecarScope.services` is (a port/alias
    trimmed or port-merged copy of) a service of the mesh that `IsServiceVisible` accepts for the
    proxy's namespace and that the scope imports - for every mesh, every service list (colliding
    hostnames, duplicates), every exportTo form and mesh default, every Sidecar or none, both
    `UnifiedSidecarScoping` / `PickBest` settings, and with or without the exact-host repair. -/
theorem scope_sound (f : Flags) (hfix : f.visGuard = true) (m : Mesh) (svcs : List Svc) (vss : List VS)
    (sc : Option Sidecar) (cfgNs : String) :
    ∀ s ∈ scopeServices f m svcs vss sc cfgNs,
      ∃ o ∈ svcs, s.core = o.core ∧ isServiceVisible m o cfgNs = true ∧ Imported f m vss sc cfgNs o := by
  let Q : Svc → Prop := fun s => ∃ o ∈ svcs, s.core = o.core ∧ isServiceVisible m o cfgNs = true ∧ Imported f m vss sc cfgNs o
  have hQ : ∀ x y : Svc, x.core = y.core → Q y → Q x := by
    rintro x y hxy ⟨o, ho, hyo, hv, hi⟩; exact ⟨o, ho, hxy.trans hyo, hv, hi⟩
  unfold scopeServices collectImportedServices scopeListeners
  apply foldl_inv (P := fun a => ∀ x ∈ a, Q x)
  · intro x hx; simp at hx
  · intro acc ilw hilw hacc
    obtain ⟨l, hl, rfl⟩ := List.mem_map.mp hilw
    apply collectListener_inv Q hQ f m svcs cfgNs acc _ hacc
    · -- explicitly imported services
      intro x hx
      simp only [convertListener] at hx
      obtain ⟨c, hc, hio⟩ := mem_selectServices hx
      obtain ⟨hcore, _, himp⟩ := importOne_some hio
      have hcv : c ∈ svcs ∧ isServiceVisible m c cfgNs = true := by
        split at hc
        · exact exact_sound hc
        · exact exported_sound m svcs cfgNs c hc
      exact ⟨c, hcv.1, hcore, hcv.2, l, hl, Or.inl himp⟩
    · -- destinations of imported VirtualServices
      intro v hv d hd s hr
      obtain ⟨h1, h2, h3⟩ := resolveDest_some hr
      simp only [convertListener] at hv
      exact ⟨s, h1, rfl, h3 hfix, l, hl, Or.inr ⟨v, hv, d, hd, h2.symm⟩⟩

/-- `scope_sound` against the documented visibility (`Visible`), for a real namespace name. -/
theorem scope_sound_spec (f : Flags) (hfix : f.visGuard = true) (m : Mesh) (svcs : List Svc) (vss : List VS)
    (sc : Option Sidecar) (cfgNs : String) (hns : ValidNs cfgNs) :
    ∀ s ∈ scopeServices f m svcs vss sc cfgNs,
      ∃ o ∈ svcs, s.core = o.core ∧ Visible m o cfgNs ∧ Imported f m vss sc cfgNs o := by
  intro s hs
  obtain ⟨o, ho, hc, hv, hi⟩ := scope_sound f hfix m svcs vss sc cfgNs s hs
  exact ⟨o, ho, hc, (visible_iff m o cfgNs hns).mp hv, hi⟩

/-! ### completeness -/

/-- **scope_complete**: on the repaired code, a mesh service that is visible to the proxy's
    namespace (with a well-formed export set) and imported by a host entry of a port-unrestricted
    egress listener is delivered - or displaced by the same-hostname tie-break, in which case the
    delivered service has the same hostname and is itself a visible, imported mesh service. -/
theorem scope_complete (f : Flags) (hfix : f.visGuard = true) (hx : f.exactGuard = true)
    (m : Mesh) (svcs : List Svc) (vss : List VS) (sc : Option Sidecar) (cfgNs : String) (hns : ValidNs cfgNs)
    (o : Svc) (ho : o ∈ svcs) (hv : isServiceVisible m o cfgNs = true) (hwf : ExportWF (serviceExportTo m o))
    (l : Listener) (hl : l ∈ egressOf sc) (hmp : l.matchPort = none)
    (himp : HostImports (parseHosts cfgNs l.hosts) o.ns o.hostname) :
    ∃ w ∈ scopeServices f m svcs vss sc cfgNs, w.hostname = o.hostname ∧
      ∃ o' ∈ svcs, w.core = o'.core ∧ isServiceVisible m o' cfgNs = true ∧ Imported f m vss sc cfgNs o' := by
  -- a candidate with the same hostname and namespace
  obtain ⟨c, hc, hch, hcn⟩ := cands_complete (ps := parseHosts cfgNs l.hosts) ho hv hwf hns himp
  -- it passes the import loop
  have himp' : HostImports (parseHosts cfgNs l.hosts) c.ns c.hostname := by rw [hch, hcn]; exact himp
  obtain ⟨c', hc', hcore⟩ := importOne_of_imports himp'
  -- the tie-break keeps the hostname
  obtain ⟨w, hw, hwh⟩ := selectServices_keeps_hostname (unified := f.unified) (cfgNs := cfgNs) hc hc'
  -- the listener's services reach the scope
  have hilw : convertListener f m svcs vss cfgNs l ∈ scopeListeners f m svcs vss sc cfgNs :=
    List.mem_map.mpr ⟨l, hl, rfl⟩
  have hw' : w ∈ (convertListener f m svcs vss cfgNs l).services := by
    simp only [convertListener, hmp, hx]; exact hw
  obtain ⟨x, hxm, hxh⟩ := collect_hostnames f m svcs cfgNs _ [] _ hilw w hw'
  refine ⟨x, hxm, ?_, ?_⟩
  · rw [hxh, hwh, core_hostname hcore, hch]
  · exact scope_sound f hfix m svcs vss sc cfgNs x hxm

/-- if moreover no other visible mesh service carries the hostname, the service itself is delivered -/
theorem scope_complete_unique (f : Flags) (hfix : f.visGuard = true) (hx : f.exactGuard = true)
    (m : Mesh) (svcs : List Svc) (vss : List VS) (sc : Option Sidecar) (cfgNs : String) (hns : ValidNs cfgNs)
    (o : Svc) (ho : o ∈ svcs) (hv : isServiceVisible m o cfgNs = true) (hwf : ExportWF (serviceExportTo m o))
    (l : Listener) (hl : l ∈ egressOf sc) (hmp : l.matchPort = none)
    (himp : HostImports (parseHosts cfgNs l.hosts) o.ns o.hostname)
    (huniq : ∀ o' ∈ svcs, o'.hostname = o.hostname → isServiceVisible m o' cfgNs = true → o' = o) :
    ∃ w ∈ scopeServices f m svcs vss sc cfgNs, w.core = o.core := by
  obtain ⟨w, hw, hwh, o', ho', hc, hv', _⟩ := scope_complete f hfix hx m svcs vss sc cfgNs hns o ho hv hwf l hl hmp himp
  have := huniq o' ho' ((core_hostname hc).symm.trans hwh) hv'
  exact ⟨w, hw, this ▸ hc⟩

/-- the default `*/*` listener imports every service -/
theorem default_imports_all (cfgNs ns h : String) : HostImports (parseHosts cfgNs defaultListener.hosts) ns h := by
  have hp : parseHosts cfgNs defaultListener.hosts = [{ excluded := false, ns := "*", name := "*" }] := by
    simp [parseHosts, defaultListener, parseHost]
  rw [hp]
  refine ⟨⟨_, List.mem_singleton.mpr rfl, rfl, Or.inr rfl, ?_⟩, ?_⟩
  · unfold subsetOf; exact subsetOf_star _
  · rintro ⟨p, hp, hx, _⟩
    rw [List.mem_singleton] at hp; subst hp; cases hx

/-- **default scope**: when no Sidecar applies every visible service (well-formed export set) is
    delivered or displaced by a visible service with the same hostname. -/
theorem default_scope_complete (f : Flags) (hfix : f.visGuard = true) (hx : f.exactGuard = true)
    (m : Mesh) (svcs : List Svc) (vss : List VS) (cfgNs : String) (hns : ValidNs cfgNs)
    (o : Svc) (ho : o ∈ svcs) (hv : isServiceVisible m o cfgNs = true) (hwf : ExportWF (serviceExportTo m o)) :
    ∃ w ∈ scopeServices f m svcs vss none cfgNs, w.hostname = o.hostname ∧
      ∃ o' ∈ svcs, w.core = o'.core ∧ isServiceVisible m o' cfgNs = true ∧ Imported f m vss none cfgNs o' :=
  scope_complete f hfix hx m svcs vss none cfgNs hns o ho hv hwf defaultListener (by simp [egressOf])
    (by simp [Listener.matchPort, defaultListener]) (default_imports_all cfgNs o.ns o.hostname)

/-! ### the two defects found (behaviour before the `fix:` commits), as theorems about the old model -/

def mkSvc (id hostname ns : String) (ctime : Nat) (k8s : Bool) (ports : List Nat) (exportTo : List String) : Svc :=
  { id := id, hostname := hostname, ns := ns, name := id, k8s := k8s, ctime := ctime,
    ports := ports.map (fun n => { num := n, name := "p" }), exportTo := exportTo, vis := .pub,
    resolution := 0, attr := "", aliases := [] }

def mkVS (name ns : String) (hosts : List String) (dests : List String) : VS :=
  { name := name, ns := ns, ctime := 1, hosts := hosts, exportTo := [], gateways := [], gwSem := false,
    http := [{ srcNs := [], dests := dests.map fun h => { host := h, port := 0 } }], tcp := [] }

/-- F7 mesh: `a.com` lives in ns1 but is exported to ns2 only; a VirtualService in ns1 routes to it. -/
def f7Svcs : List Svc := [mkSvc "s0" "a.com" "ns1" 1 false [80] ["ns2"], mkSvc "s1" "b.com" "ns1" 2 false [80] ["*"]]
def f7VS : List VS := [mkVS "v1" "ns1" ["b.com"] ["a.com"]]
def f7Sidecar : Sidecar := { name := "sc1", ns := "ns1", ctime := 1, selector := none, egress := [{ hosts := ["./b.com"] }] }

/-- the full soundness statement for a given flag setting -/
def ScopeSoundFor (f : Flags) : Prop :=
  ∀ (m : Mesh) (svcs : List Svc) (vss : List VS) (sc : Option Sidecar) (cfgNs : String),
    ∀ s ∈ scopeServices f m svcs vss sc cfgNs, isServiceVisible m s cfgNs = true

/-- **F7 witness**: before the repair (`visGuard = false`) the scope of a proxy in ns1 contains
    `a.com/ns1`, which is not exported to ns1 - with the default scope and with a Sidecar. -/
theorem scope_leak_witness_unfixed :
    (scopeServices { visGuard := false } {} f7Svcs f7VS none "ns1").any (fun s => !isServiceVisible {} s "ns1") = true ∧
    (scopeServices { visGuard := false } {} f7Svcs f7VS (some f7Sidecar) "ns1").any (fun s => !isServiceVisible {} s "ns1") = true ∧
    (scopeServices {} {} f7Svcs f7VS none "ns1").all (fun s => isServiceVisible {} s "ns1") = true := by
  decide +kernel

theorem scope_sound_fails_unfixed : ¬ ScopeSoundFor { visGuard := false } := by
  intro h
  have h1 := scope_leak_witness_unfixed.1
  obtain ⟨s, hs, hv⟩ := List.any_eq_true.mp h1
  have := h {} f7Svcs f7VS none "ns1" s hs
  simp [this] at hv

theorem scope_sound_holds_fixed (f : Flags) (hfix : f.visGuard = true) : ScopeSoundFor f := by
  intro m svcs vss sc cfgNs s hs
  obtain ⟨o, _, hc, hv, _⟩ := scope_sound f hfix m svcs vss sc cfgNs s hs
  rw [visible_of_core_eq m cfgNs hc]; exact hv

/-- F10 mesh: two ServiceEntries for `foo.com` in namespace `shared`, exported to different teams. -/
def f10Svcs : List Svc := [mkSvc "s0" "foo.com" "shared" 1 false [80] ["team-a"], mkSvc "s1" "foo.com" "shared" 2 false [80] ["team-b"]]
def f10Sidecar : Sidecar := { name := "sc1", ns := "team-b", ctime := 1, selector := none, egress := [{ hosts := ["shared/foo.com"] }] }
def f10SidecarW : Sidecar := { name := "sc1", ns := "team-b", ctime := 1, selector := none, egress := [{ hosts := ["shared/foo.com", "shared/*.nomatch"] }] }

/-- **F10 witness**: before the repair (`exactGuard = false`) a proxy in team-b that imports
    `shared/foo.com` by an exact host receives nothing, although `s1` is exported to team-b and
    imported; adding an unrelated wildcard host (scan path) delivers it; the repaired code delivers
    it on both paths. -/
theorem exact_path_incomplete_witness_unfixed :
    scopeServices { exactGuard := false } {} f10Svcs [] (some f10Sidecar) "team-b" = [] ∧
    (scopeServices { exactGuard := false } {} f10Svcs [] (some f10SidecarW) "team-b").map (·.id) = ["s1"] ∧
    (scopeServices {} {} f10Svcs [] (some f10Sidecar) "team-b").map (·.id) = ["s1"] ∧
    isServiceVisible {} (mkSvc "s1" "foo.com" "shared" 2 false [80] ["team-b"]) "team-b" = true := by
  decide +kernel

/-! ### exact-host fast path vs scan path -/

/-- no two services share (hostname, namespace) -/
def NoDupKey (svcs : List Svc) : Prop :=
  ∀ a ∈ svcs, ∀ b ∈ svcs, a.hostname = b.hostname → a.ns = b.ns → a = b

/-- **exact_fastpath_parity** (set level): when all egress hosts are exact and namespaced, no two
    services share (hostname, namespace) and export sets are well formed, the exact-host fast path and
    the scan path feed the same services through the import loop of `selectServices` (before and after
    the repair). -/
theorem exact_fastpath_parity (g : Bool) (m : Mesh) (svcs : List Svc) (cfgNs : String) (ps : List PHost) (mp : Option Nat)
    (hall : allExact ps = true) (hnd : NoDupKey svcs) (hwf : ∀ s ∈ svcs, ExportWF (serviceExportTo m s))
    (hns : ValidNs cfgNs) (c : Svc) :
    (c ∈ servicesForExactHosts g m svcs cfgNs ps ∧ (importOne ps mp c).isSome = true) ↔
    (c ∈ servicesExportedToNamespace m svcs cfgNs ∧ (importOne ps mp c).isSome = true) := by
  constructor
  · rintro ⟨hc, hi⟩
    obtain ⟨h1, h2⟩ := exact_sound hc
    exact ⟨exported_complete m svcs cfgNs c h1 h2 (hwf c h1) hns, hi⟩
  · rintro ⟨hc, hi⟩
    refine ⟨?_, hi⟩
    obtain ⟨h1, h2⟩ := exported_sound m svcs cfgNs c hc
    obtain ⟨c', hc'⟩ := Option.isSome_iff_exists.mp hi
    obtain ⟨_, _, himp⟩ := importOne_some hc'
    obtain ⟨p, hp, hpx, hpk, hpn, hw⟩ := exact_entry_of_imports hall himp
    have hl : lookupHN svcs c.hostname c.ns = some c :=
      lookupHN_of_unique svcs c h1 (fun x hx e1 e2 => hnd x hx c h1 e1 e2)
    have hlooked : c ∈ exactLookups svcs ps := by
      simp only [exactLookups, List.mem_flatMap]
      refine ⟨c.ns, ?_, ?_⟩
      · simp only [hostKeys, List.mem_eraseDups, List.mem_map]; exact ⟨p, hp, hpk⟩
      · obtain ⟨hc'', hh⟩ := hcFor_isSome hp hpk
        simp only [hh, List.mem_filterMap, List.mem_eraseDups]
        refine ⟨c.hostname, ?_, hl⟩
        simp only [HostClass.exact, List.mem_filter, Bool.not_eq_true']
        exact ⟨(hcFor_all hh c.hostname).mpr ⟨p, hp, hpk, hpx, hpn⟩, hw⟩
    simp only [servicesForExactHosts]
    split
    · exact hc
    · unfold sortServices
      rw [mem_isort, List.mem_filter]
      exact ⟨hlooked, h2⟩

/-- List-level parity (the claim of `TestSelectServicesExactParity`) does NOT hold in general.
    (1) order: the scan list is "explicitly exported first, public second", the fast path is in
    creation order, and the tie-break keeps the first namespace seen - so which namespace wins for a
    hostname imported from two namespaces depends on the path; both winners are visible and imported.
    (2) duplicates: with two services on the same (hostname, namespace) the fast path sees only the
    indexed one, the scan path merges the ports of both. -/
theorem fastpath_list_parity_fails_witness :
    let svcs := [mkSvc "s0" "foo.com" "ns1" 1 false [80] ["*"], mkSvc "s1" "foo.com" "ns2" 2 false [80] ["ns3"]]
    let ps := parseHosts "ns3" ["ns1/foo.com", "ns2/foo.com"]
    allExact ps = true ∧
    (selectServices true "ns3" ps none (servicesForExactHosts true {} svcs "ns3" ps)).map (·.id) = ["s0"] ∧
    (selectServices true "ns3" ps none (servicesExportedToNamespace {} svcs "ns3")).map (·.id) = ["s1"] := by
  decide +kernel

theorem fastpath_duplicate_key_witness :
    let svcs := [mkSvc "s0" "foo.com" "ns1" 1 false [80] ["*"], mkSvc "s1" "foo.com" "ns1" 2 false [443] ["*"]]
    let exact : Sidecar := { name := "a", ns := "ns3", ctime := 1, selector := none, egress := [{ hosts := ["ns1/foo.com"] }] }
    let scan : Sidecar := { name := "a", ns := "ns3", ctime := 1, selector := none, egress := [{ hosts := ["ns1/foo.com", "ns1/*.nomatch"] }] }
    (scopeServices {} {} svcs [] (some exact) "ns3").map (fun s => s.ports.map (·.num)) = [[80]] ∧
    (scopeServices {} {} svcs [] (some scan) "ns3").map (fun s => s.ports.map (·.num)) = [[80, 443]] := by
  decide +kernel

/-! ### gateway default scope -/

/-- `DefaultSidecarScopeForGateway`: only services visible to the gateway's namespace. -/
theorem gateway_scope_sound (m : Mesh) (svcs : List Svc) (cfgNs : String) :
    ∀ s ∈ gatewayScopeServices m svcs cfgNs, ∃ o ∈ svcs, s.core = o.core ∧ isServiceVisible m o cfgNs = true := by
  intro s hs
  unfold gatewayScopeServices at hs
  rcases mem_foldl_appendSvc hs with ⟨y, hy, _⟩ | ⟨y, hy, hc⟩
  · simp at hy
  · obtain ⟨h1, h2⟩ := exported_sound m svcs cfgNs y hy
    exact ⟨y, h1, hc, h2⟩

/-- ... and the hostname of every visible service (well-formed export set). -/
theorem gateway_scope_complete (m : Mesh) (svcs : List Svc) (cfgNs : String) (hns : ValidNs cfgNs)
    (o : Svc) (ho : o ∈ svcs) (hv : isServiceVisible m o cfgNs = true) (hwf : ExportWF (serviceExportTo m o)) :
    ∃ w ∈ gatewayScopeServices m svcs cfgNs, w.hostname = o.hostname :=
  (hostname_foldl_appendSvc _ []).2 o (exported_complete m svcs cfgNs o ho hv hwf hns)

/-- the scope never holds two services with the same hostname -/
theorem appendSvc_nodup_hostnames (acc : List Svc) (s : Svc)
    (h : (acc.map (·.hostname)).Nodup) : ((appendSvc acc s).map (·.hostname)).Nodup := by
  have hrep : ∀ n : Svc, n.hostname = s.hostname → (replaceHost acc n).map (·.hostname) = acc.map (·.hostname) := by
    intro n hn
    simp only [replaceHost, List.map_map]
    apply List.map_congr_left
    intro x _
    simp only [Function.comp]
    split
    · rename_i hx; rw [beq_iff_eq] at hx; exact hx.symm
    · rfl
  unfold appendSvc
  cases hf : acc.find? (·.hostname == s.hostname) with
  | none =>
    simp only [List.map_append, List.map_cons, List.map_nil]
    rw [List.nodup_append]
    refine ⟨h, by simp, ?_⟩
    intro a ha b hb hab
    simp at hb; subst hb
    obtain ⟨x, hx, hxa⟩ := List.mem_map.mp ha
    have := List.find?_eq_none.mp hf x hx
    simp [hxa, hab] at this
  | some ex =>
    have hexh : ex.hostname = s.hostname := by simpa using List.find?_some hf
    simp only
    split
    · exact h
    · split
      · rw [hrep s rfl]; exact h
      · split
        · exact h
        · split
          · exact h
          · rw [hrep { ex with ports := mergePorts ex.ports s.ports } hexh]; exact h

/-! ### `pickBestVisibleNamespace` ranges over a Go map: order independence -/

theorem oldest_isSome {l : List (String × Svc)} (h : l ≠ []) : ∃ p, oldest l = some p := by
  cases l with
  | nil => exact absurd rfl h
  | cons a t =>
    unfold oldest
    cases oldest t with
    | none => exact ⟨a, rfl⟩
    | some b => simp only; split <;> exact ⟨_, rfl⟩

theorem oldest_min {l : List (String × Svc)} {p : String × Svc} (h : oldest l = some p) :
    ∀ q ∈ l, p.2.ctime ≤ q.2.ctime := by
  induction l generalizing p with
  | nil => simp [oldest] at h
  | cons a t ih =>
    unfold oldest at h
    cases ho : oldest t with
    | none =>
      simp only [ho] at h; cases h
      intro q hq
      rcases List.mem_cons.mp hq with hq | hq
      · subst hq; exact Nat.le_refl _
      · cases t with
        | nil => simp at hq
        | cons b t' =>
          obtain ⟨r, hr⟩ := oldest_isSome (l := b :: t') (by simp)
          rw [ho] at hr; cases hr
    | some b =>
      simp only [ho] at h
      have hb := ih ho
      split at h
      · rename_i hlt
        cases h
        intro q hq
        rcases List.mem_cons.mp hq with hq | hq
        · subst hq; omega
        · exact hb q hq
      · rename_i hlt
        cases h
        intro q hq
        rcases List.mem_cons.mp hq with hq | hq
        · subst hq; exact Nat.le_refl _
        · have := hb q hq; omega

/-- **pickBest_order_independent_partial**: the namespace `pickBestVisibleNamespace` returns does
    not depend on the iteration order of the Go map, provided the visible Kubernetes services for the
    hostname live in one namespace and visible services with equal creation time live in one
    namespace (what the generator guarantees; otherwise see the witness below). -/
theorem pickBest_order_independent_partial (m : Mesh) (l1 l2 : List (String × Svc)) (cfgNs : String)
    (hperm : ∀ p, p ∈ l1 ↔ p ∈ l2)
    (hk : ∀ p ∈ l1, ∀ q ∈ l1, isServiceVisible m p.2 cfgNs = true → isServiceVisible m q.2 cfgNs = true →
      p.2.k8s = true → q.2.k8s = true → p.2.ns = q.2.ns)
    (hc : ∀ p ∈ l1, ∀ q ∈ l1, isServiceVisible m p.2 cfgNs = true → isServiceVisible m q.2 cfgNs = true →
      p.2.ctime = q.2.ctime → p.2.ns = q.2.ns) :
    pickBest m l1 cfgNs = pickBest m l2 cfgNs := by
  simp only [pickBest]
  have hv : ∀ p, p ∈ l1.filter (fun p => isServiceVisible m p.2 cfgNs) ↔ p ∈ l2.filter (fun p => isServiceVisible m p.2 cfgNs) := by
    intro p; simp only [List.mem_filter, hperm p]
  generalize hv1 : l1.filter (fun p => isServiceVisible m p.2 cfgNs) = v1 at hv
  generalize hv2 : l2.filter (fun p => isServiceVisible m p.2 cfgNs) = v2 at hv
  have inl1 : ∀ p ∈ v1, p ∈ l1 ∧ isServiceVisible m p.2 cfgNs = true := by
    intro p hp; rw [← hv1] at hp; exact List.mem_filter.mp hp
  cases hf1 : v1.find? (·.2.k8s) with
  | some p1 =>
    have hp1 := List.mem_of_find?_eq_some hf1
    have hp1k : p1.2.k8s = true := by simpa using List.find?_some hf1
    have : (v2.find? (·.2.k8s)).isSome = true := List.find?_isSome.mpr ⟨p1, (hv p1).mp hp1, hp1k⟩
    obtain ⟨p2, hf2⟩ := Option.isSome_iff_exists.mp this
    have hp2 := (hv p2).mpr (List.mem_of_find?_eq_some hf2)
    have hp2k : p2.2.k8s = true := by simpa using List.find?_some hf2
    simp only [hf2]
    exact hk p1 (inl1 p1 hp1).1 p2 (inl1 p2 hp2).1 (inl1 p1 hp1).2 (inl1 p2 hp2).2 hp1k hp2k
  | none =>
    have hn2 : v2.find? (·.2.k8s) = none := by
      rw [List.find?_eq_none] at hf1 ⊢
      intro x hx; exact hf1 x ((hv x).mpr hx)
    simp only [hn2]
    by_cases he : v1 = []
    · have he2 : v2 = [] := by
        cases v2 with
        | nil => rfl
        | cons a t => have := (hv a).mpr List.mem_cons_self; rw [he] at this; simp at this
      rw [he, he2]
    · have he2 : v2 ≠ [] := by
        intro h2
        cases v1 with
        | nil => exact he rfl
        | cons a t => have := (hv a).mp List.mem_cons_self; rw [h2] at this; simp at this
      obtain ⟨p1, ho1⟩ := oldest_isSome he
      obtain ⟨p2, ho2⟩ := oldest_isSome he2
      simp only [ho1, ho2]
      have m1 := oldest_mem ho1
      have m2 := (hv p2).mpr (oldest_mem ho2)
      have le1 := oldest_min ho1 p2 m2
      have le2 := oldest_min ho2 p1 ((hv p1).mp m1)
      exact hc p1 (inl1 p1 m1).1 p2 (inl1 p2 m2).1 (inl1 p1 m1).2 (inl1 p2 m2).2 (by omega)

/-- without the hypothesis the choice depends on the map order: two visible Kubernetes services for
    one hostname in different namespaces (not a Kubernetes possibility; feeds C17). -/
theorem pickBest_order_dependent_witness :
    let a := mkSvc "a" "h.com" "ns1" 1 true [80] ["*"]
    let b := mkSvc "b" "h.com" "ns2" 2 true [80] ["*"]
    pickBest {} [("ns1", a), ("ns2", b)] "ns3" = "ns1" ∧ pickBest {} [("ns2", b), ("ns1", a)] "ns3" = "ns2" := by
  decide +kernel

/-! ### which Sidecar applies -/

theorem mem_sortSidecars (l : List Sidecar) (x : Sidecar) : x ∈ sortSidecars l ↔ x ∈ l := by
  simp only [sortSidecars, List.mem_append, List.mem_filter, mem_isort]
  constructor
  · rintro (h | h) <;> exact h.1
  · intro h
    cases hs : x.selector with
    | none => exact Or.inr ⟨h, by simp⟩
    | some v => exact Or.inl ⟨h, by simp⟩

/-- **pickSidecar_sound**: the Sidecar resource applied to a proxy is a resource of the proxy's own
    namespace whose workloadSelector (if any) matches the proxy's labels, or else the selector-less
    Sidecar of the root namespace; a Sidecar of any other namespace never shapes the proxy. -/
theorem pickSidecar_sound (m : Mesh) (scs : List Sidecar) (ns : String) (lbl : List (String × String)) (c : Sidecar)
    (h : pickSidecar m scs ns lbl = some c) :
    c ∈ scs ∧ ((c.ns = ns ∧ ∀ sel, c.selector = some sel → labelsSubset sel lbl = true) ∨
               (c.ns = m.rootNs ∧ c.selector = none)) := by
  unfold pickSidecar at h
  split at h
  · rename_i x hf
    cases h
    have hm := List.mem_filter.mp (List.mem_of_find?_eq_some hf)
    have hp := List.find?_some hf
    refine ⟨(mem_sortSidecars scs c).mp hm.1, Or.inl ⟨by simpa using hm.2, ?_⟩⟩
    intro sel hsel
    simpa [hsel] using hp
  · unfold rootSidecar at h
    have hm := List.mem_of_find?_eq_some h
    have hp := List.find?_some h
    simp only [Bool.and_eq_true, beq_iff_eq, Option.isNone_iff_eq_none] at hp
    exact ⟨(mem_sortSidecars scs c).mp hm, Or.inr hp⟩

end IstioModel.C07
