import IstioModel.C07.ScopeLemmas
import IstioModel.C07.VSTheorems

/-!
C07 - sidecar scope theorems.

`Imported` is the specification of "the Sidecar egress scope imports the service": some egress
listener of the applicable Sidecar (the single `*/*` listener when none applies) has a host entry
that imports it (`HostImports`: a non-excluded `ns/host`, `./host` or `*/host` entry covering the
hostname, no `~` entry covering it), or imports (`VSImports`) a mesh-gateway VirtualService that is
exported to the proxy's namespace (`VSVisible`) and routes to the hostname.  None of these
specifications mentions a function of the model of sidecar.go / virtualservice.go.
`Visible` (VisTheorems) is the specification of "exported to the namespace".
-/
namespace IstioModel.C07

/-- **spec**: the scope of `sc` (none = default scope) in namespace `cfgNs` imports service `o` -/
def Imported (m : Mesh) (vss : List VS) (sc : Option Sidecar) (cfgNs : String) (o : Svc) : Prop :=
  ∃ l ∈ egressOf sc,
    HostImports (parseHosts cfgNs l.hosts) o.ns o.hostname ∨
    (∃ v ∈ vss, vsOnMesh v = true ∧ VSVisible m v cfgNs ∧ VSImports (parseHosts cfgNs l.hosts) v ∧
      ∃ d ∈ vsDestinations v cfgNs, d.1 = o.hostname) ∧
      -- "a host is exposed only when it is imported by some entry and not excluded by any entry": a `~` entry
      -- of the listener covering the service keeps it out also when a VirtualService routes to it
      ¬ (∃ p ∈ parseHosts cfgNs l.hosts, p.excluded = true ∧ (p.ns = o.ns ∨ p.ns = "*") ∧ subsetOf o.hostname p.name = true)

/-- the same for one egress listener -/
def ListenerImports (cfgNs : String) (l : Listener) (o : Svc) : Prop :=
  HostImports (parseHosts cfgNs l.hosts) o.ns o.hostname

/-- invariant of `collectImportedServices` for one listener, for any predicate that survives port
    trimming / merging and alias trimming -/
theorem collectListener_inv (Q : Svc → Prop)
    (hQ : ∀ x y : Svc, x.core = y.core → (∀ a ∈ x.aliases, a ∈ y.aliases) → Q y → Q x)
    (f : Flags) (m : Mesh) (svcs : List Svc) (cfgNs : String) (acc : List Svc) (ilw : ILW)
    (hacc : ∀ x ∈ acc, Q x) (hsv : ∀ x ∈ ilw.services, Q x)
    (hvs : ∀ v ∈ ilw.vss, ∀ d ∈ vsDestinations v cfgNs, ∀ s, resolveDest f m svcs cfgNs d.1 = some s →
      (f.exclGuard = true → (exclBy (hcFor ilw.hosts s.ns) s.hostname || exclBy (hcFor ilw.hosts "*") s.hostname) = false) →
      Q (trimHiddenAlias f.aliasGuard m svcs cfgNs s)) :
    ∀ x ∈ collectListener f m svcs cfgNs acc ilw, Q x := by
  unfold collectListener
  have happ : ∀ (a : List Svc) (s : Svc), (∀ x ∈ a, Q x) → Q s → ∀ x ∈ appendSvc a s, Q x := by
    intro a s ha hs x hx
    rcases mem_appendSvc hx with ⟨y, hy, hxy, hal⟩ | rfl
    · exact hQ x y hxy (fun a ha => hal ▸ ha) (ha y hy)
    · exact hs
  apply foldl_inv (P := fun a => ∀ x ∈ a, Q x)
  · apply foldl_inv (P := fun a => ∀ x ∈ a, Q x)
    · exact hacc
    · intro b a ha hb; exact happ b a hb (hsv a ha)
  · intro b v hv hb
    apply foldl_inv (P := fun a => ∀ x ∈ a, Q x)
    · exact hb
    · intro b' d hd hb'
      unfold addVSDestX
      split
      · exact hb'
      rename_i hguard
      unfold addVSDest
      cases hr : resolveDest f m svcs cfgNs d.1 with
      | none => exact hb'
      | some s =>
        have hqs := hvs v hv d hd s hr (by
          intro hg
          simp only [hg, Bool.true_and, destExcluded, hr] at hguard
          simpa using hguard)
        simp only [Option.map_some]
        cases hmp : ilw.matchPort with
        | some p =>
          simp only
          cases hq : svcMatchingListenerPort (trimHiddenAlias f.aliasGuard m svcs cfgNs s) p with
          | none => exact hb'
          | some x' =>
            obtain ⟨h1, _, h3, _⟩ := listenerPort_some hq
            exact happ b' x' hb' (hQ x' _ h1 (fun a ha => h3 ▸ ha) hqs)
        | none =>
          simp only
          cases hq : svcMatchingVSPorts (trimHiddenAlias f.aliasGuard m svcs cfgNs s) d.2 with
          | none => exact hb'
          | some x' =>
            obtain ⟨h1, _, h3⟩ := vsPorts_some hq
            exact happ b' x' hb' (hQ x' _ h1 (fun a ha => h3 ▸ ha) hqs)

/-- the generic invariant of the whole scope construction; a VirtualService destination only has to be
    justified when no `~` entry of the listener covers the service it resolves to (repaired code) -/
theorem scope_inv' (Q : Svc → Prop)
    (hQ : ∀ x y : Svc, x.core = y.core → (∀ a ∈ x.aliases, a ∈ y.aliases) → Q y → Q x)
    (f : Flags) (m : Mesh) (svcs : List Svc) (vss : List VS) (sc : Option Sidecar) (cfgNs : String)
    (hsv : ∀ l ∈ egressOf sc, ∀ x ∈ (convertListener f m svcs vss cfgNs l).services, Q x)
    (hvs : ∀ l ∈ egressOf sc, ∀ v ∈ (convertListener f m svcs vss cfgNs l).vss, ∀ d ∈ vsDestinations v cfgNs,
      ∀ s, resolveDest f m svcs cfgNs d.1 = some s →
      (f.exclGuard = true → (exclBy (hcFor (parseHosts cfgNs l.hosts) s.ns) s.hostname ||
          exclBy (hcFor (parseHosts cfgNs l.hosts) "*") s.hostname) = false) →
      Q (trimHiddenAlias f.aliasGuard m svcs cfgNs s)) :
    ∀ x ∈ scopeServices f m svcs vss sc cfgNs, Q x := by
  unfold scopeServices collectImportedServices scopeListeners
  apply foldl_inv (P := fun a => ∀ x ∈ a, Q x)
  · intro x hx; simp at hx
  · intro acc ilw hilw hacc
    obtain ⟨l, hl, rfl⟩ := List.mem_map.mp hilw
    exact collectListener_inv Q hQ f m svcs cfgNs acc _ hacc (hsv l hl) (hvs l hl)

theorem scope_inv (Q : Svc → Prop)
    (hQ : ∀ x y : Svc, x.core = y.core → (∀ a ∈ x.aliases, a ∈ y.aliases) → Q y → Q x)
    (f : Flags) (m : Mesh) (svcs : List Svc) (vss : List VS) (sc : Option Sidecar) (cfgNs : String)
    (hsv : ∀ l ∈ egressOf sc, ∀ x ∈ (convertListener f m svcs vss cfgNs l).services, Q x)
    (hvs : ∀ l ∈ egressOf sc, ∀ v ∈ (convertListener f m svcs vss cfgNs l).vss, ∀ d ∈ vsDestinations v cfgNs,
      ∀ s, resolveDest f m svcs cfgNs d.1 = some s → Q (trimHiddenAlias f.aliasGuard m svcs cfgNs s)) :
    ∀ x ∈ scopeServices f m svcs vss sc cfgNs, Q x :=
  scope_inv' Q hQ f m svcs vss sc cfgNs hsv (fun l hl v hv d hd s hr _ => hvs l hl v hv d hd s hr)

/-- the candidates of a listener are (alias-trimmed copies of) visible mesh services -/
theorem mem_listener_cands {f : Flags} {m : Mesh} {svcs : List Svc} {cfgNs : String} {ps : List PHost} {c : Svc}
    (hc : c ∈ (if allExact ps then servicesForExactHosts f.exactGuard m svcs cfgNs ps
               else servicesExportedToNamespace m svcs cfgNs).map (trimHiddenAlias f.aliasGuard m svcs cfgNs)) :
    ∃ c0 ∈ svcs, c = trimHiddenAlias f.aliasGuard m svcs cfgNs c0 ∧ isServiceVisible m c0 cfgNs = true := by
  obtain ⟨c0, hc0, rfl⟩ := List.mem_map.mp hc
  have : c0 ∈ svcs ∧ isServiceVisible m c0 cfgNs = true := by
    split at hc0
    · exact exact_sound hc0
    · exact exported_sound m svcs cfgNs c0 hc0
  exact ⟨c0, this.1, rfl, this.2⟩

/-- **listener_services_sound**: the services of one egress listener (`IstioEgressListenerWrapper.services`,
    what LDS / RDS build that listener's routes and filter chains from) are copies of visible mesh
    services imported by that listener's own host list. -/
theorem listener_services_sound (f : Flags) (m : Mesh) (svcs : List Svc) (vss : List VS) (cfgNs : String) (l : Listener) :
    ∀ s ∈ (convertListener f m svcs vss cfgNs l).services,
      ∃ o ∈ svcs, s.core = o.core ∧ isServiceVisible m o cfgNs = true ∧ ListenerImports cfgNs l o ∧
        (∀ p ∈ s.ports, p ∈ o.ports) ∧ (∀ a ∈ s.aliases, a ∈ o.aliases) := by
  intro x hx
  simp only [convertListener] at hx
  obtain ⟨c, hc, hio⟩ := mem_selectServices hx
  obtain ⟨hcore, hports, himp, hal⟩ := importOne_some hio
  obtain ⟨c0, hc0, rfl, hv⟩ := mem_listener_cands hc
  obtain ⟨tc, tp⟩ := trim_core f.aliasGuard m svcs cfgNs c0
  refine ⟨c0, hc0, hcore.trans tc, hv, ?_, ?_, ?_⟩
  · unfold ListenerImports
    rw [← core_ns tc, ← core_hostname tc]; exact himp
  · intro p hp; rw [← tp]; exact hports p hp
  · intro a ha; exact trim_aliases_sub _ _ _ _ _ a (hal a ha)

/-- **scope_sound**: on the repaired code every service of `SidecarScope.services` is (a port/alias
    trimmed or port-merged copy of) a service of the mesh that `IsServiceVisible` accepts for the
    proxy's namespace and that the scope imports - for every mesh, every service list (colliding
    hostnames, duplicates), every exportTo form and mesh default, every Sidecar or none, both
    `UnifiedSidecarScoping` / `PickBest` settings, and with or without the exact-host / alias repairs. -/
theorem scope_sound (f : Flags) (hfix : f.visGuard = true) (hex : f.exclGuard = true) (m : Mesh) (svcs : List Svc) (vss : List VS)
    (sc : Option Sidecar) (cfgNs : String) (hvn : ∀ v ∈ vss, v.ns ≠ "*") :
    ∀ s ∈ scopeServices f m svcs vss sc cfgNs,
      ∃ o ∈ svcs, s.core = o.core ∧ isServiceVisible m o cfgNs = true ∧ Imported m vss sc cfgNs o := by
  let Q : Svc → Prop := fun s => ∃ o ∈ svcs, s.core = o.core ∧ isServiceVisible m o cfgNs = true ∧ Imported m vss sc cfgNs o
  have hQ : ∀ x y : Svc, x.core = y.core → (∀ a ∈ x.aliases, a ∈ y.aliases) → Q y → Q x := by
    rintro x y hxy _ ⟨o, ho, hyo, hv, hi⟩; exact ⟨o, ho, hxy.trans hyo, hv, hi⟩
  apply scope_inv' Q hQ
  · -- explicitly imported services
    intro l hl x hx
    obtain ⟨o, ho, hc, hv, hi, _, _⟩ := listener_services_sound f m svcs vss cfgNs l x hx
    exact ⟨o, ho, hc, hv, l, hl, Or.inl hi⟩
  · -- destinations of imported VirtualServices
    intro l hl v hv d hd s hr hne
    obtain ⟨h1, h2, h3⟩ := resolveDest_some hr
    simp only [convertListener] at hv
    obtain ⟨v1, v2, v3, v4⟩ := vs_select_sound f.unified m vss cfgNs _ hvn v hv
    refine ⟨s, h1, (trim_core _ _ _ _ _).1, h3 hfix, l, hl, Or.inr ⟨⟨v, v1, v2, v3, v4, d, hd, h2.symm⟩, ?_⟩⟩
    have hne := hne hex
    simp only [Bool.or_eq_false_iff] at hne
    rintro ⟨p, hp, he, hk, hsub⟩
    rcases hk with hk | hk
    · have := (exclBy_iff (parseHosts cfgNs l.hosts) s.ns s.hostname).mpr ⟨p, hp, he, hk, hsub⟩
      rw [hne.1] at this; cases this
    · have := (exclBy_iff (parseHosts cfgNs l.hosts) "*" s.hostname).mpr ⟨p, hp, he, hk, hsub⟩
      rw [hne.2] at this; cases this

/-- the visibility half of `scope_sound`, without any assumption on the VirtualServices -/
theorem scope_visible_sound (f : Flags) (hfix : f.visGuard = true) (m : Mesh) (svcs : List Svc) (vss : List VS)
    (sc : Option Sidecar) (cfgNs : String) :
    ∀ s ∈ scopeServices f m svcs vss sc cfgNs, ∃ o ∈ svcs, s.core = o.core ∧ isServiceVisible m o cfgNs = true := by
  let Q : Svc → Prop := fun s => ∃ o ∈ svcs, s.core = o.core ∧ isServiceVisible m o cfgNs = true
  have hQ : ∀ x y : Svc, x.core = y.core → (∀ a ∈ x.aliases, a ∈ y.aliases) → Q y → Q x := by
    rintro x y hxy _ ⟨o, ho, hyo, hv⟩; exact ⟨o, ho, hxy.trans hyo, hv⟩
  apply scope_inv Q hQ
  · intro l _ x hx
    obtain ⟨o, ho, hc, hv, _⟩ := listener_services_sound f m svcs vss cfgNs l x hx
    exact ⟨o, ho, hc, hv⟩
  · intro l _ v _ d _ s hr
    obtain ⟨h1, _, h3⟩ := resolveDest_some hr
    exact ⟨s, h1, (trim_core _ _ _ _ _).1, h3 hfix⟩

/-- `scope_sound` against the documented visibility (`Visible`), for a real namespace name. -/
theorem scope_sound_spec (f : Flags) (hfix : f.visGuard = true) (hex : f.exclGuard = true) (m : Mesh) (svcs : List Svc) (vss : List VS)
    (sc : Option Sidecar) (cfgNs : String) (hns : ValidNs cfgNs) (hvn : ∀ v ∈ vss, v.ns ≠ "*") :
    ∀ s ∈ scopeServices f m svcs vss sc cfgNs,
      ∃ o ∈ svcs, s.core = o.core ∧ Visible m o cfgNs ∧ Imported m vss sc cfgNs o := by
  intro s hs
  obtain ⟨o, ho, hc, hv, hi⟩ := scope_sound f hfix hex m svcs vss sc cfgNs hvn s hs
  exact ⟨o, ho, hc, (visible_iff m o cfgNs hns).mp hv, hi⟩

/-- **scope_alias_sound**: on the repaired code (`aliasGuard`) every alias hostname carried by a
    delivered service (it becomes a route domain / SNI match of that service) stands for an
    ExternalName service that is exported to the proxy's namespace. -/
theorem scope_alias_sound (f : Flags) (hfix : f.aliasGuard = true) (m : Mesh) (svcs : List Svc) (vss : List VS)
    (sc : Option Sidecar) (cfgNs : String) :
    ∀ s ∈ scopeServices f m svcs vss sc cfgNs, ∀ a ∈ s.aliases, AliasVisible m svcs cfgNs a := by
  let Q : Svc → Prop := fun s => ∀ a ∈ s.aliases, AliasVisible m svcs cfgNs a
  have hQ : ∀ x y : Svc, x.core = y.core → (∀ a ∈ x.aliases, a ∈ y.aliases) → Q y → Q x := by
    intro x y _ hsub hy a ha; exact hy a (hsub a ha)
  apply scope_inv Q hQ
  · intro l hl x hx a ha
    simp only [convertListener] at hx
    obtain ⟨c, hc, hio⟩ := mem_selectServices hx
    obtain ⟨_, _, _, hal⟩ := importOne_some hio
    obtain ⟨c0, _, rfl, _⟩ := mem_listener_cands hc
    rw [hfix] at hal
    exact trim_aliases_visible m svcs cfgNs c0 a (hal a ha)
  · intro l _ v _ d _ s _ a ha
    rw [hfix] at ha
    exact trim_aliases_visible m svcs cfgNs s a ha

/-- the same for the services of each egress listener (what RDS builds the domains from) -/
theorem listener_alias_sound (f : Flags) (hfix : f.aliasGuard = true) (m : Mesh) (svcs : List Svc) (vss : List VS)
    (cfgNs : String) (l : Listener) :
    ∀ s ∈ (convertListener f m svcs vss cfgNs l).services, ∀ a ∈ s.aliases, AliasVisible m svcs cfgNs a := by
  intro x hx a ha
  simp only [convertListener] at hx
  obtain ⟨c, hc, hio⟩ := mem_selectServices hx
  obtain ⟨_, _, _, hal⟩ := importOne_some hio
  obtain ⟨c0, _, rfl, _⟩ := mem_listener_cands hc
  rw [hfix] at hal
  exact trim_aliases_visible m svcs cfgNs c0 a (hal a ha)

/-! ### completeness -/

/-- **listener_complete**: a visible mesh service (well-formed export set) imported by the host list of a
    port-unrestricted egress listener is among that listener's services, or displaced there by a
    service with the same hostname (repaired exact-host path). -/
theorem listener_complete (f : Flags) (hx : f.exactGuard = true)
    (m : Mesh) (svcs : List Svc) (vss : List VS) (cfgNs : String) (hns : ValidNs cfgNs)
    (o : Svc) (ho : o ∈ svcs) (hv : isServiceVisible m o cfgNs = true) (hwf : ExportWF (serviceExportTo m o))
    (l : Listener) (hmp : l.matchPort = none)
    (himp : HostImports (parseHosts cfgNs l.hosts) o.ns o.hostname) :
    ∃ w ∈ (convertListener f m svcs vss cfgNs l).services, w.hostname = o.hostname := by
  -- a candidate with the same hostname and namespace (alias-trimmed)
  obtain ⟨c0, hc0, hch0, hcn0⟩ := cands_complete (ps := parseHosts cfgNs l.hosts) ho hv hwf hns himp
  obtain ⟨tc, _⟩ := trim_core f.aliasGuard m svcs cfgNs c0
  have hc := List.mem_map_of_mem (f := trimHiddenAlias f.aliasGuard m svcs cfgNs) hc0
  generalize trimHiddenAlias f.aliasGuard m svcs cfgNs c0 = c at hc tc
  have hch : c.hostname = o.hostname := (core_hostname tc).trans hch0
  have hcn : c.ns = o.ns := (core_ns tc).trans hcn0
  -- it passes the import loop
  have himp' : HostImports (parseHosts cfgNs l.hosts) c.ns c.hostname := by rw [hch, hcn]; exact himp
  obtain ⟨c', hc', hcore⟩ := importOne_of_imports himp'
  -- the tie-break keeps the hostname
  obtain ⟨w, hw, hwh⟩ := selectServices_keeps_hostname (unified := f.unified) (cfgNs := cfgNs) hc hc'
  refine ⟨w, ?_, by rw [hwh, core_hostname hcore, hch]⟩
  simp only [convertListener, hmp, hx]; exact hw

/-- **scope_complete**: on the repaired code, a mesh service that is visible to the proxy's
    namespace (with a well-formed export set) and imported by a host entry of a port-unrestricted
    egress listener is delivered - or displaced by the same-hostname tie-break, in which case the
    delivered service has the same hostname and is itself a visible, imported mesh service. -/
theorem scope_complete (f : Flags) (hfix : f.visGuard = true) (hex : f.exclGuard = true) (hx : f.exactGuard = true)
    (m : Mesh) (svcs : List Svc) (vss : List VS) (sc : Option Sidecar) (cfgNs : String) (hns : ValidNs cfgNs)
    (o : Svc) (ho : o ∈ svcs) (hv : isServiceVisible m o cfgNs = true) (hwf : ExportWF (serviceExportTo m o))
    (l : Listener) (hl : l ∈ egressOf sc) (hmp : l.matchPort = none)
    (himp : HostImports (parseHosts cfgNs l.hosts) o.ns o.hostname) (hvn : ∀ v ∈ vss, v.ns ≠ "*") :
    ∃ w ∈ scopeServices f m svcs vss sc cfgNs, w.hostname = o.hostname ∧
      ∃ o' ∈ svcs, w.core = o'.core ∧ isServiceVisible m o' cfgNs = true ∧ Imported m vss sc cfgNs o' := by
  obtain ⟨w, hw', hwh⟩ := listener_complete f hx m svcs vss cfgNs hns o ho hv hwf l hmp himp
  -- the listener's services reach the scope
  have hilw : convertListener f m svcs vss cfgNs l ∈ scopeListeners f m svcs vss sc cfgNs :=
    List.mem_map.mpr ⟨l, hl, rfl⟩
  obtain ⟨x, hxm, hxh⟩ := collect_hostnames f m svcs cfgNs _ [] _ hilw w hw'
  exact ⟨x, hxm, hxh.trans hwh, scope_sound f hfix hex m svcs vss sc cfgNs hvn x hxm⟩

/-- if moreover no other visible mesh service carries the hostname, the service itself is delivered -/
theorem scope_complete_unique (f : Flags) (hfix : f.visGuard = true) (hex : f.exclGuard = true) (hx : f.exactGuard = true)
    (m : Mesh) (svcs : List Svc) (vss : List VS) (sc : Option Sidecar) (cfgNs : String) (hns : ValidNs cfgNs)
    (o : Svc) (ho : o ∈ svcs) (hv : isServiceVisible m o cfgNs = true) (hwf : ExportWF (serviceExportTo m o))
    (l : Listener) (hl : l ∈ egressOf sc) (hmp : l.matchPort = none)
    (himp : HostImports (parseHosts cfgNs l.hosts) o.ns o.hostname) (hvn : ∀ v ∈ vss, v.ns ≠ "*")
    (huniq : ∀ o' ∈ svcs, o'.hostname = o.hostname → isServiceVisible m o' cfgNs = true → o' = o) :
    ∃ w ∈ scopeServices f m svcs vss sc cfgNs, w.core = o.core := by
  obtain ⟨w, hw, hwh, o', ho', hc, hv', _⟩ := scope_complete f hfix hex hx m svcs vss sc cfgNs hns o ho hv hwf l hl hmp himp hvn
  have := huniq o' ho' ((core_hostname hc).symm.trans hwh) hv'
  exact ⟨w, hw, this ▸ hc⟩

/-- the default `*/*` listener imports every service -/
theorem default_imports_all (cfgNs ns h : String) : HostImports (parseHosts cfgNs defaultListener.hosts) ns h := by
  have hp : parseHosts cfgNs defaultListener.hosts = [{ excluded := false, ns := "*", name := "*" }] := by
    simp [parseHosts, defaultListener, parseHost]
  rw [hp]
  refine ⟨⟨_, List.mem_singleton.mpr rfl, rfl, Or.inr rfl, ?_⟩, ?_⟩
  · unfold subsetOf; exact subsetOf_star _
  · rintro ⟨p, hp, hx, _⟩
    rw [List.mem_singleton] at hp; subst hp; cases hx

/-- **default scope**: when no Sidecar applies every visible service (well-formed export set) is
    delivered or displaced by a visible service with the same hostname. -/
theorem default_scope_complete (f : Flags) (hfix : f.visGuard = true) (hex : f.exclGuard = true) (hx : f.exactGuard = true)
    (m : Mesh) (svcs : List Svc) (vss : List VS) (cfgNs : String) (hns : ValidNs cfgNs)
    (o : Svc) (ho : o ∈ svcs) (hv : isServiceVisible m o cfgNs = true) (hwf : ExportWF (serviceExportTo m o))
    (hvn : ∀ v ∈ vss, v.ns ≠ "*") :
    ∃ w ∈ scopeServices f m svcs vss none cfgNs, w.hostname = o.hostname ∧
      ∃ o' ∈ svcs, w.core = o'.core ∧ isServiceVisible m o' cfgNs = true ∧ Imported m vss none cfgNs o' :=
  scope_complete f hfix hex hx m svcs vss none cfgNs hns o ho hv hwf defaultListener (by simp [egressOf])
    (by simp [Listener.matchPort, defaultListener]) (default_imports_all cfgNs o.ns o.hostname) hvn

/-! ### the two defects found (behaviour before the `fix:` commits), as theorems about the old model -/

def mkSvc (id hostname ns : String) (ctime : Nat) (k8s : Bool) (ports : List Nat) (exportTo : List String) : Svc :=
  { id := id, hostname := hostname, ns := ns, name := id, k8s := k8s, ctime := ctime,
    ports := ports.map (fun n => { num := n, name := "p" }), exportTo := exportTo, vis := .pub,
    resolution := 0, attr := "", aliases := [] }

def mkVS (name ns : String) (hosts : List String) (dests : List String) : VS :=
  { name := name, ns := ns, ctime := 1, hosts := hosts, exportTo := [], gateways := [], gwSem := false,
    http := [{ srcNs := [], dests := dests.map fun h => { host := h, port := 0 } }], tcp := [] }

/-- F7 mesh: `a.com` lives in ns1 but is exported to ns2 only; a VirtualService in ns1 routes to it. -/
def f7Svcs : List Svc := [mkSvc "s0" "a.com" "ns1" 1 false [80] ["ns2"], mkSvc "s1" "b.com" "ns1" 2 false [80] ["*"]]
def f7VS : List VS := [mkVS "v1" "ns1" ["b.com"] ["a.com"]]
def f7Sidecar : Sidecar := { name := "sc1", ns := "ns1", ctime := 1, selector := none, egress := [{ hosts := ["./b.com"] }] }

/-- the full soundness statement for a given flag setting -/
def ScopeSoundFor (f : Flags) : Prop :=
  ∀ (m : Mesh) (svcs : List Svc) (vss : List VS) (sc : Option Sidecar) (cfgNs : String),
    ∀ s ∈ scopeServices f m svcs vss sc cfgNs, isServiceVisible m s cfgNs = true

/-- **F7 witness**: before the repair (`visGuard = false`) the scope of a proxy in ns1 contains
    `a.com/ns1`, which is not exported to ns1 - with the default scope and with a Sidecar. -/
theorem scope_leak_witness_unfixed :
    (scopeServices { visGuard := false } {} f7Svcs f7VS none "ns1").any (fun s => !isServiceVisible {} s "ns1") = true ∧
    (scopeServices { visGuard := false } {} f7Svcs f7VS (some f7Sidecar) "ns1").any (fun s => !isServiceVisible {} s "ns1") = true ∧
    (scopeServices {} {} f7Svcs f7VS none "ns1").all (fun s => isServiceVisible {} s "ns1") = true := by
  decide +kernel

theorem scope_sound_fails_unfixed : ¬ ScopeSoundFor { visGuard := false } := by
  intro h
  have h1 := scope_leak_witness_unfixed.1
  obtain ⟨s, hs, hv⟩ := List.any_eq_true.mp h1
  have := h {} f7Svcs f7VS none "ns1" s hs
  simp [this] at hv

theorem scope_sound_holds_fixed (f : Flags) (hfix : f.visGuard = true) : ScopeSoundFor f := by
  intro m svcs vss sc cfgNs s hs
  obtain ⟨o, _, hc, hv⟩ := scope_visible_sound f hfix m svcs vss sc cfgNs s hs
  rw [visible_of_core_eq m cfgNs hc]; exact hv

/-- F10 mesh: two ServiceEntries for `foo.com` in namespace `shared`, exported to different teams. -/
def f10Svcs : List Svc := [mkSvc "s0" "foo.com" "shared" 1 false [80] ["team-a"], mkSvc "s1" "foo.com" "shared" 2 false [80] ["team-b"]]
def f10Sidecar : Sidecar := { name := "sc1", ns := "team-b", ctime := 1, selector := none, egress := [{ hosts := ["shared/foo.com"] }] }
def f10SidecarW : Sidecar := { name := "sc1", ns := "team-b", ctime := 1, selector := none, egress := [{ hosts := ["shared/foo.com", "shared/*.nomatch"] }] }

/-- **F10 witness**: before the repair (`exactGuard = false`) a proxy in team-b that imports
    `shared/foo.com` by an exact host receives nothing, although `s1` is exported to team-b and
    imported; adding an unrelated wildcard host (scan path) delivers it; the repaired code delivers
    it on both paths. -/
theorem exact_path_incomplete_witness_unfixed :
    scopeServices { exactGuard := false } {} f10Svcs [] (some f10Sidecar) "team-b" = [] ∧
    (scopeServices { exactGuard := false } {} f10Svcs [] (some f10SidecarW) "team-b").map (·.id) = ["s1"] ∧
    (scopeServices {} {} f10Svcs [] (some f10Sidecar) "team-b").map (·.id) = ["s1"] ∧
    isServiceVisible {} (mkSvc "s1" "foo.com" "shared" 2 false [80] ["team-b"]) "team-b" = true := by
  decide +kernel

/-- F11 mesh: `alias.secret` is an ExternalName service private to namespace `secret` that points at the
    public service `pub.ns1`. -/
def f11Svcs : List Svc :=
  resolveAliases [mkSvc "s0" "pub.ns1.svc.cluster.local" "ns1" 1 true [80] [],
    { (mkSvc "s1" "alias.secret.svc.cluster.local" "secret" 2 true [80] ["."]) with extName := some "pub.ns1.svc.cluster.local" }]

/-- **F11 witness**: before the repair (`aliasGuard = false`) a proxy of ns2 receives `pub.ns1` with the
    alias `alias.secret.svc.cluster.local` (a route domain), although the ExternalName service is not
    exported to ns2; the repaired code drops the alias for ns2 and keeps it for namespace `secret`. -/
theorem alias_leak_witness_unfixed :
    (scopeServices { aliasGuard := false } {} f11Svcs [] none "ns2").map (·.aliases) = [[("secret", "alias.secret.svc.cluster.local")]] ∧
    (scopeServices {} {} f11Svcs [] none "ns2").map (·.aliases) = [[]] ∧
    ((scopeServices {} {} f11Svcs [] none "secret").map (·.aliases)).contains [("secret", "alias.secret.svc.cluster.local")] = true ∧
    aliasKept {} f11Svcs "ns2" ("secret", "alias.secret.svc.cluster.local") = false := by
  decide +kernel

/-- the full alias statement fails for the old behaviour -/
theorem scope_alias_sound_fails_unfixed :
    ¬ (∀ (m : Mesh) (svcs : List Svc) (vss : List VS) (sc : Option Sidecar) (cfgNs : String),
        ∀ s ∈ scopeServices { aliasGuard := false } m svcs vss sc cfgNs, ∀ a ∈ s.aliases, aliasKept m svcs cfgNs a = true) := by
  intro h
  have := h {} f11Svcs [] none "ns2"
  revert this
  decide +kernel

/-- a VirtualService exported to another namespace only is never selected (non-vacuity of the
    filter: the same VirtualService is selected by a proxy of the namespace it is exported to). -/
example :
    let v : VS := { (mkVS "v" "ns1" ["a.com"] ["b.com"]) with exportTo := ["ns2"] }
    let ps := parseHosts "x" ["*/*"]
    (selectVirtualServices true {} [v] "ns3" ps).length = 0 ∧ (selectVirtualServices true {} [v] "ns2" ps).length = 1 := by
  decide +kernel


/-! ### exact-host fast path vs scan path -/

/-- no two services share (hostname, namespace) -/
def NoDupKey (svcs : List Svc) : Prop :=
  ∀ a ∈ svcs, ∀ b ∈ svcs, a.hostname = b.hostname → a.ns = b.ns → a = b

/-- **exact_fastpath_parity** (set level): when all egress hosts are exact and namespaced, no two
    services share (hostname, namespace) and export sets are well formed, the exact-host fast path and
    the scan path feed the same services through the import loop of `selectServices` (before and after
    the repair). -/
theorem exact_fastpath_parity (g : Bool) (m : Mesh) (svcs : List Svc) (cfgNs : String) (ps : List PHost) (mp : Option Nat)
    (hall : allExact ps = true) (hnd : NoDupKey svcs) (hwf : ∀ s ∈ svcs, ExportWF (serviceExportTo m s))
    (hns : ValidNs cfgNs) (c : Svc) :
    (c ∈ servicesForExactHosts g m svcs cfgNs ps ∧ (importOne ps mp c).isSome = true) ↔
    (c ∈ servicesExportedToNamespace m svcs cfgNs ∧ (importOne ps mp c).isSome = true) := by
  constructor
  · rintro ⟨hc, hi⟩
    obtain ⟨h1, h2⟩ := exact_sound hc
    exact ⟨exported_complete m svcs cfgNs c h1 h2 (hwf c h1) hns, hi⟩
  · rintro ⟨hc, hi⟩
    refine ⟨?_, hi⟩
    obtain ⟨h1, h2⟩ := exported_sound m svcs cfgNs c hc
    obtain ⟨c', hc'⟩ := Option.isSome_iff_exists.mp hi
    obtain ⟨_, _, himp, _⟩ := importOne_some hc'
    obtain ⟨p, hp, hpx, hpk, hpn, hw⟩ := exact_entry_of_imports hall himp
    have hl : lookupHN svcs c.hostname c.ns = some c :=
      lookupHN_of_unique svcs c h1 (fun x hx e1 e2 => hnd x hx c h1 e1 e2)
    have hlooked : c ∈ exactLookups svcs ps := by
      simp only [exactLookups, List.mem_flatMap]
      refine ⟨c.ns, ?_, ?_⟩
      · simp only [hostKeys, List.mem_eraseDups, List.mem_map]; exact ⟨p, hp, hpk⟩
      · obtain ⟨hc'', hh⟩ := hcFor_isSome hp hpk
        simp only [hh, List.mem_filterMap, List.mem_eraseDups]
        refine ⟨c.hostname, ?_, hl⟩
        simp only [HostClass.exact, List.mem_filter, Bool.not_eq_true']
        exact ⟨(hcFor_all hh c.hostname).mpr ⟨p, hp, hpk, hpx, hpn⟩, hw⟩
    simp only [servicesForExactHosts]
    split
    · exact hc
    · unfold sortServices
      rw [mem_isort, List.mem_filter]
      exact ⟨hlooked, h2⟩

/-- List-level parity (the claim of `TestSelectServicesExactParity`) does NOT hold in general.
    (1) order: the scan list is "explicitly exported first, public second", the fast path is in
    creation order, and the tie-break keeps the first namespace seen - so which namespace wins for a
    hostname imported from two namespaces depends on the path; both winners are visible and imported.
    (2) duplicates: with two services on the same (hostname, namespace) the fast path sees only the
    indexed one, the scan path merges the ports of both. -/
theorem fastpath_list_parity_fails_witness :
    let svcs := [mkSvc "s0" "foo.com" "ns1" 1 false [80] ["*"], mkSvc "s1" "foo.com" "ns2" 2 false [80] ["ns3"]]
    let ps := parseHosts "ns3" ["ns1/foo.com", "ns2/foo.com"]
    allExact ps = true ∧
    (selectServices true "ns3" ps none (servicesForExactHosts true {} svcs "ns3" ps)).map (·.id) = ["s0"] ∧
    (selectServices true "ns3" ps none (servicesExportedToNamespace {} svcs "ns3")).map (·.id) = ["s1"] := by
  decide +kernel

theorem fastpath_duplicate_key_witness :
    let svcs := [mkSvc "s0" "foo.com" "ns1" 1 false [80] ["*"], mkSvc "s1" "foo.com" "ns1" 2 false [443] ["*"]]
    let exact : Sidecar := { name := "a", ns := "ns3", ctime := 1, selector := none, egress := [{ hosts := ["ns1/foo.com"] }] }
    let scan : Sidecar := { name := "a", ns := "ns3", ctime := 1, selector := none, egress := [{ hosts := ["ns1/foo.com", "ns1/*.nomatch"] }] }
    (scopeServices {} {} svcs [] (some exact) "ns3").map (fun s => s.ports.map (·.num)) = [[80]] ∧
    (scopeServices {} {} svcs [] (some scan) "ns3").map (fun s => s.ports.map (·.num)) = [[80, 443]] := by
  decide +kernel

/-! ### gateway default scope -/

/-- `DefaultSidecarScopeForGateway`: only services visible to the gateway's namespace, and (repaired
    code) only aliases that are exported to it. -/
theorem gateway_scope_sound (g : Bool) (m : Mesh) (svcs : List Svc) (cfgNs : String) :
    ∀ s ∈ gatewayScopeServices g m svcs cfgNs,
      (∃ o ∈ svcs, s.core = o.core ∧ isServiceVisible m o cfgNs = true) ∧
      (g = true → ∀ a ∈ s.aliases, AliasVisible m svcs cfgNs a) := by
  intro s hs
  unfold gatewayScopeServices at hs
  rcases mem_foldl_appendSvc hs with ⟨y, hy, _⟩ | ⟨y, hy, hc, hal⟩
  · simp at hy
  · obtain ⟨y0, hy0, rfl⟩ := List.mem_map.mp hy
    obtain ⟨h1, h2⟩ := exported_sound m svcs cfgNs y0 hy0
    refine ⟨⟨y0, h1, hc.trans (trim_core _ _ _ _ _).1, h2⟩, ?_⟩
    intro hg a ha
    subst hg
    rw [hal] at ha
    exact trim_aliases_visible m svcs cfgNs y0 a ha

/-- ... and the hostname of every visible service (well-formed export set). -/
theorem gateway_scope_complete (g : Bool) (m : Mesh) (svcs : List Svc) (cfgNs : String) (hns : ValidNs cfgNs)
    (o : Svc) (ho : o ∈ svcs) (hv : isServiceVisible m o cfgNs = true) (hwf : ExportWF (serviceExportTo m o)) :
    ∃ w ∈ gatewayScopeServices g m svcs cfgNs, w.hostname = o.hostname := by
  have hm := List.mem_map_of_mem (f := trimHiddenAlias g m svcs cfgNs) (exported_complete m svcs cfgNs o ho hv hwf hns)
  obtain ⟨w, hw, hwh⟩ := (hostname_foldl_appendSvc _ []).2 _ hm
  exact ⟨w, hw, hwh.trans (core_hostname (trim_core _ _ _ _ _).1)⟩

/-- The gateway cluster filter only removes services: what a Router gets with
    PILOT_FILTER_GATEWAY_CLUSTER_CONFIG is part of its default scope (so `gateway_scope_sound` holds for it),
    whatever VirtualServices (exported to the Router or not) name the destinations. -/
theorem gateway_filtered_sound (g nsScoped : Bool) (m : Mesh) (svcs : List Svc) (vss : List VS)
    (gateways : List String) (cfgNs : String) :
    ∀ s ∈ gatewayFilteredServices nsScoped vss gateways (gatewayScopeServices g m svcs cfgNs),
      (∃ o ∈ svcs, s.core = o.core ∧ isServiceVisible m o cfgNs = true) ∧
      (g = true → ∀ a ∈ s.aliases, AliasVisible m svcs cfgNs a) := by
  intro s hs
  unfold gatewayFilteredServices at hs
  exact gateway_scope_sound g m svcs cfgNs s (List.mem_filter.mp hs).1

/-- the scope never holds two services with the same hostname -/
theorem appendSvc_nodup_hostnames (acc : List Svc) (s : Svc)
    (h : (acc.map (·.hostname)).Nodup) : ((appendSvc acc s).map (·.hostname)).Nodup := by
  have hrep : ∀ n : Svc, n.hostname = s.hostname → (replaceHost acc n).map (·.hostname) = acc.map (·.hostname) := by
    intro n hn
    simp only [replaceHost, List.map_map]
    apply List.map_congr_left
    intro x _
    simp only [Function.comp]
    split
    · rename_i hx; rw [beq_iff_eq] at hx; exact hx.symm
    · rfl
  unfold appendSvc
  cases hf : acc.find? (·.hostname == s.hostname) with
  | none =>
    simp only [List.map_append, List.map_cons, List.map_nil]
    rw [List.nodup_append]
    refine ⟨h, by simp, ?_⟩
    intro a ha b hb hab
    simp at hb; subst hb
    obtain ⟨x, hx, hxa⟩ := List.mem_map.mp ha
    have := List.find?_eq_none.mp hf x hx
    simp [hxa, hab] at this
  | some ex =>
    have hexh : ex.hostname = s.hostname := by simpa using List.find?_some hf
    simp only
    split
    · exact h
    · split
      · rw [hrep s rfl]; exact h
      · split
        · exact h
        · split
          · exact h
          · rw [hrep { ex with ports := mergePorts ex.ports s.ports } hexh]; exact h

/-! ### `pickBestVisibleNamespace` ranges over a Go map: order independence

The rule of `betterVisibleService` (Kubernetes first, then the older non-Kubernetes service, then
the alphabetically first namespace) is a strict total order on services of distinct namespaces, so
the pick is the maximum and does not depend on the iteration order of the map. -/

theorem better_trans (a b c : Svc) (h1 : betterVisible a b = true) (h2 : betterVisible b c = true) :
    betterVisible a c = true := by
  unfold betterVisible at *
  cases ha : a.k8s <;> cases hb : b.k8s <;> cases hc : c.k8s <;> simp [ha, hb, hc] at h1 h2 ⊢
  · split at h1 <;> split at h2 <;> split <;> first | omega | exact String.lt_trans h1 h2
  · exact String.lt_trans h1 h2

theorem better_total (a b : Svc) (h : a.ns ≠ b.ns) : betterVisible a b = true ∨ betterVisible b a = true := by
  unfold betterVisible
  have hs : a.ns < b.ns ∨ b.ns < a.ns := by
    rcases String.le_total a.ns b.ns with h1 | h1
    · exact Or.inl (Std.lt_of_le_of_ne h1 h)
    · exact Or.inr (Std.lt_of_le_of_ne h1 (Ne.symm h))
  cases ha : a.k8s <;> cases hb : b.k8s <;> simp
  · by_cases e1 : a.ctime = b.ctime
    · simp [e1]; exact hs
    · have : ¬ b.ctime = a.ctime := fun h => e1 h.symm
      simp [e1, this]; omega
  · exact hs

/-- the loop keeps a service that no visited service beats -/
theorem foldl_bestStep_max (l : List (String × Svc)) (cur : Option Svc) (r : Svc)
    (h : l.foldl bestStep cur = some r) :
    (∀ c, cur = some c → betterVisible c r = false) ∧ (∀ p ∈ l, betterVisible p.2 r = false) := by
  have irrefl : ∀ x : Svc, betterVisible x x = false := by
    intro x; unfold betterVisible; simp [String.lt_irrefl]
  induction l generalizing cur with
  | nil =>
    simp only [List.foldl_nil] at h
    exact ⟨fun c hc => by rw [h] at hc; cases hc; exact irrefl r, by simp⟩
  | cons a t ih =>
    rw [List.foldl_cons] at h
    obtain ⟨h1, h2⟩ := ih _ h
    cases cur with
    | none =>
      have ha := h1 a.2 (by simp [bestStep])
      refine ⟨by simp, ?_⟩
      intro p hp
      rcases List.mem_cons.mp hp with hp | hp
      · subst hp; exact ha
      · exact h2 p hp
    | some c =>
      by_cases hb : betterVisible a.2 c = true
      · have ha := h1 a.2 (by simp [bestStep, hb])
        refine ⟨?_, ?_⟩
        · intro c' hc'; cases hc'
          -- c is beaten by a, a is not better than r; if c were better than r, a would be too
          cases hcr : betterVisible c r with
          | false => rfl
          | true => rw [better_trans a.2 c r hb hcr] at ha; cases ha
        · intro p hp
          rcases List.mem_cons.mp hp with hp | hp
          · subst hp; exact ha
          · exact h2 p hp
      · have hc := h1 c (by simp [bestStep, hb])
        refine ⟨fun c' hc' => by cases hc'; exact hc, ?_⟩
        intro p hp
        rcases List.mem_cons.mp hp with hp | hp
        · rw [hp]; exact better_cmp a.2 c r hb hc
        · exact h2 p hp
where
  /-- if `a` does not beat `c` and `c` does not beat `r` then `a` does not beat `r` (negative transitivity) -/
  better_cmp (a c r : Svc) (h1 : ¬ betterVisible a c = true) (h2 : betterVisible c r = false) :
      betterVisible a r = false := by
    unfold betterVisible at *
    cases ha : a.k8s <;> cases hc : c.k8s <;> cases hr : r.k8s <;> simp [ha, hc, hr] at h1 h2 ⊢
    · split at h1 <;> split at h2 <;> split <;>
        first | omega | exact Std.le_trans h2 h1
    · exact Std.le_trans h2 h1

/-- **pickBest_order_independent**: `pickBestVisibleNamespace` returns the same namespace for any
    two enumerations of the same `byNamespace` map (entries of distinct namespaces). -/
theorem pickBest_order_independent (m : Mesh) (l1 l2 : List (String × Svc)) (cfgNs : String)
    (hperm : ∀ p, p ∈ l1 ↔ p ∈ l2) :
    pickBest m l1 cfgNs = pickBest m l2 cfgNs := by
  simp only [pickBest]
  have hv : ∀ p, p ∈ l1.filter (fun p => isServiceVisible m p.2 cfgNs) ↔ p ∈ l2.filter (fun p => isServiceVisible m p.2 cfgNs) := by
    intro p; simp only [List.mem_filter, hperm p]
  generalize hv1 : l1.filter (fun p => isServiceVisible m p.2 cfgNs) = v1 at hv
  generalize hv2 : l2.filter (fun p => isServiceVisible m p.2 cfgNs) = v2 at hv
  have emptyIff : ∀ (v : List (String × Svc)), v.foldl bestStep none = none → v = [] := by
    intro v hn
    cases v with
    | nil => rfl
    | cons a t =>
      exfalso
      rw [List.foldl_cons] at hn
      have : ∀ (t : List (String × Svc)) (c : Svc), t.foldl bestStep (some c) ≠ none := by
        intro t
        induction t with
        | nil => intro c; simp
        | cons b t ih => intro c; rw [List.foldl_cons]; simp only [bestStep]; split <;> exact ih _
      exact this t a.2 (by simpa [bestStep] using hn)
  cases h1 : v1.foldl bestStep none with
  | none =>
    have e1 := emptyIff v1 h1
    have e2 : v2 = [] := by
      cases v2 with
      | nil => rfl
      | cons a t => have := (hv a).mpr List.mem_cons_self; rw [e1] at this; simp at this
    rw [e2]; rfl
  | some r1 =>
    cases h2 : v2.foldl bestStep none with
    | none =>
      have e2 := emptyIff v2 h2
      rcases foldl_bestStep_mem v1 none r1 h1 with h | ⟨p, hp, _⟩
      · cases h
      · have := (hv p).mp hp; rw [e2] at this; simp at this
    | some r2 =>
      simp only
      obtain ⟨p1, hp1, hpr1⟩ : ∃ p ∈ v1, p.2 = r1 := by
        rcases foldl_bestStep_mem v1 none r1 h1 with h | h
        · cases h
        · exact h
      obtain ⟨p2, hp2, hpr2⟩ : ∃ p ∈ v2, p.2 = r2 := by
        rcases foldl_bestStep_mem v2 none r2 h2 with h | h
        · cases h
        · exact h
      -- neither beats the other
      have n12 : betterVisible r2 r1 = false := by
        have := (foldl_bestStep_max v1 none r1 h1).2 p2 ((hv p2).mpr hp2); rw [hpr2] at this; exact this
      have n21 : betterVisible r1 r2 = false := by
        have := (foldl_bestStep_max v2 none r2 h2).2 p1 ((hv p1).mp hp1); rw [hpr1] at this; exact this
      by_cases hne : r1.ns = r2.ns
      · exact hne
      · rcases better_total r1 r2 hne with h | h
        · rw [h] at n21; cases n21
        · rw [h] at n12; cases n12

/-- the name DESIGN.md uses (the hypotheses it foresaw are no longer needed since /repo d30d8f4) -/
theorem pickBest_order_independent_partial (m : Mesh) (l1 l2 : List (String × Svc)) (cfgNs : String)
    (hperm : ∀ p, p ∈ l1 ↔ p ∈ l2) : pickBest m l1 cfgNs = pickBest m l2 cfgNs :=
  pickBest_order_independent m l1 l2 cfgNs hperm

/-- several visible Kubernetes services for one hostname (not a Kubernetes possibility): the tie goes
    to the alphabetically first namespace whatever the order (before /repo d30d8f4 it followed the
    map order). -/
theorem pickBest_tie_alphabetical :
    let a := mkSvc "a" "h.com" "ns1" 1 true [80] ["*"]
    let b := mkSvc "b" "h.com" "ns2" 2 true [80] ["*"]
    pickBest {} [("ns1", a), ("ns2", b)] "ns3" = "ns1" ∧ pickBest {} [("ns2", b), ("ns1", a)] "ns3" = "ns1" := by
  decide +kernel

/-! ### which Sidecar applies -/

theorem mem_sortSidecars (l : List Sidecar) (x : Sidecar) : x ∈ sortSidecars l ↔ x ∈ l := by
  simp only [sortSidecars, List.mem_append, List.mem_filter, mem_isort]
  constructor
  · rintro (h | h) <;> exact h.1
  · intro h
    cases hs : x.selector with
    | none => exact Or.inr ⟨h, by simp⟩
    | some v => exact Or.inl ⟨h, by simp⟩

/-- **pickSidecar_sound**: the Sidecar resource applied to a proxy is a resource of the proxy's own
    namespace whose workloadSelector (if any) matches the proxy's labels, or else the selector-less
    Sidecar of the root namespace; a Sidecar of any other namespace never shapes the proxy. -/
theorem pickSidecar_sound (m : Mesh) (scs : List Sidecar) (ns : String) (lbl : List (String × String)) (c : Sidecar)
    (h : pickSidecar m scs ns lbl = some c) :
    c ∈ scs ∧ ((c.ns = ns ∧ ∀ sel, c.selector = some sel → labelsSubset sel lbl = true) ∨
               (c.ns = m.rootNs ∧ c.selector = none)) := by
  unfold pickSidecar at h
  split at h
  · rename_i x hf
    cases h
    have hm := List.mem_filter.mp (List.mem_of_find?_eq_some hf)
    have hp := List.find?_some hf
    refine ⟨(mem_sortSidecars scs c).mp hm.1, Or.inl ⟨by simpa using hm.2, ?_⟩⟩
    intro sel hsel
    simpa [hsel] using hp
  · unfold rootSidecar at h
    have hm := List.mem_of_find?_eq_some h
    have hp := List.find?_some h
    simp only [Bool.and_eq_true, beq_iff_eq, Option.isNone_iff_eq_none] at hp
    exact ⟨(mem_sortSidecars scs c).mp hm, Or.inr hp⟩

/-- **pickSidecar_root_default**: a proxy whose namespace has no applicable Sidecar gets the
    selector-less Sidecar of the root namespace whenever one exists - also when the root namespace
    holds workloadSelector Sidecars as well. -/
theorem pickSidecar_root_default (m : Mesh) (scs : List Sidecar) (ns : String) (lbl : List (String × String))
    (hnone : ∀ c ∈ scs, c.ns = ns → ∃ sel, c.selector = some sel ∧ labelsSubset sel lbl = false)
    (r : Sidecar) (hr : r ∈ scs) (hrn : r.ns = m.rootNs) (hrs : r.selector = none) :
    ∃ c, pickSidecar m scs ns lbl = some c ∧ c.ns = m.rootNs ∧ c.selector = none := by
  unfold pickSidecar
  split
  · rename_i x hf
    exfalso
    have hm := List.mem_filter.mp (List.mem_of_find?_eq_some hf)
    have hp := List.find?_some hf
    obtain ⟨sel, hsel, hl⟩ := hnone x ((mem_sortSidecars scs x).mp hm.1) (by simpa using hm.2)
    simp [hsel, hl] at hp
  · unfold rootSidecar
    have : ((sortSidecars scs).find? fun c => c.ns == m.rootNs && c.selector.isNone).isSome = true :=
      List.find?_isSome.mpr ⟨r, (mem_sortSidecars scs r).mpr hr, by simp [hrn, hrs]⟩
    obtain ⟨c, hc⟩ := Option.isSome_iff_exists.mp this
    have hp := List.find?_some hc
    simp only [Bool.and_eq_true, beq_iff_eq, Option.isNone_iff_eq_none] at hp
    exact ⟨c, hc, hp.1, hp.2⟩


/-! ### the alias statement without the model's index

`AliasVisible` is phrased through `lookupHN` (the model of `ServiceIndex.HostnameAndNamespace`).  The
statement a reader wants is about the mesh itself: *some service with the alias's (namespace, hostname)
key is `Visible` (documented exportTo semantics) to the proxy's namespace*.  One direction holds for
every mesh, the other when (namespace, hostname) keys are unique - which Kubernetes names are; with two
services on one key the index keeps one of them and an alias is judged by that one. -/

/-- **spec** (model-independent): a mesh service with the alias's key is exported to `ns` -/
def AliasBacked (m : Mesh) (svcs : List Svc) (ns : String) (a : String × String) : Prop :=
  ∃ t ∈ svcs, t.hostname = a.2 ∧ t.ns = a.1 ∧ Visible m t ns

theorem aliasVisible_backed (m : Mesh) (svcs : List Svc) (ns : String) (hns : ValidNs ns) (a : String × String)
    (h : AliasVisible m svcs ns a) : AliasBacked m svcs ns a := by
  obtain ⟨t, hl, hv⟩ := h
  obtain ⟨h1, h2, h3⟩ := lookupHN_mem svcs _ _ t hl
  exact ⟨t, h1, h2, h3, (visible_iff m t ns hns).mp hv⟩

theorem aliasBacked_visible_of_unique_keys (m : Mesh) (svcs : List Svc) (ns : String) (hns : ValidNs ns)
    (a : String × String)
    (huniq : ∀ x ∈ svcs, ∀ y ∈ svcs, x.hostname = y.hostname → x.ns = y.ns → x = y)
    (h : AliasBacked m svcs ns a) : AliasVisible m svcs ns a := by
  obtain ⟨t, ht, hh, hn, hv⟩ := h
  refine ⟨t, ?_, (visible_iff m t ns hns).mpr hv⟩
  have := lookupHN_of_unique svcs t ht (fun x hx e1 e2 => huniq x hx t ht e1 e2)
  rw [hh, hn] at this
  exact this

/-- **scope_alias_backed**: every alias hostname a sidecar scope delivers is backed by a mesh service with
    that (namespace, hostname) key that is `Visible` to the proxy's namespace. -/
theorem scope_alias_backed (f : Flags) (hfix : f.aliasGuard = true) (m : Mesh) (svcs : List Svc) (vss : List VS)
    (sc : Option Sidecar) (cfgNs : String) (hns : ValidNs cfgNs) :
    ∀ s ∈ scopeServices f m svcs vss sc cfgNs, ∀ a ∈ s.aliases, AliasBacked m svcs cfgNs a :=
  fun s hs a ha => aliasVisible_backed m svcs cfgNs hns a (scope_alias_sound f hfix m svcs vss sc cfgNs s hs a ha)


/-! ### F14: a `~` entry bypassed by a VirtualService destination (behaviour before the repair) -/

def f14Svcs : List Svc :=
  [ mkSvc "s0" "a.com" "ns1" 1 false [80] ["*"], mkSvc "s1" "b.com" "ns1" 2 false [80] ["*"] ]

def f14VS : VS := mkVS "v" "ns1" ["b.com"] ["a.com"]

def f14SC : Sidecar := { name := "sc", ns := "ns1", ctime := 1, selector := none, egress := [{ hosts := ["./b.com", "~./a.com"] }] }

/-- before the repair: Sidecar hosts `./b.com`, `~./a.com`, a VirtualService for b.com routing to a.com -
    the scope of a proxy in ns1 holds a.com although a `~` entry names it -/
theorem exclusion_bypass_witness_unfixed :
    ((scopeServices { exclGuard := false } {} f14Svcs [f14VS] (some f14SC) "ns1").map (·.id)).contains "s0" = true := by
  decide +kernel

/-- after the repair it does not -/
theorem exclusion_honoured_witness :
    ((scopeServices {} {} f14Svcs [f14VS] (some f14SC) "ns1").map (·.id)) = ["s1"] := by
  decide +kernel

end IstioModel.C07
